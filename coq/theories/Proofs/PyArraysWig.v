(* C20: to_array and to_array_bins (bigWig) on what the reader hands over for the clamped range. *)
From BT Require Import Base.Util Model.PyArrays Proofs.PyArraysGeom Proofs.PyArraysEngine Proofs.PyArraysCover.
Local Open Scope Z_scope.

Ltac b2p := repeat match goal with
  | H : _ && _ = true |- _ => apply andb_prop in H; destruct H
  | H : _ && _ = false |- _ => apply andb_false_iff in H; destruct H
  | H : (_ <? _) = true |- _ => apply Z.ltb_lt in H
  | H : (_ <? _) = false |- _ => apply Z.ltb_ge in H
  | H : (_ <=? _) = true |- _ => apply Z.leb_le in H
  | H : (_ <=? _) = false |- _ => apply Z.leb_gt in H
  end.

(* ---- generic fold lemmas *)
Lemma fold_left_map_in : forall {A X Y} (f : A -> Y -> A) (g : X -> Y) l a,
  fold_left f (map g l) a = fold_left (fun a x => f a (g x)) l a.
Proof. intros A X Y f g. induction l as [|x l IH]; intro a; cbn [map fold_left]; [reflexivity|apply IH]. Qed.

Lemma fold_left_filter : forall {A X} (f : A -> X -> A) (p : X -> bool) l a,
  fold_left f (filter p l) a = fold_left (fun a x => if p x then f a x else a) l a.
Proof.
  intros A X f p. induction l as [|x l IH]; intro a; cbn [filter fold_left]; [reflexivity|].
  destruct (p x); cbn [fold_left]; apply IH.
Qed.

Lemma fold_left_ext_in : forall {A X} (f g : A -> X -> A) l a, (forall x b, In x l -> f b x = g b x) ->
  fold_left f l a = fold_left g l a.
Proof.
  intros A X f g. induction l as [|x l IH]; intros a H; cbn [fold_left]; [reflexivity|].
  rewrite (H x a (or_introl eq_refl)). apply IH. intros y b Hy. apply H. right. exact Hy.
Qed.

Lemma fold_left_id : forall {A X} (f : A -> X -> A) l a, (forall x b, In x l -> f b x = b) -> fold_left f l a = a.
Proof.
  intros A X f. induction l as [|x l IH]; intros a H; cbn [fold_left]; [reflexivity|].
  rewrite (H x a (or_introl eq_refl)). apply IH. intros y b Hy. apply H. right. exact Hy.
Qed.

(* `for item in items { for i in a..b { buf[i] = f(buf[i]) } }`, cell by cell *)
Lemma foldM_upd_range : forall {I X} (f : I -> X -> X) (a b : I -> Z) (d : X) items buf,
  Forall (fun it => 0 <= a it /\ b it <= Z.of_nat (length buf)) items ->
  exists buf', foldM (fun buf it => upd_range (f it) (a it) (b it) buf) items buf = Ok buf'
    /\ length buf' = length buf
    /\ forall j, (j < length buf)%nat ->
         nth j buf' d = fold_left (fun x it => if (a it <=? Z.of_nat j) && (Z.of_nat j <? b it) then f it x else x) items (nth j buf d).
Proof.
  intros I X f a b d. induction items as [|it items IH]; intros buf Hall.
  - exists buf. cbn [foldM fold_left]. repeat split.
  - inversion Hall as [|? ? [Ha Hb] Hall']; subst. cbn [foldM fold_left].
    assert (Hstep : exists buf1, upd_range (f it) (a it) (b it) buf = Ok buf1 /\ length buf1 = length buf
              /\ forall j, (j < length buf)%nat ->
                   nth j buf1 d = if (a it <=? Z.of_nat j) && (Z.of_nat j <? b it) then f it (nth j buf d) else nth j buf d).
    { unfold upd_range. destruct (Z.leb_spec (b it) (a it)) as [Hle|Hlt].
      - exists buf. repeat split. intros j Hj.
        destruct (Z.leb_spec (a it) (Z.of_nat j)), (Z.ltb_spec (Z.of_nat j) (b it)); cbn [andb]; try reflexivity; exfalso; lia.
      - destruct (Z.ltb_spec (Z.of_nat (length buf)) (b it)) as [Hc|_]; [exfalso; lia|].
        eexists. split; [reflexivity|]. split; [apply map_range_length|]. intros j Hj.
        rewrite map_range_nth by exact Hj.
        destruct (Nat.leb_spec (Z.to_nat (a it)) j), (Z.leb_spec (a it) (Z.of_nat j)); try (exfalso; lia); cbn [andb]; [|reflexivity].
        destruct (Nat.ltb_spec j (Z.to_nat (a it) + Z.to_nat (b it - a it))), (Z.ltb_spec (Z.of_nat j) (b it));
          try reflexivity; exfalso; lia. }
    destruct Hstep as [buf1 [Hu [Hl1 Hn1]]]. rewrite Hu. cbn [rbind].
    destruct (IH buf1) as [buf' [Hf [Hl' Hn']]].
    { eapply Forall_impl; [|exact Hall']. cbn beta. intros x Hx. rewrite Hl1. exact Hx. }
    exists buf'. split; [exact Hf|]. split; [lia|]. intros j Hj.
    rewrite Hn' by lia. rewrite Hn1 by exact Hj. reflexivity.
Qed.

(* ---- per base *)
Definition addv (x : fl) (z : Z) : fl := match x with FNaN => FV z | FV y => FV (y + z) end.
Definition covers (s e p : Z) : bool := (s <=? p) && (p <? e).

Lemma wig_fold_at : forall vals a len p, wig_ok a len vals ->
  fold_left (fun x v => if covers (w_start v) (w_end v) p then addv x (w_val v) else x) vals FNaN
  = match wig_at vals p with Some z => FV z | None => FNaN end.
Proof.
  induction vals as [|v r IH]; intros a len p Hok; [reflexivity|]. cbn [wig_ok] in Hok. destruct Hok as [H1 [H2 H3]].
  cbn [fold_left]. rewrite wig_at_cons. change ((w_start v <=? p) && (p <? w_end v)) with (covers (w_start v) (w_end v) p).
  destruct (covers (w_start v) (w_end v) p) eqn:Hc.
  - unfold covers in Hc. cbn [addv]. apply fold_left_id. intros u x Hu.
    destruct (wig_ok_bounds _ _ _ H3) as [_ Hb]. rewrite Forall_forall in Hb. specialize (Hb u Hu).
    apply andb_prop in Hc. destruct Hc as [_ Hc]. apply Z.ltb_lt in Hc.
    unfold covers. destruct (Z.leb_spec (w_start u) p); [exfalso; lia|reflexivity].
  - apply (IH _ _ p H3).
Qed.

(* what the reader hands over is inside the fetched range and overlaps it *)
Lemma fetch_wig_fold : forall {A} (f : A -> wval -> A) vals fs fe a,
  fold_left f (fetch_wig vals fs fe) a
  = fold_left (fun a v => if (fs <? w_end v) && (w_start v <? fe)
                          then f a {| w_start := Z.max (w_start v) fs; w_end := Z.min (w_end v) fe; w_val := w_val v |} else a) vals a.
Proof. intros. unfold fetch_wig. rewrite fold_left_map_in, fold_left_filter. reflexivity. Qed.

Lemma fetch_wig_Forall : forall (P : wval -> Prop) vals fs fe,
  (forall v, In v vals -> (fs <? w_end v) && (w_start v <? fe) = true ->
             P {| w_start := Z.max (w_start v) fs; w_end := Z.min (w_end v) fe; w_val := w_val v |}) ->
  Forall P (fetch_wig vals fs fe).
Proof.
  intros P vals fs fe H. unfold fetch_wig. apply Forall_forall. intros x Hx. apply in_map_iff in Hx.
  destruct Hx as [v [Hx Hv]]. subst x. apply filter_In in Hv. destruct Hv as [Hv Hc]. apply H; assumption.
Qed.

Theorem to_array_spec : forall vals a len s e fs fe missing,
  wig_ok a len vals -> s < e -> s <= fs -> fe <= e \/ fe <= a -> fs <= fe \/ len <= fs ->
  to_array s e (fetch_wig vals fs fe) missing (Z.to_nat (e - s))
  = Ok (map (fun p => match (if (fs <=? p) && (p <? fe) then wig_at vals p else None) with
                      | Some z => OQ z 1 | None => out_of_fl missing end)
            (seqZ s (Z.to_nat (e - s)))).
Proof.
  intros vals a len s e fs fe missing Hok Hse Hfs Hfe Hfse. unfold to_array.
  rewrite to_usize_nonneg by lia. destruct (Z.eqb_spec (Z.of_nat (Z.to_nat (e - s))) (e - s)) as [_|Hc]; [|exfalso; lia].
  cbn [negb]. set (n := Z.to_nat (e - s)).
  destruct (wig_ok_bounds _ _ _ Hok) as [_ Hb].
  destruct (foldM_upd_range (fun iv x => addv x (w_val iv)) (fun iv => to_usize (w_start iv - s))
              (fun iv => to_usize (w_end iv - s)) FNaN (fetch_wig vals fs fe) (repeat FNaN n)) as [buf [Hf [Hl Hn]]].
  { apply fetch_wig_Forall. intros v Hv Hc. cbn [w_start w_end]. rewrite repeat_length.
    apply andb_prop in Hc. destruct Hc as [Hc1 Hc2]. apply Z.ltb_lt in Hc1, Hc2.
    pose proof (proj1 (Forall_forall _ _) Hb v Hv) as Hbv. cbn beta in Hbv.
    rewrite !to_usize_nonneg by lia. unfold n. lia. }
  unfold addv in Hf. rewrite Hf. cbn [rbind]. f_equal. rewrite repeat_length in Hl, Hn.
  apply (list_ext ONaN).
  - rewrite !map_length, seqZ_length. exact Hl.
  - intros j Hj. rewrite map_length in Hj.
    rewrite (nth_indep (map (unnan missing) buf) ONaN (unnan missing FNaN)) by (rewrite map_length; lia).
    rewrite map_nth. rewrite Hn by lia. rewrite nth_repeat_in by lia.
    set (cellf := fun p => match (if (fs <=? p) && (p <? fe) then wig_at vals p else None) with
                           | Some z => OQ z 1 | None => out_of_fl missing end).
    rewrite (nth_indep (map cellf (seqZ s n)) ONaN (cellf 0)) by (rewrite map_length, seqZ_length; lia).
    rewrite map_nth. rewrite seqZ_nth by lia. set (p := s + Z.of_nat j).
    rewrite fetch_wig_fold.
    rewrite (fold_left_ext_in _ (fun x v => if covers (w_start v) (w_end v) p && ((fs <=? p) && (p <? fe)) then addv x (w_val v) else x)).
    2:{ intros v x Hv. rewrite Forall_forall in Hb. specialize (Hb v Hv). cbn [w_start w_end w_val]. unfold covers.
        assert (Hp : Z.of_nat j = p - s) by (unfold p; lia). rewrite Hp.
        destruct (Z.ltb_spec fs (w_end v)), (Z.ltb_spec (w_start v) fe); cbn [andb].
        - rewrite !to_usize_nonneg by lia.
          destruct (Z.leb_spec (Z.max (w_start v) fs - s) (p - s)), (Z.ltb_spec (p - s) (Z.min (w_end v) fe - s)),
            (Z.leb_spec (w_start v) p), (Z.ltb_spec p (w_end v)), (Z.leb_spec fs p), (Z.ltb_spec p fe);
            cbn [andb]; try reflexivity; exfalso; lia.
        - destruct (Z.leb_spec (w_start v) p), (Z.ltb_spec p (w_end v)), (Z.leb_spec fs p), (Z.ltb_spec p fe);
            cbn [andb]; try reflexivity; exfalso; lia.
        - destruct (Z.leb_spec (w_start v) p), (Z.ltb_spec p (w_end v)), (Z.leb_spec fs p), (Z.ltb_spec p fe);
            cbn [andb]; try reflexivity; exfalso; lia.
        - destruct (Z.leb_spec (w_start v) p), (Z.ltb_spec p (w_end v)), (Z.leb_spec fs p), (Z.ltb_spec p fe);
            cbn [andb]; try reflexivity; exfalso; lia. }
    unfold cellf. destruct ((fs <=? p) && (p <? fe)).
    + rewrite (fold_left_ext_in _ (fun x v => if covers (w_start v) (w_end v) p then addv x (w_val v) else x))
        by (intros v x _; rewrite andb_true_r; reflexivity).
      rewrite (wig_fold_at vals a len p Hok). destruct (wig_at vals p); reflexivity.
    + rewrite fold_left_id by (intros v x _; rewrite andb_false_r; reflexivity). reflexivity.
Qed.

(* ---- bins *)
Definition wig_u (st : stat) (istart iend value bs be : Z) (d : option (Z * fl)) : option (Z * fl) :=
  let cv := match d with
            | Some x => x
            | None => match st with Mean => (0, FV 0) | _ => (0, FNaN) end
            end in
  Some (match st with
        | Min => (fst cv, fmin (snd cv) (FV value))
        | Max => (fst cv, fmax (snd cv) (FV value))
        | Mean => let sz := Z.min be iend - Z.max bs istart in (fst cv + sz, fadd (snd cv) (FV (sz * value)))
        end).

Lemma wig_upd_u : forall st is_ ie value bs be d, wig_upd st is_ ie value bs be d = Ok (wig_u st is_ ie value bs be d).
Proof.
  intros. unfold wig_upd, wig_u. destruct d as [[c v]|]; [reflexivity|]. destruct st; reflexivity.
Qed.

(* one stored value applied to the bin [lo, hi), absolute positions *)
Definition wstep (st : stat) (lo hi : Z) (d : option (Z * fl)) (v : wval) : option (Z * fl) :=
  if (lo <? w_end v) && (w_start v <? hi) then wig_u st (w_start v) (w_end v) (w_val v) lo hi d else d.

(* the data of a bin after the values whose covered bases in the bin are [l] *)
Definition wrep (st : stat) (d : option (Z * fl)) (l : list Z) : Prop :=
  match l with
  | [] => d = None
  | x :: r => d = Some (match st with
                        | Mean => (Z.of_nat (length l), FV (fold_left Z.add l 0))
                        | Min => (0, FV (fold_left Z.min r x))
                        | Max => (0, FV (fold_left Z.max r x))
                        end)
  end.

Lemma wrep_step : forall st lo hi d l v, lo < hi -> w_start v < w_end v -> wrep st d l ->
  wrep st (wstep st lo hi d v) (l ++ run_of lo hi v).
Proof.
  intros st lo hi d l v Hlh Hv Hr. unfold wstep, run_of.
  destruct (Z.ltb_spec lo (w_end v)) as [H1|H1]; cbn [andb].
  2:{ replace (Z.to_nat (Z.min hi (w_end v) - Z.max lo (w_start v))) with 0%nat by lia.
      cbn [repeat]. rewrite app_nil_r. exact Hr. }
  destruct (Z.ltb_spec (w_start v) hi) as [H2|H2].
  2:{ replace (Z.to_nat (Z.min hi (w_end v) - Z.max lo (w_start v))) with 0%nat by lia.
      cbn [repeat]. rewrite app_nil_r. exact Hr. }
  set (sz := Z.min hi (w_end v) - Z.max lo (w_start v)). assert (Hsz : 0 < sz) by (unfold sz; lia).
  destruct (Z.to_nat sz) as [|m] eqn:Em; [exfalso; lia|].
  assert (Hm : Z.of_nat (S m) = sz) by lia.
  destruct l as [|x r]; cbn [wrep] in Hr; subst d; unfold wig_u; fold sz.
  - cbn [app repeat wrep]. f_equal. destruct st; cbn [fst snd fmin fmax fadd].
    + f_equal; [rewrite <- Hm; cbn [length]; rewrite repeat_length; lia|].
      f_equal. change (fold_left Z.add (w_val v :: repeat (w_val v) m) 0) with (fold_left Z.add (repeat (w_val v) (S m)) 0).
      rewrite fold_add_repeat. lia.
    + f_equal. f_equal. destruct m as [|m]; [reflexivity|]. rewrite fold_min_repeat by lia. lia.
    + f_equal. f_equal. destruct m as [|m]; [reflexivity|]. rewrite fold_max_repeat by lia. lia.
  - change ((x :: r) ++ repeat (w_val v) (S m)) with (x :: (r ++ repeat (w_val v) (S m))). cbn [wrep]. f_equal.
    destruct st; cbn [fst snd fmin fmax fadd].
    + f_equal; [cbn [length]; rewrite app_length, repeat_length; cbn [length]; lia|].
      f_equal. change (x :: r ++ repeat (w_val v) (S m)) with ((x :: r) ++ repeat (w_val v) (S m)).
      rewrite fold_left_app, fold_add_repeat. lia.
    + f_equal. f_equal. rewrite fold_left_app, fold_min_repeat by lia. reflexivity.
    + f_equal. f_equal. rewrite fold_left_app, fold_max_repeat by lia. reflexivity.
Qed.

Lemma wrep_fold : forall st lo hi vals d l, lo < hi -> Forall (fun v => w_start v < w_end v) vals -> wrep st d l ->
  wrep st (fold_left (wstep st lo hi) vals d) (l ++ flat_map (run_of lo hi) vals).
Proof.
  intros st lo hi. induction vals as [|v r IH]; intros d l Hlh Hall Hr; cbn [fold_left flat_map].
  - rewrite app_nil_r. exact Hr.
  - inversion Hall as [|? ? Hv Hall']; subst. rewrite app_assoc. apply IH; [exact Hlh|exact Hall'|].
    apply wrep_step; assumption.
Qed.

Lemma wrep_fin : forall st missing d l, wrep st d l -> wig_fin st missing d = stat_of st missing l.
Proof.
  intros st missing d l Hr. destruct l as [|x r]; cbn [wrep] in Hr; subst d; [reflexivity|].
  unfold wig_fin, stat_of. destruct st; reflexivity.
Qed.

Lemma fetch_wig_chain : forall vals b len s fs fe lo0, wig_ok b len vals -> lo0 <= Z.max (Z.max b fs) s - s ->
  chain (fun iv => Z.max (w_start iv) s - s) lo0 (fetch_wig vals fs fe).
Proof.
  unfold fetch_wig. induction vals as [|u r IH]; intros b len s fs fe lo0 Hok Hlo; [exact I|].
  cbn [wig_ok] in Hok. destruct Hok as [H1 [H2 H3]]. cbn [filter].
  destruct ((fs <? w_end u) && (w_start u <? fe)).
  - cbn [map chain w_start]. split; [lia|]. apply (IH (w_end u) len); [exact H3|lia].
  - apply (IH (w_end u) len); [exact H3|lia].
Qed.

Section WigBins.
Variables (s e fs fe bins : Z) (st : stat) (missing : fl).
Hypothesis Hse : s < e.
Hypothesis Hbins : 0 < bins <= e - s.

Let is_ := fun iv => Z.max (w_start iv) s - s.
Let ie := fun iv => Z.min (w_end iv) e - s.
Let Eb := fun k => bin_edge k (e - s) bins.

Theorem to_array_bins_spec : forall vals a len, wig_ok a len vals ->
  exists cells, to_array_bins s e (fetch_wig vals fs fe) st bins missing (Z.to_nat bins) = Ok cells
    /\ length cells = Z.to_nat bins
    /\ forall k, 0 <= k < bins -> fs <= s + Eb k -> s + Eb (k + 1) <= fe ->
         nth (Z.to_nat k) cells ONaN = stat_of st missing (covered_vals (wig_at vals) (s + Eb k) (s + Eb (k + 1))).
Proof.
  intros vals a len Hok. unfold to_array_bins.
  destruct (wig_ok_bounds _ _ _ Hok) as [_ Hb].
  rewrite (run_bins_spec is_ ie (fun _ _ => Ok None)
             (fun iv bs be d => wig_upd st (is_ iv) (ie iv) (w_val iv) bs be d) (wig_fin st missing) (e - s) bins
             (fun _ _ => None) (fun iv bs be d => wig_u st (is_ iv) (ie iv) (w_val iv) bs be d)
             (fun _ _ _ => True) missing).
  - eexists. split; [reflexivity|]. split; [rewrite map_length, seqZ_length; reflexivity|].
    intros k Hk Hlo Hhi.
    rewrite (nth_indep _ ONaN ((fun k => wig_fin st missing
               (acc is_ ie (e - s) bins (fun _ _ => None)
                  (fun iv bs be d => wig_u st (is_ iv) (ie iv) (w_val iv) bs be d) (fetch_wig vals fs fe) k)) 0))
      by (rewrite map_length, seqZ_length; lia).
    rewrite (map_nth (fun k => wig_fin st missing (acc is_ ie (e - s) bins (fun _ _ => None)
               (fun iv bs be d => wig_u st (is_ iv) (ie iv) (w_val iv) bs be d) (fetch_wig vals fs fe) k))).
    rewrite seqZ_nth by lia. rewrite Z2Nat.id by lia. cbn [Z.add].
    set (lo := s + Eb k) in *. set (hi := s + Eb (k + 1)) in *.
    assert (Hlh : lo < hi).
    { unfold lo, hi, Eb. pose proof (bin_edge_strict k (e - s) bins ltac:(lia) ltac:(lia)). lia. }
    assert (Hfs : s <= lo).
    { unfold lo, Eb. pose proof (bin_edge_nonneg k (e - s) bins ltac:(lia) ltac:(lia) ltac:(lia)). lia. }
    assert (Hfe : hi <= e).
    { unfold hi, Eb. pose proof (bin_edge_le_span (k + 1) (e - s) bins ltac:(lia) ltac:(lia) ltac:(lia)). lia. }
    apply wrep_fin. rewrite (covered_vals_wig vals a len Hok).
    unfold acc. rewrite fetch_wig_fold.
    rewrite (fold_left_ext_in _ (wstep st lo hi)).
    + apply (wrep_fold st lo hi vals None []); [exact Hlh| |reflexivity].
      eapply Forall_impl; [|exact Hb]. cbn beta. intros v Hv. lia.
    + intros v d Hv. rewrite Forall_forall in Hb. specialize (Hb v Hv).
      set (v' := {| w_start := Z.max (w_start v) fs; w_end := Z.min (w_end v) fe; w_val := w_val v |}).
      assert (Hin : inside is_ ie (e - s) v') by (unfold inside, is_, ie, v'; cbn [w_start w_end]; lia).
      rewrite (hits_iff is_ ie (e - s) bins ltac:(lia) v' k Hin ltac:(lia)).
      unfold wstep, live, E. fold (Eb k). fold (Eb (k + 1)). unfold is_, ie, v'. cbn [w_start w_end w_val].
      assert (H1 : Eb k = lo - s) by (unfold lo; lia). assert (H2 : Eb (k + 1) = hi - s) by (unfold hi; lia).
      rewrite H1, H2.
      destruct ((lo <? w_end v) && (w_start v <? hi)) eqn:HC.
      * b2p.
        assert (HA : (fs <? w_end v) && (w_start v <? fe) = true) by (apply andb_true_intro; split; apply Z.ltb_lt; lia).
        rewrite HA.
        assert (HB : (Z.max (Z.max (w_start v) fs) s - s <? Z.min (Z.min (w_end v) fe) e - s)
                     && (lo - s <? Z.min (Z.min (w_end v) fe) e - s)
                     && (Z.max (Z.max (w_start v) fs) s - s <? hi - s) = true).
        { apply andb_true_intro; split; [apply andb_true_intro; split|]; apply Z.ltb_lt; lia. }
        rewrite HB. unfold wig_u. destruct st; try reflexivity.
        replace (Z.min (hi - s) (Z.min (Z.min (w_end v) fe) e - s) - Z.max (lo - s) (Z.max (Z.max (w_start v) fs) s - s))
          with (Z.min hi (w_end v) - Z.max lo (w_start v)) by lia. reflexivity.
      * destruct ((fs <? w_end v) && (w_start v <? fe)) eqn:HA; [|reflexivity].
        destruct ((Z.max (Z.max (w_start v) fs) s - s <? Z.min (Z.min (w_end v) fe) e - s)
                     && (lo - s <? Z.min (Z.min (w_end v) fe) e - s)
                     && (Z.max (Z.max (w_start v) fs) s - s <? hi - s)) eqn:HB; [|reflexivity].
        exfalso. b2p; lia.
  - lia.
  - intros. split; [reflexivity|exact I].
  - intros. split; [apply wig_upd_u|exact I].
  - reflexivity.
  - lia.
  - (* clipped starts do not decrease *)
    apply (fetch_wig_chain vals a len); [exact Hok|lia].
  - apply fetch_wig_Forall. intros v Hv Hc. unfold inside, is_, ie. cbn [w_start w_end]. lia.
Qed.
End WigBins.
