(* The result of the autoSql parser model does not depend on the fuel, once the fuel is sufficient:
   any two budgets of at least [parse_fuel s] give the same declarations or the same error.  So
   [parse s] (the model at exactly [parse_fuel s]) is THE answer of the parser on s, and "out of
   fuel" can only mean a loop that does not end.
   The proof runs the totality induction of AutoSqlTotal.v on two budgets at once: [agree r1 r2 Q]
   says the two runs return the same outcome and, if that is a value, it satisfies Q (the bound
   on the characters left that justifies the next call). *)
From BT Require Import Base.Util Generated.Consts Model.AutoSql Proofs.AutoSqlLex Proofs.AutoSqlTotal.
Local Open Scope nat_scope.

Notation rlen p := (length (rest p)).

Definition agree {X} (r1 r2 : res X) (Q : X -> Prop) : Prop := r1 = r2 /\ post r1 Q.

Lemma agree_bind : forall X Y (r1 r2 : res X) (k1 k2 : X -> res Y) (Q : X -> Prop) (R : Y -> Prop),
  agree r1 r2 Q -> (forall x, Q x -> agree (k1 x) (k2 x) R) -> agree (rbind r1 k1) (rbind r2 k2) R.
Proof.
  intros X Y r1 r2 k1 k2 Q R [E P] HK. subst r2.
  destruct r1 as [x|c| |]; cbn [rbind post] in *; [exact (HK x P)|split; [reflexivity|exact I]|contradiction|contradiction].
Qed.
Lemma agree_weaken : forall X (r1 r2 : res X) (Q Q' : X -> Prop),
  agree r1 r2 Q -> (forall x, Q x -> Q' x) -> agree r1 r2 Q'.
Proof. intros X r1 r2 Q Q' [E P] H. split; [exact E|exact (post_weaken _ _ _ _ P H)]. Qed.

(* ---- the eaters ---- *)
Lemma eat_word_agree : forall f1 f2 p, rlen p < f1 -> rlen p < f2 ->
  agree (eat_word f1 p) (eat_word f2 p) (fun '(w, p') => rlen p' + length w <= rlen p).
Proof.
  intros f1 f2 p H1 H2. split; [|apply eat_word_post; exact H1].
  rewrite !eat_word_spec by assumption. reflexivity.
Qed.
Lemma eat_one_agree : forall f1 f2 p, rlen p < f1 -> rlen p < f2 ->
  agree (eat_one f1 p) (eat_one f2 p) (fun '(w, p') => rlen p' + length w <= rlen p).
Proof.
  intros f1 f2 p H1 H2. split; [|apply eat_one_post; exact H1].
  rewrite !eat_one_spec by assumption. reflexivity.
Qed.
Lemma eat_quoted_string_agree : forall f1 f2 p, rlen p < f1 -> rlen p < f2 ->
  agree (eat_quoted_string f1 p) (eat_quoted_string f2 p) (fun '(w, p') => rlen p' + length w <= rlen p).
Proof.
  intros f1 f2 p H1 H2. split; [|apply eat_quoted_string_post; exact H1].
  rewrite !eat_quoted_string_spec by assumption. reflexivity.
Qed.
Lemma peek_word_agree : forall f1 f2 p, rlen p < f1 -> rlen p < f2 ->
  agree (peek_word f1 p) (peek_word f2 p) (fun '(w, p') => rlen p' <= rlen p).
Proof.
  intros f1 f2 p H1 H2. split; [|apply peek_word_post; exact H1].
  rewrite !peek_word_spec by assumption. reflexivity.
Qed.
Lemma peek_one_agree : forall f1 f2 p, rlen p < f1 -> rlen p < f2 ->
  agree (peek_one f1 p) (peek_one f2 p) (fun '(w, p') => rlen p' <= rlen p).
Proof.
  intros f1 f2 p H1 H2. split; [|apply peek_one_post; exact H1].
  rewrite !peek_one_spec by assumption. reflexivity.
Qed.

Ltac astep L := eapply agree_bind; [apply L; lia|]; cbv beta; intros [? ?] ?.
Ltac aret := split; [reflexivity|cbn [post]; first [exact I|lia]].
Ltac acase := match goal with |- agree (if ?b then _ else _) _ _ => destruct b end.

(* ---- index type and auto ---- *)
Lemma parse_index_auto_agree : forall f1 f2 p, rlen p < f1 -> rlen p < f2 ->
  agree (parse_index_auto f1 p) (parse_index_auto f2 p) (fun '(_, p') => rlen p' <= rlen p).
Proof.
  intros f1 f2 p H1 H2. unfold parse_index_auto.
  astep peek_word_agree.
  eapply agree_bind with (Q := fun '(_, p2) => rlen p2 <= rlen p).
  - acase. { astep eat_word_agree. aret. }
    acase.
    { astep eat_word_agree. astep peek_one_agree.
      acase.
      - astep eat_one_agree. astep eat_word_agree. astep eat_one_agree.
        acase; aret.
      - aret. }
    acase. { astep eat_word_agree. aret. }
    aret.
  - intros [it p2] Hp2. astep peek_word_agree.
    acase.
    + astep eat_word_agree. aret.
    + aret.
Qed.

(* ---- DeclareName::parse ---- *)
Lemma declare_name_parse_agree : forall f1 f2 p, rlen p < f1 -> rlen p < f2 ->
  agree (declare_name_parse f1 p) (declare_name_parse f2 p) (fun '(_, p') => rlen p' <= rlen p).
Proof.
  intros f1 f2 p H1 H2. unfold declare_name_parse.
  astep eat_word_agree.
  acase; [aret|].
  astep parse_index_auto_agree. aret.
Qed.

(* ---- the value loop ---- *)
Lemma values_loop_agree : forall l1 l2 f1 f2 p vs,
  rlen p < l1 -> rlen p < l2 -> rlen p < f1 -> rlen p < f2 ->
  agree (values_loop l1 f1 p vs) (values_loop l2 f2 p vs)
        (fun '(vs', p') => rlen p' <= rlen p /\ length vs' + rlen p' <= length vs + rlen p).
Proof.
  induction l1 as [|l1 IH]; intros l2 f1 f2 p vs A1 A2 H1 H2; [exfalso; lia|].
  destruct l2 as [|l2]; [exfalso; lia|].
  cbn [values_loop].
  astep eat_word_agree.
  acase; [aret|].
  destruct l as [|c l']; [aret|].
  cbn [length] in *.
  astep eat_one_agree.
  acase.
  - split; [reflexivity|]. cbn [post]. rewrite app_length. cbn [length]. lia.
  - eapply agree_weaken; [apply IH; lia|].
    intros [vs' p'] [E1 E2]. rewrite app_length in E2. cbn [length] in E2. lia.
Qed.

(* ---- FieldType::try_parse ---- *)
Lemma try_parse_agree : forall f1 f2 p, rlen p < f1 -> rlen p < f2 ->
  agree (try_parse f1 p) (try_parse f2 p)
        (fun '(oft, p') => rlen p' <= rlen p /\
           match oft with Some t => 1 + type_values t + rlen p' <= rlen p | None => True end).
Proof.
  intros f1 f2 p H1 H2. split; [|apply try_parse_post; exact H1].
  unfold try_parse. rewrite !peek_word_spec by assumption. cbn [rbind].
  pose proof (drop_ws_length (rest p)) as Hd.
  destruct (word_of_prefix (drop_ws (rest p))) as [t Ht].
  remember (drop_ws (rest p)) as r eqn:Hr. remember (word_of r) as w eqn:Hw. clear Hr Hw.
  subst r. rewrite app_length in Hd. rewrite take_exact. cbn [rbind].
  destruct (classify_type_word (map to_lower w)) as [ty|mk|dt|]; [reflexivity| | |reflexivity].
  - assert (A : agree (do (open_bracket, q1) <- eat_one f1 (mkP t 0);
                       if negb (beq open_bracket K_lparen) then Err E_InvalidFieldValuesBrackets
                       else do (vs, q2) <- values_loop f1 f1 q1 []; Ok (Some (mk vs), q2))
                      (do (open_bracket, q1) <- eat_one f2 (mkP t 0);
                       if negb (beq open_bracket K_lparen) then Err E_InvalidFieldValuesBrackets
                       else do (vs, q2) <- values_loop f2 f2 q1 []; Ok (Some (mk vs), q2))
                      (fun _ => True)).
    { eapply agree_bind; [apply eat_one_agree; cbn [rest]; lia|]. cbv beta. intros [ob q1] Hq1. cbn [rest] in Hq1.
      acase; [aret|].
      eapply agree_bind; [apply values_loop_agree; lia|]. cbv beta. intros [vs q2] _. aret. }
    exact (proj1 A).
  - assert (A : agree (do (dn, q1) <- declare_name_parse f1 (mkP t 0); Ok (Some (TDecl dt dn), q1))
                      (do (dn, q1) <- declare_name_parse f2 (mkP t 0); Ok (Some (TDecl dt dn), q1))
                      (fun _ => True)).
    { eapply agree_bind; [apply declare_name_parse_agree; cbn [rest]; lia|]. cbv beta. intros [dn q1] _. aret. }
    exact (proj1 A).
Qed.

(* ---- parse_field_list ---- *)
Lemma field_list_loop_agree : forall l1 l2 f1 f2 p fs,
  rlen p < l1 -> rlen p < l2 -> rlen p < f1 -> rlen p < f2 ->
  agree (field_list_loop l1 f1 p fs) (field_list_loop l2 f2 p fs)
        (fun '(fs', p') => rlen p' <= rlen p /\ fields_weight fs' + rlen p' <= fields_weight fs + rlen p).
Proof.
  induction l1 as [|l1 IH]; intros l2 f1 f2 p fs A1 A2 H1 H2; [exfalso; lia|].
  destruct l2 as [|l2]; [exfalso; lia|].
  cbn [field_list_loop].
  eapply agree_bind; [apply try_parse_agree; lia|]. cbv beta. intros [oft p1] [Hp1 Hty].
  destruct oft as [ft|]; [|aret].
  astep peek_one_agree.
  eapply agree_bind with (Q := fun '(_, p3) => rlen p3 <= rlen p1).
  { acase.
    - astep eat_one_agree. astep eat_word_agree. astep eat_one_agree.
      acase; [aret|].
      astep eat_word_agree. aret.
    - astep eat_word_agree. aret. }
  intros [sn p3] Hp3.
  astep parse_index_auto_agree.
  astep eat_one_agree.
  acase; [aret|].
  astep eat_quoted_string_agree.
  astep peek_one_agree.
  acase.
  - split; [reflexivity|]. cbn [post]. rewrite fields_weight_snoc. cbn [f_type]. lia.
  - eapply agree_weaken; [apply IH; lia|].
    intros [fs' p'] [Hr1 Hr2]. rewrite fields_weight_snoc in Hr2. cbn [f_type] in Hr2. lia.
Qed.

Lemma parse_field_list_agree : forall f1 f2 p, rlen p < f1 -> rlen p < f2 ->
  agree (parse_field_list f1 p) (parse_field_list f2 p)
        (fun '(fs', p') => rlen p' <= rlen p /\ fields_weight fs' + rlen p' <= rlen p).
Proof.
  intros f1 f2 p H1 H2. unfold parse_field_list.
  eapply agree_weaken; [apply field_list_loop_agree; lia|].
  intros [fs' p'] [E1 E2]. cbn [fields_weight fold_right] in E2. lia.
Qed.

(* ---- parse_declaration ---- *)
Lemma parse_declaration_agree : forall f1 f2 p, rlen p < f1 -> rlen p < f2 ->
  agree (parse_declaration f1 p) (parse_declaration f2 p)
        (fun '(od, p') => rlen p' <= rlen p /\
           match od with Some d => 1 + fields_weight (d_fields d) + rlen p' <= rlen p | None => True end).
Proof.
  intros f1 f2 p H1 H2. split; [|apply parse_declaration_post; exact H1].
  unfold parse_declaration.
  assert (A : agree (eat_word f1 p) (eat_word f2 p) (fun '(w, p') => rlen p' + length w <= rlen p))
    by (apply eat_word_agree; assumption).
  destruct A as [E P]. rewrite <- E. destruct (eat_word f1 p) as [[w p0]| | |]; try reflexivity.
  cbn [post] in P. cbn [rbind]. cbv zeta.
  assert (CONT : forall dt,
    (do (dn, p2) <- declare_name_parse f1 p0;
     do (comment, p3) <- eat_quoted_string f1 p2;
     do (opening_bracket, p4) <- eat_one f1 p3;
     if negb (beq opening_bracket K_lparen) then Err E_InvalidDeclareBrackets
     else
       do (fields, p5) <- parse_field_list f1 p4;
       do (closing_bracket, p6) <- eat_one f1 p5;
       if negb (beq closing_bracket K_rparen) then Err E_InvalidDeclareBrackets
       else Ok (Some (mkDecl dt dn comment fields), p6))
    = (do (dn, p2) <- declare_name_parse f2 p0;
       do (comment, p3) <- eat_quoted_string f2 p2;
       do (opening_bracket, p4) <- eat_one f2 p3;
       if negb (beq opening_bracket K_lparen) then Err E_InvalidDeclareBrackets
       else
         do (fields, p5) <- parse_field_list f2 p4;
         do (closing_bracket, p6) <- eat_one f2 p5;
         if negb (beq closing_bracket K_rparen) then Err E_InvalidDeclareBrackets
         else Ok (Some (mkDecl dt dn comment fields), p6))).
  { intro dt.
    refine (proj1 (_ : agree _ _ (fun _ => True))).
    astep declare_name_parse_agree.
    astep eat_quoted_string_agree.
    astep eat_one_agree.
    acase; [aret|].
    eapply agree_bind; [apply parse_field_list_agree; lia|]. cbv beta. intros [fs p5] [Hf1 Hf2].
    astep eat_one_agree.
    acase; aret. }
  destruct (beq w K_simple); [apply CONT|].
  destruct (beq w K_object); [apply CONT|].
  destruct (beq w K_table); [apply CONT|].
  reflexivity.
Qed.

(* ---- parse_declaration_list / parse_autosql ---- *)
Lemma decl_list_loop_agree : forall l1 l2 f1 f2 i p ds,
  N.to_nat (AUTOSQL_DECL_CAP + 1 - i) < l1 -> N.to_nat (AUTOSQL_DECL_CAP + 1 - i) < l2 ->
  rlen p < f1 -> rlen p < f2 ->
  decl_list_loop l1 f1 i p ds = decl_list_loop l2 f2 i p ds.
Proof.
  induction l1 as [|l1 IH]; intros l2 f1 f2 i p ds A1 A2 H1 H2; [exfalso; lia|].
  destruct l2 as [|l2]; [exfalso; lia|].
  cbn [decl_list_loop].
  destruct (N.ltb_spec AUTOSQL_DECL_CAP i) as [Hi|Hi]; [reflexivity|].
  destruct (parse_declaration_agree f1 f2 p H1 H2) as [E P]. rewrite <- E.
  destruct (parse_declaration f1 p) as [[od p1]| | |]; try reflexivity.
  cbn [post] in P. cbn [rbind]. destruct od as [d|]; [|reflexivity].
  apply IH; lia.
Qed.

Theorem parser_fuel_independent : forall s f1 f2, parse_fuel s <= f1 -> parse_fuel s <= f2 ->
  parse_autosql f1 s = parse_autosql f2 s.
Proof.
  intros s f1 f2 H1 H2. unfold parse_fuel in *. unfold parse_autosql, parser_of.
  apply decl_list_loop_agree; cbn [rest]; lia.
Qed.

Corollary parse_is_the_answer : forall s fuel, parse_fuel s <= fuel -> parse_autosql fuel s = parse s.
Proof. intros s fuel H. unfold parse. apply parser_fuel_independent; [exact H|apply Nat.le_refl]. Qed.
