(* C03 on compressed files: the interval answer, the per-base array, and every history of a caching /
   reopened reader, for the bytes of the compressor-parametric writer model (Model/BigWigWriteZ.v) with
   any round-tripping compressor/decompressor pair.  The history part is C03's generic
   history_independent (any image, any header, any decompressor) composed with BigWigFileZ.z_query. *)
From BT Require Import Base.Util Base.LE Base.Float Generated.Consts Model.RTree Model.BBIFile Model.BigWigWrite
  Model.BigWigWriteZ Model.BBIRead Model.CachedRead Model.Entry_C03 Proofs.BigWigQuery Proofs.RTreeCodec Proofs.CachedReadInv
  Proofs.BigWigValues Proofs.BigWigFile Proofs.BigWigFileChroms Proofs.BigWigFileRoundTrip Proofs.BigWigFileThms Proofs.BigWigFileInput
  Proofs.BigWigFileZ.
Local Open Scope N_scope.

Section WrittenZ.
Variables (cmp infl : list N -> list N) (fp : fpmode) (o : opts) (sizes : list (name * N)) (inp : list item) (bs : list N).
Hypothesis Hrt : o_compress o = true -> forall b, infl (cmp b) = b.
Hypothesis Ho : opts_ok o.
Hypothesis Hi : input_ok sizes inp.
Hypothesis Hs : Nlen bs < U64.
Hypothesis Hw : written_z cmp fp o sizes inp bs.

(* ---- C03: interval answer and per-base array ---- *)
Theorem written_z_query : exists i, read_info bs = Ok i /\
  forall c vs, In (c, vs) (runs inp) ->
    (forall s e, bw_interval infl bs i c s e = Ok (clip_filter s e vs))
    /\ (forall s e, s <= e -> bw_values infl bs i c s e = Ok (spec_values s e vs)).
Proof.
  destruct (z_read_info cmp fp o sizes inp bs Ho Hi Hs Hw) as (i & Hri & _). exists i. split; [exact Hri|].
  intros c vs Hin.
  assert (Hq : forall s e, bw_interval infl bs i c s e = Ok (clip_filter s e vs))
    by (intros s e; exact (z_query cmp fp o sizes inp bs Ho Hi Hs Hw infl Hrt i c vs s e Hri Hin)).
  split; [exact Hq|]. intros s e Hse. unfold bw_values.
  replace (e <? s) with false by (symmetry; apply N.ltb_ge; exact Hse). rewrite Hq. cbn [rbind]. f_equal.
  destruct (z_accepted cmp fp o sizes inp bs Ho Hi Hs Hw c vs Hin) as (len & _ & Hwf & _).
  exact (values_spec len s e vs Hwf Hse).
Qed.

(* ---- C03: every history through a caching reader and a reader reopened from it ---- *)
Theorem written_z_history : exists i, read_info bs = Ok i /\
  (forall qs1 qs2,
      fst (qrun infl bs i cache0 qs1) = map (fresh_answer infl bs i) qs1
      /\ fst (qrun infl bs i (c_reopen (snd (qrun infl bs i cache0 qs1))) qs2) = map (fresh_answer infl bs i) qs2)
  /\ (forall c vs s e, In (c, vs) (runs inp) ->
        fresh_answer infl bs i (QInterval c s e) = AInterval (Ok (clip_filter s e vs))
        /\ (s <= e -> fresh_answer infl bs i (QValues c s e) = AValues (Ok (spec_values s e vs)))).
Proof.
  destruct written_z_query as (i & Hri & Hq). exists i. split; [exact Hri|]. split.
  - intros qs1 qs2. apply history_independent.
  - intros c vs s e Hin. destruct (Hq c vs Hin) as [H1 H2]. cbn [fresh_answer]. split.
    + now rewrite H1.
    + intros Hse. now rewrite H2.
Qed.
End WrittenZ.
