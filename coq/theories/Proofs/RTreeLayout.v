(* C05, writer side: the bytes write_rtreeindex lays out REPRESENT the built tree (RTreeSearch.rep)
   at the root offset pos+48, hence the reader's search on them equals the linear scan.
   - write_tree at (curr, dest) emits the nodes of level dest left to right (emit_nodes);
   - calculate_offsets (level_bytes) is the byte size of a level;
   - a node's i-th child pointer is [coff + i * full]; the real position of that child is
     [start of its level + sizes of the earlier nodes of that level]; the two agree because every
     node of a level but the last is full (RTreeShape). *)
From BT Require Import Base.Util Base.LE Generated.Consts Model.RTree
  Proofs.Chunks Proofs.RTreeAbs Proofs.RTreeBuild Proofs.RTreeCodec Proofs.RTreeSearch Proofs.RTreeShape.
Local Open Scope N_scope.

(* ---------- what write_tree emits for one level ---------- *)
Definition wfull (b : N) (dest : nat) : N :=
  if Nat.ltb 0 (dest - 1) then full_nonleaf b else full_leaf b.

Definition node_bytes (b : N) (dest : nat) (t : tree) (coff : N) : list N :=
  match t with
  | Leaf secs => leaf_bytes secs
  | Node ch =>
      u8 0 ++ u8 0 ++ u16 (Nlen ch)
        ++ flat_map (fun ic => inner_item_bytes (fst (snd ic)) (coff + fst ic * wfull b dest)) (enum_from 0 ch)
  end.
Definition ret_size (b : N) (dest : nat) (t : tree) : N :=
  match t with Leaf secs => 4 + Nlen secs * 32 | Node ch => Nlen ch * wfull b dest end.

Fixpoint emit_nodes (b : N) (dest : nat) (ns : list tree) (coff : N) : list N :=
  match ns with
  | [] => []
  | n :: r => node_bytes b dest n coff ++ emit_nodes b dest r (coff + ret_size b dest n)
  end.

Lemma emit_app b dest l1 l2 coff :
  emit_nodes b dest (l1 ++ l2) coff
  = emit_nodes b dest l1 coff ++ emit_nodes b dest l2 (coff + sumN (map (ret_size b dest) l1)).
Proof.
  revert coff. induction l1 as [|n l1 IH]; intros coff; cbn [app emit_nodes map sumN].
  - now rewrite N.add_0_r.
  - rewrite IH, <- app_assoc, N.add_assoc. reflexivity.
Qed.
Lemma sumN_app a b : sumN (a ++ b) = sumN a + sumN b.
Proof. induction a as [|x a IH]; cbn [app sumN]; [reflexivity|]. rewrite IH. lia. Qed.

Lemma wfull_nfull b h : wfull b (S h) = nfull b h.
Proof. unfold wfull. destruct h; reflexivity. Qed.

(* the inner loop of write_tree, as a function of its own *)
Fixpoint wt_go (f : tree -> N -> res (list N * N)) (l : list (span * tree)) (acc : N) : res (list N * N) :=
  match l with
  | [] => Ok ([], acc)
  | c :: r =>
      do (b1, s1) <- f (snd c) acc;
      do (b2, s2) <- wt_go f r (acc + s1);
      Ok (b1 ++ b2, s2)
  end.

Lemma write_tree_at b t d coff : write_tree b t d d coff = Ok (node_bytes b d t coff, ret_size b d t).
Proof. destruct t; cbn [write_tree]; rewrite Nat.eqb_refl; cbn [negb]; reflexivity. Qed.

Lemma write_tree_down b ch c d coff : (d <= c)%nat ->
  write_tree b (Node ch) (S c) d coff = wt_go (fun t acc => write_tree b t c d (coff + acc)) ch 0.
Proof.
  intros Hd. cbn [write_tree]. replace (Nat.eqb (S c) d) with false by (symmetry; apply Nat.eqb_neq; lia).
  cbn [negb]. replace (S c - 1)%nat with c by lia. generalize 0 as acc.
  induction ch as [|x ch IH]; intros acc; cbn [wt_go]; [reflexivity|].
  destruct (write_tree b (snd x) c d (coff + acc)) as [[b1 s1]| | |]; cbn [rbind]; try reflexivity.
  rewrite IH. reflexivity.
Qed.

Lemma write_tree_eq b d : forall c t coff, height c t -> (d <= c)%nat ->
  write_tree b t c d coff
  = Ok (emit_nodes b d (level_nodes c d t) coff, sumN (map (ret_size b d) (level_nodes c d t))).
Proof.
  induction c as [|c IH]; intros t coff Hh Hd.
  - assert (d = 0)%nat as -> by lia. rewrite level_nodes_same, write_tree_at.
    cbn [emit_nodes map sumN]. now rewrite app_nil_r, N.add_0_r.
  - destruct (Nat.eq_dec d (S c)) as [->|Hne].
    + rewrite level_nodes_same, write_tree_at. cbn [emit_nodes map sumN]. now rewrite app_nil_r, N.add_0_r.
    + destruct t as [l|ch]; [destruct Hh|]. cbn [height] in Hh.
      rewrite write_tree_down by lia. rewrite level_nodes_node by lia.
      assert (Hgo : forall acc,
        wt_go (fun t acc => write_tree b t c d (coff + acc)) ch acc
        = Ok (emit_nodes b d (lvl c d (map snd ch)) (coff + acc),
              acc + sumN (map (ret_size b d) (lvl c d (map snd ch))))).
      { induction Hh as [|x ch Hx _ IHch]; intros acc.
        - cbn [wt_go map lvl flat_map emit_nodes sumN]. now rewrite N.add_0_r.
        - cbn [wt_go map]. rewrite IH by (auto; lia). cbn [rbind]. rewrite IHch. cbn [rbind].
          change (lvl c d (snd x :: map snd ch)) with (level_nodes c d (snd x) ++ lvl c d (map snd ch)).
          rewrite emit_app, map_app, sumN_app, !N.add_assoc. reflexivity. }
      rewrite Hgo. now rewrite !N.add_0_r, N.add_0_l.
Qed.

(* ---------- calculate_offsets ---------- *)
Lemma level_bytes_zero : forall h t d, height h t -> (h < d)%nat -> level_bytes t h d = 0.
Proof.
  induction h as [|h IH]; intros t d Hh Hd; destruct t as [l|ch]; cbn [height] in Hh;
    try (exfalso; exact Hh); try reflexivity.
  cbn [level_bytes].
  replace (Nat.eqb (S h) d) with false by (symmetry; apply Nat.eqb_neq; lia).
  replace (S h - 1)%nat with h by lia.
  induction Hh as [|x ch Hx _ IHch]; cbn [map sumN]; [reflexivity|].
  rewrite IH by (auto; lia). rewrite N.add_0_l in IHch. rewrite IHch. reflexivity.
Qed.

Lemma level_bytes_eq : forall h t d, height h t -> (1 <= d <= h)%nat ->
  level_bytes t h d = sumN (map nsize (level_nodes h d t)).
Proof.
  induction h as [|h IH]; intros t d Hh Hd; [exfalso; lia|].
  destruct t as [l|ch]; [destruct Hh|]. cbn [height] in Hh.
  cbn [level_bytes]. replace (S h - 1)%nat with h by lia.
  destruct (Nat.eq_dec d (S h)) as [->|Hne].
  - rewrite Nat.eqb_refl, level_nodes_same. cbn [map sumN nsize].
    assert (Hz : sumN (map (fun c => level_bytes (snd c) h (S h)) ch) = 0).
    { induction Hh as [|x ch Hx _ IHch]; cbn [map sumN]; [reflexivity|].
      rewrite level_bytes_zero by (auto; lia). rewrite IHch. reflexivity. }
    rewrite Hz. unfold NODEHEADER_SIZE, NON_LEAFNODE_SIZE. lia.
  - replace (Nat.eqb (S h) d) with false by (symmetry; apply Nat.eqb_neq; lia).
    rewrite level_nodes_node by lia. rewrite N.add_0_l. unfold lvl.
    induction Hh as [|x ch Hx _ IHch]; cbn [map sumN flat_map]; [reflexivity|].
    rewrite map_app, sumN_app, IHch. rewrite IH by (auto; lia). reflexivity.
Qed.

(* ---------- pointers written = arithmetic progression ---------- *)
Fixpoint arith (p F : N) (n : nat) : list N :=
  match n with O => [] | S k => p :: arith (p + F) F k end.
Fixpoint positions (p : N) (sizes : list N) : list N :=
  match sizes with [] => [] | s :: r => p :: positions (p + s) r end.

Lemma arith_length p F n : length (arith p F n) = n.
Proof. revert p. induction n as [|n IH]; intros p; cbn [arith length]; [reflexivity|]. now rewrite IH. Qed.
Lemma arith_app p F n m : arith p F (n + m) = arith p F n ++ arith (p + N.of_nat n * F) F m.
Proof.
  revert p. induction n as [|n IH]; intros p.
  - cbn [Nat.add arith app]. change (N.of_nat 0) with 0. now rewrite N.mul_0_l, N.add_0_r.
  - cbn [Nat.add arith app]. rewrite IH. do 3 f_equal. rewrite Nat2N.inj_succ, N.mul_succ_l. lia.
Qed.
(* all nodes but the last have size F: the real positions are the progression the writer uses *)
Lemma positions_arith F : forall sizes p, abl (fun s => s = F) sizes ->
  positions p sizes = arith p F (length sizes).
Proof.
  induction sizes as [|s r IH]; intros p H; [reflexivity|].
  cbn [positions length arith]. destruct H as [H1 H2]. f_equal.
  destruct r as [|s' r']; [reflexivity|]. rewrite H1 by discriminate. apply IH. exact H2.
Qed.
Lemma positions_bound : forall sizes p, Forall (fun s => 4 <= s) sizes ->
  Forall (fun x => x + 4 <= p + sumN sizes) (positions p sizes).
Proof.
  induction sizes as [|s r IH]; intros p H; [constructor|].
  inversion H as [|? ? Hs Hr]; subst. cbn [positions sumN]. constructor; [lia|].
  eapply Forall_impl; [|apply (IH (p + s) Hr)]. intros x Hx. cbv beta in Hx. lia.
Qed.

Lemma enum_items F coff : forall (ch : list (span * tree)) i,
  flat_map (fun ic => inner_item_bytes (fst (snd ic)) (coff + fst ic * F)) (enum_from i ch)
  = flat_map (fun it => inner_item_bytes (fst it) (snd it))
      (combine (map fst ch) (arith (coff + i * F) F (length ch))).
Proof.
  induction ch as [|c ch IH]; intros i; [reflexivity|].
  cbn [enum_from flat_map map length arith combine fst snd]. rewrite IH.
  replace (coff + (i + 1) * F) with (coff + i * F + F) by (rewrite N.mul_add_distr_r; lia). reflexivity.
Qed.

Lemma combine_length_l {A B} (l1 : list A) (l2 : list B) : length l1 = length l2 -> length (combine l1 l2) = length l1.
Proof. intros H. rewrite combine_length. lia. Qed.

Lemma node_bytes_inner b dest ch coff :
  node_bytes b dest (Node ch) coff
  = inner_bytes (combine (map fst ch) (arith coff (wfull b dest) (length ch))).
Proof.
  unfold node_bytes, inner_bytes. rewrite enum_items. rewrite N.mul_0_l, N.add_0_r.
  unfold Nlen. rewrite combine_length_l by now rewrite map_length, arith_length. rewrite map_length.
  reflexivity.
Qed.

Lemma node_bytes_Nlen b dest t coff : Nlen (node_bytes b dest t coff) = nsize t.
Proof.
  destruct t as [l|ch].
  - cbn [node_bytes nsize]. apply leaf_bytes_Nlen.
  - rewrite node_bytes_inner, inner_bytes_Nlen. cbn [nsize]. unfold Nlen.
    rewrite combine_length_l by now rewrite map_length, arith_length. now rewrite map_length.
Qed.
Lemma emit_Nlen b dest : forall ns coff, Nlen (emit_nodes b dest ns coff) = sumN (map nsize ns).
Proof.
  induction ns as [|n ns IH]; intros coff; [reflexivity|].
  cbn [emit_nodes map sumN]. now rewrite Nlen_app, node_bytes_Nlen, IH.
Qed.

(* ---------- small facts ---------- *)
Lemma Forall2_app_split {A B} (R : A -> B -> Prop) : forall l1 l1' l2 l2',
  length l1 = length l1' -> Forall2 R (l1 ++ l2) (l1' ++ l2') -> Forall2 R l1 l1' /\ Forall2 R l2 l2'.
Proof.
  induction l1 as [|a l1 IH]; intros l1' l2 l2' Hl H; destruct l1' as [|a' l1']; try discriminate.
  - split; [constructor|exact H].
  - cbn [app] in H. inversion H; subst. cbn [length] in Hl.
    destruct (IH l1' l2 l2' ltac:(lia) ltac:(assumption)) as [H1 H2]. split; [constructor; assumption|exact H2].
Qed.
Lemma Forall_combine {A B} (P : A -> Prop) (Q : B -> Prop) : forall l1 l2,
  Forall P l1 -> Forall Q l2 -> Forall (fun it => P (fst it) /\ Q (snd it)) (combine l1 l2).
Proof.
  induction l1 as [|a l1 IH]; intros l2 H1 H2; [constructor|].
  destruct l2 as [|c l2]; [constructor|]. inversion H1; inversion H2; subst.
  cbn [combine]. constructor; [cbn; auto|apply IH; assumption].
Qed.

Lemma nsize_ge4 t : 4 <= nsize t.
Proof. destruct t; cbn [nsize]; lia. Qed.
Lemma sizes_ge4 L : Forall (fun s => 4 <= s) (map nsize L).
Proof. rewrite Forall_map. apply Forall_forall. intros t _. apply nsize_ge4. Qed.
Lemma sum_nsize_ge L : 4 * Nlen L <= sumN (map nsize L).
Proof.
  induction L as [|t L IH]; [cbn; lia|]. cbn [map sumN]. rewrite Nlen_cons. pose proof (nsize_ge4 t). lia.
Qed.

Lemma nsum_app a b : nsum (a ++ b) = (nsum a + nsum b)%nat.
Proof. induction a as [|x a IH]; cbn [app nsum]; [reflexivity|]. rewrite IH. lia. Qed.
Lemma tsize_leaves L : Forall (height 0) L -> nsum (map tsize L) = length L.
Proof.
  induction 1 as [|t L Ht _ IH]; [reflexivity|]. cbn [map nsum length]. rewrite IH.
  destruct t; [reflexivity|destruct Ht].
Qed.
Lemma tsize_nodes h L : Forall (height (S h)) L ->
  nsum (map tsize L) = (length L + nsum (map tsize (kids L)))%nat.
Proof.
  induction 1 as [|t L Ht _ IH]; [reflexivity|]. cbn [map nsum length]. rewrite IH.
  destruct t as [l|ch]; [destruct Ht|]. unfold kids. cbn [flat_map children tsize].
  rewrite map_app, nsum_app, map_map. fold (kids L). lia.
Qed.

Section Levels.
Variable bn : nat.
Let b : N := N.of_nat bn.
Hypothesis Hb16 : b < U16.

Lemma node_ok_count t : node_ok bn t ->
  match t with Leaf l => Nlen l < U16 | Node ch => Nlen ch < U16 end.
Proof. unfold b in Hb16. destruct t; intros [H _]; unfold Nlen; lia. Qed.

(* ---------- the leaf level ---------- *)
Lemma leaf_level img : forall ns coff p,
  Forall (height 0) ns -> Forall (node_ok bn) ns ->
  has_at img p (emit_nodes b 0 ns coff) ->
  Forall2 (rep 0 img) (positions p (map nsize ns)) ns.
Proof.
  induction ns as [|n ns IH]; intros coff p Hh Hok Hat; [constructor|].
  inversion Hh as [|? ? Hn Hh']; inversion Hok as [|? ? Hokn Hok']; subst.
  cbn [emit_nodes] in Hat. apply has_at_app in Hat as [H1 H2]. rewrite node_bytes_Nlen in H2.
  cbn [map positions]. constructor.
  - destruct n as [l|ch]; [|destruct Hn]. cbn [node_bytes] in H1. cbn [rep]. exists l. split; [reflexivity|].
    apply read_leaf; [exact H1|apply (node_ok_count (Leaf l) Hokn)|apply Hokn].
  - eapply IH; eauto.
Qed.

(* ---------- one inner level, given the level below ---------- *)
Lemma inner_level_step img h : forall ns base p,
  Forall (height (S h)) ns -> Forall (node_ok bn) ns ->
  has_at img p (emit_nodes b (S h) ns base) ->
  Forall2 (rep h img) (arith base (nfull b h) (length (kids ns))) (kids ns) ->
  Forall (fun x => x < U64) (arith base (nfull b h) (length (kids ns))) ->
  Forall2 (rep (S h) img) (positions p (map nsize ns)) ns.
Proof.
  induction ns as [|n ns IH]; intros base p Hh Hok Hat Hkids Hptr; [constructor|].
  inversion Hh as [|? ? Hn Hh']; inversion Hok as [|? ? Hokn Hok']; subst.
  destruct n as [l|ch]; [destruct Hn|].
  cbn [emit_nodes ret_size] in Hat. apply has_at_app in Hat as [H1 H2]. rewrite node_bytes_Nlen in H2.
  rewrite wfull_nfull in *.
  unfold kids in Hkids, Hptr. cbn [flat_map children] in Hkids, Hptr. fold (kids ns) in Hkids, Hptr.
  rewrite app_length, arith_app, map_length in Hkids, Hptr.
  apply Forall2_app_split in Hkids; [|now rewrite arith_length, map_length]. destruct Hkids as [Hk1 Hk2].
  apply Forall_app in Hptr as [Hp1 Hp2].
  cbn [map positions]. constructor.
  - cbn [rep]. exists ch, (arith base (nfull b h) (length ch)). split; [reflexivity|]. split; [|exact Hk1].
    rewrite node_bytes_inner, wfull_nfull in H1. apply read_inner; [exact H1| |].
    + unfold Nlen. rewrite combine_length_l by now rewrite map_length, arith_length. rewrite map_length.
      apply (node_ok_count (Node ch) Hokn).
    + apply (Forall_combine span_ok (fun x => x < U64)); [|exact Hp1]. rewrite Forall_map. apply Hokn.
  - apply (IH (base + Nlen ch * nfull b h)); assumption.
Qed.

(* ---------- all levels: what write_levels produces, read back ---------- *)
Section OneTree.
Variables (t : tree) (levels : nat).
Hypothesis Hh : height levels t.
Hypothesis Hlv : forall d, (d <= levels)%nat -> level_ok bn d (level_nodes levels d t).
Let L (d : nat) : list tree := level_nodes levels d t.

Lemma write_levels_rep : forall level no, (level <= levels)%nat ->
  exists bs, write_levels b t levels level no = Ok bs
    /\ sumN (map nsize (L level)) <= Nlen bs
    /\ 4 * N.of_nat (nsum (map tsize (L level))) <= Nlen bs
    /\ forall img, has_at img no bs -> no + Nlen bs <= U64 ->
         Forall2 (rep level img) (positions no (map nsize (L level))) (L level).
Proof.
  induction level as [|l IH]; intros no Hle.
  - cbn [write_levels]. change (Nat.ltb 0 0) with false. cbv iota.
    rewrite write_tree_eq by (auto; lia). cbn [rbind]. fold (L 0%nat).
    exists (emit_nodes b 0 (L 0%nat) no). split; [reflexivity|].
    pose proof (height_level levels t 0 Hh Hle) as Hh0. fold (L 0%nat) in Hh0.
    rewrite emit_Nlen. split; [lia|]. split.
    + rewrite tsize_leaves by exact Hh0. apply sum_nsize_ge.
    + intros img Hat _. eapply leaf_level; [exact Hh0|apply (Hlv 0%nat Hle)|exact Hat].
  - cbn [write_levels]. change (Nat.ltb 0 (S l)) with true. cbv iota.
    rewrite level_bytes_eq by (auto; lia). fold (L (S l)).
    set (no' := no + sumN (map nsize (L (S l)))).
    rewrite write_tree_eq by (auto; lia). cbn [rbind]. fold (L (S l)).
    destruct (IH no' ltac:(lia)) as [rest [Hrest [Hsz [Hts Hrep]]]].
    rewrite Hrest. cbn [rbind].
    exists (emit_nodes b (S l) (L (S l)) no' ++ rest). split; [reflexivity|].
    pose proof (height_level levels t (S l) Hh Hle) as HhS. fold (L (S l)) in HhS.
    assert (Hkids : kids (L (S l)) = L l) by (apply kids_level; [exact Hh|exact Hle]).
    rewrite Nlen_app, emit_Nlen. split; [lia|]. split.
    + rewrite (tsize_nodes l) by exact HhS. rewrite Hkids.
      pose proof (sum_nsize_ge (L (S l))). unfold Nlen in H. lia.
    + intros img Hat Hend. apply has_at_app in Hat as [H1 H2]. rewrite emit_Nlen in H2. fold no' in H2.
      assert (Hend' : no' + Nlen rest <= U64) by (unfold no'; lia).
      specialize (Hrep img H2 Hend').
      destruct (Hlv l ltac:(lia)) as [Habl _]. fold (L l) in Habl.
      assert (Epos : positions no' (map nsize (L l)) = arith no' (nfull b l) (length (L l))).
      { rewrite (positions_arith (nfull b l)); [now rewrite map_length|]. apply abl_map. exact Habl. }
      apply (inner_level_step img l (L (S l)) no' no HhS).
      * apply (Hlv (S l) Hle).
      * exact H1.
      * rewrite Hkids, <- Epos. exact Hrep.
      * rewrite Hkids, <- Epos.
        eapply Forall_impl; [|apply (positions_bound (map nsize (L l)) no' (sizes_ge4 (L l)))].
        intros x Hx. cbv beta in Hx. lia.
Qed.
End OneTree.
End Levels.

(* ---------- the index as a whole ---------- *)
Lemma index_header_length b ips count sp e : length (index_header b ips count sp e) = 48%nat.
Proof. unfold index_header, u32, u64. rewrite !app_length, !enc_le_length. reflexivity. Qed.

(* the bytes of the index of a built tree represent that tree at pos+48, wherever the index sits
   in a larger image, provided the index ends below 2^64 *)
Theorem layout_represents (b ips pos : N) (secs : list sect) t levels :
  0 < b < U16 -> secs <> [] -> Forall sect_ok secs ->
  build (N.to_nat b) secs = Ok (t, levels) ->
  exists bs, rtree_bytes b ips pos t levels (Nlen secs) = Ok bs
    /\ 48 + 4 * N.of_nat (tsize t) <= Nlen bs
    /\ (pos + Nlen bs <= U64 -> forall pre post, Nlen pre = pos ->
          rep levels (pre ++ bs ++ post) (pos + 48) t).
Proof.
  intros Hb Hne Hok Hbuild.
  pose proof (build_shaped (N.to_nat b) secs t levels ltac:(lia) Hne Hok Hbuild) as Hs.
  apply shaped_single in Hs as [Hh Hlv].
  assert (Hb16 : N.of_nat (N.to_nat b) < U16) by (rewrite N2Nat.id; lia).
  destruct (write_levels_rep (N.to_nat b) Hb16 t levels Hh Hlv levels (pos + 48) (le_n _))
    as [body [Hbody [_ [Hts Hrep]]]].
  rewrite N2Nat.id in Hbody. rewrite level_nodes_same in Hts, Hrep.
  cbn [map nsum positions] in Hts, Hrep. rewrite Nat.add_0_r in Hts.
  unfold rtree_bytes. rewrite Hbody. cbn [rbind].
  set (hdr := index_header b ips (Nlen secs) (span_of t) pos).
  assert (Hhl : Nlen hdr = 48) by (unfold Nlen; unfold hdr; now rewrite index_header_length).
  exists (hdr ++ body). split; [reflexivity|]. rewrite Nlen_app, Hhl. split; [lia|].
  intros Hend pre post Hpre.
  assert (Hat : has_at (pre ++ (hdr ++ body) ++ post) (pos + 48) body).
  { exists (pre ++ hdr), post. split; [now rewrite <- !app_assoc|].
    rewrite app_length. unfold Nlen in Hpre, Hhl. lia. }
  specialize (Hrep _ Hat ltac:(lia)). inversion Hrep; subst. assumption.
Qed.

(* C05, second half: for every fan-out and every number of sections, the bytes the writer lays
   out, read back by the reader's pointer-chasing search, give the linear scan's answer *)
Theorem search_bytes_eq_scan (b ips pos : N) (secs : list sect) :
  2 <= b <= 65535 -> secs <> [] -> sorted_starts (map sect_span secs) -> Forall sect_ok secs ->
  exists bs levels, write_index b ips pos secs = Ok (bs, levels)
    /\ (pos + Nlen bs <= U64 ->
        forall pre post q qs qe fuel, Nlen pre = pos -> (length bs <= fuel)%nat ->
          search_bytes fuel false (pre ++ bs ++ post) (pos + 48) q qs qe = Ok (scan secs q qs qe)).
Proof.
  intros Hb Hne Hsorted Hok.
  destruct (build_ok (N.to_nat b) secs ltac:(lia) Hne Hsorted) as [t [lv [Hbuild [Hcov [Hleaves _]]]]].
  destruct (layout_represents b ips pos secs t lv ltac:(unfold U16; lia) Hne Hok Hbuild)
    as [bs [Hbytes [Hsize Hrep]]].
  exists bs, lv. split.
  - unfold write_index. rewrite Hbuild. cbn [rbind]. rewrite Hbytes. reflexivity.
  - intros Hend pre post q qs qe fuel Hpre Hfuel.
    rewrite (search_bytes_rep _ q qs qe lv t (pos + 48) (Hrep Hend pre post Hpre)).
    + rewrite search_tree_eq_scan by exact Hcov. rewrite Hleaves. reflexivity.
    + unfold Nlen in Hsize. lia.
Qed.
