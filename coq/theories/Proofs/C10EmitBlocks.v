(* C10, whole file, part 2: facts about the blocks of an emitted file (what each block holds, that
   its recorded span contains every item in it and fits the index fields, that the stored bytes are
   the compressed payload), and the block-data read. *)
From BT Require Import Base.Util Base.LE Base.Float Generated.Consts Model.RTree Model.BBIFile Model.BigWigWrite
  Model.BBIRead Proofs.RTreeAbs Proofs.RTreeCodec Proofs.C10Codec Proofs.C10Search Proofs.C10Sections Proofs.C10Place
  Proofs.C10ChromTree Proofs.C10EmitBase Spec.FormatEmit Spec.FormatWf Model.ReadBed_C10.
Local Open Scope N_scope.

(* ---------- cover ---------- *)
Lemma pmin_le_l p q : ple (fst (pmin p q)) (snd (pmin p q)) (fst p) (snd p).
Proof.
  unfold pmin. destruct (le_pos (fst p) (snd p) (fst q) (snd q)) eqn:E; [apply ple_refl|].
  destruct (ple_total (fst p) (snd p) (fst q) (snd q)) as [H|H]; [|exact H].
  apply le_pos_spec in H. congruence.
Qed.
Lemma pmin_le_r p q : ple (fst (pmin p q)) (snd (pmin p q)) (fst q) (snd q).
Proof.
  unfold pmin. destruct (le_pos (fst p) (snd p) (fst q) (snd q)) eqn:E; [|apply ple_refl].
  now apply le_pos_spec.
Qed.
Lemma fold_pmin_le_init l p : ple (fst (fold_left pmin l p)) (snd (fold_left pmin l p)) (fst p) (snd p).
Proof.
  revert p. induction l as [|x l IH]; intros p; cbn [fold_left]; [apply ple_refl|].
  eapply ple_trans; [apply IH|apply pmin_le_l].
Qed.
Lemma fold_pmin_le_in l p x : In x l -> ple (fst (fold_left pmin l p)) (snd (fold_left pmin l p)) (fst x) (snd x).
Proof.
  revert p. induction l as [|y l IH]; intros p Hin; [destruct Hin|]. cbn [fold_left].
  destruct Hin as [->|Hin].
  - eapply ple_trans; [apply fold_pmin_le_init|apply pmin_le_r].
  - now apply IH.
Qed.
Lemma fold_pmin_in l p : fold_left pmin l p = p \/ In (fold_left pmin l p) l.
Proof.
  revert p. induction l as [|y l IH]; intros p; cbn [fold_left]; [now left|].
  destruct (IH (pmin p y)) as [H|H].
  - rewrite H. unfold pmin. destruct (le_pos _ _ _ _); [now left|right; now left].
  - right; now right.
Qed.

Lemma cover_inside l x : In x l -> inside x (cover l).
Proof.
  destruct l as [|f r]; intros Hin; [destruct Hin|]. unfold inside. cbn [cover sc sb ec eb]. split.
  - destruct Hin as [<-|Hin].
    + apply (fold_pmin_le_init (map (fun s => (sc s, sb s)) r) (sc f, sb f)).
    + apply (fold_pmin_le_in (map (fun s => (sc s, sb s)) r) (sc f, sb f) (sc x, sb x)).
      apply in_map_iff. exists x; auto.
  - destruct Hin as [<-|Hin].
    + apply (fold_pmax_ge_init (map (fun s => (ec s, eb s)) r) (ec f, eb f)).
    + apply (fold_pmax_ge_in (map (fun s => (ec s, eb s)) r) (ec f, eb f) (ec x, eb x)).
      apply in_map_iff. exists x; auto.
Qed.

Lemma cover_span_ok l : Forall span_ok l -> span_ok (cover l).
Proof.
  destruct l as [|f r]; intros H.
  - unfold span_ok, U32. cbn. lia.
  - inversion H as [|? ? Hf Hr]; subst. rewrite Forall_forall in Hr. unfold span_ok in *. cbn [cover sc sb ec eb].
    destruct (fold_pmin_in (map (fun s => (sc s, sb s)) r) (sc f, sb f)) as [E|E];
    destruct (fold_pmax_in (map (fun s => (ec s, eb s)) r) (ec f, eb f)) as [E2|E2]; rewrite ?E, ?E2; cbn [fst snd].
    + tauto.
    + apply in_map_iff in E2 as [y [Ey Hy]]. rewrite <- Ey. cbn [fst snd]. specialize (Hr y Hy). tauto.
    + apply in_map_iff in E as [y [Ey Hy]]. rewrite <- Ey. cbn [fst snd]. specialize (Hr y Hy). tauto.
    + apply in_map_iff in E as [y [Ey Hy]]. rewrite <- Ey. apply in_map_iff in E2 as [z [Ez Hz]]. rewrite <- Ez.
      cbn [fst snd]. pose proof (Hr y Hy). pose proof (Hr z Hz). tauto.
Qed.

(* a single-chromosome list of spans has a single-chromosome cover *)
Lemma cover_chrom c l : l <> [] -> Forall (fun s => sc s = c /\ ec s = c) l -> sc (cover l) = c /\ ec (cover l) = c.
Proof.
  destruct l as [|f r]; intros Hne H; [congruence|]. inversion H as [|? ? [Hf1 Hf2] Hr]; subst. rewrite Forall_forall in Hr.
  cbn [cover sc ec].
  destruct (fold_pmin_in (map (fun s => (sc s, sb s)) r) (sc f, sb f)) as [E|E];
  destruct (fold_pmax_in (map (fun s => (ec s, eb s)) r) (ec f, eb f)) as [E2|E2]; rewrite ?E, ?E2; cbn [fst].
  - auto.
  - apply in_map_iff in E2 as [y [Ey Hy]]. rewrite <- Ey. cbn [fst]. split; [reflexivity|]. apply (Hr y Hy).
  - apply in_map_iff in E as [y [Ey Hy]]. rewrite <- Ey. cbn [fst]. split; [|assumption]. apply (Hr y Hy).
  - apply in_map_iff in E as [y [Ey Hy]]. rewrite <- Ey. apply in_map_iff in E2 as [z [Ez Hz]]. rewrite <- Ez.
    cbn [fst]. split; [apply (Hr y Hy)|apply (Hr z Hz)].
Qed.

(* ---------- split_by ---------- *)
Lemma concat_split_by {X} (counts : list nat) : forall (l : list X), sum_nat counts = length l -> concat (split_by counts l) = l.
Proof.
  induction counts as [|c counts IH]; intros l H.
  - cbn in *. destruct l; [reflexivity|discriminate].
  - cbn [split_by concat sum_nat fold_right] in *. rewrite IH.
    + apply firstn_skipn.
    + rewrite skipn_length. unfold sum_nat. lia.
Qed.
Lemma split_by_length {X} (counts : list nat) (l : list X) : length (split_by counts l) = length counts.
Proof. revert l. induction counts as [|c counts IH]; intros l; [reflexivity|]. cbn [split_by length]. now rewrite IH. Qed.

Lemma nth_map_seq {X} (f : nat -> X) n k d : (k < n)%nat -> nth k (map f (seq 0 n)) d = f k.
Proof.
  intros H. rewrite (nth_indep _ d (f 0%nat)) by (rewrite map_length, seq_length; exact H).
  rewrite (map_nth f (seq 0 n) 0%nat k). now rewrite seq_nth.
Qed.

Section EmitBlocks.
Variables (cmp infl : list N -> list N).
Hypothesis Hinfl : forall b, infl (cmp b) = b.
Variable L : layout.
Variable X : content.
Hypothesis Hwf : wf_b cmp L X = true.

Let big := l_big L.
Let bt := block_table cmp L X.
Let o := off_fn (offsets L X bt).
Let bs := emit cmp L X.
Let inf := exp_info cmp L X.

Definition counts := map fst (l_secs L).
(* the bigWig sections: ((count, type), items) *)
Definition wsecs : list ((nat * N) * list (N * value)) := combine (l_secs L) (split_by counts (x_vals X)).
Definition bsecs : list (list (N * bed)) := split_by counts (x_beds X).
Definition zsecs (k : nat) : list (list zraw) := split_by (nth k (l_zsecs L) []) (snd (nth k (x_zooms X) (0, []))).

Lemma bt_len : length bt = S (length (x_zooms X)).
Proof. exact (bt_length cmp L X). Qed.
Lemma tree0_blocks : tree_blocks bt 0 = data_blocks cmp L X.
Proof. reflexivity. Qed.
Lemma treeS_blocks k : (k < length (x_zooms X))%nat -> tree_blocks bt (S k) = zoom_blocks cmp L X k.
Proof. intros H. unfold tree_blocks, bt, block_table. cbn [nth]. now apply nth_map_seq. Qed.

Lemma sections_facts_bw : x_bigwig X = true ->
  sum_nat counts = length (x_vals X) /\ Forall (fun si => sec_ok (snd (fst si)) (snd si) = true) wsecs.
Proof.
  intros Hb. destruct (wf_parts cmp L X Hwf) as (_ & H & _). unfold wf_sections in H. rewrite Hb in H.
  apply andb_true_iff in H as [H1 H2]. apply Nat.eqb_eq in H1. split; [exact H1|].
  apply Forall_forall. now apply forallb_forall.
Qed.
Lemma sections_facts_bed : x_bigwig X = false ->
  sum_nat counts = length (x_beds X) /\ Forall (fun items => bedsec_ok items = true) bsecs.
Proof.
  intros Hb. destruct (wf_parts cmp L X Hwf) as (_ & H & _). unfold wf_sections in H. rewrite Hb in H.
  apply andb_true_iff in H as [H1 H2]. apply Nat.eqb_eq in H1. split; [exact H1|].
  apply Forall_forall. now apply forallb_forall.
Qed.

Lemma sec_ok_spans ty items : sec_ok ty items = true -> items <> [] /\ Forall span_ok (map vspan items) /\
  exists c, Forall (fun s => sc s = c /\ ec s = c) (map vspan items) /\ Forall (fun cv => fst cv = c) items.
Proof.
  unfold sec_ok. destruct items as [|[c v0] rest]; [discriminate|]. intros H.
  do 3 (apply andb_true_iff in H as [H ?]). split; [discriminate|]. split.
  - rewrite Forall_map. apply Forall_forall. intros cv Hin. rewrite forallb_forall in H1. apply H1 in Hin.
    apply val_ok_bits in Hin as (Hc & _ & (Hs & He & _)). unfold span_ok, vspan, U32, W32 in *. cbn [sc sb ec eb]. tauto.
  - exists c. rewrite Forall_map. split; apply Forall_forall; intros cv Hin; rewrite forallb_forall in H2; apply H2 in Hin;
      apply N.eqb_eq in Hin; cbn [vspan sc ec]; auto.
Qed.
Lemma bedsec_ok_spans items : bedsec_ok items = true -> items <> [] /\ Forall span_ok (map bspan items) /\
  exists c, Forall (fun s => sc s = c /\ ec s = c) (map bspan items) /\ forallb (fun cb => fst cb =? c) items = true
            /\ forallb bed_ok items = true.
Proof.
  unfold bedsec_ok. destruct items as [|[c b0] rest]; [discriminate|]. intros H.
  apply andb_true_iff in H as [H1 H2]. split; [discriminate|]. split.
  - rewrite Forall_map. apply Forall_forall. intros cb Hin. rewrite forallb_forall in H2. apply H2 in Hin.
    unfold bed_ok in Hin. do 4 (apply andb_true_iff in Hin as [Hin ?]).
    repeat match goal with H : (_ <? _) = true |- _ => apply N.ltb_lt in H end.
    unfold span_ok, bspan, U32, W32 in *. cbn [sc sb ec eb]. tauto.
  - exists c. split; [|split; assumption]. rewrite Forall_map. apply Forall_forall. intros cb Hin.
    rewrite forallb_forall in H1. apply H1 in Hin. apply N.eqb_eq in Hin. cbn [bspan sc ec]. auto.
Qed.

Definition block_ok (b : binfo) : Prop :=
  span_ok (bi_span b) /\ bi_stored b = (if l_compress L then cmp (bi_raw b) else bi_raw b).

Lemma mk_binfo_ok raw sp : span_ok sp -> block_ok (mk_binfo cmp L raw sp).
Proof. intros H. split; [exact H|reflexivity]. Qed.

Lemma blocks_ok t : (t < length bt)%nat -> Forall block_ok (tree_blocks bt t).
Proof.
  intros Ht. rewrite bt_len in Ht. destruct t as [|k].
  - rewrite tree0_blocks. unfold data_blocks. destruct (x_bigwig X) eqn:Hb.
    + destruct (sections_facts_bw Hb) as [_ Hs]. rewrite Forall_map. eapply Forall_impl; [|exact Hs].
      intros si Hsi. cbv beta in Hsi. apply mk_binfo_ok. apply sec_ok_spans in Hsi as (_ & H & _). now apply cover_span_ok.
    + destruct (sections_facts_bed Hb) as [_ Hs]. rewrite Forall_map. eapply Forall_impl; [|exact Hs].
      intros items Hi. cbv beta in Hi. apply mk_binfo_ok. apply bedsec_ok_spans in Hi as (_ & H & _). now apply cover_span_ok.
  - assert (Hk : (k < length (x_zooms X))%nat) by lia. rewrite (treeS_blocks k Hk). unfold zoom_blocks.
    rewrite Forall_map. apply Forall_forall. intros recs Hin. apply mk_binfo_ok. apply cover_span_ok.
    rewrite Forall_map. apply Forall_forall. intros z Hz.
    destruct (nth_error (x_zooms X) k) as [zz|] eqn:Ez; [|apply nth_error_None in Ez; lia].
    destruct (zoom_facts cmp L X Hwf k zz Ez) as (_ & _ & _ & Hrecs & _).
    rewrite (nth_error_nth _ _ (0, []) Ez) in Hin.
    assert (Hzin : In z (snd zz)).
    { clear - Hin Hz. revert Hin. generalize (nth k (l_zsecs L) []). intros cs. generalize (snd zz). revert recs Hz.
      induction cs as [|c cs IH]; intros recs Hz l Hin; [destruct Hin|].
      cbn [split_by] in Hin. destruct Hin as [<-|Hin]; [now apply In_firstn in Hz|]. eapply In_skipn, IH; eauto. }
    rewrite Forall_forall in Hrecs. apply Hrecs in Hzin. apply zraw_ok_fits in Hzin.
    unfold span_ok, zspan, U32. cbn [sc sb ec eb]. tauto.
Qed.

(* ---------- reading a block's data ---------- *)
Lemma ubuf_pos : (0 <? ubuf L bt) = l_compress L.
Proof.
  unfold ubuf. destruct (l_compress L); [|reflexivity]. apply N.ltb_lt.
  assert (G : forall l a, 1 <= a -> 1 <= fold_left N.max l a).
  { induction l as [|x l IH]; intros a Ha; [exact Ha|]. cbn [fold_left]. apply IH. lia. }
  specialize (G (map (fun b => Nlen (bi_raw b)) (concat bt)) 1). lia.
Qed.

Lemma block_data_emit t k b : (t < length bt)%nat -> nth_error (tree_blocks bt t) k = Some b ->
  block_data infl inf bs (o (PBlock t k), Nlen (bi_stored b)) = Ok (bi_raw b)
  /\ o (PBlock t k) < W64 /\ Nlen (bi_stored b) < W64.
Proof.
  intros Ht Hk. assert (Hkl : (k < length (nth t bt []))%nat) by (apply nth_error_Some; unfold tree_blocks in Hk; congruence).
  destruct (at_piece cmp L X Hwf _ (needed_block cmp L X t k Ht Hkl)) as [Hat Hb].
  fold bt in Hat, Hb. fold o in Hat, Hb. fold bs in Hat.
  assert (Hp : pbytes L X bt o (PBlock t k) = bi_stored b) by (cbn [pbytes]; now rewrite Hk).
  assert (Hps : psize L X bt (PBlock t k) = Nlen (bi_stored b)).
  { unfold psize. cbn [pbytes]. now rewrite Hk. }
  rewrite Hps in Hb. rewrite Hp in Hat. split; [|lia].
  unfold block_data. cbn [fst snd]. unfold Nlen. rewrite Nat2N.id. rewrite (has_at_slice bs _ _ Hat). cbn [rdo rbind].
  unfold inf, exp_info, exp_header. cbn [i_hdr h_ubuf]. fold bt. rewrite ubuf_pos.
  pose proof (blocks_ok t Ht) as Hok. rewrite Forall_forall in Hok. destruct (Hok b (nth_error_In _ _ Hk)) as [_ Hst].
  rewrite Hst. destruct (l_compress L); [now rewrite Hinfl|reflexivity].
Qed.
End EmitBlocks.
