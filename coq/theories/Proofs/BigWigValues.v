(* C03: shape of an interval answer (ascending, inside the range, non-empty items) and the
   per-base array of values(): at offset j the value of the unique stored item covering base s+j,
   None (NaN) where no item does. *)
From BT Require Import Base.Util Base.Sexp Base.Float Model.RTree Model.BBIFile Model.BigWigWrite Model.BBIRead
  Model.Entry_C03 Proofs.BigWigQuery.
From Coq Require Import Sorting.Sorted.
Local Open Scope N_scope.

Definition before (a b : value) : Prop := v_end a <= v_start b.

Lemma wf_sorted len vals : wf_vals len vals -> StronglySorted before vals.
Proof.
  induction vals as [|v r IH]; intros H; [constructor|].
  constructor; [apply IH; eapply wf_tail; exact H|exact (wf_after_head _ _ _ H)].
Qed.
Lemma wf_each len vals : wf_vals len vals -> Forall (fun v => v_start v <= v_end v /\ v_end v <= len) vals.
Proof.
  induction vals as [|v r IH]; intros H; [constructor|].
  constructor; [exact (wf_head _ _ _ H)|apply IH; eapply wf_tail; exact H].
Qed.

Lemma sorted_filter {X} (R : X -> X -> Prop) p l : StronglySorted R l -> StronglySorted R (filter p l).
Proof.
  induction 1 as [|a l Hs IH Ha]; [constructor|]. cbn [filter]. destruct (p a); [|exact IH].
  constructor; [exact IH|]. rewrite Forall_forall in *. intros x Hx. apply filter_In in Hx as [Hx _]. auto.
Qed.

(* ---- C03_sorted_clipped ---- *)
Theorem answer_shape len s e vals : wf_vals len vals -> s <= e ->
  let ans := clip_filter s e vals in
  StronglySorted before ans
  /\ Forall (fun a => s <= v_start a /\ v_start a <= v_end a /\ v_end a <= e) ans
  /\ (s < e -> Forall (fun v => v_start v < v_end v) vals -> Forall (fun a => v_start a < v_end a) ans)
  /\ Forall (fun a => exists v, In v vals /\ keep s e v = true /\ a = clip s e v) ans.
Proof.
  intros Hwf Hse ans. pose proof (wf_sorted _ _ Hwf) as Hs. pose proof (wf_each _ _ Hwf) as He.
  unfold ans, clip_filter. clear ans Hwf.
  induction vals as [|v r IH]; [repeat split; constructor|].
  inversion Hs as [|? ? Hsr Hv]; subst. inversion He as [|? ? [Hv1 Hv2] Her]; subst.
  destruct (IH Hsr Her) as (I1 & I2 & I3 & I4). cbn [filter].
  destruct (keep s e v) eqn:K.
  - unfold keep in K. apply andb_true_iff in K as [K1 K2]. apply N.ltb_lt in K1, K2.
    cbn [map]. repeat split.
    + constructor; [exact I1|]. apply Forall_forall. intros a Ha. apply in_map_iff in Ha as [w [<- Hw]].
      apply filter_In in Hw as [Hw _]. rewrite Forall_forall in Hv. specialize (Hv w Hw).
      unfold before, clip in *. cbn [v_start v_end]. lia.
    + constructor; [unfold clip; cbn [v_start v_end]; lia|exact I2].
    + intros Hlt Hnz. inversion Hnz; subst. constructor; [unfold clip; cbn [v_start v_end]; lia|apply I3; assumption].
    + constructor.
      * exists v. split; [left; reflexivity|]. split; [unfold keep; apply andb_true_iff; split; apply N.ltb_lt; lia|reflexivity].
      * eapply Forall_impl; [|exact I4]. intros a [w [Hw Hr]]. exists w. split; [right; exact Hw|exact Hr].
  - repeat split; try assumption.
    + intros Hlt Hnz. inversion Hnz; subst. apply I3; assumption.
    + eapply Forall_impl; [|exact I4]. intros a [w [Hw Hr]]. exists w. split; [right; exact Hw|exact Hr].
Qed.

(* ---- the array ---- *)
Definition cover (p : N) (v : value) : bool := (v_start v <=? p) && (p <? v_end v).

Lemma nth_error_skipn' {X} (l : list X) : forall n k, nth_error (skipn n l) k = nth_error l (n + k).
Proof.
  induction l as [|a l IH]; intros n k.
  - rewrite skipn_nil. destruct k, n; reflexivity.
  - destruct n; [reflexivity|]. cbn [skipn Nat.add nth_error]. apply IH.
Qed.
Lemma nth_error_firstn' {X} (l : list X) : forall n k, (k < n)%nat -> nth_error (firstn n l) k = nth_error l k.
Proof.
  induction l as [|a l IH]; intros n k H; [rewrite firstn_nil; reflexivity|].
  destruct n; [lia|]. destruct k; [reflexivity|]. cbn [firstn nth_error]. apply IH. lia.
Qed.
Lemma nth_error_repeatN {X} (x : X) n k : nth_error (repeatN x n) k = if (k <? n)%nat then Some x else None.
Proof.
  revert k. induction n as [|n IH]; intros k; [destruct k; reflexivity|].
  destruct k; [reflexivity|]. cbn [repeatN nth_error]. rewrite IH. reflexivity.
Qed.
Lemma repeatN_length {X} (x : X) n : length (repeatN x n) = n.
Proof. induction n; cbn [repeatN length]; congruence. Qed.

(* overwriting the positions [a,b) of an array *)
Definition ow {X} (acc : list X) (a b : nat) (x : X) : list X := firstn a acc ++ repeatN x (b - a) ++ skipn b acc.

Lemma ow_length {X} (acc : list X) a b x : (a <= b)%nat -> (b <= length acc)%nat -> length (ow acc a b x) = length acc.
Proof. intros. unfold ow. rewrite !app_length, firstn_length, repeatN_length, skipn_length. lia. Qed.

Lemma ow_nth {X} (acc : list X) a b x j : (a <= b)%nat -> (b <= length acc)%nat ->
  nth_error (ow acc a b x) j = if ((a <=? j) && (j <? b))%nat then Some x else nth_error acc j.
Proof.
  intros Hab Hb. unfold ow.
  assert (Hfl : length (firstn a acc) = a) by (rewrite firstn_length; lia).
  destruct (Nat.leb_spec a j) as [Haj|Haj]; cbn [andb].
  - rewrite nth_error_app2 by lia. rewrite Hfl.
    destruct (Nat.ltb_spec j b) as [Hjb|Hjb].
    + rewrite nth_error_app1 by (rewrite repeatN_length; lia). rewrite nth_error_repeatN.
      destruct (Nat.ltb_spec (j - a) (b - a)); [reflexivity|lia].
    + rewrite nth_error_app2 by (rewrite repeatN_length; lia). rewrite repeatN_length, nth_error_skipn'.
      f_equal. lia.
  - rewrite nth_error_app1 by lia. apply nth_error_firstn'. lia.
Qed.

Definition step (s : N) (acc : list (option N)) (v : value) : list (option N) :=
  ow acc (N.to_nat (v_start v - s)) (N.to_nat (v_end v - s)) (Some (v_bits v)).

Lemma fill_values_fold s e vals : fill_values s e vals = fold_left (step s) vals (repeatN None (N.to_nat (e - s))).
Proof. reflexivity. Qed.

Lemma fill_fold s : forall l acc, StronglySorted before l ->
  Forall (fun a => s <= v_start a /\ v_start a <= v_end a /\ (N.to_nat (v_end a - s) <= length acc)%nat) l ->
  length (fold_left (step s) l acc) = length acc /\
  forall j, nth_error (fold_left (step s) l acc) j =
            match find (cover (s + N.of_nat j)) l with
            | Some a => if (j <? length acc)%nat then Some (Some (v_bits a)) else None
            | None => nth_error acc j
            end.
Proof.
  induction l as [|v r IH]; intros acc Hs Hin; [split; [reflexivity|intros j; reflexivity]|].
  inversion Hs as [|? ? Hsr Hv]; subst. inversion Hin as [|? ? (H1 & H2 & H3) Hr]; subst.
  cbn [fold_left find].
  assert (Hlen : length (step s acc v) = length acc) by (unfold step; apply ow_length; lia).
  destruct (IH (step s acc v) Hsr) as [IL IN].
  { eapply Forall_impl; [|exact Hr]. cbv beta. intros a (A1 & A2 & A3). rewrite Hlen. auto. }
  split; [rewrite IL; exact Hlen|]. intros j. rewrite IN, Hlen.
  unfold cover at 2.
  destruct ((v_start v <=? s + N.of_nat j) && (s + N.of_nat j <? v_end v)) eqn:C.
  - apply andb_true_iff in C as [C1 C2]. apply N.leb_le in C1. apply N.ltb_lt in C2.
    assert (Hnone : find (cover (s + N.of_nat j)) r = None).
    { clear IH IN IL Hr Hsr Hs Hin. induction r as [|w r IHr]; [reflexivity|]. inversion Hv as [|? ? Hw Hvr]; subst.
      cbn [find]. unfold cover at 1. unfold before in Hw.
      replace (v_start w <=? s + N.of_nat j) with false by (symmetry; apply N.leb_gt; lia). cbn [andb].
      apply IHr. exact Hvr. }
    rewrite Hnone. unfold step. rewrite ow_nth by lia.
    replace ((N.to_nat (v_start v - s) <=? j)%nat) with true by (symmetry; apply Nat.leb_le; lia).
    replace ((j <? N.to_nat (v_end v - s))%nat) with true by (symmetry; apply Nat.ltb_lt; lia). cbn [andb].
    replace ((j <? length acc)%nat) with true by (symmetry; apply Nat.ltb_lt; lia). reflexivity.
  - destruct (find (cover (s + N.of_nat j)) r); [reflexivity|].
    unfold step. rewrite ow_nth by lia.
    replace (((N.to_nat (v_start v - s) <=? j) && (j <? N.to_nat (v_end v - s)))%nat) with false; [reflexivity|].
    symmetry. apply andb_false_iff in C. apply andb_false_iff. destruct C as [C|C].
    + left. apply N.leb_gt in C. apply Nat.leb_gt. lia.
    + right. apply N.ltb_ge in C. apply Nat.ltb_ge. lia.
Qed.

Lemma nth_error_eq {X} : forall l l' : list X, (forall j, nth_error l j = nth_error l' j) -> l = l'.
Proof.
  induction l as [|a l IH]; intros l' H.
  - destruct l' as [|b l']; [reflexivity|]. specialize (H 0%nat). discriminate.
  - destruct l' as [|b l']; [specialize (H 0%nat); discriminate|].
    pose proof (H 0%nat) as H0. cbn in H0. injection H0 as ->. f_equal. apply IH. intros j. exact (H (S j)).
Qed.

Lemma nth_error_map_seq {X} (f : nat -> X) n j :
  nth_error (map f (seq 0 n)) j = if (j <? n)%nat then Some (f j) else None.
Proof.
  destruct (Nat.ltb_spec j n) as [H|H].
  - rewrite nth_error_map, nth_error_nth' with (d := 0%nat) by (rewrite seq_length; exact H).
    rewrite seq_nth by exact H. reflexivity.
  - rewrite nth_error_map. replace (nth_error (seq 0 n) j) with (@None nat); [reflexivity|].
    symmetry. apply nth_error_None. rewrite seq_length. exact H.
Qed.

(* inside the range, the item of the answer covering a base is the clip of the stored item covering it *)
Lemma find_cover_clip s e p : s <= p < e -> forall vals,
  match find (cover p) (clip_filter s e vals) with Some a => Some (v_bits a) | None => None end
  = match find (cover p) vals with Some v => Some (v_bits v) | None => None end.
Proof.
  intros Hp. unfold clip_filter. induction vals as [|v r IH]; [reflexivity|].
  cbn [filter find]. unfold keep at 1, cover at 2.
  destruct (N.leb_spec (v_start v) p) as [C1|C1]; destruct (N.ltb_spec p (v_end v)) as [C2|C2]; cbn [andb].
  - replace (s <? v_end v) with true by (symmetry; apply N.ltb_lt; lia).
    replace (v_start v <? e) with true by (symmetry; apply N.ltb_lt; lia). cbn [andb map find].
    unfold cover at 1, clip. cbn [v_start v_end v_bits].
    replace (N.max (v_start v) s <=? p) with true by (symmetry; apply N.leb_le; lia).
    replace (p <? N.min (v_end v) e) with true by (symmetry; apply N.ltb_lt; lia). reflexivity.
  - destruct ((s <? v_end v) && (v_start v <? e)); [|exact IH]. cbn [map find].
    unfold cover at 1, clip. cbn [v_start v_end].
    replace (p <? N.min (v_end v) e) with false by (symmetry; apply N.ltb_ge; lia).
    rewrite andb_false_r. exact IH.
  - destruct ((s <? v_end v) && (v_start v <? e)); [|exact IH]. cbn [map find].
    unfold cover at 1, clip. cbn [v_start v_end].
    replace (N.max (v_start v) s <=? p) with false by (symmetry; apply N.leb_gt; lia). cbn [andb]. exact IH.
  - destruct ((s <? v_end v) && (v_start v <? e)); [|exact IH]. cbn [map find].
    unfold cover at 1, clip. cbn [v_start v_end].
    replace (N.max (v_start v) s <=? p) with false by (symmetry; apply N.leb_gt; lia). cbn [andb]. exact IH.
Qed.

(* ---- C03_values ---- *)
Theorem values_spec len s e vals : wf_vals len vals -> s <= e ->
  fill_values s e (clip_filter s e vals) = spec_values s e vals.
Proof.
  intros Hwf Hse. destruct (answer_shape len s e vals Hwf Hse) as (A1 & A2 & _ & _).
  rewrite fill_values_fold.
  destruct (fill_fold s (clip_filter s e vals) (repeatN None (N.to_nat (e - s))) A1) as [HL HN].
  { eapply Forall_impl; [|exact A2]. cbv beta. intros a (B1 & B2 & B3). rewrite repeatN_length. repeat split; lia. }
  apply nth_error_eq. intros j. rewrite HN. unfold spec_values. rewrite nth_error_map_seq, repeatN_length.
  rewrite nth_error_repeatN.
  destruct (Nat.ltb_spec j (N.to_nat (e - s))) as [Hj|Hj].
  - pose proof (find_cover_clip s e (s + N.of_nat j) ltac:(lia) vals) as F. unfold cover in *.
    destruct (find (fun v => (v_start v <=? s + N.of_nat j) && (s + N.of_nat j <? v_end v)) (clip_filter s e vals));
      destruct (find (fun v => (v_start v <=? s + N.of_nat j) && (s + N.of_nat j <? v_end v)) vals);
      try discriminate; congruence.
  - destruct (find (cover (s + N.of_nat j)) (clip_filter s e vals)); reflexivity.
Qed.

(* pointwise reading of the specification *)
Lemma spec_values_nth s e vals j : (j < N.to_nat (e - s))%nat ->
  nth_error (spec_values s e vals) j
  = Some (match find (cover (s + N.of_nat j)) vals with Some v => Some (v_bits v) | None => None end).
Proof.
  intros Hj. unfold spec_values. rewrite nth_error_map_seq.
  destruct (Nat.ltb_spec j (N.to_nat (e - s))); [reflexivity|lia].
Qed.
Lemma spec_values_length s e vals : length (spec_values s e vals) = N.to_nat (e - s).
Proof. unfold spec_values. now rewrite map_length, seq_length. Qed.

(* the covering item is unique: two stored items covering the same base are the same item of the list
   (stated on positions: at most one index covers) *)
Lemma cover_unique len vals p v w : wf_vals len vals -> In v vals -> In w vals ->
  cover p v = true -> cover p w = true -> v = w.
Proof.
  intros Hwf. pose proof (wf_sorted _ _ Hwf) as Hs. clear Hwf.
  induction Hs as [|a l Hsl IH Ha]; intros Hv Hw Cv Cw; [destruct Hv|].
  unfold cover in *. apply andb_true_iff in Cv as [Cv1 Cv2]. apply andb_true_iff in Cw as [Cw1 Cw2].
  apply N.leb_le in Cv1, Cw1. apply N.ltb_lt in Cv2, Cw2. rewrite Forall_forall in Ha. unfold before in Ha.
  destruct Hv as [<-|Hv]; destruct Hw as [<-|Hw]; try reflexivity.
  - specialize (Ha w Hw). exfalso. lia.
  - specialize (Ha v Hv). exfalso. lia.
  - apply IH; try assumption; unfold cover; apply andb_true_iff; split; try (apply N.leb_le; lia); apply N.ltb_lt; lia.
Qed.
