(* Proofs about Model/Indexer.v (index_chroms after the repair c270203):
   - do_index returns, between prev and next, a selection of the true line entries that keeps
     every change of chromosome (on a grouped file);
   - hence index_chroms on a grouped file of well-formed lines = the first line of every run;
   - the recursion depth limit is never reached when fsize^2 < 2^(limit-1);
   - Ok None is never returned (the final duplicate check compares the list with itself). *)
From BT Require Import Base.Util Model.Indexer.
Local Open Scope N_scope.
Ltac Zify.zify_post_hook ::= Z.div_mod_to_equations.

(* ------------------------------------------------------------------ sizes *)
Lemma fsize_nil : fsize [] = 0.
Proof. reflexivity. Qed.
Lemma fsize_cons l f : fsize (l :: f) = snd l + fsize f.
Proof. reflexivity. Qed.
Lemma fsize_app f g : fsize (f ++ g) = fsize f + fsize g.
Proof.
  induction f as [|l f IH]; cbn [app].
  - rewrite fsize_nil. lia.
  - rewrite !fsize_cons, IH. lia.
Qed.

Definition pos_len (l : line) : Prop := 1 <= snd l.

Lemma entries_app off a b : entries off (a ++ b) = entries off a ++ entries (off + fsize a) b.
Proof.
  revert off. induction a as [|l a IH]; intros off; cbn [app entries].
  - rewrite fsize_nil. f_equal. lia.
  - rewrite IH, fsize_cons. do 3 f_equal. lia.
Qed.

(* ------------------------------------------------------------------ result monad *)
Lemma rbind_ok_inv {X Y} (r : res X) (k : X -> res Y) y :
  rbind r k = Ok y -> exists x, r = Ok x /\ k x = Ok y.
Proof. destruct r; cbn; intros H; try discriminate. eauto. Qed.

(* ------------------------------------------------------------------ skip_line *)
Lemma skip_line_pre : forall pre g off pos,
  off + fsize pre <= pos -> skip_line (pre ++ g) off pos = skip_line g (off + fsize pre) pos.
Proof.
  induction pre as [|l pre IH]; intros g off pos H; cbn [app].
  - rewrite fsize_nil. f_equal. lia.
  - rewrite fsize_cons in *. cbn [skip_line].
    destruct (pos <? off + snd l) eqn:E.
    + apply N.ltb_lt in E. exfalso; lia.
    + rewrite IH by lia. f_equal. lia.
Qed.

Lemma skip_line_in : forall g post off pos,
  off <= pos -> pos < off + fsize g ->
  exists s1 s2, g = s1 ++ s2 /\ s1 <> [] /\ pos < off + fsize s1 /\
                off + fsize (removelast s1) <= pos /\
                skip_line (g ++ post) off pos = (off + fsize s1, s2 ++ post).
Proof.
  induction g as [|l g IH]; intros post off pos H1 H2.
  - rewrite fsize_nil in H2. exfalso; lia.
  - rewrite fsize_cons in H2. cbn [app skip_line].
    destruct (pos <? off + snd l) eqn:E.
    + apply N.ltb_lt in E. exists [l], g. cbn [removelast app].
      rewrite fsize_cons, !fsize_nil. repeat split; try lia; try discriminate.
      f_equal. lia.
    + apply N.ltb_ge in E.
      destruct (IH post (off + snd l) pos) as (s1 & s2 & Hg & Hne & Hlt & Hge & Hs); try lia.
      exists (l :: s1), s2. subst g. cbn [app].
      repeat split; try discriminate.
      * rewrite fsize_cons. lia.
      * destruct s1 as [|y s1]; [congruence|]. change (removelast (l :: y :: s1)) with (l :: removelast (y :: s1)).
        rewrite fsize_cons. lia.
      * rewrite Hs. f_equal. rewrite fsize_cons. lia.
Qed.

(* ------------------------------------------------------------------ selections *)
(* R is a sub-sequence of T; an element may be left out only if (on a grouped file, G) its
   chromosome is that of the element before it (c for the first) *)
Inductive Sel (G : Prop) : N -> list entry -> list entry -> Prop :=
| Sel_nil c : Sel G c [] []
| Sel_keep c x T R : Sel G (snd x) T R -> Sel G c (x :: T) (x :: R)
| Sel_skip c x T R : (G -> snd x = c) -> Sel G c T R -> Sel G c (x :: T) R.

Lemma Sel_dd (G : Prop) c T : Sel G c T (dd c T).
Proof.
  revert c. induction T as [|x T IH]; intros c; cbn [dd].
  - constructor.
  - destruct (snd x =? c) eqn:E.
    + apply N.eqb_eq in E. apply Sel_skip; auto.
    + apply Sel_keep; auto.
Qed.

Lemma Sel_app (G : Prop) c T1 R1 x T2 R2 :
  Sel G c T1 R1 -> Sel G (snd x) T2 R2 -> Sel G c (T1 ++ x :: T2) (R1 ++ x :: R2).
Proof.
  intros H1 H2. induction H1; cbn [app].
  - apply Sel_keep; auto.
  - apply Sel_keep; auto.
  - apply Sel_skip; auto.
Qed.

Lemma Sel_same (G : Prop) c T : (G -> Forall (fun x => snd x = c) T) -> Sel G c T [].
Proof.
  induction T as [|x T IH]; intros H.
  - constructor.
  - apply Sel_skip.
    + intros g. specialize (H g). inversion H; auto.
    + apply IH. intros g. specialize (H g). inversion H; auto.
Qed.

Lemma dd_Sel (G : Prop) c T R : G -> Sel G c T R -> dd c R = dd c T.
Proof.
  intros g H. induction H; cbn [dd].
  - reflexivity.
  - destruct (snd x =? c) eqn:E.
    + apply N.eqb_eq in E. rewrite <- E. auto.
    + f_equal. auto.
  - rewrite (H g), N.eqb_refl. auto.
Qed.

Lemma dd_idem : forall l c, dd c (dd c l) = dd c l.
Proof.
  induction l as [|x l IH]; intros c; cbn [dd]; auto.
  destruct (snd x =? c) eqn:E; auto.
  cbn [dd]. rewrite E, IH. reflexivity.
Qed.

(* offsets increase strictly, from lo on *)
Fixpoint inc_from (lo : N) (l : list entry) : Prop :=
  match l with [] => True | x :: r => lo <= fst x /\ inc_from (fst x + 1) r end.

Lemma inc_from_weaken : forall l lo lo', lo' <= lo -> inc_from lo l -> inc_from lo' l.
Proof. destruct l; cbn [inc_from]; intros; auto. destruct H0. split; auto. lia. Qed.

Lemma inc_from_entries : forall f off, Forall pos_len f -> inc_from off (entries off f).
Proof.
  induction f as [|l f IH]; intros off H; cbn [entries inc_from]; auto.
  inversion H as [|? ? Hl Hf]; subst. cbn [fst]. split; [lia|].
  apply inc_from_weaken with (lo := off + snd l); [unfold pos_len in Hl; lia|]. auto.
Qed.

Lemma inc_from_Sel (G : Prop) c T R : Sel G c T R -> forall lo, inc_from lo T -> inc_from lo R.
Proof.
  induction 1; intros lo HT; cbn [inc_from] in *; auto.
  - destruct HT; split; auto.
  - destruct HT as [H1 H2]. apply IHSel. eapply inc_from_weaken; [|exact H2]. lia.
Qed.

Lemma inc_from_dd : forall l c lo, inc_from lo l -> inc_from lo (dd c l).
Proof. intros. eapply inc_from_Sel; [apply (Sel_dd True)|]; eauto. Qed.

Lemma inc_from_app : forall l1 x l2 lo,
  inc_from lo l1 -> (forall y, In y l1 -> fst y < fst x) -> lo <= fst x -> inc_from (fst x + 1) l2 ->
  inc_from lo (l1 ++ x :: l2).
Proof.
  induction l1 as [|y l1 IH]; intros x l2 lo H1 H2 H3 H4; cbn [app inc_from] in *; auto.
  destruct H1 as [Ha Hb]. split; auto. apply IH; auto.
  - intros z Hz. apply H2. right; auto.
  - assert (fst y < fst x) by (apply H2; left; auto). lia.
Qed.

Lemma sort_inc : forall l lo, inc_from lo l -> sort_entries l = l.
Proof.
  induction l as [|x l IH]; intros lo H; auto.
  cbn [inc_from] in H. destruct H as [H1 H2].
  unfold sort_entries in *. cbn [fold_right]. rewrite (IH _ H2).
  destruct l as [|y l]; auto. cbn [insert_sorted inc_from] in *.
  unfold entry_leb. destruct H2 as [H2 _].
  assert (E : fst x <? fst y = true) by (apply N.ltb_lt; lia). rewrite E. reflexivity.
Qed.

(* ------------------------------------------------------------------ the linear scan *)
Definition chrom_ok (l : line) : bool := negb (fst l =? 0).

Lemma scan_seg_spec : forall seg post tell lastc,
  Forall pos_len seg ->
  scan_seg (seg ++ post) tell (tell + fsize seg) lastc =
  if forallb chrom_ok seg then Ok (dd lastc (entries tell seg)) else Err 1.
Proof.
  induction seg as [|l seg IH]; intros post tell lastc H.
  - cbn [app forallb entries dd]. rewrite fsize_nil.
    destruct post as [|l r]; cbn [scan_seg]; auto.
    replace (tell <? tell + 0) with false; auto. symmetry; apply N.ltb_ge; lia.
  - inversion H as [|? ? Hl Hf]; subst. unfold pos_len in Hl.
    cbn [app scan_seg forallb entries dd]. rewrite fsize_cons.
    replace (tell <? tell + (snd l + fsize seg)) with true by (symmetry; apply N.ltb_lt; lia).
    unfold chrom_ok at 1. cbn [snd fst].
    destruct (fst l =? 0) eqn:E0; cbn [negb andb]; auto.
    replace (tell + (snd l + fsize seg)) with ((tell + snd l) + fsize seg) by lia.
    destruct (fst l =? lastc) eqn:Ec.
    + rewrite IH by auto. reflexivity.
    + rewrite IH by auto. destruct (forallb chrom_ok seg); reflexivity.
Qed.

(* ------------------------------------------------------------------ do_index, one level *)
Lemma do_index_unfold lim f fs prev next nt tell rest scanr :
  match next with Some n => fst n | None => fs end = nt ->
  skip_line f 0 ((nt + fst prev) / 2) = (tell, rest) ->
  (let '(t0, rest0) := skip_line f 0 (fst prev) in scan_seg rest0 t0 nt (snd prev)) = scanr ->
  do_index (S lim) f fs prev next =
    do pc <- parse_next rest;
    match pc with
    | Some c =>
        if tell <? nt then
          do L <- (if negb (c =? snd prev) && (tell <? nt)
                   then do_index lim f fs prev (Some (tell, c)) else Ok []);
          do R <- (if match next with
                      | Some n => negb (c =? snd n) && (tell <? fst n)
                      | None => true
                      end
                   then do_index lim f fs (tell, c) next else Ok []);
          Ok (L ++ (tell, c) :: R)
        else scanr
    | None => scanr
    end.
Proof.
  intros <- H1 H2.
  change (do_index (S lim) f fs prev next) with
    (let next_tell := match next with Some n => fst n | None => fs end in
      let mid := (next_tell + fst prev) / 2 in
      let '(tell, rest) := skip_line f 0 mid in
      let scan := let '(t0, rest0) := skip_line f 0 (fst prev) in scan_seg rest0 t0 next_tell (snd prev) in
      do pc <- parse_next rest;
      match pc with
      | Some c =>
          if tell <? next_tell then
            let curr := (tell, c) in
            let left := negb (c =? snd prev) && (tell <? next_tell) in
            let right := match next with
                         | Some n => negb (c =? snd n) && (tell <? fst n)
                         | None => true
                         end in
            do L <- (if left then do_index lim f fs prev (Some curr) else Ok []);
            do R <- (if right then do_index lim f fs curr next else Ok []);
            Ok (L ++ curr :: R)
          else scan
      | None => scan
      end).
  cbv zeta. rewrite H1. rewrite H2. reflexivity.
Qed.

(* ------------------------------------------------------------------ do_index: what it returns *)
(* the right boundary of a call on the lines pre ++ l0 :: seg, followed by post *)
Definition nextok (next : option entry) (post : file) (nt : N) : Prop :=
  match next with
  | Some n => exists ln post', post = ln :: post' /\ n = (nt, fst ln)
  | None => post = []
  end.

Lemma Forall_mid {X} (P : X -> Prop) a x b : Forall P (a ++ x :: b) -> Forall P a /\ P x /\ Forall P b.
Proof.
  intros H. apply Forall_app in H. destruct H as [Ha Hb]. inversion Hb; subst. auto.
Qed.

Lemma next_tell_eq f pre l0 seg post next :
  f = pre ++ l0 :: seg ++ post -> nextok next post (fsize pre + snd l0 + fsize seg) ->
  match next with Some n => fst n | None => fsize f end = fsize pre + snd l0 + fsize seg.
Proof.
  intros Hf Hn. destruct next as [n|]; cbn [nextok] in Hn.
  - destruct Hn as (ln & post' & _ & ->). reflexivity.
  - subst post f. rewrite fsize_app, fsize_cons, fsize_app, fsize_nil. lia.
Qed.

(* the scan branch *)
Lemma scan_branch f pre l0 seg post nt :
  f = pre ++ l0 :: seg ++ post -> Forall pos_len f -> nt = fsize pre + snd l0 + fsize seg ->
  (let '(t0, rest0) := skip_line f 0 (fst (fsize pre, fst l0)) in
   scan_seg rest0 t0 nt (snd (fsize pre, fst l0))) =
  if forallb chrom_ok seg then Ok (dd (fst l0) (entries (fsize pre + snd l0) seg)) else Err 1.
Proof.
  intros Hf Hpos Hnt. cbn [fst snd]. subst f.
  apply Forall_mid in Hpos. destruct Hpos as (_ & Hl0 & Hrest). unfold pos_len in Hl0.
  apply Forall_app in Hrest. destruct Hrest as [Hseg _].
  rewrite skip_line_pre by lia. cbn [skip_line].
  replace (fsize pre <? 0 + fsize pre + snd l0) with true by (symmetry; apply N.ltb_lt; lia).
  subst nt. replace (0 + fsize pre + snd l0) with (fsize pre + snd l0) by lia.
  apply scan_seg_spec; auto.
Qed.

Lemma do_index_sound : forall limit f, Forall pos_len f ->
  forall pre l0 seg post next R,
  f = pre ++ l0 :: seg ++ post ->
  nextok next post (fsize pre + snd l0 + fsize seg) ->
  do_index limit f (fsize f) (fsize pre, fst l0) next = Ok R ->
  Sel (grouped f) (fst l0) (entries (fsize pre + snd l0) seg) R.
Proof.
  induction limit as [|lim IH]; intros f Hpos pre l0 seg post next R Hf Hn Hd.
  - cbn in Hd. discriminate.
  - pose proof (next_tell_eq _ _ _ _ _ _ Hf Hn) as Hnt.
    set (po := fsize pre) in *. set (nt := po + snd l0 + fsize seg) in *.
    assert (Hpieces := Hpos). rewrite Hf in Hpieces.
    apply Forall_mid in Hpieces. destruct Hpieces as (_ & Hl0 & Hrest). unfold pos_len in Hl0.
    apply Forall_app in Hrest. destruct Hrest as [Hseg Hpost].
    (* the probe *)
    set (mid := (nt + po) / 2).
    assert (Hmid : po <= mid /\ mid < nt) by (unfold mid, nt; lia).
    destruct (skip_line_in (l0 :: seg) post (0 + po) mid) as (s1 & s2 & Hg & Hne & Hlt & _ & Hs);
      [lia | rewrite fsize_cons; unfold nt in Hmid; lia |].
    destruct s1 as [|l0' sL]; [congruence|]. cbn [app] in Hg. injection Hg as <- Hseg'.
    assert (Hskip : skip_line f 0 mid = (po + fsize (l0 :: sL), s2 ++ post)).
    { rewrite Hf. change (pre ++ l0 :: seg ++ post) with (pre ++ (l0 :: seg) ++ post).
      rewrite skip_line_pre by (fold po; lia). fold po. rewrite Hs. f_equal; lia. }
    pose proof (scan_branch f pre l0 seg post nt Hf Hpos eq_refl) as Hscan. fold po in Hscan.
    rewrite (do_index_unfold lim f (fsize f) (po, fst l0) next nt _ _ _ Hnt Hskip Hscan) in Hd.
    cbn [fst snd] in Hd.
    set (tell := po + fsize (l0 :: sL)) in *.
    assert (Hscan_ok : forall R', (if forallb chrom_ok seg
                         then Ok (dd (fst l0) (entries (po + snd l0) seg)) else Err 1) = Ok R' ->
                       Sel (grouped f) (fst l0) (entries (po + snd l0) seg) R').
    { intros R' H. destruct (forallb chrom_ok seg); [|discriminate].
      injection H as <-. apply Sel_dd. }
    apply rbind_ok_inv in Hd. destruct Hd as (pc & Hpc & Hd).
    destruct pc as [c|]; [|apply Hscan_ok; exact Hd].
    destruct (tell <? nt) eqn:Etell; [|apply Hscan_ok; exact Hd].
    apply N.ltb_lt in Etell.
    (* the probe found a line lc strictly inside the segment *)
    destruct s2 as [|lc s2'].
    { exfalso. rewrite app_nil_r in Hseg'. subst seg. unfold tell, nt in Etell.
      rewrite fsize_cons in Etell. lia. }
    cbn [app parse_next] in Hpc.
    destruct (fst lc =? 0) eqn:E0; [discriminate|]. injection Hpc as <-.
    cbn [andb] in Hd.
    apply rbind_ok_inv in Hd. destruct Hd as (Lr & HL & Hd).
    apply rbind_ok_inv in Hd. destruct Hd as (Rr & HR & Hd).
    injection Hd as <-.
    subst seg. rewrite entries_app. cbn [entries].
    assert (Htell : po + snd l0 + fsize sL = tell) by (unfold tell; rewrite fsize_cons; lia).
    rewrite Htell.
    assert (Hf1 : f = pre ++ l0 :: sL ++ lc :: (s2' ++ post)).
    { rewrite Hf. rewrite <- app_assoc. reflexivity. }
    assert (Hf2 : f = (pre ++ l0 :: sL) ++ lc :: s2' ++ post).
    { rewrite Hf1. rewrite <- app_assoc. reflexivity. }
    assert (Hpre2 : fsize (pre ++ l0 :: sL) = tell).
    { rewrite fsize_app. reflexivity. }
    change (tell, fst lc) with ((fun e : entry => e) (tell, fst lc)).
    apply (Sel_app (grouped f) (fst l0) _ Lr (tell, fst lc) _ Rr).
    + (* left part *)
      destruct (negb (fst lc =? fst l0) && true) eqn:EL.
      * apply (IH f Hpos pre l0 sL (lc :: s2' ++ post) (Some (tell, fst lc)) Lr Hf1).
        -- cbn [nextok]. exists lc, (s2' ++ post). split; auto. fold po. rewrite Htell. reflexivity.
        -- exact HL.
      * injection HL as <-. apply Sel_same. intros g.
        rewrite andb_true_r in EL. apply negb_false_iff in EL. apply N.eqb_eq in EL.
        assert (Hall : forall x, In x sL -> fst x = fst l0).
        { intros x Hx. apply (g pre l0 sL lc (s2' ++ post) Hf1); auto. }
        clear -Hall. revert Hall. generalize (po + snd l0). induction sL as [|y sL IHs]; intros off Hall; cbn [entries]; constructor.
        -- cbn [snd]. apply Hall. left; auto.
        -- apply IHs. intros x Hx. apply Hall. right; auto.
    + (* right part *)
      cbn [snd].
      assert (HIR : do_index lim f (fsize f) (tell, fst lc) next = Ok Rr ->
                    Sel (grouped f) (fst lc) (entries (tell + snd lc) s2') Rr).
      { intros HR'. rewrite <- Hpre2 in HR'. rewrite <- Hpre2.
        apply (IH f Hpos (pre ++ l0 :: sL) lc s2' post next Rr Hf2).
        - rewrite Hpre2. unfold nt in Hn. rewrite fsize_app, fsize_cons in Hn.
          replace (tell + snd lc + fsize s2') with (po + snd l0 + (fsize sL + (snd lc + fsize s2'))) by (rewrite <- Htell; lia).
          exact Hn.
        - exact HR'. }
      destruct next as [n|]; [|apply HIR; exact HR].
      destruct (negb (fst lc =? snd n) && (tell <? fst n)) eqn:ER; [apply HIR; exact HR|].
      injection HR as <-. apply Sel_same. intros g.
      cbn [nextok] in Hn. destruct Hn as (ln & post' & Hpost' & Hn). subst n. cbn [fst snd] in ER.
      replace (tell <? nt) with true in ER by (symmetry; apply N.ltb_lt; lia).
      rewrite andb_true_r in ER. apply negb_false_iff in ER. apply N.eqb_eq in ER.
      assert (Hall : forall x, In x s2' -> fst x = fst lc).
      { intros x Hx. subst post. apply (g (pre ++ l0 :: sL) lc s2' ln post' Hf2); auto. }
      clear -Hall. revert Hall. generalize (tell + snd lc).
      induction s2' as [|y s2' IHs]; intros off Hall; cbn [entries]; constructor.
      * cbn [snd]. apply Hall. left; auto.
      * apply IHs. intros x Hx. apply Hall. right; auto.
Qed.

(* ------------------------------------------------------------------ index_chroms: what an Ok result is *)
Lemma index_chroms_ok : forall limit f r, Forall pos_len f ->
  index_chroms limit f = Ok r ->
  exists l0 t ins, f = l0 :: t /\
    Sel (grouped f) (fst l0) (entries (snd l0) t) ins /\
    r = Some ((0, fst l0) :: dd (fst l0) ins).
Proof.
  intros limit f r Hpos H. unfold index_chroms in H.
  destruct f as [|l0 t]; [discriminate|].
  destruct (fst l0 =? 0); [discriminate|].
  apply rbind_ok_inv in H. destruct H as (ins & Hins & H).
  assert (HS : Sel (grouped (l0 :: t)) (fst l0) (entries (snd l0) t) ins).
  { apply (do_index_sound limit (l0 :: t) Hpos [] l0 t [] None ins).
    - cbn [app]. rewrite app_nil_r. reflexivity.
    - reflexivity.
    - exact Hins. }
  exists l0, t, ins. split; [reflexivity|]. split; [exact HS|].
  cbn [dedup_chrom snd] in H.
  assert (Hinc : inc_from 0 (@cons entry (0, fst l0) (dd (fst l0) ins))).
  { cbn [inc_from fst]. split; [lia|].
    apply inc_from_dd. eapply inc_from_Sel; [exact HS|].
    inversion Hpos as [|? ? Hl Ht]; subst. unfold pos_len in Hl.
    apply inc_from_weaken with (lo := snd l0); [lia|]. apply inc_from_entries; auto. }
  rewrite (sort_inc _ _ Hinc) in H.
  cbn [dedup_chrom snd] in H. rewrite dd_idem, Nat.eqb_refl in H. injection H as <-. reflexivity.
Qed.

(* the "not grouped" answer is unreachable: the list is sorted by offset already, so the sorted and
   deduplicated copy it is compared with is the list itself *)
Lemma index_chroms_never_none : forall limit f, Forall pos_len f -> index_chroms limit f <> Ok None.
Proof.
  intros limit f Hpos H. destruct (index_chroms_ok limit f None Hpos H) as (? & ? & ? & _ & _ & E).
  discriminate.
Qed.

Lemma run_starts_cons l0 t : run_starts (l0 :: t) = (0, fst l0) :: dd (fst l0) (entries (snd l0) t).
Proof. reflexivity. Qed.

(* on a grouped file an Ok answer is the first line of every run *)
Lemma index_chroms_grouped_ok : forall limit f r, Forall pos_len f -> grouped f ->
  index_chroms limit f = Ok r -> r = Some (run_starts f).
Proof.
  intros limit f r Hpos Hg H.
  destruct (index_chroms_ok limit f r Hpos H) as (l0 & t & ins & -> & HS & ->).
  rewrite run_starts_cons. rewrite (dd_Sel _ _ _ _ Hg HS). reflexivity.
Qed.

(* ------------------------------------------------------------------ the depth limit is not reached *)
Lemma wf_pos f : Forall wf_line f -> Forall pos_len f.
Proof. apply Forall_impl. intros l [_ H]. exact H. Qed.
Lemma wf_chrom_ok f : Forall wf_line f -> forallb chrom_ok f = true.
Proof.
  intros H. apply forallb_forall. intros l Hl. rewrite Forall_forall in H.
  destruct (H l Hl) as [H0 _]. unfold chrom_ok. apply negb_true_iff. apply N.eqb_neq. exact H0.
Qed.

(* measure of a call: (bytes of the segment) * (bytes before its last line) *)
Definition psi (g : file) : N := fsize g * fsize (removelast g).

(* one level of do_index on well-formed lines: it answers by itself (scan), or it splits the
   segment in two parts whose measures are at most half of its own *)
Lemma do_index_step : forall m f, Forall wf_line f ->
  forall pre l0 seg post next,
  f = pre ++ l0 :: seg ++ post ->
  nextok next post (fsize pre + snd l0 + fsize seg) ->
  (exists R, do_index (S m) f (fsize f) (fsize pre, fst l0) next = Ok R) \/
  (exists sL lc s2' cL cR,
     seg = sL ++ lc :: s2' /\
     do_index (S m) f (fsize f) (fsize pre, fst l0) next =
       (do L <- (if cL : bool then do_index m f (fsize f) (fsize pre, fst l0)
                                    (Some (fsize pre + fsize (l0 :: sL), fst lc)) else Ok []);
        do R <- (if cR : bool then do_index m f (fsize f) (fsize pre + fsize (l0 :: sL), fst lc) next
                 else Ok []);
        Ok (L ++ (fsize pre + fsize (l0 :: sL), fst lc) :: R)) /\
     2 * psi (l0 :: sL) <= psi (l0 :: seg) /\
     2 * psi (lc :: s2') <= psi (l0 :: seg) /\
     1 <= psi (l0 :: seg)).
Proof.
  intros m f Hwf pre l0 seg post next Hf Hn.
  pose proof (wf_pos _ Hwf) as Hpos.
  pose proof (next_tell_eq _ _ _ _ _ _ Hf Hn) as Hnt.
  set (po := fsize pre) in *. set (nt := po + snd l0 + fsize seg) in *.
  assert (Hpieces := Hwf). rewrite Hf in Hpieces.
  apply Forall_mid in Hpieces. destruct Hpieces as (_ & Hl0 & Hrest).
  apply Forall_app in Hrest. destruct Hrest as [Hseg Hpost].
  destruct Hl0 as [Hc0 Hl0].
  set (mid := (nt + po) / 2).
  assert (Hmid : po <= mid /\ mid < nt) by (unfold mid, nt; lia).
  destruct (skip_line_in (l0 :: seg) post (0 + po) mid) as (s1 & s2 & Hg & Hne & Hlt & Hge & Hs);
    [lia | rewrite fsize_cons; unfold nt in Hmid; lia |].
  destruct s1 as [|l0' sL]; [congruence|]. cbn [app] in Hg. injection Hg as <- Hseg'.
  assert (Hskip : skip_line f 0 mid = (po + fsize (l0 :: sL), s2 ++ post)).
  { rewrite Hf. change (pre ++ l0 :: seg ++ post) with (pre ++ (l0 :: seg) ++ post).
    rewrite skip_line_pre by (fold po; lia). fold po. rewrite Hs. f_equal; lia. }
  pose proof (scan_branch f pre l0 seg post nt Hf Hpos eq_refl) as Hscan. fold po in Hscan.
  rewrite (wf_chrom_ok _ Hseg) in Hscan.
  rewrite (do_index_unfold m f (fsize f) (po, fst l0) next nt _ _ _ Hnt Hskip Hscan).
  cbn [fst snd].
  destruct s2 as [|lc s2'].
  - (* the probe fell into the last line of the segment *)
    left. cbn [app].
    assert (Etell : po + fsize (l0 :: sL) <? nt = false).
    { apply N.ltb_ge. rewrite app_nil_r in Hseg'. subst seg. unfold nt. rewrite fsize_cons. lia. }
    destruct next as [n|]; cbn [nextok] in Hn.
    + destruct Hn as (ln & post' & -> & ->). cbn [parse_next].
      inversion Hpost as [|? ? [Hcn _] _]; subst.
      replace (fst ln =? 0) with false by (symmetry; apply N.eqb_neq; exact Hcn).
      cbn [rbind]. rewrite Etell. eauto.
    + subst post. cbn [parse_next rbind]. eauto.
  - right. cbn [app parse_next].
    assert (Hseg2 := Hseg). rewrite Hseg' in Hseg2.
    apply Forall_mid in Hseg2. destruct Hseg2 as (HsL & [Hcc Hlc] & Hs2').
    replace (fst lc =? 0) with false by (symmetry; apply N.eqb_neq; exact Hcc).
    cbn [rbind].
    assert (HD : fsize (l0 :: seg) = fsize (l0 :: sL) + fsize (lc :: s2')).
    { rewrite Hseg'. change (l0 :: sL ++ lc :: s2') with ((l0 :: sL) ++ lc :: s2'). apply fsize_app. }
    assert (HE : fsize (removelast (l0 :: seg)) = fsize (l0 :: sL) + fsize (removelast (lc :: s2'))).
    { rewrite Hseg'. change (l0 :: sL ++ lc :: s2') with ((l0 :: sL) ++ lc :: s2').
      rewrite removelast_app by discriminate. apply fsize_app. }
    assert (Hnt' : nt = po + fsize (l0 :: seg)) by (unfold nt; rewrite fsize_cons; lia).
    assert (Hlast : fsize (removelast (lc :: s2')) + 1 <= fsize (lc :: s2')).
    { clear -Hlc Hs2'. revert lc Hlc. induction s2' as [|y s2' IHs]; intros lc Hlc.
      - cbn [removelast]. rewrite fsize_cons, !fsize_nil. lia.
      - change (removelast (lc :: y :: s2')) with (lc :: removelast (y :: s2')).
        rewrite !(fsize_cons lc). inversion Hs2' as [|? ? [_ Hy] Hs2'']; subst.
        specialize (IHs Hs2'' y Hy). lia. }
    assert (Etell : po + fsize (l0 :: sL) <? nt = true).
    { apply N.ltb_lt. rewrite Hnt', HD. rewrite (fsize_cons lc). lia. }
    rewrite Etell.
    exists sL, lc, s2'. eexists. eexists. split; [exact Hseg'|]. split; [reflexivity|].
    unfold psi. rewrite HD, HE.
    set (DL := fsize (l0 :: sL)) in *. set (EL := fsize (removelast (l0 :: sL))) in *.
    set (DR := fsize (lc :: s2')) in *. set (ER := fsize (removelast (lc :: s2'))) in *.
    assert (HDL : 1 <= DL) by (unfold DL; rewrite fsize_cons; lia).
    set (D := DL + DR) in *. set (h := D / 2).
    assert (Hmid' : mid = po + h) by (unfold mid, h; rewrite Hnt', HD; fold D; lia).
    assert (H2h : 2 * h <= D /\ D <= 2 * h + 1) by (unfold h; lia).
    assert (HELh : EL <= h) by lia.
    assert (HDLh : h < DL) by lia.
    repeat split.
    + assert (DL * EL <= (DL + ER) * h) by (apply N.mul_le_mono; lia).
      assert ((DL + ER) * (2 * h) <= (DL + ER) * D) by (apply N.mul_le_mono_l; lia).
      lia.
    + assert (DR * ER <= h * (DL + ER)) by (apply N.mul_le_mono; lia).
      assert ((2 * h) * (DL + ER) <= D * (DL + ER)) by (apply N.mul_le_mono_r; lia).
      lia.
    + assert (1 * 1 <= D * (DL + ER)) by (apply N.mul_le_mono; lia). lia.
Qed.

Lemma do_index_total : forall lim f, Forall wf_line f ->
  forall pre l0 seg post next,
  f = pre ++ l0 :: seg ++ post ->
  nextok next post (fsize pre + snd l0 + fsize seg) ->
  psi (l0 :: seg) < 2 ^ N.of_nat lim ->
  exists R, do_index (S lim) f (fsize f) (fsize pre, fst l0) next = Ok R.
Proof.
  induction lim as [|lim IH]; intros f Hwf pre l0 seg post next Hf Hn Hpsi.
  - destruct (do_index_step 0 f Hwf pre l0 seg post next Hf Hn)
      as [HR | (sL & lc & s2' & cL & cR & _ & _ & _ & _ & H1)]; auto.
    exfalso. change (2 ^ N.of_nat 0) with 1 in Hpsi. lia.
  - destruct (do_index_step (S lim) f Hwf pre l0 seg post next Hf Hn)
      as [HR | (sL & lc & s2' & cL & cR & Hseg' & Heq & HpL & HpR & _)]; auto.
    rewrite Heq.
    assert (Hpow : 2 ^ N.of_nat (S lim) = 2 * 2 ^ N.of_nat lim)
      by (rewrite Nnat.Nat2N.inj_succ, N.pow_succ_r'; reflexivity).
    rewrite Hpow in Hpsi.
    assert (Hf1 : f = pre ++ l0 :: sL ++ lc :: (s2' ++ post)).
    { rewrite Hf, Hseg'. rewrite <- app_assoc. reflexivity. }
    assert (Hf2 : f = (pre ++ l0 :: sL) ++ lc :: s2' ++ post).
    { rewrite Hf1. rewrite <- app_assoc. reflexivity. }
    assert (HL : exists Lr, (if cL then do_index (S lim) f (fsize f) (fsize pre, fst l0)
                                      (Some (fsize pre + fsize (l0 :: sL), fst lc)) else Ok []) = Ok Lr).
    { destruct cL; [|eauto].
      apply (IH f Hwf pre l0 sL (lc :: s2' ++ post) _ Hf1).
      - cbn [nextok]. exists lc, (s2' ++ post). split; auto. rewrite fsize_cons. f_equal. lia.
      - lia. }
    destruct HL as [Lr HL]. rewrite HL. cbn [rbind].
    assert (HR : exists Rr, (if cR then do_index (S lim) f (fsize f)
                                      (fsize pre + fsize (l0 :: sL), fst lc) next else Ok []) = Ok Rr).
    { destruct cR; [|eauto].
      replace (fsize pre + fsize (l0 :: sL)) with (fsize (pre ++ l0 :: sL)) by apply fsize_app.
      apply (IH f Hwf (pre ++ l0 :: sL) lc s2' post next Hf2).
      - rewrite Hseg' in Hn. rewrite !fsize_app, !fsize_cons in *.
        replace (fsize pre + (snd l0 + fsize sL) + snd lc + fsize s2')
          with (fsize pre + snd l0 + (fsize sL + (snd lc + fsize s2'))) by lia.
        exact Hn.
      - lia. }
    destruct HR as [Rr HR]. rewrite HR. cbn [rbind]. eauto.
Qed.

Lemma fsize_removelast_le : forall g, fsize (removelast g) <= fsize g.
Proof.
  induction g as [|l g IH]; [cbn; lia|].
  destruct g as [|y g]; [cbn [removelast]; rewrite fsize_cons, !fsize_nil; lia|].
  change (removelast (l :: y :: g)) with (l :: removelast (y :: g)).
  rewrite !(fsize_cons l). lia.
Qed.

Lemma index_chroms_total : forall lim f, f <> [] -> Forall wf_line f ->
  psi f < 2 ^ N.of_nat lim -> exists r, index_chroms (S lim) f = Ok r.
Proof.
  intros lim f Hne Hwf Hpsi. destruct f as [|l0 t]; [congruence|].
  unfold index_chroms. inversion Hwf as [|? ? [Hc0 _] _]; subst.
  replace (fst l0 =? 0) with false by (symmetry; apply N.eqb_neq; exact Hc0).
  destruct (do_index_total lim (l0 :: t) Hwf [] l0 t [] None) as [ins Hins].
  - cbn [app]. rewrite app_nil_r. reflexivity.
  - reflexivity.
  - exact Hpsi.
  - change (fsize [], fst l0) with (0, fst l0) in Hins. rewrite Hins. cbn [rbind].
    match goal with |- context [if ?c then _ else _] => destruct c end; eauto.
Qed.

(* the full statement for a general depth limit S lim *)
Lemma index_chroms_grouped : forall lim f, f <> [] -> Forall wf_line f -> grouped f ->
  fsize f * fsize f < 2 ^ N.of_nat lim ->
  index_chroms (S lim) f = Ok (Some (run_starts f)).
Proof.
  intros lim f Hne Hwf Hg Hsz.
  destruct (index_chroms_total lim f Hne Hwf) as [r Hr].
  - unfold psi. pose proof (fsize_removelast_le f).
    assert (fsize f * fsize (removelast f) <= fsize f * fsize f) by (apply N.mul_le_mono_l; auto). lia.
  - rewrite Hr. f_equal. apply (index_chroms_grouped_ok (S lim) f r (wf_pos _ Hwf) Hg Hr).
Qed.

(* with the literal limit 100 of the code: every file below 2^49 bytes (512 TiB) *)
Lemma index_chroms_grouped_100 : forall f, f <> [] -> Forall wf_line f -> grouped f ->
  fsize f < 2 ^ 49 -> index_chroms depth_limit f = Ok (Some (run_starts f)).
Proof.
  intros f Hne Hwf Hg Hsz. change depth_limit with (S 99).
  apply index_chroms_grouped; auto.
  change (N.of_nat 99) with 99.
  assert (fsize f * fsize f < 2 ^ 49 * 2 ^ 49) by (apply N.mul_lt_mono; auto).
  assert (E : 2 ^ 49 * 2 ^ 49 < 2 ^ 99) by (vm_compute; reflexivity).
  lia.
Qed.

Lemma index_chroms_none_not_grouped : forall limit f, Forall pos_len f ->
  index_chroms limit f = Ok None -> ~ grouped f.
Proof. intros limit f Hpos H _. exact (index_chroms_never_none limit f Hpos H). Qed.

(* ------------------------------------------------------------------ groupedb decides grouped *)
Lemma drop_chrom_hit : forall m b s c, fst b = c -> (exists x, In x m /\ fst x <> c) ->
  existsb (fun y => fst y =? c) (drop_chrom c (m ++ b :: s)) = true.
Proof.
  induction m as [|y m IH]; intros b s c Hb [x [Hx Hne]].
  - destruct Hx.
  - cbn [app drop_chrom]. destruct (fst y =? c) eqn:E.
    + apply N.eqb_eq in E. apply IH; auto. exists x. split; auto.
      destruct Hx as [->|Hx]; auto. congruence.
    + apply existsb_exists. exists b. split; [|apply N.eqb_eq; auto].
      right. apply in_or_app. right. left. reflexivity.
Qed.

Lemma drop_chrom_in : forall r c y, In y (drop_chrom c r) -> fst y = c ->
  exists m1 x m2 s, r = m1 ++ x :: m2 ++ y :: s /\ fst x <> c.
Proof.
  induction r as [|z r IH]; intros c y Hy Hc; cbn [drop_chrom] in Hy; [destruct Hy|].
  destruct (fst z =? c) eqn:E.
  - destruct (IH c y Hy Hc) as (m1 & x & m2 & s & -> & Hx).
    exists (z :: m1), x, m2, s. split; auto.
  - apply N.eqb_neq in E. destruct Hy as [->|Hy]; [congruence|].
    apply in_split in Hy. destruct Hy as (m2 & s & ->).
    exists [], z, m2, s. split; auto.
Qed.

Lemma grouped_tail l r : grouped (l :: r) -> grouped r.
Proof. intros H p a m b s Hr. apply (H (l :: p) a m b s). rewrite Hr. reflexivity. Qed.

Lemma groupedb_sound : forall f, groupedb f = true -> grouped f.
Proof.
  induction f as [|l r IH]; intros H p a m b s Hdec Hab x Hx.
  - destruct p; discriminate.
  - cbn [groupedb] in H. apply andb_true_iff in H. destruct H as [H1 H2].
    destruct p as [|y p]; cbn [app] in Hdec.
    + injection Hdec as Ha Hr. subst a r.
      destruct (N.eq_dec (fst x) (fst l)) as [E|E]; auto.
      exfalso. apply negb_true_iff in H1.
      rewrite drop_chrom_hit in H1; [discriminate|congruence|eauto].
    + injection Hdec as Hy Hr. subst y r. apply (IH H2 p a m b s eq_refl Hab x Hx).
Qed.

Lemma groupedb_complete : forall f, grouped f -> groupedb f = true.
Proof.
  induction f as [|l r IH]; intros H; auto.
  cbn [groupedb]. apply andb_true_iff. split; [|apply IH; eapply grouped_tail; eauto].
  apply negb_true_iff. destruct (existsb _ _) eqn:E; auto.
  exfalso. apply existsb_exists in E. destruct E as (y & Hy & Hc). apply N.eqb_eq in Hc.
  destruct (drop_chrom_in r (fst l) y Hy Hc) as (m1 & x & m2 & s & -> & Hx).
  apply Hx. apply (H [] l (m1 ++ x :: m2) y s).
  - cbn [app]. rewrite <- app_assoc. reflexivity.
  - congruence.
  - apply in_or_app. right. left. reflexivity.
Qed.
