(* C02 / C04 at the level of the written bytes, data and index region:
   an image that holds the encoded sections of a bigBed contiguously at [pre_data] and the index the
   writer lays out for them at [index_off], queried through the reader (index search by pointer
   chasing, block read, record decode, per-entry filter), answers every range query with exactly the
   filter of the chromosome's entries, in stored order.  Built from C05 (search on the index bytes =
   scan of the sections), the section codec (Proofs/BedCodec.v) and the list-level argument
   (Proofs/BedQuery.v: a skipped block holds nothing the filter keeps, because its span ends at the
   LARGEST end). *)
From Coq Require Import Sorting.Sorted.
From BT Require Import Base.Util Base.LE Base.Float Generated.Consts Model.RTree Model.BBIFile Model.BigWigWrite Model.BBIRead
  Model.BigBedWrite Model.BBIReadBed Proofs.Chunks Proofs.RTreeAbs Proofs.RTreeBuild Proofs.RTreeCodec
  Proofs.RTreeLayout Proofs.BedQuery Proofs.BedCodec.
Local Open Scope N_scope.

(* one data section: chromosome id and its entries *)
Notation gsec := (N * list entry)%type (only parsing).
Definition sd_of (g : gsec) : sdata :=
  match snd g with
  | [] => {| sd_chrom := fst g; sd_start := 0; sd_end := 0; sd_bytes := [] |}
  | f :: r => {| sd_chrom := fst g; sd_start := e_start f; sd_end := max_end f r;
                 sd_bytes := flat_map (entry_bytes (fst g)) (snd g) |}
  end.
Lemma encode_sd c items : items <> [] -> encode_bed_section c items = Ok (sd_of (c, items)).
Proof. destruct items as [|f r]; [congruence|reflexivity]. Qed.
Lemma sd_of_bytes g : sd_bytes (sd_of g) = flat_map (entry_bytes (fst g)) (snd g).
Proof. unfold sd_of. destruct (snd g); reflexivity. Qed.
Lemma sd_of_chrom g : sd_chrom (sd_of g) = fst g.
Proof. unfold sd_of. destruct (snd g); reflexivity. Qed.

(* the index test on a section = same chromosome and the list-level block test *)
Definition ghit (q s e : N) (g : gsec) : bool := (fst g =? q) && bchunk_hit s e (snd g).

Lemma overlaps_same_chrom q qs qe c st en :
  overlaps q qs qe {| sc := c; sb := st; ec := c; eb := en |} = (c =? q) && ((qs <=? en) && (st <=? qe)).
Proof.
  unfold overlaps, le_pos, ge_pos, cmp_pos. cbn [sc sb ec eb].
  destruct (N.compare_spec q c) as [->|Hlt|Hgt].
  - rewrite N.eqb_refl. cbn [andb]. unfold N.leb. rewrite (N.compare_antisym qe st).
    destruct (qs ?= en); destruct (qe ?= st); reflexivity.
  - replace (c =? q) with false by (symmetry; apply N.eqb_neq; lia). reflexivity.
  - replace (c =? q) with false by (symmetry; apply N.eqb_neq; lia). reflexivity.
Qed.

Lemma overlaps_sd q s e g off : snd g <> [] ->
  overlaps q s e (sect_span {| s_chrom := sd_chrom (sd_of g); s_start := sd_start (sd_of g); s_end := sd_end (sd_of g);
                               s_off := off; s_size := Nlen (sd_bytes (sd_of g)) |}) = ghit q s e g.
Proof.
  intros Hne. destruct g as [c items]. destruct items as [|f r]; [cbn in Hne; congruence|].
  unfold sect_span. cbn [s_chrom s_start s_end sd_of snd fst sd_chrom sd_start sd_end].
  rewrite overlaps_same_chrom. reflexivity.
Qed.

Lemma scan_cons x r q s e :
  scan (x :: r) q s e = if overlaps q s e (sect_span x) then (s_off x, s_size x) :: scan r q s e else scan r q s e.
Proof. unfold scan. cbn [filter]. destruct (overlaps q s e (sect_span x)); reflexivity. Qed.

Section Reader.
Variable infl : list N -> list N.
Variable i : info.
Hypothesis Hbig : h_big (i_hdr i) = false.
Hypothesis Hubuf : h_ubuf (i_hdr i) = 0.

(* reading and decoding the blocks the scan of the section table selects *)
Lemma collect_scan img q s e : q < U32 -> forall (gs : list gsec) off,
  Forall (fun g => snd g <> [] /\ Forall entry_ok (snd g)) gs ->
  has_at img off (data_bytes (map sd_of gs)) ->
  collect_blocks (fun b => block_entries infl i img b q s e) (scan (place off (map sd_of gs)) q s e)
  = Ok (flat_map (fun g => filter (bkeep s e) (snd g)) (filter (ghit q s e) gs)).
Proof.
  intros Hq. induction gs as [|g gs IH]; intros off Hok Hat; [reflexivity|].
  inversion Hok as [|? ? [Hne Heok] Hrest]; subst.
  cbn [map place]. rewrite scan_cons.
  unfold data_bytes in Hat. cbn [map flat_map] in Hat. apply has_at_app in Hat as [Hat1 Hat2].
  fold (data_bytes (map sd_of gs)) in Hat2.
  rewrite overlaps_sd by exact Hne. cbn [filter].
  destruct (ghit q s e g) eqn:Hh.
  - cbn [collect_blocks s_off s_size].
    unfold ghit in Hh. apply andb_true_iff in Hh as [Hc _]. apply N.eqb_eq in Hc.
    assert (Hblock : block_entries infl i img (off, Nlen (sd_bytes (sd_of g))) q s e = Ok (Some (filter (bkeep s e) (snd g)))).
    { unfold block_entries, block_data. cbn [fst snd].
      rewrite (has_at_slice_w img off (sd_bytes (sd_of g))); [|exact Hat1|unfold Nlen; now rewrite Nat2N.id].
      cbn [rdo rbind]. rewrite Hubuf. replace (0 <? 0) with false by reflexivity.
      rewrite sd_of_bytes. rewrite Hc.
      rewrite block_entries_of_encoded by assumption. reflexivity. }
    rewrite Hblock. cbn [rbind]. rewrite IH by assumption. cbn [rbind flat_map]. reflexivity.
  - cbn [flat_map]. apply IH; assumption.
Qed.

(* the whole reader path on an image holding the sections at [pre_data] and their index at [index_off] *)
Theorem interval_on_image img (gs : list gsec) pre_data index_off b ips ix lv pre post c q s e :
  h_full_index_off (i_hdr i) = index_off -> chrom_id i c = Ok q -> q < U32 ->
  2 <= b <= 65535 -> gs <> [] ->
  Forall (fun g => snd g <> [] /\ Forall entry_ok (snd g)) gs ->
  sorted_starts (map sect_span (place pre_data (map sd_of gs))) ->
  Forall sect_ok (place pre_data (map sd_of gs)) ->
  write_index b ips index_off (place pre_data (map sd_of gs)) = Ok (ix, lv) ->
  img = pre ++ ix ++ post -> Nlen pre = index_off -> index_off + Nlen ix <= U64 ->
  has_at img pre_data (data_bytes (map sd_of gs)) ->
  bb_interval infl img i c s e = Ok (flat_map (fun g => filter (bkeep s e) (snd g)) (filter (ghit q s e) gs)).
Proof.
  intros Hio Hcid Hq Hb Hne Hok Hsorted Hsok Hwi Himg Hpre Hend Hat.
  set (secs := place pre_data (map sd_of gs)) in *.
  assert (Hsne : secs <> []) by (unfold secs; destruct gs; [congruence|discriminate]).
  destruct (search_bytes_eq_scan b ips index_off secs Hb Hsne Hsorted Hsok) as [ix' [lv' [Hwi' Hsearch]]].
  rewrite Hwi in Hwi'. inversion Hwi'; subst ix' lv'. clear Hwi'.
  specialize (Hsearch Hend).
  (* the index header *)
  assert (Hhdr : exists sp body, ix = index_header b ips (Nlen secs) sp index_off ++ body).
  { unfold write_index in Hwi. destruct (build (N.to_nat b) secs) as [[t l]| | |]; cbn [rbind] in Hwi; try discriminate.
    unfold rtree_bytes in Hwi. destruct (write_levels b t l l (index_off + 48)) as [body| | |]; cbn [rbind] in Hwi; try discriminate.
    inversion Hwi; subst. exists (span_of t), body. reflexivity. }
  destruct Hhdr as [sp [body Hix]].
  unfold bb_interval. rewrite Hcid. cbn [rbind]. rewrite Hbig, Hio.
  assert (Hroot : cir_tree_root false img index_off = Ok (index_off + 48)).
  { unfold cir_tree_root.
    assert (Hat48 : has_at img index_off (index_header b ips (Nlen secs) sp index_off)).
    { exists pre, (body ++ post). split; [rewrite Himg, Hix; now rewrite <- app_assoc|].
      rewrite <- Hpre. unfold Nlen. now rewrite Nat2N.id. }
    rewrite (has_at_slice_w _ _ _ 48 Hat48) by (now rewrite index_header_length).
    cbn [rdo rbind]. unfold index_header. rewrite firstn4_u32. rewrite dec_u32 by (vm_compute; reflexivity).
    rewrite N.eqb_refl. reflexivity. }
  rewrite Hroot. cbn [rbind].
  unfold search_blocks. rewrite Hbig.
  rewrite Himg. rewrite Hsearch; [|exact Hpre|rewrite !app_length; lia].
  cbn [rbind]. rewrite <- Himg. apply collect_scan; assumption.
Qed.
End Reader.

(* ---- from sections back to chromosomes ---- *)
(* the sections of a file: per chromosome (id, entries), the sectioning loop's chunks, tagged *)
Definition gsecs (ips : N) (groups : list (N * list entry)) : list gsec :=
  flat_map (fun g => map (fun c => (fst g, c)) (sections_loop ips [] (snd g))) groups.

Lemma filter_ghit_tagged q s e c cs :
  filter (ghit q s e) (map (fun x => (c, x)) cs) = if c =? q then map (fun x => (c, x)) (filter (bchunk_hit s e) cs) else [].
Proof.
  induction cs as [|x cs IH]; [destruct (c =? q); reflexivity|].
  cbn [map filter]. unfold ghit at 1. cbn [fst snd]. rewrite IH.
  destruct (c =? q); cbn [andb]; [|reflexivity]. destruct (bchunk_hit s e x); reflexivity.
Qed.

Lemma flat_map_tagged {Y} (f : list entry -> list Y) c cs :
  flat_map (fun g : N * list entry => f (snd g)) (map (fun x => (c, x)) cs) = flat_map f cs.
Proof. induction cs as [|x cs IH]; [reflexivity|]. cbn [map flat_map snd]. now rewrite IH. Qed.

(* answering from the hit sections of the whole file = the filter of the one chromosome's entries *)
Theorem sections_to_chrom ips q s e : forall groups, NoDup (map fst groups) ->
  Forall (fun g => starts_sorted (snd g)) groups ->
  flat_map (fun g => filter (bkeep s e) (snd g)) (filter (ghit q s e) (gsecs ips groups))
  = match find (fun g => fst g =? q) groups with
    | Some g => filter (bkeep s e) (snd g)
    | None => []
    end.
Proof.
  induction groups as [|g groups IH]; intros Hnd Hs; [reflexivity|].
  inversion Hnd as [|? ? Hnotin Hnd']; subst. inversion Hs as [|? ? Hsg Hs']; subst.
  unfold gsecs. cbn [flat_map]. fold (gsecs ips groups).
  rewrite filter_app, flat_map_app. rewrite filter_ghit_tagged. cbn [find].
  destruct (fst g =? q) eqn:E.
  - rewrite (flat_map_tagged (filter (bkeep s e))). rewrite bquery_sections by exact Hsg.
    rewrite IH by assumption.
    (* q does not occur among the remaining groups *)
    replace (find (fun g0 => fst g0 =? q) groups) with (@None (N * list entry)); [now rewrite app_nil_r|].
    symmetry. apply N.eqb_eq in E. clear -Hnotin E. induction groups as [|h groups IH]; [reflexivity|].
    cbn [find]. destruct (fst h =? q) eqn:E2.
    + apply N.eqb_eq in E2. exfalso. apply Hnotin. cbn [map]. left. congruence.
    + apply IH. intros Hin. apply Hnotin. cbn [map]. right. exact Hin.
  - cbn [flat_map app]. apply IH; assumption.
Qed.
