(* C09 component codec: the R-tree index.  The bytes write_rtreeindex lays out (Model/RTree.v) are
   accepted by the independent decoder's parse_index (Spec/FormatDecode.v), which returns exactly
   the sections that were indexed, in order.  Composition of
     - C05's layout theorem (Proofs/RTreeLayout.layout_represents: the bytes represent the built tree),
     - a bridge from the reader model's read_node to the independent decoder's node parser (the two
       were written separately; they agree on every node they both accept),
     - an invariant of built trees the decoder checks and C05 did not need: every item of a node
       lies inside the span its parent records for that node ([wn]), and no node has more than
       block_size items. *)
From BT Require Import Base.Util Base.LE Generated.Consts Model.RTree
  Proofs.Chunks Proofs.RTreeAbs Proofs.RTreeBuild Proofs.RTreeCodec Proofs.RTreeSearch Proofs.RTreeShape Proofs.RTreeLayout
  Proofs.FileRegions Spec.FormatDecode Proofs.C09Base Proofs.C09Codec.
Local Open Scope N_scope.

(* ---------- views ---------- *)
Definition fsp (s : span) : fspan := {| p_sc := sc s; p_sb := sb s; p_ec := ec s; p_eb := eb s |}.
Definition lf_of (s : sect) : fleaf := {| fl_span := fsp (sect_span s); fl_off := s_off s; fl_size := s_size s |}.
Definition lf_li (i : leaf_item) : fleaf := {| fl_span := fsp (li_span i); fl_off := li_off i; fl_size := li_size i |}.

Lemma lf_li_of s : lf_li (li_of s) = lf_of s.
Proof. reflexivity. Qed.

Lemma span_in_inside a b : span_in (fsp a) (fsp b) = true <-> inside a b.
Proof.
  unfold span_in, inside, fsp, ple. cbn [p_sc p_sb p_ec p_eb]. rewrite andb_true_iff, !pos_le_spec. tauto.
Qed.

(* ---------- the two node parsers agree ---------- *)
Lemma parse_span_eq d : FormatDecode.parse_span false d = fsp (RTree.parse_span false d).
Proof. reflexivity. Qed.

Lemma parse_rt_leaf_eq : forall k d, parse_rt_leaf false k d = map lf_li (parse_leaf_items false k d).
Proof. induction k as [|k IH]; intros d; [reflexivity|]. cbn [parse_rt_leaf parse_leaf_items map]. now rewrite IH. Qed.
Lemma parse_rt_inner_eq : forall k d,
  parse_rt_inner false k d = map (fun it => (fsp (fst it), snd it)) (parse_inner_items false k d).
Proof. induction k as [|k IH]; intros d; [reflexivity|]. cbn [parse_rt_inner parse_inner_items map]. now rewrite IH. Qed.

Lemma parse_leaf_items_length : forall k d, length (parse_leaf_items false k d) = k.
Proof. induction k as [|k IH]; intros d; cbn [parse_leaf_items length]; [reflexivity|]. now rewrite IH. Qed.
Lemma parse_inner_items_length : forall k d, length (parse_inner_items false k d) = k.
Proof. induction k as [|k IH]; intros d; cbn [parse_inner_items length]; [reflexivity|]. now rewrite IH. Qed.

Lemma slice_bound img off w x : slice img off w = Some x -> (0 < w)%nat -> off + N.of_nat w <= Nlen img.
Proof.
  intros H Hw. apply slice_has_at in H as [H L]; [|exact Hw]. apply has_at_bound in H. unfold Nlen in *. lia.
Qed.
Lemma slice_bytes_at img n off w x : slice img off w = Some x -> n = Nlen img -> off + N.of_nat w <= n ->
  bytes_at img n off (N.of_nat w) = Some x.
Proof.
  intros H Hn Hb. unfold bytes_at. destruct (off + N.of_nat w <=? n) eqn:E; [|apply N.leb_gt in E; exfalso; lia].
  now rewrite Nat2N.id.
Qed.

(* what a successful read_node means for the independent parser's reads *)
Lemma read_node_reads img n off nd : read_node false img off = Ok nd -> n = Nlen img ->
  exists h cnt d,
    bytes_at img n off 4 = Some h /\ dec false (skipn 2 h) = cnt /\
    match nd with
    | PLeaf items => nth 0 h 0 = 1 /\ bytes_at img n (off + 4) (cnt * 32) = Some d
                     /\ items = parse_leaf_items false (N.to_nat cnt) d
    | PInner items => nth 0 h 0 = 0 /\ bytes_at img n (off + 4) (cnt * 24) = Some d
                      /\ items = parse_inner_items false (N.to_nat cnt) d
    end.
Proof.
  intros H Hn. unfold read_node in H.
  destruct (slice img off 4) as [h|] eqn:Eh; [|discriminate].
  pose proof (slice_bound img off 4 h Eh ltac:(lia)) as Hb4.
  destruct (negb _) eqn:Eleaf in H; [discriminate|].
  exists h, (dec false (skipn 2 h)).
  set (cnt := dec false (skipn 2 h)) in *.
  destruct (nth 0 h 0 =? 1) eqn:E1.
  - destruct (slice img (off + 4) (N.to_nat cnt * 32)) as [d|] eqn:Ed; [|discriminate].
    apply Ok_inj in H. subst nd. exists d. split; [apply (slice_bytes_at img n off 4 h Eh Hn); lia|]. split; [reflexivity|].
    split; [now apply N.eqb_eq|]. split; [|reflexivity].
    replace (cnt * 32) with (N.of_nat (N.to_nat cnt * 32)) by lia.
    apply slice_bytes_at; [exact Ed|exact Hn|].
    destruct (N.to_nat cnt * 32)%nat eqn:Ez; [lia|]. rewrite <- Ez in *.
    pose proof (slice_bound img (off + 4) _ d Ed ltac:(lia)). lia.
  - destruct (slice img (off + 4) (N.to_nat cnt * 24)) as [d|] eqn:Ed; [|discriminate].
    apply Ok_inj in H. subst nd. exists d. split; [apply (slice_bytes_at img n off 4 h Eh Hn); lia|]. split; [reflexivity|].
    split.
    { apply negb_false_iff, orb_true_iff in Eleaf as [E0|E1']; [now apply N.eqb_eq|congruence]. }
    split; [|reflexivity].
    replace (cnt * 24) with (N.of_nat (N.to_nat cnt * 24)) by lia.
    apply slice_bytes_at; [exact Ed|exact Hn|].
    destruct (N.to_nat cnt * 24)%nat eqn:Ez; [lia|]. rewrite <- Ez in *.
    pose proof (slice_bound img (off + 4) _ d Ed ltac:(lia)). lia.
Qed.

(* ---------- the invariant of built trees the decoder checks ---------- *)
Inductive wn (b : nat) : tree -> Prop :=
| wn_leaf l : (length l <= b)%nat -> Forall (fun sp => inside sp (span_of (Leaf l))) (map sect_span l) -> wn b (Leaf l)
| wn_node ch : (length ch <= b)%nat -> Forall (fun sp => inside sp (span_of (Node ch))) (map fst ch) ->
    Forall (fun c => fst c = span_of (snd c) /\ wn b (snd c)) ch -> wn b (Node ch).

Definition inv (b : nat) (t : tree) : Prop := good t /\ wn b t.

Lemma inv_leaf b l : l <> [] -> (length l <= b)%nat -> sorted_starts (map sect_span l) -> inv b (Leaf l).
Proof.
  intros Hne Hlen Hs. pose proof (good_leaf l Hne Hs) as Hg. split; [exact Hg|].
  constructor; [exact Hlen|]. destruct Hg as (_ & _ & _ & Hin). exact Hin.
Qed.

Lemma first_lspan t : good t -> exists f r, lspans t = f :: r /\ sc (span_of t) = sc f /\ sb (span_of t) = sb f.
Proof.
  intros (_ & Hn & Hst & _). unfold lspans in *. destruct (leaves t) as [|s l]; [congruence|].
  cbn [map] in *. exists (sect_span s), (map sect_span l). split; [reflexivity|]. exact (Hst _ _ eq_refl).
Qed.

Lemma children_inside ch : ch <> [] -> Forall good ch -> sorted_starts (flat_map lspans ch) ->
  Forall (fun sp => inside sp (span_of (mk_node ch))) (map span_of ch).
Proof.
  intros Hne Hg Hs. destruct ch as [|t0 ch]; [congruence|]. clear Hne.
  inversion Hg as [|? ? Hg0 Hgr]; subst.
  destruct (first_lspan t0 Hg0) as (f0 & r0 & Hl0 & Hsc0 & Hsb0).
  assert (Hafter : starts_after (span_of t0) (map span_of ch)).
  { apply Forall_forall. intros sp Hsp. apply in_map_iff in Hsp as [t [<- Hin]].
    rewrite Forall_forall in Hgr. destruct (first_lspan t (Hgr t Hin)) as (f & r & Hl & Hsc & Hsb).
    rewrite Hsc0, Hsb0, Hsc, Hsb. cbn [flat_map] in Hs.
    apply (sorted_app_cross (lspans t0) (flat_map lspans ch) f0 f Hs).
    - rewrite Hl0. now left.
    - apply in_flat_map. exists t. split; [exact Hin|]. rewrite Hl. now left. }
  rewrite span_mk_node. apply Forall_forall. intros sp Hsp. cbn [map] in *. now apply hull_inside.
Qed.

Lemma inv_node b ch : ch <> [] -> (length ch <= b)%nat -> Forall (inv b) ch -> sorted_starts (flat_map lspans ch) ->
  inv b (mk_node ch).
Proof.
  intros Hne Hlen Hi Hs.
  assert (Hg : Forall good ch) by (eapply Forall_impl; [|exact Hi]; now intros t [H _]).
  split; [now apply good_node|].
  unfold mk_node. constructor.
  - now rewrite map_length.
  - rewrite map_map. cbn [fst]. exact (children_inside ch Hne Hg Hs).
  - rewrite Forall_map. cbn [fst snd]. eapply Forall_impl; [|exact Hi]. intros t [_ Hw]. now split.
Qed.

Lemma inv_level b (cur : list tree) : (0 < b)%nat -> Forall (inv b) cur ->
  sorted_starts (flat_map lspans cur) -> Forall (inv b) (map mk_node (chunks b cur)).
Proof.
  intros Hb Hg Hs.
  pose proof (chunks_concat b cur Hb) as Hcat. pose proof (chunks_nonempty b cur Hb) as Hne.
  assert (Hlen : Forall (fun c => (length c <= b)%nat) (chunks b cur)).
  { apply Forall_forall. intros c Hc. exact (chunks_len_bound b cur c Hb Hc). }
  revert Hcat Hne Hlen. generalize (chunks b cur) as cs. intros cs. revert cur Hg Hs.
  induction cs as [|c cs IH]; intros cur Hg Hs Hcat Hne Hlen; [constructor|].
  cbn [concat] in Hcat. subst cur. inversion Hne as [|? ? Hc Hne']; subst. inversion Hlen as [|? ? Hl Hlen']; subst.
  rewrite Forall_app in Hg. destruct Hg as [Hgc Hgr].
  rewrite flat_map_app in Hs. cbn [map]. constructor.
  - apply inv_node; [exact Hc|exact Hl|exact Hgc|eapply sorted_app_l; exact Hs].
  - apply (IH (concat cs)); [exact Hgr|eapply sorted_app_r; exact Hs|reflexivity|exact Hne'|exact Hlen'].
Qed.

Lemma inv_leaf_level b (secs : list sect) : (0 < b)%nat -> sorted_starts (map sect_span secs) ->
  Forall (inv b) (map Leaf (chunks b secs)).
Proof.
  intros Hb Hs.
  pose proof (chunks_concat b secs Hb) as Hcat. pose proof (chunks_nonempty b secs Hb) as Hne.
  assert (Hlen : Forall (fun c => (length c <= b)%nat) (chunks b secs)).
  { apply Forall_forall. intros c Hc. exact (chunks_len_bound b secs c Hb Hc). }
  revert Hcat Hne Hlen. generalize (chunks b secs) as cs. intros cs. revert secs Hs.
  induction cs as [|c cs IH]; intros secs Hs Hcat Hne Hlen; [constructor|].
  cbn [concat] in Hcat. subst secs. inversion Hne as [|? ? Hc Hne']; subst. inversion Hlen as [|? ? Hl Hlen']; subst.
  rewrite map_app in Hs. cbn [map]. constructor.
  - apply inv_leaf; [exact Hc|exact Hl|eapply sorted_app_l; exact Hs].
  - apply (IH (concat cs)); [eapply sorted_app_r; exact Hs|reflexivity|exact Hne'|exact Hlen'].
Qed.

Lemma build_loop_inv b : (0 < b)%nat -> forall fuel cur lv t lv',
  build_loop fuel b cur lv = Ok (t, lv') -> cur <> [] -> Forall (inv b) cur -> sorted_starts (flat_map lspans cur) ->
  inv b t /\ (lv' <= lv + fuel)%nat.
Proof.
  intros Hb. induction fuel as [|f IH]; intros cur lv t lv' Hbl Hne Hi Hs; [discriminate|].
  destruct cur as [|t0 [|t1 rest]]; [congruence| |].
  - cbn [build_loop] in Hbl. inversion Hbl; subst. inversion Hi; subst. split; [assumption|lia].
  - cbn [build_loop] in Hbl. set (cur := t0 :: t1 :: rest) in *.
    destruct (IH (map mk_node (chunks b cur)) (S lv) t lv' Hbl) as [H1 H2].
    + intros E. apply map_eq_nil in E. apply chunks_nil_iff in E. discriminate.
    + now apply inv_level.
    + rewrite <- lspans_flat_map. rewrite leaves_level by lia. rewrite lspans_flat_map. exact Hs.
    + split; [exact H1|lia].
Qed.

Theorem build_inv b secs t lv : (0 < b)%nat -> secs <> [] -> sorted_starts (map sect_span secs) ->
  build b secs = Ok (t, lv) -> inv b t /\ (lv <= S (length secs))%nat.
Proof.
  intros Hb Hne Hs Hbuild. unfold build in Hbuild. destruct b as [|b']; [lia|].
  destruct (build_loop_inv (S b') Hb _ _ _ _ _ Hbuild) as [H1 H2].
  - intros E. apply map_eq_nil in E. apply chunks_nil_iff in E. contradiction.
  - now apply inv_leaf_level.
  - rewrite <- lspans_flat_map, flat_map_leaf_chunks, chunks_concat by lia. exact Hs.
  - split; [exact H1|lia].
Qed.

Lemma F2_length {A B} (R : A -> B -> Prop) l1 l2 : Forall2 R l1 l2 -> length l1 = length l2.
Proof. induction 1; cbn [length]; congruence. Qed.

(* ---------- the work-list traversal on an image that represents a tree ---------- *)
Section Walk.
Variables (img : list N) (n : N) (block : N) (b : nat).
Hypothesis Hn : n = Nlen img.
Hypothesis Hb : N.of_nat b <= block.

Lemma rt_walk_S f queue acc e : rt_walk img n false (S f) block queue acc e =
  match queue with
  | [] => Some (rev acc, e)
  | (off, sp) :: rest =>
      let? h := bytes_at img n off 4 in
      let isleaf := nth 0 h 0 in
      let cnt := dec false (skipn 2 h) in
      check (cnt <=? block) in
      if isleaf =? 1 then
        let? d := bytes_at img n (off + 4) (cnt * 32) in
        let items := parse_rt_leaf false (N.to_nat cnt) d in
        check (forallb (fun l => span_in (fl_span l) sp) items) in
        rt_walk img n false f block rest (rev_append items acc) (N.max e (off + 4 + cnt * 32))
      else if isleaf =? 0 then
        let? d := bytes_at img n (off + 4) (cnt * 24) in
        let items := parse_rt_inner false (N.to_nat cnt) d in
        check (forallb (fun it => span_in (fst it) sp) items) in
        rt_walk img n false f block (map (fun it => (snd it, fst it)) items ++ rest) acc (N.max e (off + 4 + cnt * 24))
      else None
  end.
Proof. reflexivity. Qed.

Definition kid_queue (ch : list (span * tree)) (ptrs : list N) : list (N * fspan) :=
  map (fun it : span * N => (snd it, fsp (fst it))) (combine (map fst ch) ptrs).

Lemma walk_rep : forall h t off, rep h img off t -> wn b t ->
  forall f rest acc e, exists e', e <= e' /\
    rt_walk img n false (tsize t + f) block ((off, fsp (span_of t)) :: rest) acc e
    = rt_walk img n false f block rest (rev (map lf_of (leaves t)) ++ acc) e'.
Proof.
  induction h as [|k IH]; intros t off Hrep Hwn f rest acc e.
  - destruct Hrep as [l [-> Hread]]. inversion Hwn as [l' Hlen Hin|]; subst l'.
    destruct (read_node_reads img n off _ Hread Hn) as (h & cnt & d & Hh & Hc & Hl1 & Hd & Hitems).
    assert (Ecnt : N.to_nat cnt = length l).
    { pose proof (f_equal (@length _) Hitems) as E. rewrite map_length, parse_leaf_items_length in E. lia. }
    cbn [tsize Nat.add]. rewrite rt_walk_S. rewrite Hh. cbn [obind]. rewrite Hc, Hl1.
    rewrite check_true by (apply N.leb_le; lia).
    change (1 =? 1) with true. cbv iota. rewrite Hd. cbn [obind].
    rewrite parse_rt_leaf_eq, <- Hitems, map_map.
    rewrite check_true.
    + exists (N.max e (off + 4 + cnt * 32)). split; [lia|]. rewrite rev_append_rev. cbn [leaves]. reflexivity.
    + apply forallb_forall. intros x Hx. apply in_map_iff in Hx as [s [<- Hs]].
      cbn [lf_li li_of li_span fl_span]. apply span_in_inside.
      rewrite Forall_forall in Hin. apply Hin. now apply in_map.
  - destruct Hrep as [ch [ptrs [-> [Hread Hkids]]]]. inversion Hwn as [|ch' Hlen Hin Hch]; subst ch'.
    destruct (read_node_reads img n off _ Hread Hn) as (h & cnt & d & Hh & Hc & Hl1 & Hd & Hitems).
    assert (Hlp : length ptrs = length ch).
    { apply F2_length in Hkids. now rewrite map_length in Hkids. }
    assert (Ecnt : N.to_nat cnt = length ch).
    { pose proof (f_equal (@length _) Hitems) as E. rewrite combine_length, map_length, parse_inner_items_length in E. lia. }
    cbn [tsize Nat.add]. rewrite rt_walk_S. rewrite Hh. cbn [obind]. rewrite Hc, Hl1.
    rewrite check_true by (apply N.leb_le; lia).
    change (0 =? 1) with false. change (0 =? 0) with true. cbv iota. rewrite Hd. cbn [obind].
    rewrite parse_rt_inner_eq, <- Hitems.
    rewrite check_true.
    2:{ apply forallb_forall. intros x Hx. apply in_map_iff in Hx as [it [<- Hit]]. cbn [fst].
        apply span_in_inside. rewrite Forall_forall in Hin. apply Hin.
        destruct it as [x y]. apply in_combine_l in Hit. exact Hit. }
    rewrite map_map. cbn [fst snd]. fold (kid_queue ch ptrs).
    (* the children, left to right *)
    assert (Hinner : forall (ch : list (span * tree)) ptrs, Forall2 (rep k img) ptrs (map snd ch) ->
              Forall (fun c => fst c = span_of (snd c) /\ wn b (snd c)) ch ->
              forall f rest acc e, exists e', e <= e' /\
                rt_walk img n false (nsum (map (fun c => tsize (snd c)) ch) + f) block (kid_queue ch ptrs ++ rest) acc e
                = rt_walk img n false f block rest (rev (map lf_of (flat_map (fun c => leaves (snd c)) ch)) ++ acc) e').
    { clear - IH. induction ch as [|c ch IHch]; intros ptrs Hk Hc f rest acc e.
      - exists e. split; [lia|]. unfold kid_queue. cbn [map combine app flat_map nsum rev Nat.add]. reflexivity.
      - cbn [map] in Hk. inversion Hk as [|p c' ptrs' ch' Hp Hrest]; subst.
        inversion Hc as [|? ? [Hsp Hw] Hc']; subst.
        unfold kid_queue. cbn [map combine app nsum flat_map fst snd]. fold (kid_queue ch ptrs').
        rewrite Hsp.
        destruct (IH (snd c) p Hp Hw (nsum (map (fun c => tsize (snd c)) ch) + f)%nat (kid_queue ch ptrs' ++ rest) acc e)
          as [e1 [He1 E1]].
        rewrite <- Nat.add_assoc. rewrite E1.
        destruct (IHch ptrs' Hrest Hc' f rest (rev (map lf_of (leaves (snd c))) ++ acc) e1) as [e2 [He2 E2]].
        rewrite E2. exists e2. split; [lia|]. f_equal.
        rewrite map_app, rev_app_distr, <- app_assoc. reflexivity. }
    destruct (Hinner ch ptrs Hkids Hch f rest acc (N.max e (off + 4 + cnt * 24))) as [e' [He' E']].
    exists e'. split; [lia|]. rewrite E'. reflexivity.
Qed.
End Walk.

Lemma rt_walk_nil img n big f block acc e : rt_walk img n big (S f) block [] acc e = Some (rev acc, e).
Proof. reflexivity. Qed.

(* every read the traversal makes is inside the image: its end marker stays inside *)
Lemma rt_walk_bound img n big block : forall fuel queue acc e ls e',
  rt_walk img n big fuel block queue acc e = Some (ls, e') -> e <= n -> e' <= n.
Proof.
  induction fuel as [|f IH]; intros queue acc e ls e' H He; [discriminate|].
  cbn [rt_walk] in H. destruct queue as [|[off sp] rest]; [inversion H; subst; exact He|].
  destruct (bytes_at img n off 4) as [h|] eqn:Eh; [|discriminate]. cbn [obind] in H.
  destruct (guard _) in H; [|discriminate]. cbn [obind] in H.
  destruct (nth 0 h 0 =? 1).
  - destruct (bytes_at img n (off + 4) _) as [d|] eqn:Ed; [|discriminate]. cbn [obind] in H.
    destruct (guard _) in H; [|discriminate]. cbn [obind] in H.
    apply bytes_at_bound in Ed. eapply IH; [exact H|]. lia.
  - destruct (nth 0 h 0 =? 0); [|discriminate].
    destruct (bytes_at img n (off + 4) _) as [d|] eqn:Ed; [|discriminate]. cbn [obind] in H.
    destruct (guard _) in H; [|discriminate]. cbn [obind] in H.
    apply bytes_at_bound in Ed. eapply IH; [exact H|]. lia.
Qed.

(* bytes appended to the image do not change a successful traversal *)
Lemma rt_walk_app_r img n big block t : forall fuel queue acc e r,
  rt_walk img n big fuel block queue acc e = Some r ->
  rt_walk (img ++ t) (n + Nlen t) big fuel block queue acc e = Some r.
Proof.
  induction fuel as [|f IH]; intros queue acc e r H; [discriminate|].
  cbn [rt_walk] in *. destruct queue as [|[off sp] rest]; [exact H|].
  destruct (bytes_at img n off 4) as [h|] eqn:Eh; [|discriminate]. cbn [obind] in H.
  rewrite (bytes_at_app_r img t n off 4 h Eh). cbn [obind].
  destruct (guard _); [|discriminate]. cbn [obind] in *.
  destruct (nth 0 h 0 =? 1).
  - destruct (bytes_at img n (off + 4) _) as [d|] eqn:Ed; [|discriminate]. cbn [obind] in H.
    rewrite (bytes_at_app_r img t n _ _ d Ed). cbn [obind].
    destruct (guard _); [|discriminate]. cbn [obind] in *. now apply IH.
  - destruct (nth 0 h 0 =? 0); [|discriminate].
    destruct (bytes_at img n (off + 4) _) as [d|] eqn:Ed; [|discriminate]. cbn [obind] in H.
    rewrite (bytes_at_app_r img t n _ _ d Ed). cbn [obind].
    destruct (guard _); [|discriminate]. cbn [obind] in *. now apply IH.
Qed.

(* ---------- the index header ---------- *)
Lemma cir_magic : CIR_TREE_MAGIC = FD_CIR_MAGIC.
Proof. reflexivity. Qed.

Lemma parse_index_hdr_ok img n off b ips count sp eod :
  has_at img off (index_header b ips count sp eod) -> n = Nlen img ->
  b < W32 -> ips < W32 -> count < W64 -> span_ok sp -> eod < W64 ->
  parse_index_hdr img n false off
  = Some {| ih_block := b; ih_count := count; ih_span := fsp sp; ih_endoff := eod; ih_ips := ips; ih_reserved := 0 |}.
Proof.
  intros H Hn Hb Hi Hc (S1 & S2 & S3 & S4) He. unfold W32, W64, U32 in *. unfold parse_index_hdr.
  rewrite (bytes_at_has_w img n off _ 48 H Hn) by (unfold Nlen; now rewrite index_header_length).
  cbn [obind]. unfold index_header, fld, FormatDecode.parse_span, fld, u32, u64, fsp.
  cbn [enc_le app firstn skipn dec].
  rewrite !dec_le4, !dec_le8 by (assumption || (unfold CIR_TREE_MAGIC; lia) || lia).
  rewrite cir_magic, N.eqb_refl. cbn [guard obind]. reflexivity.
Qed.

(* consecutive sections occupy increasing, disjoint byte ranges *)
Fixpoint offs_chain (l : list sect) : Prop :=
  match l with
  | [] => True
  | a :: r => match r with [] => True | b :: _ => s_off a + s_size a <= s_off b /\ offs_chain r end
  end.

Lemma leaf_order_ok : forall secs, sorted_starts (map sect_span secs) -> offs_chain secs ->
  adjacent leaf_order (map lf_of secs) = true.
Proof.
  induction secs as [|a l IH]; intros Hs Ho; [reflexivity|]. destruct l as [|c l]; [reflexivity|].
  cbn [map] in *. rewrite adjacent_cons. destruct Ho as [Ho1 Ho2].
  inversion Hs as [|? ? Hs' Hf]; subst. inversion Hf as [|? ? Hac _]; subst.
  rewrite (IH Hs' Ho2), andb_true_r. unfold leaf_order, lf_of, fsp. cbn [fl_span fl_off fl_size p_sc p_sb].
  apply andb_true_iff. split; [|now apply N.leb_le]. apply pos_le_spec. exact Hac.
Qed.

(* ---------- the R-tree codec ---------- *)
Theorem parse_index_ok img n off lo hi b ips secs bs lv :
  write_index b ips off secs = Ok (bs, lv) -> has_at img off bs -> n = Nlen img -> n < W64 ->
  2 <= b <= 65535 -> 1 <= ips < W32 -> secs <> [] -> sorted_starts (map sect_span secs) -> Forall sect_ok secs ->
  Nlen secs <= n ->
  Forall (fun s => lo <= s_off s /\ s_off s + s_size s <= hi /\ 1 <= s_size s /\ s_start s <= s_end s) secs ->
  offs_chain secs ->
  exists h e, parse_index img n false off lo hi = Some (h, map lf_of secs, e)
    /\ ih_block h = b /\ ih_ips h = ips /\ ih_count h = Nlen secs /\ off + 48 <= e <= off + Nlen bs.
Proof.
  intros Hw Hat Hn Hn64 Hb Hips Hne Hsorted Hok Hcnt Hrange Hchain.
  unfold write_index in Hw.
  destruct (build (N.to_nat b) secs) as [[t lv0]| | |] eqn:Hbuild; try discriminate. cbn [rbind] in Hw.
  destruct (rtree_bytes b ips off t lv0 (Nlen secs)) as [bs0| | |] eqn:Hrb; try discriminate. cbn [rbind] in Hw.
  apply Ok_inj in Hw. injection Hw as -> ->.
  (* what is known about the built tree *)
  destruct (build_ok (N.to_nat b) secs ltac:(lia) Hne Hsorted) as (t' & lv' & Hb' & _ & Hleaves & _).
  rewrite Hbuild in Hb'. apply Ok_inj in Hb'. injection Hb' as <- <-.
  destruct (build_inv (N.to_nat b) secs t lv ltac:(lia) Hne Hsorted Hbuild) as [[_ Hwn] _].
  pose proof (build_shaped (N.to_nat b) secs t lv ltac:(lia) Hne Hok Hbuild) as Hshape.
  apply shaped_single in Hshape as [_ Hlv]. destruct (Hlv lv (le_n _)) as [_ Hnok].
  rewrite level_nodes_same in Hnok. apply Forall_inv in Hnok. apply node_ok_span in Hnok.
  destruct (layout_represents b ips off secs t lv ltac:(unfold U16; lia) Hne Hok Hbuild) as (bs' & Hrb' & Hsize & Hrep).
  rewrite Hrb in Hrb'. apply Ok_inj in Hrb'. subst bs'.
  pose proof (has_at_bound img off bs Hat) as Hbound.
  destruct Hat as (A & B & Eimg & LA).
  assert (HA : Nlen A = off) by (unfold Nlen; lia).
  set (img1 := A ++ bs). set (n1 := Nlen img1).
  assert (Hn1 : n1 = off + Nlen bs) by (unfold n1, img1; rewrite Nlen_app; lia).
  assert (Himg : img = img1 ++ B) by (unfold img1; now rewrite <- app_assoc).
  assert (Hnn : n = n1 + Nlen B) by (rewrite Hn, Himg, Nlen_app; reflexivity).
  assert (Hrep1 : rep lv img1 (off + 48) t).
  { specialize (Hrep ltac:(unfold U64, W64 in *; lia) A [] HA). now rewrite app_nil_r in Hrep. }
  (* header *)
  unfold rtree_bytes in Hrb. destruct (write_levels b t lv lv (off + 48)) as [body| | |] eqn:Hbody; try discriminate.
  cbn [rbind] in Hrb. apply Ok_inj in Hrb.
  assert (Hhdr : has_at img off (index_header b ips (Nlen secs) (span_of t) off)).
  { exists A, (body ++ B). split; [|exact LA]. rewrite Eimg, <- Hrb, <- !app_assoc. reflexivity. }
  unfold parse_index.
  rewrite (parse_index_hdr_ok img n off b ips (Nlen secs) (span_of t) off Hhdr Hn) by (unfold W32, W64 in *; lia || exact Hnok).
  cbn [obind ih_block ih_ips ih_count ih_span].
  rewrite check_true by (rewrite !andb_true_iff; repeat split; apply N.leb_le; lia).
  (* traversal: on the image that ends with the index, then extended *)
  assert (Hts : (tsize t <= N.to_nat (n / 4))%nat).
  { assert (N.of_nat (tsize t) <= n / 4); [|lia]. apply N.div_le_lower_bound; lia. }
  destruct (walk_rep img1 n1 b (N.to_nat b) eq_refl ltac:(lia) lv t (off + 48) Hrep1 Hwn
              (S (N.to_nat (n / 4)) - tsize t)%nat [] [] (off + 48)) as (e' & He' & Ewalk).
  replace (tsize t + (S (N.to_nat (n / 4)) - tsize t))%nat with (S (N.to_nat (n / 4))) in Ewalk by lia.
  destruct (S (N.to_nat (n / 4)) - tsize t)%nat as [|f'] eqn:Ef; [lia|].
  rewrite rt_walk_nil in Ewalk. rewrite app_nil_r, rev_involutive, Hleaves in Ewalk.
  pose proof (rt_walk_bound img1 n1 false b _ _ _ _ _ _ Ewalk ltac:(lia)) as He'n.
  apply (rt_walk_app_r img1 n1 false b B) in Ewalk. rewrite <- Himg, <- Hnn in Ewalk.
  rewrite Ewalk. cbn [obind].
  rewrite check_true by (unfold Nlen; rewrite map_length; apply N.eqb_refl).
  rewrite check_true.
  2:{ apply forallb_forall. intros x Hx. apply in_map_iff in Hx as [s [<- Hs]].
      unfold leaf_one_chrom, lf_of, fsp, sect_span. cbn [fl_span p_sc p_ec p_sb p_eb sc ec sb eb].
      rewrite N.eqb_refl. cbn [andb]. apply N.leb_le. rewrite Forall_forall in Hrange. now destruct (Hrange s Hs) as (_ & _ & _ & H). }
  rewrite check_true by (now apply leaf_order_ok).
  rewrite check_true.
  2:{ apply forallb_forall. intros x Hx. apply in_map_iff in Hx as [s [<- Hs]]. cbn [lf_of fl_off fl_size].
      rewrite Forall_forall in Hrange. destruct (Hrange s Hs) as (H1 & H2 & H3 & _).
      rewrite !andb_true_iff. repeat split; now apply N.leb_le. }
  eexists _, e'. split; [reflexivity|]. cbn [ih_block ih_ips ih_count]. repeat split; try reflexivity; lia.
Qed.
