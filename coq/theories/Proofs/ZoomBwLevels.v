(* C07: the zoom directory of a written bigWig lists strictly increasing resolutions >= 1, at most
   MAX_ZOOM_LEVELS of them, in both write paths. *)
From BT Require Import Base.Util Base.Float Generated.Consts Model.RTree Model.BBIFile Model.BigWigWrite.
Local Open Scope N_scope.

(* lo < x1 < x2 < ... *)
Fixpoint inc_from (lo : N) (l : list N) : Prop :=
  match l with [] => True | x :: r => lo < x /\ inc_from x r end.
Fixpoint inc_fromb (lo : N) (l : list N) : bool :=
  match l with [] => true | x :: r => (lo <? x) && inc_fromb x r end.
Lemma inc_fromb_ok : forall l lo, inc_fromb lo l = true -> inc_from lo l.
Proof.
  induction l as [|x r IH]; intros lo H; [exact I|]. cbn [inc_fromb inc_from] in *.
  apply andb_true_iff in H as [H1 H2]. apply N.ltb_lt in H1. split; [exact H1|apply IH; exact H2].
Qed.

Lemma inc_weaken : forall l lo lo', inc_from lo l -> lo' <= lo -> inc_from lo' l.
Proof. destruct l as [|x r]; intros lo lo' H Hle; [exact I|]. destruct H as [H1 H2]. split; [lia|exact H2]. Qed.
Lemma inc_tail x r lo : inc_from lo (x :: r) -> inc_from lo r.
Proof. intros [H1 H2]. eapply inc_weaken; [exact H2|lia]. Qed.

(* ---- the normalised size lists ---- *)
Lemma insert_inc : forall l lo x, inc_from lo l -> lo < x -> inc_from lo (insert_sorted x l).
Proof.
  induction l as [|y r IH]; intros lo x Hl Hx; cbn [insert_sorted].
  - split; [exact Hx|exact I].
  - destruct Hl as [H1 H2]. destruct (N.ltb_spec x y) as [Hxy|Hxy].
    + split; [exact Hx|]. split; [exact Hxy|exact H2].
    + destruct (N.eqb_spec x y) as [->|Hne].
      * split; assumption.
      * split; [exact H1|]. apply IH; [exact H2|lia].
Qed.
Lemma sort_dedup_inc l : Forall (fun z => 0 < z) l -> inc_from 0 (sort_dedup l).
Proof.
  unfold sort_dedup. assert (H : forall acc, inc_from 0 acc -> Forall (fun z => 0 < z) l ->
                                 inc_from 0 (fold_left (fun acc x => insert_sorted x acc) l acc)).
  { induction l as [|x r IH]; intros acc Ha Hl; [exact Ha|]. cbn [fold_left]. inversion Hl; subst.
    apply IH; [apply insert_inc; assumption|assumption]. }
  apply H. exact I.
Qed.
Lemma filter_nonzero l : Forall (fun z => 0 < z) (filter (fun z => negb (z =? 0)) l).
Proof.
  apply Forall_forall. intros z Hz. apply filter_In in Hz as [_ Hz].
  destruct (N.eqb_spec z 0); [discriminate|lia].
Qed.

(* sub-sequences *)
Lemma skip_while_inc {X} (f : X -> N) p : forall l lo, inc_from lo (map f l) -> inc_from lo (map f (skip_while p l)).
Proof.
  induction l as [|x r IH]; intros lo H; [exact I|]. cbn [skip_while]. destruct (p x); [|exact H].
  apply IH. cbn [map] in H. eapply inc_tail. exact H.
Qed.
Lemma take_while_inc {X} (f : X -> N) p : forall l lo, inc_from lo (map f l) -> inc_from lo (map f (take_while p l)).
Proof.
  induction l as [|x r IH]; intros lo H; [exact I|]. cbn [take_while]. destruct (p x); [|exact I].
  cbn [map inc_from] in *. destruct H as [H1 H2]. split; [exact H1|apply IH; exact H2].
Qed.
Lemma firstn_inc {X} (f : X -> N) : forall n l lo, inc_from lo (map f l) -> inc_from lo (map f (firstn n l)).
Proof.
  induction n as [|n IH]; intros l lo H; [exact I|]. destruct l as [|x r]; [exact I|].
  cbn [firstn map inc_from] in *. destruct H as [H1 H2]. split; [exact H1|apply IH; exact H2].
Qed.
Lemma firstn_inc_plain n l lo : inc_from lo l -> inc_from lo (firstn n l).
Proof. intros H. rewrite <- (map_id (firstn n l)). apply firstn_inc. now rewrite map_id. Qed.

Theorem zoom_sizes_single_inc o : inc_from 0 (zoom_sizes_single o).
Proof. unfold zoom_sizes_single. apply firstn_inc_plain. apply sort_dedup_inc. apply filter_nonzero. Qed.
Theorem zoom_sizes_single_cap o : Nlen (zoom_sizes_single o) <= MAX_ZOOM_LEVELS.
Proof. unfold zoom_sizes_single, Nlen. rewrite firstn_length. lia. Qed.

Lemma total_ladder_inc : inc_from 0 total_ladder.
Proof. apply inc_fromb_ok. vm_compute. reflexivity. Qed.
Lemma total_zoom_counts_fst outs : map fst (total_zoom_counts outs) = total_ladder.
Proof. unfold total_zoom_counts. rewrite map_map. cbn [fst]. apply map_id. Qed.

Theorem zoom_sizes_two_pass_inc o sum outs data_size :
  inc_from 0 (zoom_sizes_two_pass o sum (total_zoom_counts outs) data_size).
Proof.
  unfold zoom_sizes_two_pass. destruct (o_manual o) as [zs|].
  - apply firstn_inc_plain. apply sort_dedup_inc. apply filter_nonzero.
  - apply take_while_inc, firstn_inc, skip_while_inc, skip_while_inc.
    rewrite total_zoom_counts_fst. exact total_ladder_inc.
Qed.
Lemma take_while_length {X} (p : X -> bool) l : (length (take_while p l) <= length l)%nat.
Proof. induction l as [|x r IH]; cbn [take_while length]; [lia|]. destruct (p x); cbn [length]; lia. Qed.
Lemma tw_firstn_len {X} (p : X -> bool) n (l : list X) : (length (take_while p (firstn n l)) <= n)%nat.
Proof. pose proof (take_while_length p (firstn n l)). pose proof (firstn_le_length n l). lia. Qed.
Theorem zoom_sizes_two_pass_cap o sum counts data_size :
  Nlen (zoom_sizes_two_pass o sum counts data_size) <= MAX_ZOOM_LEVELS.
Proof.
  unfold zoom_sizes_two_pass, Nlen. destruct (o_manual o) as [zs|].
  - rewrite firstn_length. lia.
  - rewrite map_length. cbv zeta.
    match goal with |- N.of_nat (length (take_while ?p (firstn ?n ?l))) <= _ => pose proof (tw_firstn_len p n l) as Ht end.
    lia.
Qed.

(* ---- from the size list to the directory ---- *)
Lemma mapM_map {X Y} (f : X -> res Y) (g : Y -> X) : (forall x y, f x = Ok y -> g y = x) ->
  forall l ys, mapM f l = Ok ys -> map g ys = l.
Proof.
  intros Hfg. induction l as [|x r IH]; intros ys H; cbn [mapM] in H.
  - injection H as <-. reflexivity.
  - destruct (f x) as [y| | |] eqn:E; try discriminate. cbn [rbind] in H.
    destruct (mapM f r) as [ys'| | |] eqn:E2; try discriminate. cbn [rbind] in H. injection H as <-.
    cbn [map]. rewrite (Hfg x y E), (IH ys' eq_refl). reflexivity.
Qed.

(* the levels handed to write_zooms, as built in bw_write / bw_write_multipass *)
Definition build_levels (fp : fpmode) (o : opts) (outs : list chrom_out) (zsizes : list N) : res (list zoom_level) :=
  mapM (fun size =>
          do secs <- concat_res (map (fun c => zoom_sections fp (o_ips o) size (co_id c) (co_vals c)) outs);
          Ok {| zl_res := size; zl_secs := secs |}) zsizes.
Lemma build_levels_res fp o outs zsizes zooms : build_levels fp o outs zsizes = Ok zooms -> map zl_res zooms = zsizes.
Proof.
  apply mapM_map. intros size l H.
  destruct (concat_res _) as [secs| | |]; try discriminate. cbn [rbind] in H. injection H as <-. reflexivity.
Qed.

(* single pass: the directory is a sub-sequence of the levels *)
Lemma write_zooms_loop_inc o data_size : forall zs pos lc zc bytes hdrs lo,
  inc_from lo (map zl_res zs) -> write_zooms_loop o data_size pos zs lc zc = Ok (bytes, hdrs) ->
  inc_from lo (map zh_res hdrs) /\ (length hdrs <= length zs)%nat.
Proof.
  induction zs as [|z rest IH]; intros pos lc zc bytes hdrs lo Hinc H; cbn [write_zooms_loop] in H.
  - injection H as <- <-. split; [exact I|cbn; lia].
  - cbn [map] in Hinc. pose proof (inc_tail _ _ _ Hinc) as Htail. destruct Hinc as [Hlo Hrest]. cbn [length].
    destruct (_ && (data_size / 2 <? _)); [destruct (IH _ _ _ _ _ _ Htail H); split; [assumption|lia]|].
    destruct (_ && match lc with None => false | Some l => _ end); [destruct (IH _ _ _ _ _ _ Htail H); split; [assumption|lia]|].
    destruct (write_index _ _ _ _) as [[ix lv]| | |]; try discriminate. cbn [rbind] in H.
    destruct (_ && (o_maxzooms o <=? zc + 1)).
    + injection H as <- <-. cbn [map zh_res length]. split; [split; [exact Hlo|exact I]|lia].
    + destruct (write_zooms_loop o data_size _ rest _ _) as [[more hs]| | |] eqn:E; try discriminate.
      cbn [rbind] in H. injection H as <- <-. cbn [map zh_res length].
      destruct (IH _ _ _ _ _ _ Hrest E). split; [split; [exact Hlo|assumption]|lia].
Qed.

(* two passes: the directory is the level list *)
Lemma write_zooms_two_pass_res o : forall zs pos bytes hdrs,
  write_zooms_two_pass o pos zs = Ok (bytes, hdrs) -> map zh_res hdrs = map zl_res zs.
Proof.
  induction zs as [|z rest IH]; intros pos bytes hdrs H; cbn [write_zooms_two_pass] in H.
  - injection H as <- <-. reflexivity.
  - destruct (write_index _ _ _ _) as [[ix lv]| | |]; try discriminate. cbn [rbind] in H.
    destruct (write_zooms_two_pass o _ rest) as [[more hs]| | |] eqn:E; try discriminate.
    cbn [rbind] in H. injection H as <- <-. cbn [map zh_res]. f_equal. eapply IH. exact E.
Qed.

Theorem levels_increasing_single fp o outs data_size pos zooms bytes hdrs :
  build_levels fp o outs (zoom_sizes_single o) = Ok zooms ->
  write_zooms_loop o data_size pos zooms None 0 = Ok (bytes, hdrs) ->
  inc_from 0 (map zh_res hdrs) /\ Nlen hdrs <= MAX_ZOOM_LEVELS.
Proof.
  intros Hb Hw. pose proof (build_levels_res _ _ _ _ _ Hb) as Hres.
  destruct (write_zooms_loop_inc o data_size zooms pos None 0 bytes hdrs 0) as [H1 H2]; [|exact Hw|].
  - rewrite Hres. apply zoom_sizes_single_inc.
  - split; [exact H1|]. pose proof (zoom_sizes_single_cap o) as Hc. rewrite <- Hres in Hc.
    unfold Nlen in *. rewrite map_length in Hc. lia.
Qed.

Theorem levels_increasing_two_pass fp o outs sum data_size pos zooms bytes hdrs :
  build_levels fp o outs (zoom_sizes_two_pass o sum (total_zoom_counts outs) data_size) = Ok zooms ->
  write_zooms_two_pass o pos zooms = Ok (bytes, hdrs) ->
  map zh_res hdrs = zoom_sizes_two_pass o sum (total_zoom_counts outs) data_size
  /\ inc_from 0 (map zh_res hdrs) /\ Nlen hdrs <= MAX_ZOOM_LEVELS.
Proof.
  intros Hb Hw. pose proof (write_zooms_two_pass_res _ _ _ _ _ Hw) as H1.
  rewrite (build_levels_res _ _ _ _ _ Hb) in H1. split; [exact H1|]. split.
  - rewrite H1. apply zoom_sizes_two_pass_inc.
  - pose proof (zoom_sizes_two_pass_cap o sum (total_zoom_counts outs) data_size) as Hc. rewrite <- H1 in Hc.
    unfold Nlen in *. rewrite map_length in Hc. exact Hc.
Qed.

(* the two definitions above are literally what the writers run *)
Lemma bw_write_uses_build_levels fp o sizes input :
  bw_write fp o sizes input =
  (do (ids, outs, sum, data) <- bw_collect fp o sizes input;
   do zooms <- build_levels fp o outs (zoom_sizes_single o);
   assemble o BIGWIG_MAGIC sizes ids sum data bw_pre 0 0 0
            (fun data_size zpos => write_zooms_loop o data_size zpos zooms None 0) (fun nsecs => nsecs)).
Proof. reflexivity. Qed.
Lemma bw_write_multipass_uses_build_levels fp o sizes input :
  bw_write_multipass fp o sizes input =
  (do (ids, outs, sum, data) <- bw_collect fp o sizes input;
   assemble o BIGWIG_MAGIC sizes ids sum data bw_pre 0 0 0
            (fun data_size zpos =>
               do zooms <- build_levels fp o outs (zoom_sizes_two_pass o sum (total_zoom_counts outs) data_size);
               write_zooms_two_pass o zpos zooms) (fun nsecs => nsecs)).
Proof. reflexivity. Qed.
