(* C07: the tiling loop as it was before /repo commit 9296bc5 (defect D1), kept for the record:
   the property fails for it on the design's two witnesses; with both repairs it is [aloop]. *)
From BT Require Import Base.Util Base.Float Model.RTree Model.BBIFile Model.BigWigWrite Proofs.ZoomLoop Proofs.ZoomInv.
Local Open Scope N_scope.

(*    [cursor_max = false]: `add_start = add_end` (D1a: the cursor falls back before the value's start);
   [strict = false]: `if add_end >= add_start` (D1b: a value starting where the record ends is folded
   into min/max and the item count). *)
Fixpoint aloop_old (cursor_max strict : bool) (fuel : nat) (fp : fpmode) (size chrom : N) (cur : value)
         (has_next : bool) (a : N) (C : list zrec) (L : option zrec) : res astate :=
  match fuel with
  | O => Fuel
  | S f =>
      if v_end cur <=? a then
        if has_next then Ok (C, L) else
        match L with
        | Some z => aloop_old cursor_max strict f fp size chrom cur has_next a (C ++ [z]) None
        | None => Ok (C, L)
        end
      else
        let val := v_val cur in
        let z := match L with Some z => z | None => zrec_new chrom a val end in
        let next_end := z_start z + size in
        let add_end := N.min next_end (v_end cur) in
        let z := if (if strict then a <? add_end else a <=? add_end) then zrec_add fp z a add_end val else z in
        let a' := if cursor_max then N.max add_end a else add_end in
        if add_end =? next_end then aloop_old cursor_max strict f fp size chrom cur has_next a' (C ++ [z]) None
        else aloop_old cursor_max strict f fp size chrom cur has_next a' C (Some z)
  end.

Lemma aloop_old_repaired : forall fuel fp size chrom cur hn a C L,
  aloop_old true true fuel fp size chrom cur hn a C L = aloop fuel fp size chrom cur hn a C L.
Proof.
  induction fuel as [|f IH]; intros; [reflexivity|]. cbn [aloop_old aloop].
  destruct (v_end cur <=? a); [destruct hn; [reflexivity|destruct L; [apply IH|reflexivity]]|].
  destruct (N.min _ _ =? _); apply IH.
Qed.

Fixpoint achrom_old (cursor_max strict : bool) (fp : fpmode) (size chrom : N) (vals : list value)
         (C : list zrec) (L : option zrec) : res astate :=
  match vals with
  | [] => Ok (C, L)
  | v :: r =>
      do (C', L') <- aloop_old cursor_max strict (zoom_fuel size v) fp size chrom v
                               (match r with [] => false | _ => true end) (v_start v) C L;
      achrom_old cursor_max strict fp size chrom r C' L'
  end.

Definition one : N := 1065353216.      (* 1.0f32 *)
Definition hundred : N := 1120403456.  (* 100.0f32 *)

(* D1a: values [0,5) and [20,25), resolution 10: a record [10,20) claiming 10 covered bases where
   there is no data at all *)
Lemma D1a_old_loop_refuted :
  exists R, achrom_old false true ieee 10 0
              [{| v_start := 0; v_end := 5; v_bits := one |}; {| v_start := 20; v_end := 25; v_bits := one |}] [] None
            = Ok (R, None)
    /\ map (fun r => (z_start r, z_end r, cov r)) R = [(0, 5, 5); (10, 20, 10); (20, 25, 5)].
Proof. eexists. split; [vm_compute; reflexivity|]. vm_compute. reflexivity. Qed.

(* D1b: values [0,5)=1 and [10,15)=100, resolution 10: the record over [0,..) absorbs max 100 and a
   second item although it holds 5 bases of value 1 only *)
Lemma D1b_old_loop_refuted :
  exists R, achrom_old true false ieee 10 0
              [{| v_start := 0; v_end := 5; v_bits := one |}; {| v_start := 10; v_end := 15; v_bits := hundred |}] [] None
            = Ok (R, None)
    /\ map (fun r => (z_start r, z_end r, cov r, su_items (z_sum r), bits_of_f64 (su_max (z_sum r)))) R
       = [(0, 10, 5, 2, bits_of_f64 (f32_of_bits hundred)); (10, 15, 5, 1, bits_of_f64 (f32_of_bits hundred))].
Proof. eexists. split; [vm_compute; reflexivity|]. vm_compute. reflexivity. Qed.

(* the repaired loop on the same inputs *)
Lemma D1_repaired_witnesses :
  (exists R, achrom_old true true ieee 10 0
              [{| v_start := 0; v_end := 5; v_bits := one |}; {| v_start := 20; v_end := 25; v_bits := one |}] [] None
            = Ok (R, None) /\ map (fun r => (z_start r, z_end r, cov r)) R = [(0, 5, 5); (20, 25, 5)]) /\
  (exists R, achrom_old true true ieee 10 0
              [{| v_start := 0; v_end := 5; v_bits := one |}; {| v_start := 10; v_end := 15; v_bits := hundred |}] [] None
            = Ok (R, None)
    /\ map (fun r => (z_start r, z_end r, cov r, su_items (z_sum r), bits_of_f64 (su_max (z_sum r)))) R
       = [(0, 5, 5, 1, bits_of_f64 (f32_of_bits one)); (10, 15, 5, 1, bits_of_f64 (f32_of_bits hundred))]).
Proof. split; (eexists; split; [vm_compute; reflexivity|]; vm_compute; reflexivity). Qed.
