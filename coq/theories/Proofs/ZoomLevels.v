(* C08: the resolutions of the zoom levels a written bigBed carries are strictly increasing, in both
   write paths (manual lists are normalised by sort + dedup; the automatic ladders multiply by 4;
   the selection loops only drop levels). *)
From BT Require Import Base.Util Base.Float Generated.Consts Model.RTree Model.BBIFile Model.BigWigWrite Model.BedSweep
  Model.EntryBedSweep.
Local Open Scope N_scope.

Fixpoint incr_gt (lo : N) (l : list N) : Prop :=
  match l with [] => True | x :: r => lo < x /\ incr_gt x r end.
Definition sincr (l : list N) : Prop := match l with [] => True | x :: r => incr_gt x r end.

Lemma incr_gt_weaken : forall l lo lo', lo <= lo' -> incr_gt lo' l -> incr_gt lo l.
Proof. intros [|x r] lo lo' H Hi; cbn [incr_gt] in *; [exact I | split; [lia | tauto]]. Qed.
Lemma incr_gt_sincr : forall l lo, incr_gt lo l -> sincr l.
Proof. intros [|x r] lo H; cbn [incr_gt sincr] in *; tauto. Qed.

Lemma insert_gt : forall l lo x, incr_gt lo l -> lo < x -> incr_gt lo (insert_sorted x l).
Proof.
  induction l as [|y r IH]; intros lo x Hi Hx; cbn [insert_sorted incr_gt] in *.
  - tauto.
  - destruct Hi as (A & B). destruct (N.ltb_spec x y); [cbn [incr_gt]; tauto|].
    destruct (N.eqb_spec x y); [cbn [incr_gt]; tauto|].
    cbn [incr_gt]. split; [assumption|]. apply IH; [assumption | lia].
Qed.
Lemma insert_sincr : forall l x, sincr l -> sincr (insert_sorted x l).
Proof.
  intros [|y r] x H; cbn [insert_sorted sincr] in *; [exact I|].
  destruct (N.ltb_spec x y); [cbn [sincr incr_gt]; tauto|].
  destruct (N.eqb_spec x y); [exact H|].
  cbn [sincr]. apply insert_gt; [assumption | lia].
Qed.
Lemma sort_dedup_sincr : forall l, sincr (sort_dedup l).
Proof.
  intro l. unfold sort_dedup. assert (G : forall acc, sincr acc -> sincr (fold_left (fun acc x => insert_sorted x acc) l acc)).
  { induction l as [|x r IH]; intros acc H; cbn [fold_left]; [assumption | apply IH, insert_sincr, H]. }
  apply G. exact I.
Qed.

Lemma firstn_incr : forall n (l : list N) lo, incr_gt lo l -> incr_gt lo (firstn n l).
Proof.
  induction n as [|n IH]; intros [|x r] lo H; cbn [firstn incr_gt] in *; try exact I.
  destruct H as (A & B). split; [assumption | apply IH, B].
Qed.
Lemma firstn_sincr : forall n (l : list N), sincr l -> sincr (firstn n l).
Proof.
  intros [|n] [|x r] H; cbn [firstn sincr] in *; try exact I. now apply firstn_incr.
Qed.

Lemma Forall_firstn' : forall (P : N -> Prop) n l, Forall P l -> Forall P (firstn n l).
Proof.
  intros P. induction n as [|n IH]; intros [|x r] H; cbn [firstn]; try constructor.
  - inversion H; assumption.
  - inversion H; subst. now apply IH.
Qed.

(* contiguous pieces keep the order *)
Lemma skip_while_gt : forall (p : N * N -> bool) l lo, incr_gt lo (map fst l) -> incr_gt lo (map fst (skip_while p l)).
Proof.
  induction l as [|x r IH]; intros lo H; cbn [skip_while map incr_gt] in *; [exact I|].
  destruct (p x); [|exact H]. destruct H as (A & B). eapply incr_gt_weaken; [|apply IH, B]. lia.
Qed.
Lemma take_while_gt : forall (p : N * N -> bool) l lo, incr_gt lo (map fst l) -> incr_gt lo (map fst (take_while p l)).
Proof.
  induction l as [|x r IH]; intros lo H; cbn [take_while map incr_gt] in *; [exact I|].
  destruct H as (A & B). destruct (p x); cbn [map incr_gt]; [split; [assumption | apply IH, B] | exact I].
Qed.
Lemma firstn_gt : forall n (l : list (N * N)) lo, incr_gt lo (map fst l) -> incr_gt lo (map fst (firstn n l)).
Proof.
  induction n as [|n IH]; intros [|x r] lo H; cbn [firstn map incr_gt] in *; try exact I.
  destruct H as (A & B). split; [assumption | apply IH, B].
Qed.

Lemma ladder_gt : forall fuel z stop lo, 0 < z -> lo < z -> incr_gt lo (ladder fuel z stop).
Proof.
  induction fuel as [|f IH]; intros z stop lo Hz Hlo; cbn [ladder incr_gt]; [exact I|].
  destruct (stop z); cbn [incr_gt]; [exact I|]. split; [assumption|].
  apply IH; unfold ZOOM_COUNT_FACTOR; lia.
Qed.

Lemma two_pass_sincr : forall o sum outs data_size, sincr (zoom_sizes_two_pass o sum (total_zoom_counts outs) data_size).
Proof.
  intros o sum outs data_size. unfold zoom_sizes_two_pass. destruct (o_manual o); [apply firstn_sincr, sort_dedup_sincr|].
  apply (incr_gt_sincr _ 0). apply take_while_gt, firstn_gt, skip_while_gt, skip_while_gt.
  unfold total_zoom_counts. rewrite map_map. cbn [fst]. rewrite map_id.
  unfold total_ladder. apply ladder_gt; unfold ZOOM_COUNT_FIRST; lia.
Qed.

Lemma single_sincr : forall o, sincr (zoom_sizes_single o).
Proof. intro. unfold zoom_sizes_single. apply firstn_sincr, sort_dedup_sincr. Qed.

Lemma mapM_fst : forall fp o cs sizes levels, mapM (level_of fp o cs) sizes = Ok levels -> map fst levels = sizes.
Proof.
  intros fp o cs. induction sizes as [|s r IH]; intros levels H; cbn [mapM] in H.
  - inversion H. reflexivity.
  - unfold level_of at 1 in H. destruct (concat_res _) as [secs| | |]; cbn [rbind] in H; try discriminate.
    destruct (mapM (level_of fp o cs) r) as [ys| | |]; cbn [rbind] in H; try discriminate.
    inversion H; subst. cbn [map fst]. f_equal. now apply IH.
Qed.

Lemma select_single_gt : forall o ds zs lo lc zc, incr_gt lo (map fst zs) ->
  incr_gt lo (map fst (select_single o ds zs lc zc)).
Proof.
  intros o ds. induction zs as [|z rest IH]; intros lo lc zc H; cbn [select_single map incr_gt] in *; [exact I|].
  destruct H as (A & B).
  assert (Hskip : forall lc' zc', incr_gt lo (map fst (select_single o ds rest lc' zc'))).
  { intros. eapply incr_gt_weaken; [|apply IH, B]. lia. }
  destruct (_ && (ds / 2 <? _)); [apply Hskip|].
  destruct (_ && match lc with None => false | Some l => l <=? _ end); [apply Hskip|].
  destruct (_ && (o_maxzooms o <=? zc + 1)); cbn [map incr_gt]; [tauto|].
  split; [assumption | apply IH, B].
Qed.

(* positivity: zeros are filtered out of manual lists, the ladders start at 10 *)
Lemma insert_pos : forall x acc, 0 < x -> Forall (fun y => 0 < y) acc -> Forall (fun y => 0 < y) (insert_sorted x acc).
Proof.
  intros x acc Hx. induction acc as [|y acc' IH]; intro Ha; cbn [insert_sorted]; [constructor; [assumption|constructor]|].
  inversion Ha; subst. destruct (x <? y); [constructor; assumption|]. destruct (x =? y); [assumption|].
  constructor; [assumption | now apply IH].
Qed.
Lemma sort_dedup_pos : forall l, Forall (fun x => 0 < x) l -> Forall (fun x => 0 < x) (sort_dedup l).
Proof.
  intros l Hl. unfold sort_dedup.
  assert (G : forall l acc, Forall (fun x => 0 < x) l -> Forall (fun x => 0 < x) acc ->
              Forall (fun x => 0 < x) (fold_left (fun acc x => insert_sorted x acc) l acc)).
  { induction l0 as [|x r IHl]; intros acc H Ha; cbn [fold_left]; [assumption|].
    inversion H; subst. apply IHl; [assumption | now apply insert_pos]. }
  apply G; [assumption | constructor].
Qed.
Lemma filter_nonzero_pos : forall l, Forall (fun x => 0 < x) (filter (fun z => negb (z =? 0)) l).
Proof.
  intro l. rewrite Forall_forall. intros x Hx. apply filter_In in Hx. destruct Hx as (_ & Hx).
  destruct (N.eqb_spec x 0); [discriminate | lia].
Qed.
Lemma sincr_pos_gt0 : forall l, sincr l -> Forall (fun x => 0 < x) l -> incr_gt 0 l.
Proof. intros [|x r] Hs Hp; cbn [sincr incr_gt] in *; [exact I|]. inversion Hp; subst. tauto. Qed.
Lemma incr_gt_pos : forall l lo, incr_gt lo l -> Forall (fun x => lo < x) l.
Proof.
  induction l as [|x r IH]; intros lo H; cbn [incr_gt] in *; [constructor|]. destruct H as (A & B).
  constructor; [assumption|]. eapply Forall_impl; [|apply IH, B]. cbn beta. intros; lia.
Qed.

Lemma single_gt0 : forall o, incr_gt 0 (zoom_sizes_single o).
Proof.
  intro o. apply sincr_pos_gt0; [apply single_sincr|]. unfold zoom_sizes_single.
  apply Forall_firstn', sort_dedup_pos, filter_nonzero_pos.
Qed.
Lemma two_pass_gt0 : forall o sum outs data_size, incr_gt 0 (zoom_sizes_two_pass o sum (total_zoom_counts outs) data_size).
Proof.
  intros o sum outs data_size. unfold zoom_sizes_two_pass. destruct (o_manual o).
  - apply sincr_pos_gt0; [apply firstn_sincr, sort_dedup_sincr | apply Forall_firstn', sort_dedup_pos, filter_nonzero_pos].
  - apply take_while_gt, firstn_gt, skip_while_gt, skip_while_gt.
    unfold total_zoom_counts. rewrite map_map. cbn [fst]. rewrite map_id.
    unfold total_ladder. apply ladder_gt; unfold ZOOM_COUNT_FIRST; lia.
Qed.

Theorem levels_gt0 : forall fp two_pass o sizes input sum levels cs,
  bb_file fp two_pass o sizes input = Ok (sum, levels, cs) -> incr_gt 0 (map fst levels).
Proof.
  intros fp two_pass o sizes input sum levels cs H. unfold bb_file in H.
  destruct input as [|it input']; [discriminate|].
  destruct (bb_process_runs _ _ _ _ _) as [[ids cs1]| | |]; cbn [rbind] in H; try discriminate.
  destruct two_pass.
  - destruct (mapM _ _) as [lv| | |] eqn:Em; cbn [rbind] in H; try discriminate.
    inversion H; subst. rewrite (mapM_fst _ _ _ _ _ Em). apply two_pass_gt0.
  - destruct (mapM _ _) as [lv| | |] eqn:Em; cbn [rbind] in H; try discriminate.
    inversion H; subst. apply select_single_gt. rewrite (mapM_fst _ _ _ _ _ Em). apply single_gt0.
Qed.

Theorem levels_increasing : forall fp two_pass o sizes input sum levels cs,
  bb_file fp two_pass o sizes input = Ok (sum, levels, cs) -> sincr (map fst levels).
Proof. intros. eapply incr_gt_sincr, levels_gt0. eassumption. Qed.

Theorem levels_positive : forall fp two_pass o sizes input sum levels cs,
  bb_file fp two_pass o sizes input = Ok (sum, levels, cs) -> Forall (fun l => 1 <= fst l) levels.
Proof.
  intros. pose proof (incr_gt_pos _ _ (levels_gt0 _ _ _ _ _ _ _ _ H)) as Hp.
  rewrite Forall_forall in *. intros l Hl. specialize (Hp (fst l) (in_map fst _ _ Hl)). cbn beta in Hp. lia.
Qed.

(* every level written consists, chromosome by chromosome in stream order, of the sections
   bb_zoom_records yields for that chromosome at the level's resolution *)
Definition level_from (fp : fpmode) (o : opts) (cs : list bchrom) (l : level) : Prop :=
  exists per, Forall2 (fun c secs => bb_zoom_records fp (o_ips o) (fst l) (bc_id c) (bc_es c) = Ok secs) cs per /\
              snd l = concat per.

Lemma concat_res_spec : forall {X Y} (f : X -> res (list Y)) xs out, concat_res (map f xs) = Ok out ->
  exists per, Forall2 (fun x s => f x = Ok s) xs per /\ out = concat per.
Proof.
  intros X Y f. induction xs as [|x r IH]; intros out H; unfold concat_res in *; cbn [map fold_right] in H.
  - inversion H. exists []. split; [constructor | reflexivity].
  - destruct (f x) as [a| | |] eqn:Ef; cbn [rbind] in H; try discriminate.
    destruct (fold_right _ _ _) as [b| | |] eqn:Er; cbn [rbind] in H; try discriminate.
    inversion H; subst. destruct (IH b eq_refl) as (per & A & B). exists (a :: per).
    split; [constructor; assumption | cbn [concat]; now rewrite B].
Qed.

Lemma mapM_level_from : forall fp o cs sizes levels, mapM (level_of fp o cs) sizes = Ok levels ->
  Forall (level_from fp o cs) levels.
Proof.
  intros fp o cs. induction sizes as [|s r IH]; intros levels H; cbn [mapM] in H.
  - inversion H. constructor.
  - unfold level_of at 1 in H. destruct (concat_res _) as [secs| | |] eqn:Ec; cbn [rbind] in H; try discriminate.
    destruct (mapM (level_of fp o cs) r) as [ys| | |] eqn:Em; cbn [rbind] in H; try discriminate.
    inversion H; subst. constructor; [|now apply IH].
    destruct (concat_res_spec _ _ _ Ec) as (per & A & B). exists per. cbn [fst snd]. split; assumption.
Qed.

Lemma select_single_sub : forall o ds zs lc zc (P : level -> Prop), Forall P zs -> Forall P (select_single o ds zs lc zc).
Proof.
  intros o ds. induction zs as [|z rest IH]; intros lc zc P H; cbn [select_single]; [constructor|].
  inversion H; subst.
  destruct (_ && (ds / 2 <? _)); [now apply IH|].
  destruct (_ && match lc with None => false | Some l => l <=? _ end); [now apply IH|].
  destruct (_ && (o_maxzooms o <=? zc + 1)); [constructor; [assumption | constructor]|].
  constructor; [assumption | now apply IH].
Qed.

Theorem levels_from_records : forall fp two_pass o sizes input sum levels cs,
  bb_file fp two_pass o sizes input = Ok (sum, levels, cs) -> Forall (level_from fp o cs) levels.
Proof.
  intros fp two_pass o sizes input sum levels cs H. unfold bb_file in H.
  destruct input as [|it input']; [discriminate|].
  destruct (bb_process_runs _ _ _ _ _) as [[ids cs1]| | |]; cbn [rbind] in H; try discriminate.
  destruct two_pass; destruct (mapM _ _) as [lv| | |] eqn:Em; cbn [rbind] in H; try discriminate; inversion H; subst.
  - eapply mapM_level_from; eassumption.
  - apply select_single_sub. eapply mapM_level_from; eassumption.
Qed.
