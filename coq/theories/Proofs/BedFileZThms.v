(* C02/C04 on compressed files: the statements for the two real write paths of the compressor-parametric
   bigBed writer model (bb_write_z / bb_write_multipass_z, Model/BigBedWriteZ.v), in the form of
   C02_written_file_roundtrip / C04_written_file_query, plus the caching reader's history on such files.
   Hypotheses on the pair (cmp, infl): only  o_compress o = true -> forall b, infl (cmp b) = b.
   New field-width hypothesis ([ubuf_fits]): when blocks are compressed, every uncompressed block is shorter than
   2^32 bytes (uncompress_buf_size is a u32 header field). *)
From Coq Require Import Sorting.Sorted.
From BT Require Import Base.Util Base.LE Base.Float Generated.Consts Model.RTree Model.BBIFile Model.BigWigWrite Model.BigWigWriteZ
  Model.BBIRead Model.CachedRead Model.BigBedWrite Model.BigBedWriteZ Model.BBIReadBed Proofs.RTreeCodec Proofs.BedAssemble
  Proofs.BedQuery Proofs.BedCodec Proofs.BedReadInfo Proofs.BedEndToEnd Proofs.BedZoomFit Proofs.BedCached Proofs.BedFileZ.
From BT Require Model.BedSweep Proofs.C09BufSize Proofs.C09Whole Proofs.C09Zoom Proofs.C09BedZoom.
Local Open Scope N_scope.

(* ---------- the zoom sections: 1..items_per_slot records of 32 bytes ---------- *)
Lemma bed_level_secs_sized fp o outs zsizes zooms : 1 <= o_ips o ->
  mapM (bb_zoom_level fp o outs) zsizes = Ok zooms ->
  Forall (fun s => Nlen (sd_bytes s) <= 32 * o_ips o) (flat_map zl_secs zooms).
Proof.
  intros Hi H. destruct (C09BedZoom.bed_levels_built _ _ _ _ _ H) as [-> _].
  apply Forall_forall. intros s Hs. apply in_flat_map in Hs as [zl [Hzl Hs]]. apply in_map_iff in Hzl as [z [<- _]].
  cbn [C09BedZoom.bzl zl_secs] in Hs. unfold C09Zoom.zsecs in Hs. apply in_map_iff in Hs as [rs [<- Hrs]]. rewrite C09Zoom.zsec_bytes_len.
  unfold C09BedZoom.bb_rsecs in Hrs. apply in_flat_map in Hrs as [c [_ Hrs]]. unfold C09BedZoom.chrom_rsecs in Hrs.
  destruct (BedSweep.bb_zoom_records fp (o_ips o) z (bc_id c) (sw_entries c)) as [secs| | |] eqn:E; try destruct Hrs.
  pose proof (C09BedZoom.tile_sections_sized _ _ _ _ _ _ Hi E) as Hall. rewrite Forall_forall in Hall. destruct (Hall rs Hrs). lia.
Qed.

Lemma zoom_ubuf_fit cz (secs : list sdata) B : (cz = true -> B < U32) -> Forall (fun s => Nlen (sd_bytes s) <= B) secs ->
  ubuf_of cz secs < U32 /\ (cz = false -> ubuf_of cz secs = 0).
Proof.
  intros HB Hall. unfold ubuf_of. destruct cz; [|split; [unfold U32; lia|reflexivity]]. split; [|discriminate].
  specialize (HB eq_refl). apply C09Whole.max_len_lt; [unfold U32; lia|]. eapply Forall_impl; [|exact Hall]. intros s Hs. cbn beta in Hs. lia.
Qed.

Lemma single_z_fit cmp cz fp o : 1 <= o_ips o -> (cz = true -> 32 * o_ips o < U32) -> forall outs sum a b zb zh zu,
  bb_zoom_single_z cmp cz fp o outs sum a b = Ok (zb, zh, zu) -> (length zh <= 10)%nat /\ zu < U32 /\ (cz = false -> zu = 0).
Proof.
  intros Hi Hb outs sum a b zb zh zu H. unfold bb_zoom_single_z in H.
  destruct (mapM (bb_zoom_level fp o outs) (zoom_sizes_single o)) as [zooms| | |] eqn:E; cbn [rbind] in H; try discriminate.
  destruct (write_zooms_loop o a b _ None 0) as [[b0 h0]| | |] eqn:Ew; cbn [rbind] in H; try discriminate.
  apply Ok_inj in H. inversion H; subst. split.
  - apply write_zooms_loop_len in Ew. rewrite map_length in Ew. apply mapM_length in E. pose proof (zoom_sizes_single_len o). lia.
  - exact (zoom_ubuf_fit cz _ _ Hb (bed_level_secs_sized fp o outs _ _ Hi E)).
Qed.

Lemma two_pass_z_fit cmp cz fp o : 1 <= o_ips o -> (cz = true -> 32 * o_ips o < U32) -> forall outs sum a b zb zh zu,
  bb_zoom_two_pass_z cmp cz fp o outs sum a b = Ok (zb, zh, zu) -> (length zh <= 10)%nat /\ zu < U32 /\ (cz = false -> zu = 0).
Proof.
  intros Hi Hb outs sum a b zb zh zu H. unfold bb_zoom_two_pass_z in H. cbv zeta in H.
  destruct (mapM (bb_zoom_level fp o outs) _) as [zooms| | |] eqn:E; cbn [rbind] in H; try discriminate.
  destruct (write_zooms_two_pass o b _) as [[b0 h0]| | |] eqn:Ew; cbn [rbind] in H; try discriminate.
  apply Ok_inj in H. inversion H; subst. split.
  - apply write_zooms_two_pass_len in Ew. rewrite map_length in Ew. apply mapM_length in E.
    pose proof (zoom_sizes_two_pass_len o sum (total_zoom_counts (map chrom_out_of outs)) a). lia.
  - exact (zoom_ubuf_fit cz _ _ Hb (bed_level_secs_sized fp o outs _ _ Hi E)).
Qed.

(* ---------- the two writers ---------- *)
Definition bb_write_either_zc (cmp : list N -> list N) (cz two_pass : bool) (fp : fpmode) (o : opts) :=
  if two_pass then bb_write_multipass_zc cmp cz fp o else bb_write_zc cmp cz fp o.
Definition bb_write_either_z (cmp : list N -> list N) (two_pass : bool) (fp : fpmode) (o : opts) :=
  if two_pass then bb_write_multipass_z cmp fp o else bb_write_z cmp fp o.

(* the u32 header field uncompress_buf_size can hold the largest uncompressed block *)
Definition ubuf_fits_c (cz : bool) (o : opts) (input : list bitem) : Prop :=
  cz = true -> 32 * o_ips o < U32 /\ blocks_fit o input.
Definition ubuf_fits (o : opts) (input : list bitem) : Prop := ubuf_fits_c (o_compress o) o input.

(* what the reader sees of a written file *)
Definition written_z_facts (cmp : list N -> list N) (cz : bool) (o : opts) (sizes : list (name * N)) (autosql : option (list N))
           (input : list bitem) (f : list N) (i : info) : Prop :=
  read_info f = Ok i
  /\ (h_ubuf (i_hdr i) = 0 <-> cz = false) /\ h_ubuf (i_hdr i) < U32
  /\ (cz = true -> forall c es blk, In (c, es) (bruns input) -> In blk (sections_loop (o_ips o) [] es) ->
        block_len blk <= h_ubuf (i_hdr i))
  /\ (forall infl c es s e, (cz = true -> forall b, infl (cmp b) = b) -> In (c, es) (bruns input) ->
        bb_interval infl f i c s e = Ok (filter (bkeep s e) es))
  /\ (Nlen input < U64 -> bb_item_count f i = Ok (Nlen input))
  /\ bb_autosql f i = Ok (Some (match autosql with Some s => s | None => AUTOSQL_BED3 end))
  /\ map (fun c => (ci_name c, ci_id c)) (i_chroms i) = combine (map fst (bruns input)) (seqN 0 (length (bruns input)))
  /\ Forall (fun c => lookup (ci_name c) sizes = Some (ci_len c)) (i_chroms i)
  /\ (forall c es, In (c, es) (bruns input) -> exists len, lookup c sizes = Some len /\ wf_entries len es).

Theorem written_zc cmp cz two_pass fp o sizes autosql input f :
  bb_write_either_zc cmp cz two_pass fp o sizes autosql input = Ok f -> file_hyps o sizes input f -> ubuf_fits_c cz o input ->
  exists i, written_z_facts cmp cz o sizes autosql input f i.
Proof.
  intros Hw (H1 & H3 & H4 & H5 & H6) Hfit.
  set (zp := if two_pass then bb_zoom_two_pass_z cmp cz fp o else bb_zoom_single_z cmp cz fp o).
  assert (Hw' : bb_write_gen_z cmp cz (bb_sweep fp) zp o sizes autosql input = Ok f).
  { unfold zp. destruct two_pass; exact Hw. }
  assert (Hopt : 1 <= o_ips o).
  { unfold bb_write_gen_z in Hw'. destruct ((o_bs o <? 2) || (o_ips o <? 1)) eqn:E; [discriminate|].
    apply orb_false_iff in E as [_ E]. apply N.ltb_ge in E. exact E. }
  assert (Hzf : forall outs sum a b zb zh zu, zp outs sum a b = Ok (zb, zh, zu) -> (length zh <= 10)%nat /\ zu < U32 /\ (cz = false -> zu = 0)).
  { unfold zp. destruct two_pass; [apply two_pass_z_fit|apply single_z_fit]; try exact Hopt; intros Ec; exact (proj1 (Hfit Ec)). }
  destruct (bb_write_read_z cmp cz (bb_sweep fp) zp Hzf o sizes autosql input f Hw' H1 H3 H4 H5 H6 (fun Ec => proj2 (Hfit Ec)))
    as (i & sql & fc & Hri & Hsch & Hu0 & Hu32 & Hcov & Hq & Hcnt & Hsql & _ & _ & Hct & Hlen).
  exists i. split; [exact Hri|]. split; [exact Hu0|]. split; [exact Hu32|]. split; [exact Hcov|]. split; [exact Hq|]. split; [exact Hcnt|].
  split; [destruct (bb_schema_verbatim _ _ _ Hsch) as [E _]; rewrite E in Hsql; exact Hsql|]. split; [exact Hct|]. split; [exact Hlen|].
  assert (Hcol : exists ids outs, bb_collect o sizes input = Ok (ids, outs)).
  { unfold bb_write_gen_z in Hw'. destruct ((o_bs o <? 2) || (o_ips o <? 1)); [discriminate|].
    rewrite Hsch in Hw'. cbn [rbind] in Hw'.
    destruct (bb_collect o sizes input) as [[ids outs]| | |]; try discriminate. eauto. }
  destruct Hcol as [ids [outs Hcol]]. exact (accepted_runs_wf _ _ _ _ _ Hcol).
Qed.

Theorem written_z cmp two_pass fp o sizes autosql input f :
  bb_write_either_z cmp two_pass fp o sizes autosql input = Ok f -> file_hyps o sizes input f -> ubuf_fits o input ->
  exists i, written_z_facts cmp (o_compress o) o sizes autosql input f i.
Proof.
  intros Hw. apply (written_zc cmp (o_compress o) two_pass fp o sizes autosql input f).
  unfold bb_write_either_zc. destruct two_pass; exact Hw.
Qed.

(* ---------- C04 on compressed files ---------- *)
Theorem written_file_query_compressed cmp two_pass fp o sizes autosql input f :
  bb_write_either_z cmp two_pass fp o sizes autosql input = Ok f -> file_hyps o sizes input f -> ubuf_fits o input ->
  exists i, read_info f = Ok i /\ forall infl, (o_compress o = true -> forall b, infl (cmp b) = b) ->
    forall c es s e, In (c, es) (bruns input) -> bb_interval infl f i c s e = Ok (filter (bkeep s e) es).
Proof.
  intros Hw Hh Hfit. destruct (written_z cmp two_pass fp o sizes autosql input f Hw Hh Hfit) as (i & Hri & _ & _ & _ & Hq & _).
  exists i. split; [exact Hri|]. intros infl Hrt c es s e Hin. exact (Hq infl c es s e Hrt Hin).
Qed.

(* the property's own wording on the compressed file *)
Theorem written_file_no_miss_no_disjoint_compressed cmp two_pass fp o sizes autosql input f :
  bb_write_either_z cmp two_pass fp o sizes autosql input = Ok f -> file_hyps o sizes input f -> ubuf_fits o input ->
  exists i, read_info f = Ok i /\ forall infl, (o_compress o = true -> forall b, infl (cmp b) = b) ->
    forall c es s e, In (c, es) (bruns input) ->
    exists ans, bb_interval infl f i c s e = Ok ans
      /\ (forall x, In x es -> e_start x < e -> s < e_end x -> In x ans)
      /\ (forall x, In x ans -> In x es /\ s <= e_end x /\ e_start x <= e)
      /\ ans = filter (bkeep s e) es.
Proof.
  intros Hw Hh Hfit. destruct (written_file_query_compressed cmp two_pass fp o sizes autosql input f Hw Hh Hfit) as [i [Hri Hq]].
  exists i. split; [exact Hri|]. intros infl Hrt c es s e Hin. exists (filter (bkeep s e) es).
  split; [apply Hq; assumption|]. split; [|split; [|reflexivity]].
  - intros x Hx A B. apply In_filter_iff. repeat split; [exact Hx|lia|lia].
  - intros x Hx. apply In_filter_iff. exact Hx.
Qed.

(* history independence on such files: every answer of every finite query history through one caching reader
   (from the empty cache, or from any cache satisfying the invariant, e.g. a reopened reader) about a
   chromosome that had data is exactly the filter of its entries *)
Theorem written_file_history_compressed cmp two_pass fp o sizes autosql input f :
  bb_write_either_z cmp two_pass fp o sizes autosql input = Ok f -> file_hyps o sizes input f -> ubuf_fits o input ->
  exists i, read_info f = Ok i /\ forall infl, (o_compress o = true -> forall b, infl (cmp b) = b) ->
    forall c qs, cache_ok infl f i c ->
      c_bb_history infl f i c qs = map (fun q => bb_interval infl f i (fst (fst q)) (snd (fst q)) (snd q)) qs
      /\ Forall2 (fun q a => forall es, In (fst (fst q), es) (bruns input) -> a = Ok (filter (bkeep (snd (fst q)) (snd q)) es))
                 qs (c_bb_history infl f i c qs).
Proof.
  intros Hw Hh Hfit. destruct (written_file_query_compressed cmp two_pass fp o sizes autosql input f Hw Hh Hfit) as [i [Hri Hq]].
  exists i. split; [exact Hri|]. intros infl Hrt c qs Hc. pose proof (c_bb_history_ok infl f i qs c Hc) as E. split; [exact E|].
  rewrite E. clear E Hc. induction qs as [|[[cn s] e] qs IH]; [constructor|]. cbn [map fst snd]. constructor; [|exact IH].
  intros es Hin. cbn [fst snd] in Hin. exact (Hq infl Hrt cn es s e Hin).
Qed.

(* ---------- C02 on compressed files ---------- *)
Theorem written_file_roundtrip_compressed cmp two_pass fp o sizes autosql input f :
  bb_write_either_z cmp two_pass fp o sizes autosql input = Ok f -> file_hyps o sizes input f -> ubuf_fits o input ->
  exists i, read_info f = Ok i
    /\ (h_ubuf (i_hdr i) = 0 <-> o_compress o = false) /\ h_ubuf (i_hdr i) < U32
    /\ (forall infl, (o_compress o = true -> forall b, infl (cmp b) = b) -> forall c es, In (c, es) (bruns input) ->
          exists len, lookup c sizes = Some len /\ bb_interval infl f i c 0 len = Ok es)
    /\ (Nlen input < U64 -> bb_item_count f i = Ok (Nlen input))
    /\ bb_autosql f i = Ok (Some (match autosql with Some s => s | None => AUTOSQL_BED3 end))
    /\ map (fun c => (ci_name c, ci_id c)) (i_chroms i) = combine (map fst (bruns input)) (seqN 0 (length (bruns input)))
    /\ Forall (fun c => lookup (ci_name c) sizes = Some (ci_len c)) (i_chroms i).
Proof.
  intros Hw Hh Hfit. destruct (written_z cmp two_pass fp o sizes autosql input f Hw Hh Hfit)
    as (i & Hri & Hu0 & Hu32 & _ & Hq & Hcnt & Hsql & Hct & Hlen & Hacc).
  exists i. split; [exact Hri|]. split; [exact Hu0|]. split; [exact Hu32|]. split; [|auto].
  intros infl Hrt c es Hin. destruct (Hacc c es Hin) as [len [Hl Hwf]]. exists len. split; [exact Hl|].
  rewrite (Hq infl c es 0 len Hrt Hin). now rewrite bfull_span.
Qed.

(* the buffer size the READER sees covers every data block it may have to inflate *)
Theorem written_file_buf_size_compressed cmp two_pass fp o sizes autosql input f :
  bb_write_either_z cmp two_pass fp o sizes autosql input = Ok f -> file_hyps o sizes input f -> ubuf_fits o input ->
  exists i, read_info f = Ok i /\ (o_compress o = true ->
    forall c es blk, In (c, es) (bruns input) -> In blk (sections_loop (o_ips o) [] es) ->
      Nlen (flat_map (entry_bytes 0) blk) <= h_ubuf (i_hdr i)).
Proof.
  intros Hw Hh Hfit. destruct (written_z cmp two_pass fp o sizes autosql input f Hw Hh Hfit) as (i & Hri & _ & _ & Hcov & _).
  exists i. split; [exact Hri|]. intros Ec c es blk Hce Hblk. rewrite block_bytes_len. exact (Hcov Ec c es blk Hce Hblk).
Qed.

(* with compression off these are the uncompressed statements *)
Lemma ubuf_fits_off o input : o_compress o = false -> ubuf_fits o input.
Proof. intros E Ec. congruence. Qed.

(* ---------- a toy compressor for the non-vacuity examples ---------- *)
(* two marker bytes, then the block reversed: every block changes and grows by 2 bytes, so every offset
   behind the first block differs from the uncompressed file *)
Definition toy_cmp (b : list N) : list N := 255 :: 254 :: rev b.
Definition toy_infl (l : list N) : list N := match l with 255 :: 254 :: r => rev r | _ => l end.
Lemma toy_rt : forall b, toy_infl (toy_cmp b) = b.
Proof. intros b. unfold toy_cmp, toy_infl. apply rev_involutive. Qed.
