(* C17 with the FILE BYTES as the subject.
   Properties/C17.v states the region statistics over the list-level answer of a range query
   ([clip_filter s e vals]); that the reader returns this list for the bytes of a written file is
   C01 (C01_query_on_input).  This file composes the two: for [bs] = the bytes returned by
   [bw_write] / [bw_write_multipass] on an accepted input, the model of stats_for_bed_item /
   the valuesoverbed row run on the READER's answer on those bytes ([bw_interval infl bs i]:
   header -> chromosome tree -> index search on bytes -> block reads -> section decode -> clip)
   yields the statistics / cells that C17_stats, C17_stats_per_base and C17_values_over_bed state,
   with [vals] = the values the input holds for the chromosome ([vals_of inp c]).
   Nothing about the file format is re-proved here. *)
From Coq Require Import QArith.
From BT Require Import Base.Util Base.LE Base.Float Model.RTree Model.BBIFile Model.BigWigWrite Model.BBIRead.
From BT Require Import Proofs.Chunks Proofs.BigWigQuery Proofs.RTreeCodec Proofs.FileRegions Proofs.BigWigFile Proofs.BigWigFileChroms
  Proofs.BigWigFileData Proofs.BigWigFileRoundTrip Proofs.BigWigFileThms Proofs.BigWigFileInput.
From BT Require Import Model.BedStats.
From BT Require Import Proofs.BedStatsThms Proofs.BedStatsFloat Proofs.BedStatsRows Proofs.BedStatsValues Proofs.BedStatsPerBase.
Local Open Scope N_scope.

(* ------------------------------------------------------------------ query-independent glue (no file hypothesis) *)
(* stats_for_bed_item over any query function that answers the region with [cl] *)
Lemma stats_item_of_answer fq (q : name -> N -> N -> res (list value)) c s e rest cl :
  q c s e = Ok cl ->
  stats_for_bed_item fq q c {| be_start := s; be_end := e; be_rest := rest |} = stats_of fq s e cl.
Proof. intros Hq. unfold stats_for_bed_item. cbn [be_start be_end]. rewrite Hq. reflexivity. Qed.

(* the values the input holds for a chromosome with data were accepted against the supplied length *)
Section File.
Variables (fp : fpmode) (o : opts) (sizes : list (name * N)) (inp : list BigWigWrite.item) (bs : list N).
Hypothesis Ho : opts_ok o.
Hypothesis Hi : input_ok sizes inp.
Hypothesis Hs : Nlen bs < U64.
Hypothesis Hw : bw_write fp o sizes inp = Ok bs \/ bw_write_multipass fp o sizes inp = Ok bs.

Lemma file_vals_accepted c : In c (map fst inp) ->
  exists len, lookup c sizes = Some len /\ wf_vals len (vals_of inp c) /\ vals_of inp c <> [].
Proof.
  intros Hin.
  exact (write_accepted fp o sizes inp bs Hw c _ (chrom_has_run inp c (write_grouped fp o sizes inp bs Hw) Hin)).
Qed.

Lemma file_opens : exists i, read_info bs = Ok i.
Proof.
  destruct (roundtrip_read_info sizes inp bs (write_roundtrip_for fp o sizes inp bs Ho Hi Hs Hw)) as (i & Hri & _).
  exists i. exact Hri.
Qed.

(* C17_stats on the bytes: every rounding mode [fq] of the statistics (the writer's own mode [fp] only shapes the
   summary / zoom bytes), every decompressor, every extra-column text *)
Theorem stats_file : exists i, read_info bs = Ok i /\
  forall fq infl c s e rest, In c (map fst inp) -> s <= e ->
  let cl := clip_filter s e (vals_of inp c) in
  bw_interval infl bs i c s e = Ok cl /\
  exists st,
    stats_for_bed_item fq (bw_interval infl bs i) c {| be_start := s; be_end := e; be_rest := rest |} = Ok st /\
    st_size st = e - s /\ st_bases st = bases_of cl /\ st_sum st = sum_of fq cl /\
    st_mean0 st = fdiv64 fq (sum_of fq cl) (f_of_N (e - s)) /\
    (bases_of cl = 0 -> st_mean st = FNaN /\ st_min st = FNaN /\ st_max st = FNaN) /\
    (bases_of cl <> 0 ->
       st_mean st = fdiv64 fq (sum_of fq cl) (f_of_N (bases_of cl)) /\
       st_min st = fold_left fmin (map v_val cl) f64_max /\
       st_max st = fold_left fmax (map v_val cl) f64_min).
Proof.
  destruct file_opens as [i Hri]. exists i. split; [exact Hri|].
  intros fq infl c s e rest Hin Hse cl.
  pose proof (on_input_query fp o sizes inp bs Ho Hi Hs Hw i infl c s e Hri Hin) as Hq. fold cl in Hq.
  split; [exact Hq|].
  destruct (file_vals_accepted c Hin) as (len & _ & Hwf & _).
  rewrite (stats_item_of_answer fq _ c s e rest cl Hq).
  apply stats_of_ok; [|exact Hse].
  apply clip_filter_not_inverted; [exact Hse|exact (wf_starts_le_ends len _ Hwf)].
Qed.

(* C17_stats_per_base on the bytes: the statistics the tool reports for the region are, base by base, the written data *)
Theorem stats_per_base_file : exists i, read_info bs = Ok i /\
  forall infl c s e rest, In c (map fst inp) -> s <= e ->
  let vals := vals_of inp c in
  all_finite (clip_filter s e vals) ->
  exists st,
    stats_for_bed_item exact (bw_interval infl bs i) c {| be_start := s; be_end := e; be_rest := rest |} = Ok st /\
    st_bases st = N.of_nat (covered_count vals s e) /\
    is_fin (st_sum st) = true /\
    (fl_Q (st_sum st) == sum_over (base_val vals) (region_bases s e))%Q.
Proof.
  destruct stats_file as (i & Hri & H). exists i. split; [exact Hri|].
  intros infl c s e rest Hin Hse vals Hfin.
  destruct (H exact infl c s e rest Hin Hse) as (_ & st & Hst & _ & Hb & Hsum & _).
  destruct (file_vals_accepted c Hin) as (len & _ & Hwf & _).
  destruct (stats_per_base len s e vals Hwf Hse Hfin) as [Hpb Hq].
  exists st. split; [exact Hst|]. split; [rewrite Hb; exact Hpb|].
  rewrite Hsum. split; [exact (proj1 (sum_exact _ Hfin))|exact Hq].
Qed.

(* the number of covered bases does not depend on the rounding mode *)
Theorem bases_file : exists i, read_info bs = Ok i /\
  forall fq infl c s e rest, In c (map fst inp) -> s <= e ->
  exists st,
    stats_for_bed_item fq (bw_interval infl bs i) c {| be_start := s; be_end := e; be_rest := rest |} = Ok st /\
    st_bases st = N.of_nat (covered_count (vals_of inp c) s e).
Proof.
  destruct stats_file as (i & Hri & H). exists i. split; [exact Hri|].
  intros fq infl c s e rest Hin Hse.
  destruct (H fq infl c s e rest Hin Hse) as (_ & st & Hst & _ & Hb & _).
  destruct (file_vals_accepted c Hin) as (len & _ & Hwf & _).
  exists st. split; [exact Hst|]. rewrite Hb. exact (bases_per_base len s e _ Hwf Hse).
Qed.

(* C17_values_over_bed on the bytes: the row the valuesoverbed model computes from the reader's answer for a line
   "c TAB s TAB e ..." has one cell per base of the region; cell k = bit pattern of the value WRITTEN at base s+k,
   0.0 where none was written *)
Theorem values_file : exists i, read_info bs = Ok i /\
  forall infl c s e, In c (map fst inp) -> s <= e ->
  let vals := vals_of inp c in
  exists cl, bw_interval infl bs i c s e = Ok cl /\
    existsb (out_of_region s e) cl = false /\
    length (vob_fill s e cl) = N.to_nat (e - s) /\
    (forall k, (k < N.to_nat (e - s))%nat ->
       nth_error (vob_fill s e cl) k =
       Some (match find (covers (s + N.of_nat k)) vals with Some v => v_bits v | None => 0 end)) /\
    (forall l st en uniq,
       piece 0 (trim l) = Some c -> piece 1 (trim l) = Some st -> piece 2 (trim l) = Some en ->
       parse_u32 st = Some s -> parse_u32 en = Some e ->
       vob_line (bw_interval infl bs i) false uniq l = Ok (None, vob_fill s e cl)).
Proof.
  destruct file_opens as [i Hri]. exists i. split; [exact Hri|].
  intros infl c s e Hin Hse vals.
  pose proof (on_input_query fp o sizes inp bs Ho Hi Hs Hw i infl c s e Hri Hin) as Hq.
  destruct (file_vals_accepted c Hin) as (len & _ & Hwf & _).
  destruct (values_spec len s e vals Hwf Hse) as (H1 & H2 & H3).
  exists (clip_filter s e vals). split; [exact Hq|]. split; [exact H1|]. split; [exact H2|]. split; [exact H3|].
  intros l st en uniq P0 P1 P2 Ps Pe.
  exact (vob_line_cells _ l c st en s e _ uniq P0 P1 P2 Ps Pe Hse Hq H1).
Qed.
(* one line of the averageoverbed tool / one item of the library iterator on the bytes: a line that parses to a region
   s <= e on a chromosome with data and has the requested name yields name + the statistics of [stats_file]
   (C17_rows_in_order then gives the whole output file for a BED file of such lines, in line order) *)
Theorem line_file : exists i, read_info bs = Ok i /\
  forall fq infl m l c en nm, parse_bed l = Ok (c, en) -> name_for_bed_item m c en = Ok nm ->
  In c (map fst inp) -> be_start en <= be_end en ->
  let cl := clip_filter (be_start en) (be_end en) (vals_of inp c) in
  exists st, line_result fq (bw_interval infl bs i) m l = Ok (nm, st) /\
    stats_of fq (be_start en) (be_end en) cl = Ok st /\
    st_size st = be_end en - be_start en /\ st_bases st = bases_of cl /\ st_sum st = sum_of fq cl.
Proof.
  destruct stats_file as (i & Hri & H). exists i. split; [exact Hri|].
  intros fq infl m l c en nm Hp Hn Hin Hse cl. destruct en as [s e rest]. cbn [be_start be_end] in *.
  destruct (H fq infl c s e rest Hin Hse) as (Hq & st & Hst & Hsz & Hb & Hsum & _).
  exists st. split.
  - unfold line_result. rewrite Hp. cbn [rbind]. rewrite Hn. cbn [rbind]. rewrite Hst. reflexivity.
  - split; [|split; [exact Hsz|split; [exact Hb|exact Hsum]]].
    rewrite <- Hst. symmetry. exact (stats_item_of_answer fq _ c s e rest _ Hq).
Qed.
End File.

(* ------------------------------------------------------------------ a computed instance
   Two chromosomes, items_per_slot = 2 (chromosome "a": two sections); both writers.  The hypotheses hold, and the
   statistics are COMPUTED from the bytes (writer model -> bytes -> read_info -> index search -> blocks -> stats_of). *)
Definition sf_opts : opts :=
  {| o_compress := false; o_ips := 2; o_bs := 2; o_izoom := 10; o_maxzooms := 2; o_manual := None; o_sort_all := true |}.
Definition sf_sizes : list (name * N) := [([97], 100); ([98], 50)].
Definition sf_a : list value :=
  [{| v_start := 0; v_end := 10; v_bits := 1065353216 |}; {| v_start := 10; v_end := 20; v_bits := 3212836864 |};
   {| v_start := 30; v_end := 100; v_bits := 1077936128 |}].
Definition sf_b : list value := [{| v_start := 5; v_end := 6; v_bits := 1073741824 |}].
Definition sf_inp : list BigWigWrite.item := map (pair [97]) sf_a ++ map (pair [98]) sf_b.

Example stats_file_example_hyps :
  opts_ok sf_opts /\ input_ok sf_sizes sf_inp /\ In [97] (map fst sf_inp) /\ vals_of sf_inp [97] = sf_a
  /\ (exists bs, bw_write ieee sf_opts sf_sizes sf_inp = Ok bs /\ Nlen bs < U64)
  /\ (exists bs, bw_write_multipass ieee sf_opts sf_sizes sf_inp = Ok bs /\ Nlen bs < U64).
Proof.
  assert (Hr : runs sf_inp = [([97], sf_a); ([98], sf_b)]) by reflexivity.
  split; [unfold opts_ok; cbn; lia|]. split.
  - unfold input_ok. rewrite Hr. cbn [map fst].
    repeat match goal with |- _ /\ _ => split end;
      first [ reflexivity
            | unfold sf_sizes, sf_inp, sf_a, sf_b; cbn [map app]; repeat constructor; try discriminate; reflexivity ].
  - split; [left; reflexivity|]. split; [reflexivity|].
    split; eexists; (split; [vm_compute; reflexivity|reflexivity]).
Qed.

(* region [5,35) of "a": 10-5 bases of 1.0, 10 of -1.0, 5 of 3.0: bases 20, sum 5 - 10 + 15 = 10, min -1, max 3;
   the valuesoverbed row of region [8,12): 1.0 1.0 -1.0 -1.0 *)
Example stats_file_example_run :
  match bw_write ieee sf_opts sf_sizes sf_inp with
  | Ok bs =>
      match read_info bs with
      | Ok i =>
          match stats_for_bed_item ieee (bw_interval (fun x => x) bs i) [97] {| be_start := 5; be_end := 35; be_rest := [] |} with
          | Ok st => st_size st = 30 /\ st_bases st = 20 /\ bits_of_f64 (st_sum st) = bits_of_f64 (f_of_N 10) /\
                     bits_of_f64 (st_min st) = bits_of_f64 (f_of_Z (-1)) /\ bits_of_f64 (st_max st) = bits_of_f64 (f_of_N 3)
          | _ => False
          end /\
          vob_line (bw_interval (fun x => x) bs i) false true [97; 9; 56; 9; 49; 50; 10] =
            Ok (None, [1065353216; 1065353216; 3212836864; 3212836864])
      | _ => False
      end
  | _ => False
  end.
Proof. vm_compute. repeat split; reflexivity. Qed.
