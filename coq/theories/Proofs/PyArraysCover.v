(* C20: the documented meaning of a cell (covered_vals / stat_of of Model/PyArrays.v):
   splitting, the list of covered values of a sorted disjoint bigWig layout as a concatenation of
   runs, and per-base buffers (depth / covered flags) read back as covered_vals. *)
From BT Require Import Base.Util Model.PyArrays Proofs.PyArraysGeom.
Local Open Scope Z_scope.

Lemma flat_map_ext_in : forall {X Y} (f g : X -> list Y) l, (forall x, In x l -> f x = g x) ->
  flat_map f l = flat_map g l.
Proof.
  intros X Y f g. induction l as [|x l IH]; intro H; cbn [flat_map]; [reflexivity|].
  rewrite (H x (or_introl eq_refl)), IH; [reflexivity|]. intros y Hy. apply H. right. exact Hy.
Qed.

Lemma flat_map_nil : forall {X Y} (f : X -> list Y) l, (forall x, In x l -> f x = []) -> flat_map f l = [].
Proof.
  intros X Y f. induction l as [|x l IH]; intro H; cbn [flat_map]; [reflexivity|].
  rewrite (H x (or_introl eq_refl)), IH; [reflexivity|]. intros y Hy. apply H. right. exact Hy.
Qed.

(* ---- covered_vals *)
Definition cv1 (sig : Z -> option Z) (p : Z) : list Z := match sig p with Some z => [z] | None => [] end.

Lemma covered_vals_eq : forall sig lo hi, covered_vals sig lo hi = flat_map (cv1 sig) (seqZ lo (Z.to_nat (hi - lo))).
Proof. reflexivity. Qed.

Lemma covered_vals_empty : forall sig lo hi, hi <= lo -> covered_vals sig lo hi = [].
Proof. intros. rewrite covered_vals_eq. replace (Z.to_nat (hi - lo)) with 0%nat by lia. reflexivity. Qed.

Lemma covered_vals_split : forall sig lo mid hi, lo <= mid <= hi ->
  covered_vals sig lo hi = covered_vals sig lo mid ++ covered_vals sig mid hi.
Proof. intros. rewrite !covered_vals_eq, (seqZ_split lo mid hi) by lia. apply flat_map_app. Qed.

Lemma covered_vals_ext : forall sig1 sig2 lo hi, (forall p, lo <= p < hi -> sig1 p = sig2 p) ->
  covered_vals sig1 lo hi = covered_vals sig2 lo hi.
Proof.
  intros sig1 sig2 lo hi H. rewrite !covered_vals_eq. apply flat_map_ext_in. intros p Hp.
  apply seqZ_In in Hp. unfold cv1. rewrite H by lia. reflexivity.
Qed.

Lemma covered_vals_none : forall sig lo hi, (forall p, lo <= p < hi -> sig p = None) -> covered_vals sig lo hi = [].
Proof.
  intros sig lo hi H. rewrite covered_vals_eq. apply flat_map_nil. intros p Hp. apply seqZ_In in Hp.
  unfold cv1. rewrite H by lia. reflexivity.
Qed.

Lemma covered_vals_const : forall sig z n lo, (forall p, lo <= p < lo + Z.of_nat n -> sig p = Some z) ->
  flat_map (cv1 sig) (seqZ lo n) = repeat z n.
Proof.
  intros sig z. induction n as [|n IH]; intros lo H; cbn [seqZ flat_map repeat]; [reflexivity|].
  unfold cv1 at 1. rewrite H by lia. cbn [app]. f_equal. apply IH. intros p Hp. apply H. lia.
Qed.

(* ---- bigWig layouts *)
(* values inside [lo, len), non-empty, disjoint, in start order *)
Fixpoint wig_ok (lo len : Z) (vals : list wval) : Prop :=
  match vals with
  | [] => lo <= len
  | v :: r => lo <= w_start v /\ w_start v < w_end v /\ wig_ok (w_end v) len r
  end.

Lemma wig_ok_bounds : forall vals lo len, wig_ok lo len vals ->
  lo <= len /\ Forall (fun v => lo <= w_start v /\ w_start v < w_end v /\ w_end v <= len) vals.
Proof.
  induction vals as [|v r IH]; intros lo len H; cbn [wig_ok] in H; [split; [exact H|constructor]|].
  destruct H as [H1 [H2 H3]]. destruct (IH _ _ H3) as [H4 H5]. split; [lia|]. constructor; [lia|].
  eapply Forall_impl; [|exact H5]. cbn beta. intros u Hu. lia.
Qed.

Lemma wig_at_cons : forall v r p,
  wig_at (v :: r) p = if (w_start v <=? p) && (p <? w_end v) then Some (w_val v) else wig_at r p.
Proof. intros. unfold wig_at. cbn [find]. destruct ((w_start v <=? p) && (p <? w_end v)); reflexivity. Qed.

Lemma wig_at_before : forall vals lo len p, wig_ok lo len vals -> p < lo -> wig_at vals p = None.
Proof.
  induction vals as [|v r IH]; intros lo len p H Hp; [reflexivity|]. cbn [wig_ok] in H. destruct H as [H1 [H2 H3]].
  rewrite wig_at_cons. destruct (Z.leb_spec (w_start v) p); [exfalso; lia|]. cbn [andb].
  apply (IH (w_end v) len); [exact H3|lia].
Qed.

(* the run a value contributes to [lo, hi) *)
Definition run_of (lo hi : Z) (v : wval) : list Z :=
  repeat (w_val v) (Z.to_nat (Z.min hi (w_end v) - Z.max lo (w_start v))).

Lemma covered_vals_wig : forall vals a len, wig_ok a len vals -> forall lo hi,
  covered_vals (wig_at vals) lo hi = flat_map (run_of lo hi) vals.
Proof.
  induction vals as [|v r IH]; intros a len Hok lo hi.
  - cbn [flat_map]. apply covered_vals_none. reflexivity.
  - cbn [wig_ok] in Hok. destruct Hok as [H1 [H2 H3]]. cbn [flat_map].
    destruct (Z.le_gt_cases hi lo) as [Hle|Hlt].
    { rewrite covered_vals_empty by lia. unfold run_of at 1.
      replace (Z.to_nat (Z.min hi (w_end v) - Z.max lo (w_start v))) with 0%nat by lia. cbn [repeat app].
      symmetry. apply flat_map_nil. intros u Hu. unfold run_of.
      replace (Z.to_nat (Z.min hi (w_end u) - Z.max lo (w_start u))) with 0%nat by lia. reflexivity. }
    set (m1 := Z.min hi (Z.max lo (w_start v))). set (m2 := Z.min hi (Z.max lo (w_end v))).
    rewrite (covered_vals_split _ lo m1 hi) by (unfold m1; lia).
    rewrite (covered_vals_split _ m1 m2 hi) by (unfold m1, m2; lia).
    rewrite (covered_vals_none _ lo m1).
    2:{ intros p Hp. rewrite wig_at_cons. destruct (Z.leb_spec (w_start v) p); [exfalso; unfold m1 in Hp; lia|].
        cbn [andb]. apply (wig_at_before r (w_end v) len); [exact H3|lia]. }
    cbn [app]. f_equal.
    + rewrite covered_vals_eq. rewrite (covered_vals_const _ (w_val v)).
      * unfold run_of. f_equal. unfold m1, m2. lia.
      * intros p Hp. rewrite wig_at_cons.
        destruct (Z.leb_spec (w_start v) p), (Z.ltb_spec p (w_end v)); cbn [andb]; try reflexivity;
          exfalso; unfold m1, m2 in Hp; lia.
    + rewrite (covered_vals_ext _ (wig_at r) m2 hi).
      2:{ intros p Hp. rewrite wig_at_cons.
          destruct (Z.leb_spec (w_start v) p), (Z.ltb_spec p (w_end v)); cbn [andb]; try reflexivity.
          exfalso; unfold m2 in Hp; lia. }
      rewrite (IH _ _ H3). apply flat_map_ext_in. intros u Hu.
      destruct (wig_ok_bounds _ _ _ H3) as [_ Hb]. rewrite Forall_forall in Hb. specialize (Hb u Hu).
      unfold run_of. f_equal. unfold m2.
      destruct (Z.le_gt_cases hi (Z.max lo (w_end v))); lia.
Qed.

(* ---- statistics of a concatenation of runs *)
Lemma fold_add_app : forall l a, fold_left Z.add l a = a + fold_left Z.add l 0.
Proof.
  induction l as [|x l IH]; intro a; cbn [fold_left]; [lia|]. rewrite IH, (IH (0 + x)). lia.
Qed.

Lemma fold_add_repeat : forall z n a, fold_left Z.add (repeat z n) a = a + Z.of_nat n * z.
Proof.
  intros z. induction n as [|n IH]; intro a; cbn [repeat fold_left]; [lia|]. rewrite IH. lia.
Qed.

Lemma fold_min_repeat : forall z n a, (0 < n)%nat -> fold_left Z.min (repeat z n) a = Z.min a z.
Proof.
  intros z. induction n as [|n IH]; intros a Hn; [exfalso; lia|]. cbn [repeat fold_left].
  destruct n as [|n]; [reflexivity|]. rewrite IH by lia. lia.
Qed.

Lemma fold_max_repeat : forall z n a, (0 < n)%nat -> fold_left Z.max (repeat z n) a = Z.max a z.
Proof.
  intros z. induction n as [|n IH]; intros a Hn; [exfalso; lia|]. cbn [repeat fold_left].
  destruct n as [|n]; [reflexivity|]. rewrite IH by lia. lia.
Qed.

(* ---- per-base buffers read back as covered values *)
Section Buffers.
Variable sig : Z -> option Z.
Definition dcell (p : Z) : fl := match sig p with Some z => FV z | None => FNaN end.
Definition ccell (p : Z) : Z := match sig p with Some _ => 1 | None => 0 end.

Lemma any_covered : forall ps, existsb (fun c => 0 <? c) (map ccell ps) = negb (Nat.eqb (length (flat_map (cv1 sig) ps)) 0).
Proof.
  induction ps as [|p ps IH]; cbn [map existsb flat_map]; [reflexivity|].
  rewrite IH. unfold ccell, cv1. destruct (sig p); reflexivity.
Qed.

Lemma sum_covered : forall ps a, fold_left Z.add (map ccell ps) a = a + Z.of_nat (length (flat_map (cv1 sig) ps)).
Proof.
  induction ps as [|p ps IH]; intro a; cbn [map fold_left flat_map]; [cbn [length]; lia|].
  assert (Hc : ccell p = Z.of_nat (length (cv1 sig p))) by (unfold ccell, cv1; destruct (sig p); reflexivity).
  rewrite IH, app_length. lia.
Qed.

Lemma dcell_cv1 : forall p, (exists z, sig p = Some z /\ dcell p = FV z /\ cv1 sig p = [z])
                         \/ (sig p = None /\ dcell p = FNaN /\ cv1 sig p = []).
Proof. intro p. unfold dcell, cv1. destruct (sig p) as [z|]; [left; exists z|right]; repeat split. Qed.

Lemma fsum0_covered : (forall p z, sig p = Some z -> 0 <= z) -> forall ps a,
  fold_left fadd (map (fun x => fmax x (FV 0)) (map dcell ps)) (FV a) = FV (fold_left Z.add (flat_map (cv1 sig) ps) a).
Proof.
  intros Hpos. induction ps as [|p ps IH]; intro a; cbn [map fold_left flat_map]; [reflexivity|].
  destruct (dcell_cv1 p) as [[z [Hs [Hd Hc]]]|[Hs [Hd Hc]]]; rewrite Hd, Hc; cbn [fmax fadd app fold_left].
  - rewrite Z.max_l by (apply (Hpos p z Hs)). apply IH.
  - rewrite Z.add_0_r. apply IH.
Qed.

Lemma fmin_covered_v : forall ps a, fold_left fmin (map dcell ps) (FV a) = FV (fold_left Z.min (flat_map (cv1 sig) ps) a).
Proof.
  induction ps as [|p ps IH]; intro a; cbn [map fold_left flat_map]; [reflexivity|].
  destruct (dcell_cv1 p) as [[z [Hs [Hd Hc]]]|[Hs [Hd Hc]]]; rewrite Hd, Hc; cbn [fmin app fold_left]; apply IH.
Qed.

Lemma fmin_covered : forall ps, fold_left fmin (map dcell ps) FNaN =
  match flat_map (cv1 sig) ps with [] => FNaN | y :: t => FV (fold_left Z.min t y) end.
Proof.
  induction ps as [|p ps IH]; cbn [map fold_left flat_map]; [reflexivity|].
  destruct (dcell_cv1 p) as [[z [Hs [Hd Hc]]]|[Hs [Hd Hc]]]; rewrite Hd, Hc; cbn [fmin app]; [apply fmin_covered_v|exact IH].
Qed.

Lemma fmax_covered_v : forall ps a, fold_left fmax (map dcell ps) (FV a) = FV (fold_left Z.max (flat_map (cv1 sig) ps) a).
Proof.
  induction ps as [|p ps IH]; intro a; cbn [map fold_left flat_map]; [reflexivity|].
  destruct (dcell_cv1 p) as [[z [Hs [Hd Hc]]]|[Hs [Hd Hc]]]; rewrite Hd, Hc; cbn [fmax app fold_left]; apply IH.
Qed.

Lemma fmax_covered : forall ps, fold_left fmax (map dcell ps) FNaN =
  match flat_map (cv1 sig) ps with [] => FNaN | y :: t => FV (fold_left Z.max t y) end.
Proof.
  induction ps as [|p ps IH]; cbn [map fold_left flat_map]; [reflexivity|].
  destruct (dcell_cv1 p) as [[z [Hs [Hd Hc]]]|[Hs [Hd Hc]]]; rewrite Hd, Hc; cbn [fmax app]; [apply fmax_covered_v|exact IH].
Qed.
End Buffers.
