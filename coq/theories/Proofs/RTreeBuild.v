(* C05: what get_rtreeindex (build) establishes: termination, the leaves are the input in
   order, every recorded span contains everything beneath it. *)
From Coq Require Import Sorting.Sorted.
From BT Require Import Base.Util Model.RTree Proofs.Chunks Proofs.RTreeAbs.
Local Open Scope N_scope.

Definition start_le (a b : span) : Prop := ple (sc a) (sb a) (sc b) (sb b).
Definition sorted_starts (l : list span) : Prop := StronglySorted start_le l.

Lemma start_le_trans a b c : start_le a b -> start_le b c -> start_le a c.
Proof. unfold start_le. apply ple_trans. Qed.

Lemma sorted_app_l (l1 l2 : list span) : sorted_starts (l1 ++ l2) -> sorted_starts l1.
Proof.
  induction l1 as [|a l1 IH]; intros H; [constructor|].
  cbn [app] in H. inversion H as [|? ? Hs Hf]; subst. constructor; [apply IH; exact Hs|].
  rewrite Forall_app in Hf. tauto.
Qed.
Lemma sorted_app_r (l1 l2 : list span) : sorted_starts (l1 ++ l2) -> sorted_starts l2.
Proof.
  induction l1 as [|a l1 IH]; intros H; [exact H|].
  cbn [app] in H. inversion H; subst. apply IH; assumption.
Qed.
Lemma sorted_app_cross (l1 l2 : list span) x y : sorted_starts (l1 ++ l2) -> In x l1 -> In y l2 -> start_le x y.
Proof.
  induction l1 as [|a l1 IH]; intros H Hx Hy; [destruct Hx|].
  cbn [app] in H. inversion H as [|? ? Hs Hf]; subst. destruct Hx as [<-|Hx].
  - rewrite Forall_forall in Hf. apply Hf. apply in_or_app; right; exact Hy.
  - apply IH; assumption.
Qed.

Definition lspans (t : tree) : list span := map sect_span (leaves t).

(* a tree is good when it is covered, non-empty, its span starts where its first leaf starts
   and every leaf lies inside its span *)
Definition good (t : tree) : Prop :=
  covered t /\ leaves t <> [] /\
  (forall f r, lspans t = f :: r -> sc (span_of t) = sc f /\ sb (span_of t) = sb f) /\
  Forall (fun s => inside s (span_of t)) (lspans t).

Lemma leaves_mk_node ch : leaves (mk_node ch) = flat_map leaves ch.
Proof.
  unfold mk_node. cbn [leaves]. induction ch as [|t ch IH]; cbn [map flat_map snd]; [reflexivity|].
  now rewrite IH.
Qed.
Lemma span_mk_node ch : span_of (mk_node ch) = hull (map span_of ch).
Proof. unfold mk_node. cbn [span_of]. rewrite map_map. cbn [fst]. reflexivity. Qed.

Lemma good_leaf l : l <> [] -> sorted_starts (map sect_span l) -> good (Leaf l).
Proof.
  intros Hne Hs. split; [constructor|]. split; [exact Hne|]. unfold lspans. cbn [leaves span_of].
  destruct l as [|f r]; [congruence|]. cbn [map] in *. split.
  - intros f' r' E. inversion E; subst. cbn. auto.
  - inversion Hs as [|? ? Hs' Hf]; subst.
    apply Forall_forall. intros x Hx. apply hull_inside; [exact Hf|exact Hx].
Qed.

Lemma lspans_flat_map ch : map sect_span (flat_map leaves ch) = flat_map lspans ch.
Proof. induction ch as [|t ch IH]; cbn [flat_map]; [reflexivity|]. rewrite map_app, IH. reflexivity. Qed.

Lemma sorted_flat_child ch t : sorted_starts (flat_map lspans ch) -> In t ch -> sorted_starts (lspans t).
Proof.
  induction ch as [|a ch IH]; intros Hs Hin; [destruct Hin|]. cbn [flat_map] in Hs.
  destruct Hin as [<-|Hin]; [eapply sorted_app_l; exact Hs|]. apply IH; [eapply sorted_app_r; exact Hs|exact Hin].
Qed.

(* in a sorted concatenation, the first child's first leaf starts before every later child's span *)
Lemma good_node ch : ch <> [] -> Forall good ch -> sorted_starts (flat_map lspans ch) -> good (mk_node ch).
Proof.
  intros Hne Hg Hs.
  destruct ch as [|t0 ch]; [congruence|]. clear Hne.
  inversion Hg as [|? ? Hg0 Hgr]; subst.
  destruct Hg0 as [Hc0 [Hn0 [Hst0 Hin0]]].
  assert (Hl0 : exists f0 r0, lspans t0 = f0 :: r0).
  { unfold lspans. destruct (leaves t0) as [|s l]; [congruence|]. cbn. eauto. }
  destruct Hl0 as [f0 [r0 Hl0]]. destruct (Hst0 _ _ Hl0) as [Hsc0 Hsb0].
  (* every child's span starts at or after t0's span *)
  assert (Hafter : starts_after (span_of t0) (map span_of ch)).
  { apply Forall_forall. intros sp Hsp. apply in_map_iff in Hsp as [t [<- Hin]].
    rewrite Forall_forall in Hgr. destruct (Hgr t Hin) as [_ [Hn [Hst _]]].
    assert (Hl : exists f r, lspans t = f :: r).
    { unfold lspans. destruct (leaves t) as [|s l]; [congruence|]. cbn. eauto. }
    destruct Hl as [f [r Hl]]. destruct (Hst _ _ Hl) as [Hsc Hsb].
    rewrite Hsc0, Hsb0, Hsc, Hsb.
    cbn [flat_map] in Hs.
    apply (sorted_app_cross (lspans t0) (flat_map lspans ch) f0 f Hs).
    - rewrite Hl0. left; reflexivity.
    - apply in_flat_map. exists t. split; [exact Hin|]. rewrite Hl. left; reflexivity. }
  assert (Hchild_inside : forall t, In t (t0 :: ch) -> inside (span_of t) (span_of (mk_node (t0 :: ch)))).
  { intros t Hin. rewrite span_mk_node. cbn [map]. apply hull_inside; [exact Hafter|].
    destruct Hin as [<-|Hin]; [left; reflexivity|right; apply in_map; exact Hin]. }
  split; [|split; [|split]].
  - unfold mk_node. constructor. apply Forall_forall. intros c Hin.
    apply in_map_iff in Hin as [t [<- Hin]]. cbn [fst snd].
    rewrite Forall_forall in Hg. destruct (Hg t Hin) as [Hc [_ [_ Hins]]]. split; [exact Hc|].
    apply Forall_forall. intros s Hsin. apply inside_covers.
    rewrite Forall_forall in Hins. apply Hins. unfold lspans. apply in_map. exact Hsin.
  - rewrite leaves_mk_node. cbn [flat_map]. destruct (leaves t0); [congruence|discriminate].
  - intros f r E. unfold lspans in E. rewrite leaves_mk_node in E. cbn [flat_map] in E.
    rewrite map_app in E. fold (lspans t0) in E. rewrite Hl0 in E. cbn [app] in E. inversion E; subst f.
    rewrite span_mk_node. cbn [map hull sc sb]. auto.
  - unfold lspans. rewrite leaves_mk_node. rewrite lspans_flat_map.
    apply Forall_forall. intros s Hsin. apply in_flat_map in Hsin as [t [Hin Hsin]].
    eapply inside_trans; [|apply Hchild_inside; exact Hin].
    rewrite Forall_forall in Hg. destruct (Hg t Hin) as [_ [_ [_ Hins]]].
    rewrite Forall_forall in Hins. apply Hins. exact Hsin.
Qed.

Lemma flat_map_concat {X Y} (f : X -> list Y) (ll : list (list X)) :
  flat_map f (concat ll) = flat_map (fun l => flat_map f l) ll.
Proof. induction ll as [|l ll IH]; cbn [concat flat_map]; [reflexivity|]. rewrite flat_map_app, IH. reflexivity. Qed.

Lemma leaves_level b (cur : list tree) : (0 < b)%nat ->
  flat_map leaves (map mk_node (chunks b cur)) = flat_map leaves cur.
Proof.
  intros Hb. rewrite <- (chunks_concat b cur Hb) at 2. rewrite flat_map_concat.
  induction (chunks b cur) as [|c cs IH]; cbn [map flat_map]; [reflexivity|].
  rewrite leaves_mk_node, IH. reflexivity.
Qed.

Lemma good_level b (cur : list tree) : (0 < b)%nat -> Forall good cur ->
  sorted_starts (flat_map lspans cur) -> Forall good (map mk_node (chunks b cur)).
Proof.
  intros Hb Hg Hs.
  pose proof (chunks_concat b cur Hb) as Hcat. pose proof (chunks_nonempty b cur Hb) as Hne.
  revert Hcat Hne. generalize (chunks b cur) as cs. intros cs. revert cur Hg Hs.
  induction cs as [|c cs IH]; intros cur Hg Hs Hcat Hne; [constructor|].
  cbn [concat] in Hcat. subst cur. inversion Hne as [|? ? Hc Hne']; subst.
  rewrite Forall_app in Hg. destruct Hg as [Hgc Hgr].
  rewrite flat_map_app in Hs. cbn [map]. constructor.
  - apply good_node; [exact Hc|exact Hgc|eapply sorted_app_l; exact Hs].
  - apply (IH (concat cs)); [exact Hgr|eapply sorted_app_r; exact Hs|reflexivity|exact Hne'].
Qed.

Lemma build_loop_ok b : (2 <= b)%nat -> forall fuel cur levels,
  (length cur < fuel)%nat -> cur <> [] -> Forall good cur -> sorted_starts (flat_map lspans cur) ->
  exists t lv, build_loop fuel b cur levels = Ok (t, lv) /\ good t /\ leaves t = flat_map leaves cur.
Proof.
  intros Hb. induction fuel as [|f IH]; intros cur levels Hlen Hne Hg Hs; [lia|].
  destruct cur as [|t0 [|t1 rest]]; [congruence| |].
  - exists t0, levels. cbn [build_loop]. split; [reflexivity|]. inversion Hg; subst.
    split; [assumption|]. cbn [flat_map]. now rewrite app_nil_r.
  - cbn [build_loop]. set (cur := t0 :: t1 :: rest) in *.
    destruct (IH (map mk_node (chunks b cur)) (S levels)) as [t [lv [Hb' [Hgt Hl]]]].
    + rewrite map_length. pose proof (chunks_length_lt b cur Hb). cbn [length] in *. subst cur. cbn [length] in *. lia.
    + intros E. apply map_eq_nil in E. apply chunks_nil_iff in E. subst cur. discriminate.
    + apply good_level; [lia|exact Hg|exact Hs].
    + rewrite <- lspans_flat_map. rewrite leaves_level by lia. rewrite lspans_flat_map. exact Hs.
    + exists t, lv. split; [exact Hb'|]. split; [exact Hgt|]. rewrite Hl. apply leaves_level. lia.
Qed.

Lemma flat_map_leaf_chunks (cs : list (list sect)) : flat_map leaves (map Leaf cs) = concat cs.
Proof. induction cs as [|c cs IH]; cbn [map flat_map concat leaves]; [reflexivity|]. now rewrite IH. Qed.

Lemma good_leaf_level b (secs : list sect) : (0 < b)%nat -> sorted_starts (map sect_span secs) ->
  Forall good (map Leaf (chunks b secs)).
Proof.
  intros Hb Hs.
  pose proof (chunks_concat b secs Hb) as Hcat. pose proof (chunks_nonempty b secs Hb) as Hne.
  revert Hcat Hne. generalize (chunks b secs) as cs. intros cs. revert secs Hs.
  induction cs as [|c cs IH]; intros secs Hs Hcat Hne; [constructor|].
  cbn [concat] in Hcat. subst secs. inversion Hne as [|? ? Hc Hne']; subst.
  rewrite map_app in Hs. cbn [map]. constructor.
  - apply good_leaf; [exact Hc|eapply sorted_app_l; exact Hs].
  - apply (IH (concat cs)); [eapply sorted_app_r; exact Hs|reflexivity|exact Hne'].
Qed.

(* the main statement about build *)
Theorem build_ok b secs : (2 <= b)%nat -> secs <> [] -> sorted_starts (map sect_span secs) ->
  exists t lv, build b secs = Ok (t, lv) /\ covered t /\ leaves t = secs
               /\ Forall (fun s => inside (sect_span s) (span_of t)) secs.
Proof.
  intros Hb Hne Hs. unfold build. destruct b as [|b']; [lia|]. set (b := S b') in *.
  destruct (build_loop_ok b Hb (S (length secs)) (map Leaf (chunks b secs)) 0%nat) as [t [lv [Hbl [Hg Hl]]]].
  - rewrite map_length. pose proof (chunks_length_le b secs). lia.
  - intros E. apply map_eq_nil in E. apply chunks_nil_iff in E. contradiction.
  - apply good_leaf_level; [lia|exact Hs].
  - rewrite <- lspans_flat_map, flat_map_leaf_chunks, chunks_concat by lia. exact Hs.
  - rewrite flat_map_leaf_chunks, chunks_concat in Hl by lia.
    exists t, lv. split; [exact Hbl|]. destruct Hg as [Hc [_ [_ Hin]]]. split; [exact Hc|]. split; [exact Hl|].
    unfold lspans in Hin. rewrite Hl in Hin. rewrite Forall_map in Hin. exact Hin.
Qed.

(* the empty input no longer spins (it did before the repair of get_rtreeindex) *)
Lemma build_empty b : (0 < b)%nat -> build b [] = Ok (Leaf [], 0%nat).
Proof. intros Hb. unfold build. destruct b; [lia|]. reflexivity. Qed.
