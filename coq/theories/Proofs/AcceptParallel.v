(* C13: the serial source and the parallel source (one task per run of lines, at most five runs
   queued ahead) accept exactly the same texts.  The classes they report may differ (the parallel
   source notices an unknown chromosome when its task is queued, up to four runs before the data
   errors of earlier runs are collected); acceptance does not. *)
From BT Require Import Base.Util Base.Float Model.RTree Model.BBIFile Model.BigWigWrite Model.Accept
  Proofs.BigWigQuery Proofs.AcceptRules.
Local Open Scope N_scope.

Definition okb (r : res unit) : bool := match r with Ok _ => true | _ => false end.
Lemma okb_bind (x y : res unit) : okb (do _ <- x; y) = okb x && okb y.
Proof. destruct x as [[]| | |]; reflexivity. Qed.
Lemma okb_true r : okb r = true <-> r = Ok tt.
Proof. destruct r as [[]| | |]; cbn; split; congruence. Qed.

Lemma name_cmp_antisym a : forall b, name_cmp a b = CompOpp (name_cmp b a).
Proof.
  induction a as [|x r IH]; intros [|y s]; cbn [name_cmp CompOpp]; try reflexivity.
  rewrite (N.compare_antisym y x). destruct (y ?= x); cbn [CompOpp]; [apply IH|reflexivity|reflexivity].
Qed.
Lemma ltb_flip c c' : name_eqb c' c = false -> negb (name_ltb c c') = name_ltb c' c.
Proof.
  intros E. unfold name_ltb. rewrite (name_cmp_antisym c c').
  destruct (name_cmp c' c) eqn:Ec; cbn [CompOpp negb]; try reflexivity.
  unfold name_eqb in E. rewrite Ec in E. discriminate.
Qed.

Section Par.
Context {V : Type}.
Variable vclass : N -> V -> option V -> option N.
Variable sort_all : bool.
Variable sizes : list (name * N).
Notation chk := (chk_of vclass).
Notation run := (name * list (pline V))%type.

(* ---- what the queueing loop checks, as a predicate on the list of runs ---- *)
Definition pair_ok (c : name) (rest : list run) : bool :=
  match rest with (n, _) :: _ => negb (name_eqb c n) && negb (sort_all && name_ltb n c) | [] => true end.
Definition known_b (c : name) : bool := match lookup c sizes with Some _ => true | None => false end.
Fixpoint fill_ok (seen : list name) (rs : list run) : bool :=
  match rs with
  | [] => true
  | (c, ls) :: rest => pair_ok c rest && known_b c && negb (seen_b c seen) && fill_ok (seen ++ [c]) rest
  end.
Definition task_res (r : run) : res unit :=
  match lookup (fst r) sizes with Some len => par_task chk (fst r) len (snd r) | None => Ok tt end.
Definition tasks_ok (rs : list run) : bool := forallb (fun r => okb (task_res r)) rs.

Lemma par_fill_spec : forall k rem q seen,
  match par_fill chk sort_all sizes k rem q seen with
  | Ok (rem', q', seen') =>
      fill_ok seen rem = fill_ok seen' rem' /\
      exists taken, rem = taken ++ rem' /\ q' = q ++ map task_res taken /\ (k = 0%nat \/ rem = [] \/ taken <> [])
  | Fuel => False
  | _ => fill_ok seen rem = false
  end.
Proof.
  induction k as [|k IH]; intros rem q seen; cbn [par_fill].
  - split; [reflexivity|]. exists []. cbn [map app]. rewrite app_nil_r. auto.
  - destruct rem as [|[c ls] rest].
    + split; [reflexivity|]. exists []. cbn [map app]. rewrite app_nil_r. auto.
    + cbn [fill_ok]. unfold pair_ok, known_b.
      assert (Hstart :
        match (match lookup c sizes with
               | None => Err E_UNKNOWN_CHROM
               | Some len => if seen_b c seen then Err E_SPLIT
                             else par_fill chk sort_all sizes k rest (q ++ [par_task chk c len ls]) (seen ++ [c]) end) with
        | Ok (rem', q', seen') =>
            (match lookup c sizes with Some _ => true | None => false end) && negb (seen_b c seen) && fill_ok (seen ++ [c]) rest
            = fill_ok seen' rem' /\
            exists taken, (c, ls) :: rest = taken ++ rem' /\ q' = q ++ map task_res taken /\ (S k = 0%nat \/ (c, ls) :: rest = [] \/ taken <> [])
        | Fuel => False
        | _ => (match lookup c sizes with Some _ => true | None => false end) && negb (seen_b c seen) && fill_ok (seen ++ [c]) rest = false
        end).
      { destruct (lookup c sizes) as [len|] eqn:El; [|reflexivity].
        destruct (seen_b c seen); [reflexivity|]. cbn [negb andb].
        specialize (IH rest (q ++ [par_task chk c len ls]) (seen ++ [c])).
        destruct (par_fill chk sort_all sizes k rest (q ++ [par_task chk c len ls]) (seen ++ [c])) as [[[rem' q'] seen']| | |];
          try exact IH.
        destruct IH as [Hf [taken [Hr [Hq _]]]]. split; [exact Hf|].
        exists ((c, ls) :: taken). split; [cbn [app]; now rewrite Hr|]. split.
        - rewrite Hq, <- app_assoc. cbn [app map]. unfold task_res at 2. cbn [fst snd]. now rewrite El.
        - right. right. discriminate. }
      destruct rest as [|[n ls2] rest2].
      * cbn [andb]. exact Hstart.
      * destruct (name_eqb c n); cbn [negb andb]; [reflexivity|].
        destruct (sort_all && name_ltb n c); cbn [negb andb]; [reflexivity|]. exact Hstart.
Qed.

Lemma forallb_map {X Y} (p : Y -> bool) (f : X -> Y) l : forallb p (map f l) = forallb (fun x => p (f x)) l.
Proof. induction l as [|x l IH]; cbn [map forallb]; [reflexivity|]. now rewrite IH. Qed.
Lemma forallb_app {X} (p : X -> bool) a b : forallb p (a ++ b) = forallb p a && forallb p b.
Proof. induction a as [|x a IH]; cbn [app forallb]; [reflexivity|]. now rewrite IH, andb_assoc. Qed.

Lemma par_loop_ok : forall fuel rem q seen, (length rem + length q < fuel)%nat ->
  okb (par_loop chk sort_all sizes fuel rem q seen) = forallb okb q && fill_ok seen rem && tasks_ok rem.
Proof.
  induction fuel as [|f IH]; intros rem q seen Hf; [lia|]. cbn [par_loop].
  pose proof (par_fill_spec (5 - length q) rem q seen) as Hs.
  destruct (par_fill chk sort_all sizes (5 - length q) rem q seen) as [[[rem' q'] seen']|k| |]; cbn [rbind fst snd].
  - destruct Hs as [Hfo [taken [Hr [Hq Hp]]]].
    assert (Hlen : (length rem + length q = length rem' + length q')%nat).
    { rewrite Hr, Hq, !app_length, map_length. lia. }
    assert (Hq_ok : forallb okb q && tasks_ok rem = forallb okb q' && tasks_ok rem').
    { rewrite Hr, Hq. unfold tasks_ok. rewrite !forallb_app, forallb_map. now rewrite andb_assoc. }
    destruct q' as [|r qt].
    + (* nothing queued: nothing was left *)
      assert (q = [] /\ taken = []) as [-> ->].
      { destruct q; [|discriminate]. destruct taken; [auto|discriminate]. }
      cbn [app] in Hr. subst rem'. cbn [length Nat.sub] in Hp.
      destruct Hp as [Hp|[Hp|Hp]]; [discriminate| |congruence]. subst rem. reflexivity.
    + rewrite okb_bind. rewrite (IH rem' qt seen') by (cbn [length] in Hlen; lia).
      rewrite Hfo. cbn [forallb] in Hq_ok.
      rewrite <- !andb_assoc. rewrite <- !andb_assoc in Hq_ok.
      destruct (okb r), (forallb okb qt), (fill_ok seen' rem'), (tasks_ok rem'), (forallb okb q), (tasks_ok rem);
        cbn [andb] in *; congruence.
  - rewrite Hs. now rewrite andb_false_r.
  - rewrite Hs. now rewrite andb_false_r.
  - destruct Hs.
Qed.

Lemma parallel_ok (rs : list run) :
  okb (parallel chk sort_all sizes rs) = fill_ok [] rs && tasks_ok rs.
Proof. unfold parallel. rewrite par_loop_ok by (cbn [length]; lia). reflexivity. Qed.

(* ---- runs of lines without the accumulator ---- *)
Fixpoint line_runs' (l : list (pline V)) : list run :=
  match l with
  | [] => []
  | (c, p) :: r =>
      match line_runs' r with
      | (c2, ls) :: rs => if name_eqb c2 c then (c, (c, p) :: ls) :: rs else (c, [(c, p)]) :: (c2, ls) :: rs
      | [] => [(c, [(c, p)])]
      end
  end.
Lemma line_runs'_head c p l : exists ls rs, line_runs' (cons (A:=pline V) (c, p) l) = (c, (c, p) :: ls) :: rs.
Proof.
  cbn [line_runs']. destruct (line_runs' l) as [|[c2 ls] rs]; [eauto|]. destruct (name_eqb c2 c); eauto.
Qed.
Lemma line_runs_aux_eq : forall (l : list (pline V)) cur acc,
  line_runs_aux cur acc l = match line_runs' l with
                            | (c2, ls) :: rs => if name_eqb c2 cur then (cur, rev acc ++ ls) :: rs
                                                else (cur, rev acc) :: (c2, ls) :: rs
                            | [] => [(cur, rev acc)]
                            end.
Proof.
  induction l as [|[c p] r IH]; intros cur acc; [reflexivity|].
  cbn [line_runs_aux]. destruct (line_runs'_head c p r) as [ls [rs Hh]]. rewrite Hh.
  destruct (name_eqb c cur) eqn:E.
  - apply name_eqb_eq in E. subst c. rewrite IH. cbn [line_runs'] in Hh.
    destruct (line_runs' r) as [|[c2 ls2] rs2].
    + inversion Hh; subst. cbn [rev]. reflexivity.
    + destruct (name_eqb c2 cur); inversion Hh; subst; cbn [rev]; try rewrite <- app_assoc; reflexivity.
  - rewrite IH. f_equal. cbn [line_runs'] in Hh. cbn [rev app].
    destruct (line_runs' r) as [|[c2 ls2] rs2]; [exact Hh|].
    destruct (name_eqb c2 c); exact Hh.
Qed.
Lemma line_runs_eq (l : list (pline V)) : line_runs l = line_runs' l.
Proof.
  destruct l as [|[c p] r]; [reflexivity|]. unfold line_runs. rewrite line_runs_aux_eq. cbn [line_runs' rev app].
  destruct (line_runs' r) as [|[c2 ls] rs]; [reflexivity|]. destruct (name_eqb c2 c); reflexivity.
Qed.

Lemma line_runs'_cons c p (r : list (pline V)) :
  line_runs' (cons (A:=pline V) (c, p) r) = match line_runs' r with
                             | (c2, ls) :: rs => if name_eqb c2 c then (c, (c, p) :: ls) :: rs else (c, [(c, p)]) :: (c2, ls) :: rs
                             | [] => [(c, [(c, p)])]
                             end.
Proof. reflexivity. Qed.

(* ---- the serial loop, read as the parallel source's checks ---- *)
Lemma par_task_cons_ok c len v (ls : list (pline V)) :
  par_task chk c len ((c, POk v) :: ls)
  = (do _ <- chk len v (match ls with (c2, POk v2) :: _ => if name_eqb c2 c then Some v2 else None | _ => None end);
     par_task chk c len ls).
Proof. cbn [par_task]. rewrite name_eqb_refl. reflexivity. Qed.

Lemma tasks_ok_cons r rs : tasks_ok (r :: rs) = okb (task_res r) && tasks_ok rs.
Proof. reflexivity. Qed.
Lemma fill_ok_cons seen c ls rest :
  fill_ok seen ((c, ls) :: rest) = pair_ok c rest && known_b c && negb (seen_b c seen) && fill_ok (seen ++ [c]) rest.
Proof. reflexivity. Qed.
Lemma task_res_known c ls len : lookup c sizes = Some len -> task_res (c, ls) = par_task chk c len ls.
Proof. intros H. unfold task_res. cbn [fst snd]. now rewrite H. Qed.
Lemma known_b_some c len : lookup c sizes = Some len -> known_b c = true.
Proof. intros H. unfold known_b. now rewrite H. Qed.
Lemma known_b_none c : lookup c sizes = None -> known_b c = false.
Proof. intros H. unfold known_b. now rewrite H. Qed.

Lemma serial_loop_par : forall rest seen c len v ls rs, lookup c sizes = Some len ->
  line_runs' (cons (A:=pline V) (c, POk v) rest) = (c, (c, POk v) :: ls) :: rs ->
  okb (serial_loop chk sort_all sizes seen c len v rest)
  = okb (par_task chk c len ((c, POk v) :: ls)) && pair_ok c rs && fill_ok seen rs && tasks_ok rs.
Proof.
  induction rest as [|[c' p] rest IH]; intros seen c len v ls rs Hl Hr.
  - cbn [line_runs'] in Hr. inversion Hr; subst ls rs.
    rewrite par_task_cons_ok. cbn [serial_loop par_task pair_ok fill_ok tasks_ok forallb].
    rewrite okb_bind. cbn [okb]. now rewrite !andb_true_r.
  - destruct (line_runs'_head c' p rest) as [ls' [rs' Hh]].
    rewrite line_runs'_cons, Hh in Hr.
    destruct p as [e|v'].
    + (* the next line does not parse *)
      cbn [serial_loop okb]. symmetry.
      destruct (name_eqb c' c) eqn:E.
      * apply name_eqb_eq in E. subst c'. inversion Hr; subst ls rs.
        rewrite par_task_cons_ok, okb_bind. cbn [par_task okb]. now rewrite andb_false_r.
      * inversion Hr; subst ls rs. rewrite fill_ok_cons, tasks_ok_cons.
        destruct (lookup c' sizes) as [len'|] eqn:El.
        -- rewrite (task_res_known _ _ _ El). cbn [par_task okb]. now rewrite ?andb_false_r.
        -- rewrite (known_b_none _ El). now rewrite ?andb_false_r.
    + cbn [serial_loop].
      destruct (name_eqb c' c) eqn:E.
      * apply name_eqb_eq in E. subst c'. inversion Hr; subst ls rs.
        rewrite okb_bind, (IH seen c len v' ls' rs' Hl Hh).
        rewrite (par_task_cons_ok c len v). rewrite name_eqb_refl, okb_bind.
        now rewrite !andb_assoc.
      * inversion Hr; subst ls rs.
        rewrite okb_bind, (par_task_cons_ok c len v), okb_bind. cbn [par_task okb].
        rewrite fill_ok_cons, tasks_ok_cons. unfold pair_ok at 1.
        rewrite (name_eqb_sym c c'), E. cbn [negb andb].
        rewrite <- (ltb_flip c c' E).
        destruct (okb (chk len v None)); cbn [andb]; [|reflexivity].
        destruct (sort_all && negb (name_ltb c c')); cbn [negb andb okb]; [reflexivity|].
        destruct (lookup c' sizes) as [len'|] eqn:El.
        -- rewrite (known_b_some _ _ El), (task_res_known _ _ _ El).
           destruct (seen_b c' seen); cbn [negb andb okb]; [now rewrite ?andb_false_r|].
           rewrite (IH (seen ++ [c']) c' len' v' ls' rs' El Hh).
           destruct (okb (par_task chk c' len' ((c', POk v') :: ls'))), (pair_ok c' rs'), (fill_ok (seen ++ [c']) rs'), (tasks_ok rs');
             reflexivity.
        -- rewrite (known_b_none _ El). cbn [okb]. now rewrite ?andb_false_r.
Qed.

Theorem serial_parallel_ok (l : list (pline V)) : l <> [] ->
  okb (serial chk sort_all sizes l) = okb (parallel chk sort_all sizes (line_runs l)).
Proof.
  intros Hne. rewrite parallel_ok, line_runs_eq. destruct l as [|[c p] rest]; [congruence|].
  destruct (line_runs'_head c p rest) as [ls [rs Hh]]. rewrite Hh.
  rewrite fill_ok_cons, tasks_ok_cons. cbn [seen_b existsb negb app].
  destruct p as [e|v]; cbn [serial].
  - cbn [okb]. destruct (lookup c sizes) as [len|] eqn:El.
    + rewrite (task_res_known _ _ _ El). cbn [par_task okb]. now rewrite ?andb_false_r.
    + rewrite (known_b_none _ El). now rewrite ?andb_false_r.
  - destruct (lookup c sizes) as [len|] eqn:El.
    + rewrite (known_b_some _ _ El), (task_res_known _ _ _ El).
      rewrite (serial_loop_par rest [c] c len v ls rs El Hh).
      destruct (okb (par_task chk c len ((c, POk v) :: ls))), (pair_ok c rs), (fill_ok [c] rs), (tasks_ok rs); reflexivity.
    + rewrite (known_b_none _ El). cbn [okb]. now rewrite ?andb_false_r.
Qed.

(* ---- the parallel source returns: an error value or Ok, never Panic (the assert on equal
   neighbouring index entries cannot fire on runs of lines), never out of fuel ---- *)
Definition plain (r : res unit) : Prop := r = Ok tt \/ exists k, r = Err k.
Lemma chk_plain len v n : plain (chk len v n).
Proof. unfold plain, chk_of. destruct (vclass len v n); cbn [class_verdict]; eauto. Qed.
Lemma par_task_plain c len : forall ls, plain (par_task chk c len ls).
Proof.
  induction ls as [|[c' [e|v]] rest IH]; cbn [par_task]; [left; reflexivity|right; eauto|].
  destruct (negb (name_eqb c' c)); [right; eauto|].
  match goal with |- plain (do _ <- chk len v ?n; _) => destruct (chk_plain len v n) as [H|[k H]]; rewrite H; cbn [rbind] end;
    [exact IH|right; eauto].
Qed.
Fixpoint adj_distinct (rs : list run) : bool :=
  match rs with
  | (c, _) :: (((n, _) :: _) as rest) => negb (name_eqb c n) && adj_distinct rest
  | _ => true
  end.
Lemma par_fill_plain : forall k rem q seen, adj_distinct rem = true -> Forall plain q ->
  match par_fill chk sort_all sizes k rem q seen with
  | Ok (rem', q', seen') => adj_distinct rem' = true /\ Forall plain q' /\ (length rem' + length q' = length rem + length q)%nat
                            /\ (length q <= length q')%nat /\ (q' = [] -> rem' = [] \/ k = 0%nat)
  | Err _ => True
  | _ => False
  end.
Proof.
  induction k as [|k IH]; intros rem q seen Ha Hq; cbn [par_fill]; [repeat split; auto|].
  destruct rem as [|[c ls] rest]; [repeat split; auto|].
  assert (Har : adj_distinct rest = true).
  { cbn [adj_distinct] in Ha. destruct rest as [|[n l2] r2]; [reflexivity|]. now apply andb_true_iff in Ha as [_ Ha]. }
  assert (Hstart :
    match (match lookup c sizes with
           | None => Err E_UNKNOWN_CHROM
           | Some len => if seen_b c seen then Err E_SPLIT
                         else par_fill chk sort_all sizes k rest (q ++ [par_task chk c len ls]) (seen ++ [c]) end) with
    | Ok (rem', q', seen') => adj_distinct rem' = true /\ Forall plain q' /\ (length rem' + length q' = length ((c, ls) :: rest) + length q)%nat
                              /\ (length q <= length q')%nat /\ (q' = [] -> rem' = [] \/ S k = 0%nat)
    | Err _ => True
    | _ => False
    end).
  { destruct (lookup c sizes) as [len|]; [|exact I]. destruct (seen_b c seen); [exact I|].
    specialize (IH rest (q ++ [par_task chk c len ls]) (seen ++ [c]) Har).
    assert (Hq' : Forall plain (q ++ [par_task chk c len ls])).
    { apply Forall_app. split; [exact Hq|]. constructor; [apply par_task_plain|constructor]. }
    specialize (IH Hq').
    destruct (par_fill chk sort_all sizes k rest (q ++ [par_task chk c len ls]) (seen ++ [c])) as [[[rem' q'] seen']| | |]; try exact IH.
    destruct IH as [H1 [H2 [H3 [H5 H4]]]]. rewrite app_length in H5. cbn [length] in H5.
    split; [exact H1|]. split; [exact H2|]. split; [rewrite H3, app_length; cbn [length]; lia|].
    split; [lia|]. intros E. subst q'. cbn [length] in H5. lia. }
  destruct rest as [|[n l2] r2]; [exact Hstart|].
  cbn [adj_distinct] in Ha. apply andb_true_iff in Ha as [Hn _]. apply negb_true_iff in Hn. rewrite Hn.
  destruct (sort_all && name_ltb n c); [exact I|exact Hstart].
Qed.
Lemma par_loop_plain : forall fuel rem q seen, (length rem + length q < fuel)%nat ->
  adj_distinct rem = true -> Forall plain q -> plain (par_loop chk sort_all sizes fuel rem q seen).
Proof.
  induction fuel as [|f IH]; intros rem q seen Hf Ha Hq; [lia|]. cbn [par_loop].
  pose proof (par_fill_plain (5 - length q) rem q seen Ha Hq) as Hs.
  destruct (par_fill chk sort_all sizes (5 - length q) rem q seen) as [[[rem' q'] seen']|k| |]; cbn [rbind fst snd];
    [|right; eauto|destruct Hs|destruct Hs].
  destruct Hs as [H1 [H2 [H3 [_ H4]]]].
  destruct q' as [|r qt]; [left; reflexivity|].
  inversion H2 as [|? ? Hr Hqt]; subst. destruct Hr as [Hr|[k Hr]]; rewrite Hr; cbn [rbind]; [|right; eauto].
  apply IH; [cbn [length] in H3; lia|exact H1|exact Hqt].
Qed.
Lemma line_runs'_adj : forall (l : list (pline V)), adj_distinct (line_runs' l) = true.
Proof.
  induction l as [|[c p] r IH]; [reflexivity|]. cbn [line_runs'].
  destruct (line_runs' r) as [|[c2 ls] rs] eqn:E; [reflexivity|].
  destruct (name_eqb c2 c) eqn:Ec.
  - apply name_eqb_eq in Ec. subst c2. cbn [adj_distinct] in *. exact IH.
  - cbn [adj_distinct] in *. rewrite (name_eqb_sym c c2), Ec. cbn [negb andb]. exact IH.
Qed.
Theorem parallel_plain (l : list (pline V)) : plain (parallel chk sort_all sizes (line_runs l)).
Proof.
  unfold parallel. apply par_loop_plain; [cbn [length]; lia| |constructor].
  rewrite line_runs_eq. apply line_runs'_adj.
Qed.
End Par.

(* the parallel source depends on the check function only through its values *)
Section ParExt.
Context {V : Type}.
Variable chk1 chk2 : N -> V -> option V -> res unit.
Hypothesis chk_ext : forall len v n, chk1 len v n = chk2 len v n.
Variable sort_all : bool.
Variable sizes : list (name * N).
Lemma par_task_ext c len : forall ls, par_task chk1 c len ls = par_task chk2 c len ls.
Proof.
  induction ls as [|[c' [e|v]] rest IH]; cbn [par_task]; try reflexivity.
  destruct (negb (name_eqb c' c)); [reflexivity|]. rewrite chk_ext, IH. reflexivity.
Qed.
Lemma par_fill_ext : forall k rem q seen,
  par_fill chk1 sort_all sizes k rem q seen = par_fill chk2 sort_all sizes k rem q seen.
Proof.
  induction k as [|k IH]; intros rem q seen; cbn [par_fill]; [reflexivity|].
  destruct rem as [|[c ls] rest]; [reflexivity|].
  destruct (lookup c sizes) as [len|]; [|reflexivity].
  rewrite par_task_ext, IH. reflexivity.
Qed.
Lemma par_loop_ext : forall fuel rem q seen,
  par_loop chk1 sort_all sizes fuel rem q seen = par_loop chk2 sort_all sizes fuel rem q seen.
Proof.
  induction fuel as [|f IH]; intros rem q seen; cbn [par_loop]; [reflexivity|].
  rewrite par_fill_ext. destruct (par_fill chk2 sort_all sizes (5 - length q) rem q seen) as [[[rem' q'] seen']| | |]; cbn [rbind fst snd]; try reflexivity.
  destruct q' as [|r qt]; [reflexivity|]. destruct r as [[]| | |]; cbn [rbind]; try reflexivity. apply IH.
Qed.
Lemma parallel_ext rs : parallel chk1 sort_all sizes rs = parallel chk2 sort_all sizes rs.
Proof. unfold parallel. apply par_loop_ext. Qed.
End ParExt.
