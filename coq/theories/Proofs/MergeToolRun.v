(* The whole merge tool: the chromosome table collects, for every chromosome name of any input, exactly the inputs
   that have it; every chromosome's rows are the expected per-base values; the rows do not depend on the output type. *)
From BT Require Import Base.Util Model.Merge Model.MergeTool Proofs.MergeSig Proofs.FillOk Proofs.MergeToolOk.
Local Open Scope N_scope.

Definition chrom_ok (c : bwchrom) : Prop := sorted_from 0 (snd c) /\ end_from 0 (snd c) <= snd (fst c).
Definition files_ok (files : list bwfile) : Prop := Forall (Forall chrom_ok) files.
(* the inputs that have a chromosome of that name, in input order (the first such chromosome of each file) *)
Definition chrom_inputs (name : list N) (files : list bwfile) : list (list value) :=
  flat_map (fun f => match find_chrom name f with Some c => [snd c] | None => [] end) files.
Definition entry_ok (files : list bwfile) (e : chrom_entry) : Prop :=
  snd e = chrom_inputs (fst (fst e)) files /\
  Forall (sorted_from 0) (snd e) /\ Forall (fun vs => end_from 0 vs <= snd (fst e)) (snd e).

Definition acc_ok (size : option N) (acc : list (list value)) : Prop :=
  match size with
  | None => acc = []
  | Some s => Forall (fun vs => sorted_from 0 vs /\ end_from 0 vs <= s) acc
  end.

Lemma find_chrom_ok name f c : Forall chrom_ok f -> find_chrom name f = Some c -> chrom_ok c.
Proof.
  intros Hf E. unfold find_chrom in E. apply find_some in E. destruct E as [Hin _].
  rewrite Forall_forall in Hf. apply Hf. exact Hin.
Qed.

Lemma chrom_files_ok name : forall files size acc r, files_ok files -> acc_ok size acc ->
  chrom_files name files size acc = r ->
  match r with
  | Ok (size', bws) => acc_ok size' bws /\ bws = acc ++ chrom_inputs name files /\
                       (size' = None -> chrom_inputs name files = [] /\ size = None)
  | Err c => c = 1
  | _ => False
  end.
Proof.
  induction files as [|f more IH]; intros size acc r Hf Ha E.
  - cbn [chrom_files] in E. subst r. cbn [chrom_inputs flat_map]. rewrite app_nil_r.
    split; [exact Ha|]. split; [reflexivity|]. intros H. split; [reflexivity|exact H].
  - inversion Hf as [|? ? Hf1 Hf2]; subst. cbn [chrom_files].
    unfold chrom_inputs. cbn [flat_map]. fold (chrom_inputs name more).
    destruct (find_chrom name f) as [[[n len] vs]|] eqn:Ef.
    + pose proof (find_chrom_ok _ _ _ Hf1 Ef) as [Hc1 Hc2]. cbn [fst snd] in Hc1, Hc2.
      destruct size as [all|].
      * destruct (N.eqb_spec all len) as [Heq|Hne]; cbn [negb]; [|reflexivity].
        subst len. specialize (IH (Some all) (acc ++ [vs]) _ Hf2 ltac:(cbn [acc_ok] in *; apply Forall_app; split; [exact Ha|constructor; [split; assumption|constructor]]) eq_refl).
        destruct (chrom_files name more (Some all) (acc ++ [vs])) as [[s' b']| | |]; try exact IH.
        destruct IH as [I1 [I2 I3]]. split; [exact I1|]. split; [rewrite I2, <- app_assoc; reflexivity|].
        intros H. destruct (I3 H) as [_ Hd]. discriminate Hd.
      * cbn [acc_ok] in Ha. subst acc.
        specialize (IH (Some len) ([] ++ [vs]) _ Hf2 ltac:(cbn [acc_ok app]; constructor; [split; assumption|constructor]) eq_refl).
        destruct (chrom_files name more (Some len) ([] ++ [vs])) as [[s' b']| | |]; try exact IH.
        destruct IH as [I1 [I2 I3]]. split; [exact I1|]. split; [rewrite I2; reflexivity|].
        intros H. destruct (I3 H) as [_ Hd]. discriminate Hd.
    + cbn [app]. apply (IH size acc _ Hf2 Ha eq_refl).
Qed.

(* BTreeMap-as-sorted-list facts *)
Lemma bt_has_insert n e m : bt_has n (bt_insert e m) = bytes_eqb (fst (fst e)) n || bt_has n m.
Proof.
  unfold bt_has. induction m as [|x r IH]; cbn [bt_insert existsb]; [reflexivity|].
  destruct (bytes_ltb (fst (fst e)) (fst (fst x))); cbn [existsb]; [reflexivity|].
  rewrite IH. rewrite !orb_assoc. f_equal. apply orb_comm.
Qed.
Lemma bt_insert_Forall (Q : chrom_entry -> Prop) e m : Q e -> Forall Q m -> Forall Q (bt_insert e m).
Proof.
  intros He. induction 1 as [|x r Hx Hr IH]; cbn [bt_insert]; [repeat constructor; exact He|].
  destruct (bytes_ltb (fst (fst e)) (fst (fst x))); repeat constructor; auto.
Qed.

Lemma chrom_inputs_nonempty name files f c : In f files -> In c f -> fst (fst c) = name -> chrom_inputs name files <> [].
Proof.
  intros Hf Hc Hn. unfold chrom_inputs. induction files as [|g more IH]; [destruct Hf|].
  cbn [flat_map]. destruct Hf as [<-|Hf].
  - destruct (find_chrom name g) as [c'|] eqn:E; [discriminate|]. exfalso.
    unfold find_chrom in E. pose proof (find_none _ _ E _ Hc) as H. cbv beta in H. rewrite Hn, bytes_eqb_refl in H. discriminate H.
  - intros H. apply app_eq_nil in H. destruct H as [_ H]. exact (IH Hf H).
Qed.

Definition has_name (files : list bwfile) (name : list N) : Prop := exists f c, In f files /\ In c f /\ fst (fst c) = name.

Lemma chrom_table_ok files : files_ok files -> forall names m r,
  Forall (has_name files) names -> Forall (entry_ok files) m ->
  chrom_table names files m = r ->
  match r with
  | Ok table => Forall (entry_ok files) table /\
                (forall n, In n names -> bt_has n table = true) /\ (forall n, bt_has n m = true -> bt_has n table = true)
  | Err c => c = 1
  | _ => False
  end.
Proof.
  intros Hf. induction names as [|name more IH]; intros m r Hn Hm E.
  - cbn [chrom_table] in E. subst r. split; [exact Hm|]. split; [intros n []|auto].
  - inversion Hn as [|? ? Hn1 Hn2]; subst. cbn [chrom_table].
    destruct (bt_has name m) eqn:Eh.
    + specialize (IH m _ Hn2 Hm eq_refl). destruct (chrom_table more files m) as [table| | |]; try exact IH.
      destruct IH as [I1 [I2 I3]]. split; [exact I1|]. split; [|exact I3].
      intros n [<-|Hin]; [apply I3; exact Eh|apply I2; exact Hin].
    + pose proof (chrom_files_ok name files None [] _ Hf eq_refl eq_refl) as Hc.
      destruct (chrom_files name files None []) as [[[size|] bws]|c| |]; try exact Hc.
      * destruct Hc as [C1 [C2 _]]. cbn [app acc_ok] in C1, C2.
        assert (He : entry_ok files (name, size, bws)).
        { unfold entry_ok. cbn [fst snd]. split; [exact C2|]. split; eapply Forall_impl; try exact C1; cbn beta; tauto. }
        specialize (IH (bt_insert (name, size, bws) m) _ Hn2 (bt_insert_Forall _ _ _ He Hm) eq_refl).
        destruct (chrom_table more files (bt_insert (name, size, bws) m)) as [table| | |]; try exact IH.
        destruct IH as [I1 [I2 I3]]. split; [exact I1|]. split.
        -- intros n [<-|Hin]; [|apply I2; exact Hin]. apply I3. rewrite bt_has_insert. cbn [fst]. rewrite bytes_eqb_refl. reflexivity.
        -- intros n H. apply I3. rewrite bt_has_insert, H. apply orb_true_r.
      * exfalso. destruct Hc as [_ [_ C3]]. destruct (C3 eq_refl) as [Hnil _].
        destruct Hn1 as [f [c [H1 [H2 H3]]]]. exact (chrom_inputs_nonempty _ _ _ _ H1 H2 H3 Hnil).
Qed.

Lemma all_names_has files : Forall (has_name files) (all_names files).
Proof.
  apply Forall_forall. intros n Hin. unfold all_names in Hin. apply in_flat_map in Hin. destruct Hin as [f [Hf Hin]].
  apply in_map_iff in Hin. destruct Hin as [c [Hc Hin]]. exists f, c. auto.
Qed.

(* ------------------------------------------------------------------ rows *)
Lemma tool_chrom_any W maxfds size bws thr adj clip :
  0 < W -> (2 <= maxfds)%nat -> Forall (sorted_from 0) bws -> Forall (fun vs => end_from 0 vs <= size) bws ->
  exists out, tool_chrom W maxfds size bws thr adj clip = Ok (map IV out) /\
    sorted_from 0 out /\ forall x, sig out x = tool_expected bws thr adj clip x.
Proof.
  intros HW Hk Hs He. destruct (Nat.le_gt_cases (length bws) maxfds) as [Hle|Hgt].
  - destruct (tool_chrom_direct W maxfds size bws thr adj clip HW Hs He Hle) as [merged [out [_ [_ [E [S G]]]]]].
    exists out. auto.
  - apply tool_chrom_chunked; auto.
Qed.

(* the rows written: chromosome by chromosome in table order, each value tagged with the chromosome's name *)
Fixpoint rows_spec (table : list chrom_entry) (outs : list (list value)) : list row :=
  match table, outs with
  | e :: t, o :: os => map (fun v => (fst (fst e), v)) o ++ rows_spec t os
  | _, _ => []
  end.
Definition out_ok (thr : Z) (adj clip : option Z) (e : chrom_entry) (out : list value) : Prop :=
  sorted_from 0 out /\ forall x, sig out x = tool_expected (snd e) thr adj clip x.

Lemma tool_rows_ok W maxfds files thr adj clip : 0 < W -> (2 <= maxfds)%nat -> forall table,
  Forall (entry_ok files) table ->
  exists outs, tool_rows W maxfds table thr adj clip = Ok (rows_spec table outs) /\ Forall2 (out_ok thr adj clip) table outs.
Proof.
  intros HW Hk. induction table as [|[[name size] bws] more IH]; intros Ht.
  - exists []. split; [reflexivity|constructor].
  - inversion Ht as [|? ? [_ [E1 E2]] Ht2]; subst. cbn [fst snd] in E1, E2.
    destruct (tool_chrom_any W maxfds size bws thr adj clip HW Hk E1 E2) as [out [Eo [So Go]]].
    destruct (IH Ht2) as [outs [Er Fr]]. exists (out :: outs). cbn [tool_rows]. rewrite Eo, all_values_IV, Er.
    split; [reflexivity|]. constructor; [|exact Fr]. split; [exact So|exact Go].
Qed.

(* ------------------------------------------------------------------ one run of the tool *)
Theorem tool_run_ok W maxfds files thr adj clip ty name :
  0 < W -> (2 <= maxfds)%nat -> files_ok files ->
  (exists table,
     chrom_table (all_names files) files [] = Ok table /\
     Forall (entry_ok files) table /\
     (forall f c, In f files -> In c f -> bt_has (fst (fst c)) table = true) /\
     match detect_output ty name with
     | None => tool_run W maxfds files thr adj clip ty name = Ok None
     | Some t => exists outs, tool_run W maxfds files thr adj clip ty name = Ok (Some (t, rows_spec table outs)) /\
                              Forall2 (out_ok thr adj clip) table outs
     end)
  \/ (chrom_table (all_names files) files [] = Err 1 /\ tool_run W maxfds files thr adj clip ty name = Err 1).
Proof.
  intros HW Hk Hf.
  pose proof (chrom_table_ok files Hf (all_names files) [] _ (all_names_has files) (Forall_nil _) eq_refl) as Ht.
  unfold tool_run. destruct (chrom_table (all_names files) files []) as [table|c| |]; try (exfalso; exact Ht).
  - left. exists table. destruct Ht as [T1 [T2 _]]. split; [reflexivity|]. split; [exact T1|]. split.
    + intros f c H1 H2. apply T2. unfold all_names. apply in_flat_map. exists f. split; [exact H1|].
      apply in_map_iff. exists c. auto.
    + destruct (detect_output ty name) as [t|]; [|reflexivity].
      destruct (tool_rows_ok W maxfds files thr adj clip HW Hk table T1) as [outs [Er Fr]].
      exists outs. rewrite Er. auto.
  - right. subst c. auto.
Qed.

(* the rows handed to the bedGraph writer and to the bigWig writer are the same *)
Lemma outputs_agree W maxfds files thr adj clip ty1 name1 ty2 name2 t1 rows1 t2 rows2 :
  tool_run W maxfds files thr adj clip ty1 name1 = Ok (Some (t1, rows1)) ->
  tool_run W maxfds files thr adj clip ty2 name2 = Ok (Some (t2, rows2)) -> rows1 = rows2.
Proof.
  unfold tool_run. destruct (chrom_table (all_names files) files []) as [table| | |]; try discriminate.
  destruct (detect_output ty1 name1); [|discriminate]. destruct (detect_output ty2 name2); [|discriminate].
  destruct (tool_rows W maxfds table thr adj clip); try discriminate. intros H1 H2. congruence.
Qed.
