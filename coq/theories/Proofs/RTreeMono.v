(* C05: monotonicity of the index search in the query range (consequences of search = scan).
   Widening a query on a chromosome never loses a block, and the narrower answer is the wider
   answer filtered again (so relative order is kept). *)
From BT Require Import Base.Util Model.RTree Proofs.RTreeAbs Proofs.RTreeBuild Base.LE Proofs.RTreeCodec Proofs.RTreeSearch Proofs.RTreeShape Proofs.RTreeLayout.
Local Open Scope N_scope.

Lemma overlaps_widen : forall q qs qe qs' qe' s, qs' <= qs -> qe <= qe' ->
  overlaps q qs qe s = true -> overlaps q qs' qe' s = true.
Proof.
  intros q qs qe qs' qe' s H1 H2. unfold overlaps, le_pos, ge_pos, cmp_pos.
  intros H. apply andb_prop in H. destruct H as [Ha Hb]. apply andb_true_intro. split.
  - destruct (q ?= ec s) eqn:E; try exact Ha.
    destruct (N.compare_spec qs (eb s)); destruct (N.compare_spec qs' (eb s)); try reflexivity; try discriminate; exfalso; lia.
  - destruct (q ?= sc s) eqn:E; try exact Hb.
    destruct (N.compare_spec qe (sb s)); destruct (N.compare_spec qe' (sb s)); try reflexivity; try discriminate; exfalso; lia.
Qed.

Lemma scan_widen : forall secs q qs qe qs' qe', qs' <= qs -> qe <= qe' ->
  incl (scan secs q qs qe) (scan secs q qs' qe').
Proof.
  intros secs q qs qe qs' qe' H1 H2 b Hb. unfold scan in *.
  apply in_map_iff in Hb. destruct Hb as [s [Es Hs]]. apply filter_In in Hs. destruct Hs as [Hin Ho].
  apply in_map_iff. exists s. split; [exact Es|]. apply filter_In. split; [exact Hin|].
  eapply overlaps_widen; eassumption.
Qed.

(* the scan of a query is the scan of the widened query, filtered again: order is kept *)
Lemma scan_widen_filter : forall secs q qs qe qs' qe', qs' <= qs -> qe <= qe' ->
  filter (fun s => overlaps q qs qe (sect_span s)) secs =
  filter (fun s => overlaps q qs qe (sect_span s)) (filter (fun s => overlaps q qs' qe' (sect_span s)) secs).
Proof.
  intros secs q qs qe qs' qe' H1 H2. induction secs as [|s l IH]; [reflexivity|].
  cbn [filter]. destruct (overlaps q qs qe (sect_span s)) eqn:E.
  - rewrite (overlaps_widen _ _ _ _ _ _ H1 H2 E). cbn [filter]. rewrite E. f_equal. exact IH.
  - destruct (overlaps q qs' qe' (sect_span s)); [cbn [filter]; rewrite E|]; exact IH.
Qed.

Theorem search_bytes_widen : forall (b ips pos : N) (secs : list sect),
  2 <= b <= 65535 -> secs <> [] -> sorted_starts (map sect_span secs) -> Forall sect_ok secs ->
  exists bs levels, write_index b ips pos secs = Ok (bs, levels)
    /\ (pos + Nlen bs <= U64 ->
        forall pre post q qs qe qs' qe' fuel, Nlen pre = pos -> (length bs <= fuel)%nat ->
          qs' <= qs -> qe <= qe' ->
          exists r r', search_bytes fuel false (pre ++ bs ++ post) (pos + 48) q qs qe = Ok r
            /\ search_bytes fuel false (pre ++ bs ++ post) (pos + 48) q qs' qe' = Ok r'
            /\ incl r r').
Proof.
  intros b ips pos secs Hb Hne Hs Hok.
  destruct (search_bytes_eq_scan b ips pos secs Hb Hne Hs Hok) as [bs [lv [Hw H]]].
  exists bs, lv. split; [exact Hw|]. intros Hu pre post q qs qe qs' qe' fuel Hp Hf H1 H2.
  exists (scan secs q qs qe), (scan secs q qs' qe'). split; [apply H; assumption|].
  split; [apply H; assumption|]. apply scan_widen; assumption.
Qed.
