(* C09, bigBed, compressed files, part 2: decode (bb_write_z ...) = Some (bed_content_of_z ...), both writers,
   any arithmetic mode, any compressor whose outputs are non-empty, any inflate oracle inverting it on the byte
   ranges of the file that hold a compressed block; the buffer-size theorem; the instance with the zlib
   "stored" encoder and the Gallina inflater of Spec/Inflate.v. *)
From Coq Require Import Sorting.Sorted.
From BT Require Import Base.Util Base.LE Base.Float Generated.Consts Model.RTree Model.BBIFile Model.BigWigWrite Model.BigWigWriteZ
  Model.BigBedWrite Model.BigBedWriteZ Proofs.Chunks Proofs.RTreeCodec Proofs.FileRegions Proofs.RTreeShape
  Spec.FormatDecode Proofs.C09Base Proofs.C09Codec Proofs.C09Chrom Proofs.C09RTree Proofs.C09Data Proofs.C09Zoom Proofs.C09File Proofs.C09Levels
  Proofs.ZoomBwLevels Proofs.C09BufSize Proofs.C09BedBlock Proofs.C09BedFile Proofs.C09BedZoom Proofs.C09BedWhole Proofs.C09BedZFile.
From BT Require Model.BedSweep Proofs.BedQuery Proofs.BedCodec Proofs.BedImage Proofs.BedEndToEnd Proofs.BedZoomFit Proofs.C08FileQuery
  Proofs.BigWigFileRoundTrip Proofs.ZoomFile Proofs.C09Whole Proofs.BedFileZ Proofs.BedFileZThms.
Local Open Scope N_scope.
Notation opts_ok := BigWigFileRoundTrip.opts_ok.
Notation bb_write_either_zc := BedFileZThms.bb_write_either_zc.
Notation bb_write_either_z := BedFileZThms.bb_write_either_z.
Notation blocks_fit := BedFileZ.blocks_fit.

(* ---------- what the decoder must return: bed_content_of with the advertised buffer size ---------- *)
Definition bed_content_of_z (fp : fpmode) (o : opts) (sizes : list (name * N)) (input : list bitem) (sql : list N) (fc : N)
           (ids : idmap) (outs : list bchrom) (ubuf : N) (kept : list N) : content :=
  {| c_bigwig := false; c_bigendian := false; c_field_count := fc; c_defined_fc := fc; c_autosql := sql;
     c_ubuf := ubuf; c_block_size := o_bs o; c_ips := o_ips o;
     c_chroms := map (chrom_view sizes) ids;
     c_records := brecs_of outs;
     c_blocks := map (fun g : N * list entry => Nlen (snd g)) (BedImage.gsecs (o_ips o) (BedEndToEnd.groups_of outs));
     c_data_count := Nlen input;
     c_summary := sum_view_mod (bb_sweep fp outs);
     c_zooms := map (bb_level_content fp o outs) kept |}.
Lemma bed_content_of_z_0 fp o sizes input sql fc ids outs kept :
  bed_content_of_z fp o sizes input sql fc ids outs 0 kept = bed_content_of fp o sizes input sql fc ids outs kept.
Proof. reflexivity. Qed.

(* ---------- both zoom writers with a block store: the kept levels as the bigBed decoder sees them ---------- *)
Lemma levels_res fp o outs zsizes : map zl_res (map (bzl fp o outs) zsizes) = zsizes.
Proof. rewrite map_map. cbn [bzl zl_res]. apply map_id. Qed.

Section BedZoomLaidZ.
Variables (fp : fpmode) (o : opts) (sizes : list (name * N)) (input : list bitem) (ids : idmap) (outs : list bchrom).
Variables (bs : list N) (inflate : N -> N -> option (list N)).
Variables (compress : list N -> list N) (cz : bool) (ubuf : N).
Hypothesis Hcol : bb_collect o sizes input = Ok (ids, outs).
Hypothesis Hopts : opts_ok o.
Hypothesis Hinp : bed_input_ok input.
Hypothesis Hnchr : Nlen (bruns input) < W16.
Hypothesis Hsizes : Forall (fun s : name * N => snd s < W32) sizes.
Hypothesis Hsize : Nlen bs < W64.
Hypothesis Hcne : forall b, compress b <> [].
Hypothesis Hmode : blk_mode cz ubuf.
Hypothesis Hinf : cz = true -> inflate_ok compress bs inflate.
Let chroms := map (chrom_view sizes) ids.

Lemma laid_weaken_z pos bytes hdrs :
  laid_out fp (map big_chrom chroms) bs (Nlen bs) inflate ubuf (bb_rsecs fp o outs) pos bytes hdrs ->
  exists zl, omap (zoom_level bs (Nlen bs) false inflate false chroms ubuf) (map zh_view hdrs) = Some zl
    /\ Forall zh_ok hdrs
    /\ reg_chain pos (zoom_regions zl) /\ chain_end pos (zoom_regions zl) <= pos + Nlen bytes
    /\ zoom_content zl = map (fun h => bb_level_content fp o outs (zh_res h)) hdrs.
Proof.
  intros (zl & Hom & Hok & Hch & Hend & Hcont). exists zl. split; [|auto].
  eapply omap_weaken; [|exact Hom]. intros z x. apply zoom_level_weaken.
Qed.

(* the advertised size covers the sections of every level that was computed *)
Lemma sizes_ok_z zsizes : Forall (fun z => 1 <= z < W32) zsizes ->
  (cz = true -> max_len (flat_map zl_secs (map (bzl fp o outs) zsizes)) <= ubuf) ->
  Forall (size_ok cz ubuf (bb_rsecs fp o outs)) zsizes.
Proof.
  intros Hz Hu. apply Forall_forall. intros z Hzin. rewrite Forall_forall in Hz. split; [exact (Hz z Hzin)|].
  intros Ec. apply Forall_forall. intros rs Hrs. rewrite <- (zsec_bytes_len fp rs).
  eapply N.le_trans; [|exact (Hu Ec)]. apply max_len_ge. apply in_flat_map. exists (bzl fp o outs z).
  split; [now apply in_map|]. cbn [bzl zl_secs]. unfold zsecs. now apply in_map.
Qed.

Theorem bed_zoom_laid_z two_pass sum ds zpos zbytes zhdrs zu :
  C08FileQuery.zoom_res_u32 two_pass o ->
  (if two_pass then bb_zoom_two_pass_z compress cz fp o outs sum ds zpos else bb_zoom_single_z compress cz fp o outs sum ds zpos)
    = Ok (zbytes, zhdrs, zu) ->
  (cz = true -> zu <= ubuf) ->
  has_at bs zpos zbytes ->
  exists zl, omap (zoom_level bs (Nlen bs) false inflate false chroms ubuf) (map zh_view zhdrs) = Some zl
    /\ Forall zh_ok zhdrs /\ Nlen zhdrs <= 10 /\ inc_from 0 (map zh_res zhdrs)
    /\ reg_chain zpos (zoom_regions zl) /\ chain_end zpos (zoom_regions zl) <= zpos + Nlen zbytes
    /\ zoom_content zl = map (fun h => bb_level_content fp o outs (zh_res h)) zhdrs
    /\ Forall (fun h => level_runs fp o outs (zh_res h)) zhdrs
    /\ (two_pass = false -> incl (map zh_res zhdrs) (zoom_sizes_single o)).
Proof.
  intros Hu H Hzu Hat.
  pose proof (bed_level_good fp o sizes input ids outs Hcol Hopts Hinp Hnchr Hsizes) as Hgood.
  destruct two_pass.
  - unfold bb_zoom_two_pass_z in H. cbv zeta in H.
    set (zsizes := zoom_sizes_two_pass o sum (total_zoom_counts (map chrom_out_of outs)) ds) in *.
    destruct (mapM (bb_zoom_level fp o outs) zsizes) as [zooms| | |] eqn:E; cbn [rbind] in H; try discriminate.
    destruct (write_zooms_two_pass o zpos (map (zlevel compress cz) zooms)) as [[b0 h0]| | |] eqn:Ew; cbn [rbind] in H; try discriminate.
    apply Ok_inj in H. inversion H; subst b0 h0 zu. clear H.
    destruct (bed_levels_built fp o outs zsizes zooms E) as [Ez Hruns]. subst zooms.
    pose proof (write_zooms_two_pass_res _ _ _ _ _ Ew) as Hres.
    assert (E2 : map zl_res (map (zlevel compress cz) (map (bzl fp o outs) zsizes)) = zsizes)
      by (rewrite map_map; cbn [zlevel zl_res]; apply levels_res).
    rewrite E2 in Hres. clear E2.
    pose proof (zoom_sizes_two_pass_inc o sum (map chrom_out_of outs) ds) as Hinc0. fold zsizes in Hinc0.
    assert (Hinc : inc_from 0 (map zh_res zhdrs)) by (rewrite Hres; exact Hinc0).
    assert (Hcap : Nlen zhdrs <= 10).
    { pose proof (f_equal (@length _) Hres) as El. rewrite map_length in El.
      pose proof (BedZoomFit.zoom_sizes_two_pass_len o sum (total_zoom_counts (map chrom_out_of outs)) ds) as Hl. fold zsizes in Hl. unfold Nlen. lia. }
    assert (Ew' : write_zooms_two_pass o zpos (map (lv fp compress cz (bb_rsecs fp o outs)) zsizes) = Ok (zbytes, zhdrs)).
    { rewrite <- Ew. f_equal. rewrite map_map. apply map_ext. intros z. reflexivity. }
    assert (Hsok : Forall (size_ok cz ubuf (bb_rsecs fp o outs)) zsizes).
    { apply sizes_ok_z.
      - pose proof (ZoomFile.two_pass_sizes_u32 o sum (total_zoom_counts (map chrom_out_of outs)) ds Hu) as Hall. fold zsizes in Hall.
        pose proof (C08FileQuery.inc_from_all _ _ Hinc0) as Hpos.
        apply Forall_forall. intros z Hz. rewrite Forall_forall in Hall, Hpos. specialize (Hall z Hz). specialize (Hpos z Hz). cbn beta in Hpos.
        unfold U32, W32 in *. lia.
      - intros Ec. specialize (Hzu Ec). unfold ubuf_of in Hzu. rewrite Ec in Hzu. exact Hzu. }
    destruct (laid_weaken_z zpos zbytes zhdrs
                (two_pass_layout fp o _ bs (Nlen bs) inflate compress cz ubuf eq_refl Hsize Hopts Hcne Hmode Hinf
                   (bb_rsecs fp o outs) Hgood zsizes zpos zbytes zhdrs Hsok Ew' Hat)) as (zl & A & B & C & D & F).
    exists zl. split; [exact A|]. split; [exact B|]. split; [exact Hcap|]. split; [exact Hinc|]. split; [exact C|]. split; [exact D|].
    split; [exact F|]. split; [|discriminate].
    rewrite Forall_forall in Hruns. apply Forall_forall. intros h Hh. apply Hruns. rewrite <- Hres. now apply in_map.
  - unfold bb_zoom_single_z in H.
    destruct (mapM (bb_zoom_level fp o outs) (zoom_sizes_single o)) as [zooms| | |] eqn:E; cbn [rbind] in H; try discriminate.
    destruct (write_zooms_loop o ds zpos (map (zlevel compress cz) zooms) None 0) as [[b0 h0]| | |] eqn:Ew; cbn [rbind] in H; try discriminate.
    apply Ok_inj in H. inversion H; subst b0 h0 zu. clear H.
    destruct (bed_levels_built fp o outs _ zooms E) as [Ez Hruns]. subst zooms.
    assert (Hres : map zl_res (map (zlevel compress cz) (map (bzl fp o outs) (zoom_sizes_single o))) = zoom_sizes_single o).
    { rewrite map_map. cbn [zlevel zl_res]. apply levels_res. }
    destruct (write_zooms_loop_inc o _ _ _ _ _ _ _ 0 ltac:(rewrite Hres; apply zoom_sizes_single_inc) Ew) as [Hinc Hcap].
    rewrite !map_length in Hcap. pose proof (BedZoomFit.zoom_sizes_single_len o) as Hl10.
    pose proof (C09Whole.write_zooms_loop_incl _ _ _ _ _ _ _ _ Ew) as Hincl. rewrite Hres in Hincl.
    assert (Ew' : write_zooms_loop o ds zpos (map (lv fp compress cz (bb_rsecs fp o outs)) (zoom_sizes_single o)) None 0 = Ok (zbytes, zhdrs)).
    { rewrite <- Ew. f_equal. rewrite map_map. apply map_ext. intros z. reflexivity. }
    assert (Hsok : Forall (size_ok cz ubuf (bb_rsecs fp o outs)) (zoom_sizes_single o)).
    { apply sizes_ok_z.
      - pose proof (C08FileQuery.inc_from_all _ _ (zoom_sizes_single_inc o)) as Hpos.
        apply Forall_forall. intros z Hz. unfold C08FileQuery.zoom_res_u32 in Hu. rewrite Forall_forall in Hu, Hpos.
        specialize (Hu z Hz). specialize (Hpos z Hz). cbn beta in Hpos. unfold U32, W32 in *. lia.
      - intros Ec. specialize (Hzu Ec). unfold ubuf_of in Hzu. rewrite Ec in Hzu. exact Hzu. }
    destruct (laid_weaken_z zpos zbytes zhdrs
                (loop_layout fp o _ bs (Nlen bs) inflate compress cz ubuf eq_refl Hsize Hopts Hcne Hmode Hinf
                   (bb_rsecs fp o outs) Hgood (zoom_sizes_single o) ds zpos None 0 zbytes zhdrs Hsok Ew' Hat)) as (zl & A & B & C & D & F).
    exists zl. split; [exact A|]. split; [exact B|]. split; [unfold Nlen; lia|]. split; [exact Hinc|]. split; [exact C|]. split; [exact D|].
    split; [exact F|]. split; [|intros _; exact Hincl].
    rewrite Forall_forall in Hruns. apply Forall_forall. intros h Hh. apply Hruns. apply Hincl. now apply in_map.
Qed.
End BedZoomLaidZ.

(* ---------- the data blocks: sizes before compression ---------- *)
Lemma bp_data_len o p g : In g (bp_gs o p) -> Nlen (sd_bytes (BedImage.sd_of g)) = BedFileZ.block_len (snd g).
Proof. intros _. rewrite BedImage.sd_of_bytes. apply BedFileZ.block_bytes_len. Qed.

Lemma bp_gs_run o sizes input p : bb_collect o sizes input = Ok (bp_ids p, bp_outs p) ->
  forall g, In g (bp_gs o p) -> exists c es, In (c, es) (bruns input) /\ In (snd g) (sections_loop (o_ips o) [] es).
Proof.
  intros Hcol g Hg. destruct (collect_facts _ _ _ _ _ Hcol) as (Hruns & _).
  unfold bp_gs, BedImage.gsecs in Hg. apply in_flat_map in Hg as [g2 [Hg2 Hg]]. apply in_map_iff in Hg as [c [<- Hc]].
  unfold BedEndToEnd.groups_of in Hg2. apply in_map_iff in Hg2 as [bc [<- Hbc]]. cbn [fst snd] in *.
  exists (bc_name bc), (bc_entries bc). split; [|exact Hc].
  rewrite <- Hruns. apply (in_map (fun c => (bc_name c, bc_entries c))). exact Hbc.
Qed.

Lemma bp_data_first o sizes input p : bb_collect o sizes input = Ok (bp_ids p, bp_outs p) ->
  exists d, In d (bp_data o p) /\ 13 <= Nlen (sd_bytes d).
Proof.
  intros Hcol. pose proof (bf_gs_ne o sizes input p Hcol) as Hne.
  destruct (bp_gs o p) as [|g gs'] eqn:Eg; [congruence|].
  assert (Hg : In g (bp_gs o p)) by (rewrite Eg; now left).
  exists (BedImage.sd_of g). split; [unfold bp_data; rewrite Eg; now left|].
  rewrite (bp_data_len o p g Hg).
  destruct (BedEndToEnd.gsecs_in _ _ _ Hg) as [g' [_ [_ Hn]]]. destruct (snd g) as [|x r]; [congruence|].
  unfold BedFileZ.block_len. cbn [map sumN]. lia.
Qed.

(* ---------- the two writers, blocks compressed or not ---------- *)
Theorem bb_write_zc_decodes compress cz two_pass fp o sizes autosql input bs strict inflate :
  bb_write_either_zc compress cz two_pass fp o sizes autosql input = Ok bs ->
  bed_hyps o sizes input bs -> C08FileQuery.zoom_res_u32 two_pass o ->
  (strict = true -> names_increasing (map fst (bruns input))) ->
  (forall b, compress b <> []) -> (cz = true -> inflate_ok compress bs inflate) ->
  (cz = true -> blocks_fit o input /\ Nlen input < W64) ->
  exists sql fc ids outs kept ubuf,
    bb_schema autosql = Ok (sql, fc) /\ bb_collect o sizes input = Ok (ids, outs)
    /\ inc_from 0 kept /\ Nlen kept <= 10 /\ (two_pass = false -> incl kept (zoom_sizes_single o))
    /\ Forall (level_runs fp o outs) kept
    /\ (ubuf = 0 <-> cz = false) /\ ubuf < W32
    /\ decode_gen strict bs inflate = Some (bed_content_of_z fp o sizes input sql fc ids outs ubuf kept).
Proof.
  intros Hw Hh Hu Hstrict Hcne Hinfl Hfit. destruct cz.
  2:{ (* raw blocks: the plain model *)
    assert (Hw' : BedZoomFit.bb_write_either two_pass fp o sizes autosql input = Ok bs).
    { destruct (BedFileZ.bb_write_zc_false compress fp o sizes autosql input) as [E1 E2].
      unfold BedFileZThms.bb_write_either_zc in Hw. unfold BedZoomFit.bb_write_either. destruct two_pass; [rewrite <- E2|rewrite <- E1]; exact Hw. }
    destruct (bb_write_decodes two_pass fp o sizes autosql input bs strict inflate Hw' Hh Hu Hstrict)
      as (sql & fc & ids & outs & kept & A & B & C & D & E & F & G).
    exists sql, fc, ids, outs, kept, 0. repeat (split; [assumption|]). split; [split; reflexivity|]. split; [unfold W32; lia|].
    rewrite bed_content_of_z_0. exact G. }
  destruct (Hfit eq_refl) as [Hbfit Hcnt]. specialize (Hinfl eq_refl).
  destruct Hh as (Hbs & Hips & Hnchr & Hinp & Hsizes & Hsize).
  set (zp := if two_pass then bb_zoom_two_pass_z compress true fp o else bb_zoom_single_z compress true fp o).
  assert (Hw' : bb_write_gen_z compress true (bb_sweep fp) zp o sizes autosql input = Ok bs).
  { unfold zp. destruct two_pass; exact Hw. }
  assert (Hi1 : 1 <= o_ips o).
  { unfold bb_write_gen_z in Hw'. destruct ((o_bs o <? 2) || (o_ips o <? 1)) eqn:E; [discriminate|].
    apply orb_false_iff in E as [_ E]. apply N.ltb_ge in E. exact E. }
  assert (Hb32 : true = true -> 32 * o_ips o < RTreeCodec.U32) by (intros _; unfold RTreeCodec.U32; lia).
  assert (Hzf : forall outs sum a b zb zh zu, zp outs sum a b = Ok (zb, zh, zu) ->
                  (length zh <= 10)%nat /\ zu < RTreeCodec.U32 /\ (true = false -> zu = 0)).
  { unfold zp. destruct two_pass; [apply BedFileZThms.two_pass_z_fit|apply BedFileZThms.single_z_fit]; assumption. }
  destruct (bb_write_gen_z_inv compress true (bb_sweep fp) zp o sizes autosql input bs Hw'
              (fun outs sum a b zb zh zu E => proj1 (Hzf outs sum a b zb zh zu E))) as (p & zu & Hb2 & _ & Hsch & Hcol & Hzp & HA).
  destruct (Hzf _ _ _ _ _ _ _ Hzp) as (_ & Hzu32 & _).
  assert (Hopts : opts_ok o) by (split; split; assumption).
  destruct (BedCodec.bb_schema_verbatim _ _ _ Hsch) as [_ Hsqlnn].
  pose proof (schema_fc16 _ _ _ Hsch) as Hfc.
  set (wdata := map (zsec compress true) (bp_data o p)) in *.
  set (ubuf := N.max (ubuf_of true (bp_data o p)) zu) in *.
  set (zpos := bp_P p + Nlen (data_bytes wdata) + Nlen (bp_ct p) + Nlen (bp_ix p)) in *.
  assert (Hat : has_at bs zpos (bp_zbytes p)).
  { destruct HA as (_ & _ & E & L & _). rewrite E. fold wdata.
    rewrite (app_assoc (bp_pre p)), (app_assoc (bp_pre p ++ _)), (app_assoc ((bp_pre p ++ _) ++ _)).
    apply has_at_intro. rewrite !Nlen_app, L. reflexivity. }
  assert (Hlen : Nlen bs = zpos + Nlen (bp_zbytes p) + 4).
  { destruct HA as (_ & _ & E & L & _). rewrite E, !Nlen_app, L. fold wdata. change (Nlen (u32 BIGBED_MAGIC)) with 4. unfold zpos. lia. }
  assert (Hzp' : (if two_pass then bb_zoom_two_pass_z compress true fp o (bp_outs p) (bb_sweep fp (bp_outs p)) (Nlen (data_bytes wdata)) zpos
                  else bb_zoom_single_z compress true fp o (bp_outs p) (bb_sweep fp (bp_outs p)) (Nlen (data_bytes wdata)) zpos)
                 = Ok (bp_zbytes p, bp_zhdrs p, zu)).
  { unfold zp in Hzp. destruct two_pass; exact Hzp. }
  (* mode and bounds *)
  assert (Hmode : blk_mode true ubuf).
  { right. split; [reflexivity|]. unfold ubuf, ubuf_of. destruct (bp_data_first o sizes input p Hcol) as (d & Hd & Hl).
    pose proof (max_len_ge _ d Hd). lia. }
  assert (Hub32 : ubuf < W32).
  { unfold ubuf, ubuf_of. assert (max_len (bp_data o p) < W32); [|unfold RTreeCodec.U32, W32 in *; lia].
    apply C09Whole.max_len_lt; [unfold W32; lia|]. unfold bp_data. rewrite Forall_map. apply Forall_forall. intros g Hg.
    rewrite (bp_data_len o p g Hg). destruct (bp_gs_run o sizes input p Hcol g Hg) as (c & es & Hr & Hb).
    pose proof (Hbfit c es (snd g) Hr Hb) as H. unfold RTreeCodec.U32, W32 in *. exact H. }
  assert (Hinf : true = true -> inflate_ok compress bs inflate /\ Forall (fun d => Nlen (sd_bytes d) <= ubuf) (bp_data o p)).
  { intros _. split; [exact Hinfl|]. apply Forall_forall. intros d Hd. unfold ubuf, ubuf_of. pose proof (max_len_ge _ d Hd). lia. }
  destruct (bed_zoom_laid_z fp o sizes input (bp_ids p) (bp_outs p) bs inflate compress true ubuf Hcol Hopts Hinp Hnchr Hsizes Hsize
              Hcne Hmode (fun _ => Hinfl) two_pass _ _ zpos _ _ zu Hu Hzp' ltac:(intros _; unfold ubuf; lia) Hat)
    as (zl & Hdec & Hzok & Hcap & Hinc & Hch & Hend & Hcont & Hruns & Hincl).
  destruct (collect_facts _ _ _ _ _ Hcol) as (_ & _ & _ & _ & _ & Eitems & _).
  destruct (bfz_decode o sizes input (bb_sweep fp (bp_outs p)) bs p strict inflate compress true ubuf Hcol HA Hmode Hub32 Hcne Hinf
              ltac:(rewrite Eitems; exact Hcnt) Hsqlnn Hfc Hopts Hinp Hnchr Hsizes Hsize Hstrict
              zl Hzok Hcap Hinc Hdec) as (ih & Hd & _).
  { split; [exact Hch|]. fold wdata zpos. lia. }
  exists (bp_sql p), (bp_fc p), (bp_ids p), (bp_outs p), (map zh_res (bp_zhdrs p)), ubuf.
  split; [exact Hsch|]. split; [exact Hcol|]. split; [exact Hinc|]. split; [unfold Nlen in *; rewrite map_length; exact Hcap|].
  split; [exact Hincl|]. split; [rewrite Forall_map; exact Hruns|].
  split; [split; [intros E0; destruct Hmode as [[Ef _]|[_ Hp]]; [discriminate|lia]|discriminate]|]. split; [exact Hub32|].
  rewrite Hd. f_equal. unfold bed_content, bed_content_of_z. f_equal.
  - exact Eitems.
  - rewrite Hcont, map_map. reflexivity.
Qed.

(* ---------- the two writers, in the form of the uncompressed theorems ---------- *)
Definition ubuf_fits_dec (o : opts) (input : list bitem) : Prop :=
  o_compress o = true -> blocks_fit o input /\ Nlen input < W64.

Theorem bb_write_z_single_decodes compress fp o sizes autosql input bs strict inflate :
  bb_write_z compress fp o sizes autosql input = Ok bs -> bed_hyps o sizes input bs ->
  Forall (fun z => z < W32) (zoom_sizes_single o) ->
  (strict = true -> o_sort_all o = true) ->
  (forall b, compress b <> []) -> (o_compress o = true -> inflate_ok compress bs inflate) -> ubuf_fits_dec o input ->
  exists fc ids outs kept ubuf,
    bb_schema autosql = Ok (stored_autosql autosql, fc) /\ bb_collect o sizes input = Ok (ids, outs)
    /\ incl kept (zoom_sizes_single o) /\ inc_from 0 kept /\ Nlen kept <= 10
    /\ Forall (level_runs fp o outs) kept
    /\ (ubuf = 0 <-> o_compress o = false) /\ ubuf < W32
    /\ decode_gen strict bs inflate = Some (bed_content_of_z fp o sizes input (stored_autosql autosql) fc ids outs ubuf kept).
Proof.
  intros H Hh Hu Hs Hcne Hinf Hfit.
  assert (Hcol0 : exists ids outs, bb_collect o sizes input = Ok (ids, outs)).
  { unfold bb_write_z, bb_write_zc, bb_write_gen_z in H. destruct (_ || _); [discriminate|].
    destruct (bb_schema autosql) as [[sql fc]| | |]; cbn [rbind] in H; try discriminate.
    destruct (bb_collect o sizes input) as [[ids outs]| | |]; try discriminate. eauto. }
  destruct Hcol0 as (ids0 & outs0 & Hcol0).
  destruct (bb_write_zc_decodes compress (o_compress o) false fp o sizes autosql input bs strict inflate H Hh Hu) as
    (sql & fc & ids & outs & kept & ubuf & A & B & C & D & E & F & G1 & G2 & G); try assumption.
  { intros Es. exact (bed_sorted_names_increasing o sizes input ids0 outs0 (Hs Es) Hcol0). }
  destruct (BedCodec.bb_schema_verbatim _ _ _ A) as [Esql _]. fold (stored_autosql autosql) in Esql. subst sql.
  exists fc, ids, outs, kept, ubuf. split; [exact A|]. split; [exact B|]. split; [exact (E eq_refl)|]. split; [exact C|]. split; [exact D|].
  split; [exact F|]. split; [exact G1|]. split; [exact G2|exact G].
Qed.

Theorem bb_write_z_multipass_decodes compress fp o sizes autosql input bs strict inflate :
  bb_write_multipass_z compress fp o sizes autosql input = Ok bs -> bed_hyps o sizes input bs ->
  C09Whole.manual_u32 o ->
  (strict = true -> o_sort_all o = true) ->
  (forall b, compress b <> []) -> (o_compress o = true -> inflate_ok compress bs inflate) -> ubuf_fits_dec o input ->
  exists fc ids outs kept ubuf,
    bb_schema autosql = Ok (stored_autosql autosql, fc) /\ bb_collect o sizes input = Ok (ids, outs)
    /\ inc_from 0 kept /\ Nlen kept <= 10
    /\ Forall (level_runs fp o outs) kept
    /\ (ubuf = 0 <-> o_compress o = false) /\ ubuf < W32
    /\ decode_gen strict bs inflate = Some (bed_content_of_z fp o sizes input (stored_autosql autosql) fc ids outs ubuf kept).
Proof.
  intros H Hh Hu Hs Hcne Hinf Hfit.
  assert (Hcol0 : exists ids outs, bb_collect o sizes input = Ok (ids, outs)).
  { unfold bb_write_multipass_z, bb_write_multipass_zc, bb_write_gen_z in H. destruct (_ || _); [discriminate|].
    destruct (bb_schema autosql) as [[sql fc]| | |]; cbn [rbind] in H; try discriminate.
    destruct (bb_collect o sizes input) as [[ids outs]| | |]; try discriminate. eauto. }
  destruct Hcol0 as (ids0 & outs0 & Hcol0).
  destruct (bb_write_zc_decodes compress (o_compress o) true fp o sizes autosql input bs strict inflate H Hh (manual_u32_zf o Hu)) as
    (sql & fc & ids & outs & kept & ubuf & A & B & C & D & E & F & G1 & G2 & G); try assumption.
  { intros Es. exact (bed_sorted_names_increasing o sizes input ids0 outs0 (Hs Es) Hcol0). }
  destruct (BedCodec.bb_schema_verbatim _ _ _ A) as [Esql _]. fold (stored_autosql autosql) in Esql. subst sql.
  exists fc, ids, outs, kept, ubuf. split; [exact A|]. split; [exact B|]. split; [exact C|]. split; [exact D|].
  split; [exact F|]. split; [exact G1|]. split; [exact G2|exact G].
Qed.

(* ---------- the header's uncompress_buf_size ---------- *)
(* for every compressor: the header field is >= the uncompressed size of every data section and of every zoom
   section computed (single pass: also the levels write_zooms skips; two passes: the levels selected from the
   COMPRESSED data size), it is 0 iff the blocks are raw, and it fits the u32 field when every uncompressed block does *)
Definition zoom_sizes_of (compress : list N -> list N) (c two_pass : bool) (fp : fpmode) (o : opts) (outs : list bchrom) (data : list sdata) : list N :=
  if two_pass then zoom_sizes_two_pass o (bb_sweep fp outs) (total_zoom_counts (map chrom_out_of outs))
                     (Nlen (data_bytes (map (zsec compress c) data)))
  else zoom_sizes_single o.

Theorem bb_buf_size_c compress c two_pass fp o sizes autosql input bs :
  bb_write_either_zc compress c two_pass fp o sizes autosql input = Ok bs ->
  exists sql fc ids outs data zooms ubuf nz a1 a2 a3 a4,
    bb_schema autosql = Ok (sql, fc) /\ bb_collect o sizes input = Ok (ids, outs) /\ bb_data o outs = Ok data
    /\ mapM (bb_zoom_level fp o outs) (zoom_sizes_of compress c two_pass fp o outs data) = Ok zooms
    /\ has_at bs 0 (header_bytes BIGBED_MAGIC nz a1 a2 a3 fc fc ASQL_OFFSET a4 ubuf)
    /\ blocks_bound c ubuf (data ++ flat_map zl_secs zooms)
    /\ (ubuf = 0 <-> c = false)
    /\ (c = true -> blocks_fit o input -> 32 * o_ips o < W32 -> ubuf < W32).
Proof.
  intros Hw.
  set (zp := if two_pass then bb_zoom_two_pass_z compress c fp o else bb_zoom_single_z compress c fp o).
  assert (Hw' : bb_write_gen_z compress c (bb_sweep fp) zp o sizes autosql input = Ok bs).
  { unfold zp. destruct two_pass; exact Hw. }
  unfold bb_write_gen_z in Hw'.
  destruct ((o_bs o <? 2) || (o_ips o <? 1)) eqn:Eopt; [discriminate|].
  apply orb_false_iff in Eopt as [_ Eips]. apply N.ltb_ge in Eips.
  destruct (bb_schema autosql) as [[sql fc]| | |] eqn:Esch; cbn [rbind] in Hw'; try discriminate.
  destruct (bb_collect o sizes input) as [[ids outs]| | |] eqn:Ecol; cbn [rbind] in Hw'; try discriminate.
  destruct (bb_data o outs) as [data| | |] eqn:Edata; cbn [rbind] in Hw'; try discriminate.
  assert (Hlen10 : forall outs sum a b zb zh zu, zp outs sum a b = Ok (zb, zh, zu) -> (length zh <= 10)%nat).
  { intros outs' sum a b zb zh zu E. unfold zp in E. destruct two_pass.
    - unfold bb_zoom_two_pass_z in E. cbv zeta in E.
      destruct (mapM (bb_zoom_level fp o outs') _) as [zooms| | |] eqn:Em; cbn [rbind] in E; try discriminate.
      destruct (write_zooms_two_pass o b _) as [[b0 h0]| | |] eqn:Ew; cbn [rbind] in E; try discriminate.
      apply Ok_inj in E. inversion E; subst. apply BedZoomFit.write_zooms_two_pass_len in Ew. rewrite map_length in Ew.
      apply BedZoomFit.mapM_length in Em. pose proof (BedZoomFit.zoom_sizes_two_pass_len o sum (total_zoom_counts (map chrom_out_of outs')) a). lia.
    - unfold bb_zoom_single_z in E.
      destruct (mapM (bb_zoom_level fp o outs') _) as [zooms| | |] eqn:Em; cbn [rbind] in E; try discriminate.
      destruct (write_zooms_loop o a b _ None 0) as [[b0 h0]| | |] eqn:Ew; cbn [rbind] in E; try discriminate.
      apply Ok_inj in E. inversion E; subst. apply BedZoomFit.write_zooms_loop_len in Ew. rewrite map_length in Ew.
      apply BedZoomFit.mapM_length in Em. pose proof (BedZoomFit.zoom_sizes_single_len o). lia. }
  destruct (assemble_z_header _ _ _ _ _ _ _ _ _ _ _ _ _ _ Hw') as (ct & ix & lv & zb & zh & zu & Hzp & _ & _ & Hat).
  { intros ds zp0 zb zh zu E. specialize (Hlen10 _ _ _ _ _ _ _ E). rewrite bb_pre_Nlen. unfold Nlen. lia. }
  assert (Hz : exists zooms, mapM (bb_zoom_level fp o outs) (zoom_sizes_of compress c two_pass fp o outs data) = Ok zooms
                             /\ zu = ubuf_of c (flat_map zl_secs zooms)).
  { unfold zp in Hzp. unfold zoom_sizes_of. destruct two_pass.
    - unfold bb_zoom_two_pass_z in Hzp. cbv zeta in Hzp.
      destruct (mapM (bb_zoom_level fp o outs) _) as [zooms| | |] eqn:Em; cbn [rbind] in Hzp; try discriminate.
      destruct (write_zooms_two_pass o _ _) as [[b0 h0]| | |]; cbn [rbind] in Hzp; try discriminate.
      apply Ok_inj in Hzp. inversion Hzp; subst. exists zooms. split; reflexivity.
    - unfold bb_zoom_single_z in Hzp.
      destruct (mapM (bb_zoom_level fp o outs) _) as [zooms| | |] eqn:Em; cbn [rbind] in Hzp; try discriminate.
      destruct (write_zooms_loop o _ _ _ None 0) as [[b0 h0]| | |]; cbn [rbind] in Hzp; try discriminate.
      apply Ok_inj in Hzp. inversion Hzp; subst. exists zooms. split; reflexivity. }
  destruct Hz as (zooms & Hzm & ->).
  (* the data sections *)
  set (p := {| bp_sql := sql; bp_fc := fc; bp_ids := ids; bp_outs := outs; bp_pre := []; bp_ct := []; bp_ix := []; bp_lv := 0%nat;
               bp_zbytes := []; bp_zhdrs := [] |}).
  assert (Ed : data = bp_data o p).
  { rewrite BedEndToEnd.bb_data_sections in Edata. apply Ok_inj in Edata. subst data. reflexivity. }
  exists sql, fc, ids, outs, data, zooms, (N.max (ubuf_of c data) (ubuf_of c (flat_map zl_secs zooms))).
  do 5 eexists. split; [reflexivity|]. split; [reflexivity|]. split; [exact Edata|]. split; [exact Hzm|]. split; [exact Hat|].
  split; [apply ubuf_of_bound|]. split.
  - destruct c; unfold ubuf_of.
    + split; [|discriminate]. intros E0. exfalso. destruct (bp_data_first o sizes input p Ecol) as (d & Hd & Hl).
      rewrite <- Ed in Hd. pose proof (max_len_ge data d Hd). lia.
    + split; [reflexivity|]. intros _. reflexivity.
  - intros -> Hbf Hi32. unfold ubuf_of.
    assert (H1 : max_len data < W32).
    { apply C09Whole.max_len_lt; [unfold W32; lia|]. rewrite Ed. unfold bp_data. rewrite Forall_map. apply Forall_forall. intros g Hg.
      rewrite (bp_data_len o p g Hg). destruct (bp_gs_run o sizes input p Ecol g Hg) as (c & es & Hr & Hb).
      pose proof (Hbf c es (snd g) Hr Hb) as H. unfold RTreeCodec.U32, W32 in *. exact H. }
    assert (H2 : max_len (flat_map zl_secs zooms) < W32).
    { apply C09Whole.max_len_lt; [unfold W32; lia|].
      eapply Forall_impl; [|exact (BedFileZThms.bed_level_secs_sized fp o outs _ _ Eips Hzm)]. intros s Hs. cbn beta in Hs. lia. }
    lia.
Qed.

Theorem bb_buf_size compress two_pass fp o sizes autosql input bs :
  bb_write_either_z compress two_pass fp o sizes autosql input = Ok bs ->
  exists sql fc ids outs data zooms ubuf nz a1 a2 a3 a4,
    bb_schema autosql = Ok (sql, fc) /\ bb_collect o sizes input = Ok (ids, outs) /\ bb_data o outs = Ok data
    /\ mapM (bb_zoom_level fp o outs) (zoom_sizes_of compress (o_compress o) two_pass fp o outs data) = Ok zooms
    /\ has_at bs 0 (header_bytes BIGBED_MAGIC nz a1 a2 a3 fc fc ASQL_OFFSET a4 ubuf)
    /\ blocks_bound (o_compress o) ubuf (data ++ flat_map zl_secs zooms)
    /\ (ubuf = 0 <-> o_compress o = false)
    /\ (o_compress o = true -> blocks_fit o input -> 32 * o_ips o < W32 -> ubuf < W32).
Proof.
  intros Hw. apply (bb_buf_size_c compress (o_compress o) two_pass fp o sizes autosql input bs).
  unfold BedFileZThms.bb_write_either_zc. destruct two_pass; exact Hw.
Qed.
