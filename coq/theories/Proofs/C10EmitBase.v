(* C10, whole file, part 1: sizes do not depend on offsets; every needed piece of an emitted file
   sits at the offset the header / the pointers name; read_info on an emitted file returns the
   header fields, the zoom directory and the chromosome table of the content. *)
From BT Require Import Base.Util Base.LE Base.Float Generated.Consts Model.RTree Model.BBIFile Model.BigWigWrite
  Model.BBIRead Proofs.RTreeAbs Proofs.RTreeCodec Proofs.C10Codec Proofs.C10Search Proofs.C10Sections Proofs.C10Place
  Proofs.C10ChromTree Spec.FormatEmit Spec.FormatWf Model.ReadBed_C10.
Local Open Scope N_scope.

(* field access on a record with nothing behind it *)
Lemma dec_fld_nil big fs o w x : fld_at fs o = Some (w, x) -> fits w x ->
  dec big (firstn w (skipn o (enc_flds big fs))) = x.
Proof. intros H Hx. rewrite <- (app_nil_r (enc_flds big fs)). now apply dec_fld. Qed.
Lemma dec_fld0_nil big fs w x : fld_at fs 0 = Some (w, x) -> fits w x -> dec big (firstn w (enc_flds big fs)) = x.
Proof. intros H Hx. apply (dec_fld_nil big fs 0 w x H Hx). Qed.
Ltac fld_step0 tac :=
  match goal with
  | |- context [dec ?b (firstn ?w (skipn ?o (enc_flds ?b ?fs)))] =>
      fld_at_term (dec b (firstn w (skipn o (enc_flds b fs)))) ltac:(eapply dec_fld_nil) tac
  | |- context [dec ?b (firstn ?w (enc_flds ?b ?fs))] =>
      fld_at_term (dec b (firstn w (enc_flds b fs))) ltac:(eapply dec_fld0_nil) tac
  end.
Ltac flds0 tac := repeat (fld_step0 tac).

(* ---------- picking items by index ---------- *)
Definition pick {X} (l : list X) (ix : list nat) : list X :=
  flat_map (fun i => match nth_error l i with Some x => [x] | None => [] end) ix.
Lemma pick_app {X} (l : list X) a b : pick l (a ++ b) = pick l a ++ pick l b.
Proof. unfold pick. apply flat_map_app. Qed.
Lemma pick_one {X} (l : list X) c : forall f,
  match nth_error l f with Some x => [x] | None => [] end ++ firstn c (skipn (S f) l) = firstn (S c) (skipn f l).
Proof.
  intros f. revert l. induction f as [|f IH]; intros l.
  - destruct l as [|x l]; [cbn; now rewrite firstn_nil|reflexivity].
  - destruct l as [|x l]; [cbn; now rewrite firstn_nil|]. cbn [nth_error skipn]. apply IH.
Qed.
Lemma pick_seq {X} (l : list X) : forall f c, pick l (seq f c) = firstn c (skipn f l).
Proof.
  intros f c. revert f. induction c as [|c IH]; intros f; [reflexivity|].
  cbn [seq]. change (f :: seq (S f) c) with ([f] ++ seq (S f) c). rewrite pick_app, IH.
  unfold pick at 1. cbn [flat_map]. rewrite app_nil_r. apply pick_one.
Qed.
Lemma pick_all {X} (l : list X) : pick l (seq 0 (length l)) = l.
Proof. rewrite pick_seq. cbn [skipn]. apply firstn_exact'. Qed.
Lemma pick_In {X} (l : list X) ix x : In x (pick l ix) -> exists i, In i ix /\ nth_error l i = Some x.
Proof.
  unfold pick. intros H. apply in_flat_map in H as [i [Hi Hx]]. exists i. split; [exact Hi|].
  destruct (nth_error l i) as [y|]; [|destruct Hx]. destruct Hx as [->|[]]. reflexivity.
Qed.
Lemma pick_map {X Y} (f : X -> Y) l ix : pick (map f l) ix = map f (pick l ix).
Proof.
  unfold pick. induction ix as [|i ix IH]; [reflexivity|]. cbn [flat_map]. rewrite map_app, IH. f_equal.
  rewrite nth_error_map. destruct (nth_error l i); reflexivity.
Qed.

Lemma In_firstn {X} n (l : list X) x : In x (firstn n l) -> In x l.
Proof. rewrite <- (firstn_skipn n l) at 2. intros H. apply in_or_app. now left. Qed.
Lemma In_skipn {X} n (l : list X) x : In x (skipn n l) -> In x l.
Proof. rewrite <- (firstn_skipn n l) at 2. intros H. apply in_or_app. now right. Qed.

Lemma nat_list_eqb_eq a b : nat_list_eqb a b = true -> a = b.
Proof.
  revert b. induction a as [|x a IH]; destruct b as [|y b]; cbn [nat_list_eqb]; intros H; try discriminate; [reflexivity|].
  apply andb_true_iff in H as [H1 H2]. apply Nat.eqb_eq in H1. subst. f_equal. now apply IH.
Qed.

(* ---------- skeleton walks ---------- *)
Lemma ocat_map_mono {X} (f g : nat -> option (list X)) cs l :
  (forall c r, f c = Some r -> g c = Some r) -> ocat (map f cs) = Some l -> ocat (map g cs) = Some l.
Proof.
  intros H. revert l. induction cs as [|c cs IH]; intros l Hl; [exact Hl|].
  cbn [map] in *. apply ocat_cons_inv in Hl as (la & lr & Ha & Hr & ->).
  cbn [ocat]. rewrite (H _ _ Ha), (IH _ Hr). reflexivity.
Qed.
Lemma sk_leaves_mono nodes : forall h h' i l, sk_leaves nodes h i = Some l -> (h <= h')%nat -> sk_leaves nodes h' i = Some l.
Proof.
  induction h as [|h IH]; intros h' i l Hl Hle; [discriminate|].
  destruct h' as [|h']; [lia|]. cbn [sk_leaves] in *.
  destruct (nth_error nodes i) as [[f c|cs]|]; [exact Hl| |discriminate].
  eapply ocat_map_mono; [|exact Hl]. intros c r Hc. apply (IH h' c r Hc). lia.
Qed.

Lemma forallb_nth {X} (p : X -> bool) l i x : forallb p l = true -> nth_error l i = Some x -> p x = true.
Proof. intros H Hn. rewrite forallb_forall in H. apply H. eapply nth_error_In; eauto. Qed.

(* ---------- the zoom directory, generically ---------- *)
Lemma read_zoom_headers_ok {E} (a b c : E -> N) big bs : forall (l : list E) off,
  has_at bs off (flat_map (fun e => enc_flds big [(4%nat, a e); (4%nat, 0); (8%nat, b e); (8%nat, c e)]) l) ->
  Forall (fun e => a e < 4294967296 /\ b e < 18446744073709551616 /\ c e < 18446744073709551616) l ->
  read_zoom_headers big bs off (length l)
  = Ok (map (fun e => {| zh_res := a e; zh_data := b e; zh_index := c e |}) l).
Proof.
  induction l as [|e l IH]; intros off Hat Hok; [reflexivity|].
  inversion Hok as [|? ? (Ha & Hb & Hc) Hr]; subst.
  cbn [flat_map] in Hat. apply has_at_app in Hat as [H1 H2].
  cbn [length read_zoom_headers map].
  rewrite (has_at_slice_n bs off _ 24 H1) by (rewrite enc_flds_length; reflexivity). cbn [rdo rbind].
  replace (off + Nlen (enc_flds big [(4%nat, a e); (4%nat, 0); (8%nat, b e); (8%nat, c e)])) with (off + 24) in H2
    by (unfold Nlen; rewrite enc_flds_length; reflexivity).
  rewrite (IH (off + 24) H2 Hr). cbn [rbind].
  rewrite <- (app_nil_r (enc_flds big _)).
  flds ltac:(first [apply fits4; lia | apply fits8; lia]). reflexivity.
Qed.

Lemma in_combine_nth {A B} (l1 : list A) (l2 : list B) k a b :
  nth_error l1 k = Some a -> nth_error l2 k = Some b -> In (a, b) (combine l1 l2).
Proof.
  revert l1 l2. induction k as [|k IH]; intros [|x l1] [|y l2] H1 H2; try discriminate.
  - cbn in *. injection H1 as ->. injection H2 as ->. now left.
  - cbn [nth_error combine] in *. right. now apply IH.
Qed.
Lemma combine_seq_nth {B} (l : list B) s k b : In (k, b) (combine (seq s (length l)) l) -> nth_error l (k - s) = Some b /\ (s <= k)%nat.
Proof.
  revert s. induction l as [|y l IH]; intros s H; [destruct H|].
  cbn [length seq combine] in H. destruct H as [H|H].
  - injection H as <- <-. rewrite Nat.sub_diag. split; [reflexivity|lia].
  - apply IH in H as [H1 H2]. replace (k - s)%nat with (S (k - S s)) by lia. split; [exact H1|lia].
Qed.

Section EmitBase.
Variable cmp : list N -> list N.
Variable L : layout.
Variable X : content.
Hypothesis Hwf : wf_b cmp L X = true.

Let big := l_big L.
Let bt := block_table cmp L X.
Let o := off_fn (offsets L X bt).
Let bs := emit cmp L X.

Lemma wf_parts : wf_scalars L X = true /\ wf_sections L X = true /\ wf_zooms L X = true /\ wf_chroms L X = true
  /\ wf_trees L bt = true /\ wf_place L X bt = true.
Proof.
  pose proof Hwf as H. unfold wf_b in H. fold bt in H. do 5 (apply andb_true_iff in H as [H ?]). repeat split; assumption.
Qed.

(* ---------- sizes ---------- *)
Lemma pad_key_length nm : length (pad_key L nm) = l_ckey L.
Proof. unfold pad_key. rewrite firstn_length, app_length, repeatN_length. lia. Qed.
Lemma leaf_items_length o' t : length (leaf_items_of bt o' t) = length (tree_blocks bt t).
Proof. unfold leaf_items_of. rewrite map_length, combine_length, seq_length. lia. Qed.
Lemma node_hdr_length a b : length (node_hdr_bytes L a b) = 4%nat.
Proof. unfold node_hdr_bytes. rewrite app_length, enc_length. reflexivity. Qed.

Lemma pbytes_size o1 o2 p : length (pbytes L X bt o1 p) = length (pbytes L X bt o2 p).
Proof.
  destruct p as [| |k|i|t i|t i|i]; try reflexivity; cbn [pbytes].
  - destruct (nth_error (l_cnodes L) i) as [[f c|cs]|]; [reflexivity| |reflexivity].
    rewrite !app_length. f_equal. unfold cnode_bytes. rewrite !app_length. f_equal.
    rewrite !(flat_map_length_const _ (l_ckey L + 8)%nat); [reflexivity| |];
      intros c; rewrite app_length, pad_key_length, enc_length; reflexivity.
  - destruct (nth_error (tree_nodes L t) i) as [[f c|cs]|]; [| |reflexivity]; rewrite !app_length; f_equal.
    + destruct (Nat.eqb i 0); [|reflexivity]. unfold index_header. rewrite !enc_flds_length. reflexivity.
    + unfold rnode_bytes. rewrite !app_length, !node_hdr_length. f_equal.
      rewrite !(flat_map_length_const _ 32%nat) by (intros it; rewrite enc_flds_length; reflexivity).
      rewrite !firstn_length, !skipn_length, !leaf_items_length. reflexivity.
    + destruct (Nat.eqb i 0); [|reflexivity]. unfold index_header. rewrite !enc_flds_length. reflexivity.
    + unfold rnode_bytes. rewrite !app_length, !node_hdr_length. f_equal.
      rewrite !(flat_map_length_const _ 24%nat) by (intros it; rewrite enc_flds_length; reflexivity). reflexivity.
Qed.
Lemma Hsize : forall j, Nlen (pbytes L X bt o j) = psize L X bt j.
Proof. intros j. unfold psize, Nlen. f_equal. apply pbytes_size. Qed.

Lemma header_length : length (header_bytes L X bt o) = 64%nat.
Proof. unfold header_bytes. rewrite enc_flds_length. reflexivity. Qed.
Lemma zoom_dir_length : length (zoom_dir L X o) = (length (x_zooms X) * 24)%nat.
Proof.
  unfold zoom_dir. rewrite (flat_map_length_const _ 24%nat) by (intros kz; rewrite enc_flds_length; reflexivity).
  rewrite combine_length, seq_length. lia.
Qed.

Lemma bs_eq : bs = (header_bytes L X bt o ++ zoom_dir L X o) ++ lay (l_fill L) (pbytes L X bt o) (l_order L) ++ [].
Proof. unfold bs, emit. fold bt. fold o. now rewrite app_nil_r, <- app_assoc. Qed.

(* ---------- placement ---------- *)
Lemma at_piece p : In p (needed_pids L X bt) ->
  has_at bs (o p) (pbytes L X bt o p) /\ o p + psize L X bt p < W64.
Proof.
  intros Hin. destruct wf_parts as (_ & _ & _ & _ & _ & Hp). unfold wf_place in Hp.
  apply andb_true_iff in Hp as [_ Hp]. rewrite forallb_forall in Hp. specialize (Hp p Hin).
  destruct (plookup p (offsets L X bt)) as [off|] eqn:E; [|discriminate]. apply N.ltb_lt in Hp.
  assert (Ho : o p = off) by (unfold o, off_fn; now rewrite E). rewrite Ho. split; [|exact Hp].
  rewrite bs_eq. unfold offsets in E.
  apply (placed (psize L X bt) (pbytes L X bt o) (l_fill L) Hsize (l_order L) (body_start X) p off E).
  unfold body_start, Nlen. rewrite app_length, header_length, zoom_dir_length. lia.
Qed.

Lemma off_ge p : In p (needed_pids L X bt) -> 64 <= o p.
Proof.
  intros Hin. destruct wf_parts as (_ & _ & _ & _ & _ & Hp). unfold wf_place in Hp.
  apply andb_true_iff in Hp as [_ Hp]. rewrite forallb_forall in Hp. specialize (Hp p Hin).
  destruct (plookup p (offsets L X bt)) as [off|] eqn:E; [|discriminate].
  assert (Ho : o p = off) by (unfold o, off_fn; now rewrite E). rewrite Ho.
  unfold offsets in E. apply off_table_ge in E. unfold body_start in E. lia.
Qed.

Lemma needed_count : In PCount (needed_pids L X bt).
Proof. unfold needed_pids. cbn [app]. now left. Qed.
Lemma needed_summary s : x_summary X = Some s -> In PSummary (needed_pids L X bt).
Proof. intros H. unfold needed_pids. rewrite H. cbn [app]. right. now left. Qed.
Lemma needed_asql i : l_asql L = Some i -> In (PExtra i) (needed_pids L X bt).
Proof.
  intros H. unfold needed_pids. rewrite H. apply in_or_app. right. apply in_or_app. right. cbn [app]. now left.
Qed.
Lemma needed_tail_in p : In p (map PZCount (seq 0 (length (x_zooms X)))
  ++ map PChrom (seq 0 (length (l_cnodes L)))
  ++ flat_map (fun t => map (PBlock t) (seq 0 (length (nth t bt [])))
                        ++ map (PNode t) (seq 0 (length (nth t (l_trees L) []))))
              (seq 0 (length bt))) -> In p (needed_pids L X bt).
Proof. intros H. unfold needed_pids. apply in_or_app. right. apply in_or_app. right. apply in_or_app. right. exact H. Qed.
Lemma needed_zcount k : (k < length (x_zooms X))%nat -> In (PZCount k) (needed_pids L X bt).
Proof. intros H. apply needed_tail_in. apply in_or_app. left. apply in_map, in_seq. lia. Qed.
Lemma needed_chrom i : (i < length (l_cnodes L))%nat -> In (PChrom i) (needed_pids L X bt).
Proof. intros H. apply needed_tail_in. apply in_or_app. right. apply in_or_app. left. apply in_map, in_seq. lia. Qed.
Lemma needed_block t i : (t < length bt)%nat -> (i < length (nth t bt []))%nat -> In (PBlock t i) (needed_pids L X bt).
Proof.
  intros Ht H. apply needed_tail_in. apply in_or_app. right. apply in_or_app. right.
  apply in_flat_map. exists t. split; [apply in_seq; lia|]. apply in_or_app. left. apply in_map, in_seq. lia.
Qed.
Lemma needed_node t i : (t < length bt)%nat -> (i < length (nth t (l_trees L) []))%nat -> In (PNode t i) (needed_pids L X bt).
Proof.
  intros Ht H. apply needed_tail_in. apply in_or_app. right. apply in_or_app. right.
  apply in_flat_map. exists t. split; [apply in_seq; lia|]. apply in_or_app. right. apply in_map, in_seq. lia.
Qed.

Lemma bt_length : length bt = S (length (x_zooms X)).
Proof. unfold bt, block_table. cbn [length]. now rewrite map_length, seq_length. Qed.

(* ---------- wf facts ---------- *)
Lemma scalars_facts : l_version L < W16 /\ Nlen (x_zooms X) < W16 /\ x_field_count X < W16 /\ x_defined_fields X < W16
  /\ N.of_nat (l_ckey L) < W32 /\ l_cblock L < W32 /\ l_rblock L < W32 /\ Nlen (x_vals X) < W64 /\ Nlen (x_beds X) < W64
  /\ (forall s, x_summary X = Some s -> sr_bases s < W64 /\ sr_min s < W64 /\ sr_max s < W64 /\ sr_sum s < W64 /\ sr_sumsq s < W64).
Proof.
  destruct wf_parts as (H & _). unfold wf_scalars in H. do 10 (apply andb_true_iff in H as [H ?]).
  repeat match goal with H : (_ <? _) = true |- _ => apply N.ltb_lt in H end.
  repeat split; try assumption; destruct (x_summary X) as [s0|]; try discriminate;
    match goal with H : Some _ = Some _ |- _ => injection H as <- end;
    match goal with H : _ = true |- _ => do 4 (apply andb_true_iff in H as [H ?]);
      repeat match goal with H : (_ <? _) = true |- _ => apply N.ltb_lt in H end end; assumption.
Qed.

Lemma tree_ok_facts h nodes n : tree_ok h nodes n = true ->
  forallb (inode_ok (length nodes)) nodes = true /\ sk_leaves nodes h 0 = Some (seq 0 n) /\ (0 < length nodes)%nat.
Proof.
  unfold tree_ok. intros H. apply andb_true_iff in H as [H1 H2]. split; [exact H1|].
  destruct (sk_leaves nodes h 0) as [ix|] eqn:E; [|discriminate]. apply nat_list_eqb_eq in H2. subst ix. split; [reflexivity|].
  destruct h as [|h]; [discriminate|]. cbn [sk_leaves] in E. destruct nodes; [discriminate|cbn; lia].
Qed.
Lemma chrom_facts : Forall (fun c => chrom_ok (l_ckey L) c = true) (x_chroms X) /\ Nlen (x_chroms X) < W64
  /\ tree_ok 64 (l_cnodes L) (length (x_chroms X)) = true.
Proof.
  destruct wf_parts as (_ & _ & _ & H & _). unfold wf_chroms in H. do 2 (apply andb_true_iff in H as [H ?]).
  split; [|split; [now apply N.ltb_lt|assumption]]. apply Forall_forall. now apply forallb_forall.
Qed.
Lemma trees_facts t : (t < length bt)%nat ->
  length (l_trees L) = length bt /\
  tree_ok (length (tree_nodes L t)) (tree_nodes L t) (length (tree_blocks bt t)) = true /\
  (sk_size (tree_nodes L t) (length (tree_nodes L t)) 0 <= count_nodes t (length (tree_nodes L t)) (l_order L))%nat.
Proof.
  intros Ht. destruct wf_parts as (_ & _ & _ & _ & H & _). unfold wf_trees in H. apply andb_true_iff in H as [H1 H2].
  apply Nat.eqb_eq in H1. split; [exact H1|]. rewrite forallb_forall in H2. specialize (H2 t). cbv zeta in H2.
  assert (Hin : In t (seq 0 (length bt))) by (apply in_seq; lia). apply H2 in Hin.
  apply andb_true_iff in Hin as [Ha Hb]. apply Nat.leb_le in Hb. split; assumption.
Qed.
Lemma ubuf_lt : ubuf L bt < W32.
Proof. destruct wf_parts as (_ & _ & _ & _ & _ & H). unfold wf_place in H. apply andb_true_iff in H as [H _]. now apply N.ltb_lt. Qed.

Lemma off_chrom0 : has_at bs (o (PChrom 0)) (pbytes L X bt o (PChrom 0)) /\ o (PChrom 0) + psize L X bt (PChrom 0) < W64.
Proof. apply at_piece, needed_chrom. destruct chrom_facts as (_ & _ & H). now apply tree_ok_facts in H. Qed.
Lemma off_node0 t : (t < length bt)%nat ->
  has_at bs (o (PNode t 0)) (pbytes L X bt o (PNode t 0)) /\ o (PNode t 0) + psize L X bt (PNode t 0) < W64.
Proof.
  intros Ht. apply at_piece, needed_node; [exact Ht|]. destruct (trees_facts t Ht) as (_ & H & _).
  apply tree_ok_facts in H. apply H.
Qed.

(* ---------- the 64-byte header ---------- *)
Definition exp_header : header :=
  {| h_big := big; h_bigwig := x_bigwig X; h_version := l_version L; h_zoom_levels := Nlen (x_zooms X);
     h_chrom_tree_off := o (PChrom 0); h_full_data_off := o PCount; h_full_index_off := o (PNode 0 0);
     h_field_count := x_field_count X; h_defined_fc := x_defined_fields X;
     h_asql_off := match l_asql L with Some i => o (PExtra i) | None => 0 end;
     h_summary_off := match x_summary X with Some _ => o PSummary | None => 0 end;
     h_ubuf := ubuf L bt |}.

Lemma detect_magic_emit (bw bg : bool) rest :
  detect_magic (enc bg 4 (if bw then BIGWIG_MAGIC else BIGBED_MAGIC) ++ rest) = Ok (bw, bg).
Proof.
  unfold detect_magic.
  assert (E : slice (enc bg 4 (if bw then BIGWIG_MAGIC else BIGBED_MAGIC) ++ rest) 0 4
              = Some (enc bg 4 (if bw then BIGWIG_MAGIC else BIGBED_MAGIC))).
  { unfold slice. change (N.to_nat 0) with 0%nat. cbn [skipn]. rewrite firstn_app_exact by apply enc_length.
    now rewrite enc_length. }
  rewrite E. cbn [rdo rbind]. destruct bw, bg; vm_compute; reflexivity.
Qed.

Lemma read_header_emit : read_header bs = Ok exp_header.
Proof.
  destruct scalars_facts as (Hv & Hz & Hfc & Hdf & _ & _ & _ & _ & _ & Hsum).
  pose proof ubuf_lt as Hub.
  destruct off_chrom0 as [_ Hc0]. destruct (off_node0 0) as [_ Hn0]; [rewrite bt_length; lia|].
  destruct (at_piece PCount needed_count) as [_ Hcnt].
  assert (Hasql : match l_asql L with Some i => o (PExtra i) | None => 0 end < W64).
  { destruct (l_asql L) as [i|] eqn:E; [|unfold W64; lia]. destruct (at_piece _ (needed_asql i E)) as [_ H]. lia. }
  assert (Hso : match x_summary X with Some _ => o PSummary | None => 0 end < W64).
  { destruct (x_summary X) as [s0|] eqn:E; [|unfold W64; lia]. destruct (at_piece _ (needed_summary s0 E)) as [_ H]. lia. }
  unfold W16, W32, W64 in *.
  set (hfs := [(4%nat, if x_bigwig X then BIGWIG_MAGIC else BIGBED_MAGIC); (2%nat, l_version L);
               (2%nat, Nlen (x_zooms X)); (8%nat, o (PChrom 0)); (8%nat, o PCount); (8%nat, o (PNode 0 0));
               (2%nat, x_field_count X); (2%nat, x_defined_fields X);
               (8%nat, match l_asql L with Some i => o (PExtra i) | None => 0 end);
               (8%nat, match x_summary X with Some _ => o PSummary | None => 0 end);
               (4%nat, ubuf L bt); (8%nat, 0)]).
  set (tail := zoom_dir L X o ++ lay (l_fill L) (pbytes L X bt o) (l_order L)).
  assert (Hbs : bs = enc_flds big hfs ++ tail).
  { unfold bs, emit. fold bt. fold o. reflexivity. }
  assert (Hat0 : has_at bs 0 (enc_flds big hfs ++ tail)).
  { rewrite Hbs. exists (@nil N), (@nil N). split; [now rewrite app_nil_r|reflexivity]. }
  unfold read_header.
  assert (E64 : slice bs 0 64 = Some (enc_flds big hfs)).
  { apply has_at_slice_n; [now apply has_at_prefix in Hat0|]. rewrite enc_flds_length. reflexivity. }
  rewrite E64. cbn [rdo rbind].
  assert (Em : detect_magic bs = Ok (x_bigwig X, big)).
  { rewrite Hbs. unfold hfs. rewrite enc_flds_cons, <- app_assoc. cbn [fst snd]. apply detect_magic_emit. }
  rewrite Em. cbn [rbind]. unfold exp_header. fold big.
  assert (F : forall off w x, fld_at hfs off = Some (w, x) -> fits w x -> rd big bs (0 + N.of_nat off) w = Some x).
  { intros off w x H1 H2. exact (rd_fld big bs 0 hfs tail off w x Hat0 H1 H2). }
  assert (F4 : rd big bs 4 2 = Some (l_version L)) by (apply (F 4%nat 2%nat _ eq_refl); apply fits2; lia).
  assert (F6 : rd big bs 6 2 = Some (Nlen (x_zooms X))) by (apply (F 6%nat 2%nat _ eq_refl); apply fits2; lia).
  assert (F8 : rd big bs 8 8 = Some (o (PChrom 0))) by (apply (F 8%nat 8%nat _ eq_refl); apply fits8; lia).
  assert (F16 : rd big bs 16 8 = Some (o PCount)) by (apply (F 16%nat 8%nat _ eq_refl); apply fits8; lia).
  assert (F24 : rd big bs 24 8 = Some (o (PNode 0 0))) by (apply (F 24%nat 8%nat _ eq_refl); apply fits8; lia).
  assert (F32 : rd big bs 32 2 = Some (x_field_count X)) by (apply (F 32%nat 2%nat _ eq_refl); apply fits2; lia).
  assert (F34 : rd big bs 34 2 = Some (x_defined_fields X)) by (apply (F 34%nat 2%nat _ eq_refl); apply fits2; lia).
  assert (F36 : rd big bs 36 8 = Some (match l_asql L with Some i => o (PExtra i) | None => 0 end))
    by (apply (F 36%nat 8%nat _ eq_refl); apply fits8; lia).
  assert (F44 : rd big bs 44 8 = Some (match x_summary X with Some _ => o PSummary | None => 0 end))
    by (apply (F 44%nat 8%nat _ eq_refl); apply fits8; lia).
  assert (F52 : rd big bs 52 4 = Some (ubuf L bt)) by (apply (F 52%nat 4%nat _ eq_refl); apply fits4; lia).
  rewrite F4, F6, F8, F16, F24, F32, F34, F36, F44, F52.
  reflexivity.
Qed.

(* ---------- zoom directory ---------- *)
Lemma zoom_facts k z : nth_error (x_zooms X) k = Some z ->
  (k < length (x_zooms X))%nat /\ fst z < W32 /\ Nlen (snd z) < W32 /\ Forall (fun r => zraw_ok r = true) (snd z)
  /\ Forall (fun c => (0 < c)%nat) (nth k (l_zsecs L) []) /\ sum_nat (nth k (l_zsecs L) []) = length (snd z).
Proof.
  intros Hz. destruct wf_parts as (_ & _ & H & _). unfold wf_zooms in H. apply andb_true_iff in H as [Hl H].
  apply Nat.eqb_eq in Hl. assert (Hk : (k < length (x_zooms X))%nat) by (apply nth_error_Some; congruence).
  split; [exact Hk|].
  destruct (nth_error (l_zsecs L) k) as [c|] eqn:Ec; [|apply nth_error_None in Ec; lia].
  rewrite (nth_error_nth _ _ [] Ec).
  rewrite forallb_forall in H. specialize (H (z, c) (in_combine_nth _ _ k z c Hz Ec)). cbn [fst snd] in H.
  do 4 (apply andb_true_iff in H as [H ?]). apply N.ltb_lt in H. apply Nat.eqb_eq in H0.
  repeat split; try assumption.
  - now apply N.ltb_lt.
  - apply Forall_forall. now apply forallb_forall.
  - apply Forall_forall. intros x Hx. rewrite forallb_forall in H1. apply H1 in Hx. now apply Nat.ltb_lt in Hx.
Qed.

Definition exp_zooms : list zoom_header :=
  map (fun kz => {| zh_res := fst (snd kz); zh_data := o (PZCount (fst kz)); zh_index := o (PNode (S (fst kz)) 0) |})
      (combine (seq 0 (length (x_zooms X))) (x_zooms X)).

Lemma read_zoom_headers_emit :
  read_zoom_headers big bs 64 (N.to_nat (Nlen (x_zooms X))) = Ok exp_zooms.
Proof.
  unfold Nlen. rewrite Nat2N.id.
  replace (length (x_zooms X)) with (length (combine (seq 0 (length (x_zooms X))) (x_zooms X))) at 1
    by (rewrite combine_length, seq_length; lia).
  apply (read_zoom_headers_ok (fun kz => fst (snd kz)) (fun kz => o (PZCount (fst kz))) (fun kz => o (PNode (S (fst kz)) 0))).
  - rewrite bs_eq. exists (header_bytes L X bt o), (lay (l_fill L) (pbytes L X bt o) (l_order L) ++ []). split.
    + unfold zoom_dir. now rewrite <- app_assoc.
    + now rewrite header_length.
  - apply Forall_forall. intros [k z] Hin. cbn [fst snd].
    apply combine_seq_nth in Hin as [Hn _]. rewrite Nat.sub_0_r in Hn.
    destruct (zoom_facts k z Hn) as (Hk & Hres & _).
    destruct (at_piece _ (needed_zcount k Hk)) as [_ H1].
    destruct (off_node0 (S k)) as [_ H2]; [rewrite bt_length; lia|].
    unfold W32, W64 in *. repeat split; lia.
Qed.

(* ---------- chromosome tree ---------- *)
Definition cget (i : nat) : option (cgnode nat) :=
  match nth_error (l_cnodes L) i with
  | Some (ILeaf f c) => Some (CGLeaf (firstn c (skipn f (x_chroms X))))
  | Some (IInner cs) => Some (CGInner (map (fun c => (first_key L X c, c)) cs))
  | None => None
  end.

Lemma cleaves_sk : forall h i ix, sk_leaves (l_cnodes L) h i = Some ix -> cleaves cget h i = Some (pick (x_chroms X) ix).
Proof.
  induction h as [|h IH]; intros i ix H; [discriminate|].
  cbn [sk_leaves] in H. cbn [cleaves]. unfold cget at 1.
  destruct (nth_error (l_cnodes L) i) as [[f c|cs]|]; [| |discriminate].
  - injection H as <-. now rewrite pick_seq.
  - rewrite map_map. cbn [snd]. revert ix H. induction cs as [|c cs IHc]; intros ix H.
    + cbn in H. injection H as <-. reflexivity.
    + cbn [map] in H. apply ocat_cons_inv in H as (la & lr & Ha & Hr & ->).
      cbn [map ocat]. rewrite (IH _ _ Ha), (IHc _ Hr), pick_app. reflexivity.
Qed.

Lemma flat_map_map {A B C} (f : B -> list C) (g : A -> B) l : flat_map f (map g l) = flat_map (fun x => f (g x)) l.
Proof. induction l as [|a l IH]; [reflexivity|]. cbn [map flat_map]. now rewrite IH. Qed.

Lemma cnode_at i g : cget i = Some g ->
  has_at bs (cnode_off o i) (cg_bytes (cnode_off o) big (l_ckey L) g) /\ cg_ok (cnode_off o) (l_ckey L) g.
Proof.
  intros Hg. unfold cget in Hg. destruct (nth_error (l_cnodes L) i) as [nd|] eqn:En; [|discriminate].
  assert (Hi : (i < length (l_cnodes L))%nat) by (apply nth_error_Some; congruence).
  destruct (at_piece _ (needed_chrom i Hi)) as [Hat _]. cbn [pbytes] in Hat. rewrite En in Hat.
  assert (Hat' : has_at bs (cnode_off o i) (cnode_bytes L X o nd)).
  { unfold cnode_off. destruct (Nat.eqb i 0).
    - apply has_at_app in Hat as [_ Hat]. unfold chrom_header in Hat. unfold Nlen in Hat. rewrite enc_flds_length in Hat. exact Hat.
    - cbn [app] in Hat. now rewrite N.add_0_r. }
  destruct chrom_facts as (Hch & _ & Htree). apply tree_ok_facts in Htree as (Hnodes & _ & _).
  pose proof (forallb_nth _ _ _ _ Hnodes En) as Hnd.
  destruct nd as [f c|cs]; injection Hg as <-; cbn [cnode_bytes cg_bytes cg_ok inode_ok] in *.
  - split.
    + unfold node_hdr_bytes in Hat'. rewrite <- app_assoc in Hat'. exact Hat'.
    + apply N.ltb_lt in Hnd. split.
      * unfold Nlen. rewrite firstn_length. unfold W16 in Hnd. lia.
      * apply Forall_forall. intros x Hx. apply In_firstn in Hx. apply In_skipn in Hx.
        rewrite Forall_forall in Hch. specialize (Hch x Hx). unfold chrom_ok in Hch.
        do 3 (apply andb_true_iff in Hch as [Hch ?]). apply Nat.leb_le in Hch.
        unfold cinfo_ok, W32 in *. repeat split; try assumption; now apply N.ltb_lt.
  - apply andb_true_iff in Hnd as [Hn Hcs]. apply N.ltb_lt in Hn. split.
    + unfold node_hdr_bytes in Hat'. rewrite <- app_assoc in Hat'. rewrite flat_map_map. cbn [fst snd].
      unfold Nlen in *. rewrite map_length. exact Hat'.
    + split; [unfold Nlen in *; rewrite map_length; exact Hn|].
      rewrite Forall_map. cbn [snd]. apply Forall_forall. intros c Hc.
      rewrite forallb_forall in Hcs. apply Hcs in Hc. apply Nat.ltb_lt in Hc.
      destruct (at_piece _ (needed_chrom c Hc)) as [_ Hb]. unfold cnode_off.
      assert (Hps : (if Nat.eqb c 0 then 32 else 0) <= psize L X bt (PChrom c)).
      { destruct (Nat.eqb c 0) eqn:E0; [|lia]. apply Nat.eqb_eq in E0. subst c. unfold psize. cbn [pbytes].
        destruct (nth_error (l_cnodes L) 0) eqn:E00; [|apply nth_error_None in E00; lia].
        unfold Nlen. rewrite app_length. cbn [Nat.eqb]. unfold chrom_header. rewrite enc_flds_length. cbn. lia. }
      unfold W64 in Hb. lia.
Qed.

Definition exp_info : info := {| i_hdr := exp_header; i_zooms := exp_zooms; i_chroms := x_chroms X |}.

Lemma bs_length_ge : (64 <= length bs)%nat.
Proof. rewrite bs_eq, !app_length, header_length. lia. Qed.

Theorem read_info_emit : read_info bs = Ok exp_info.
Proof.
  unfold read_info. rewrite read_header_emit. cbn [rbind exp_header h_big h_zoom_levels h_chrom_tree_off].
  rewrite read_zoom_headers_emit. cbn [rbind].
  destruct off_chrom0 as [Hat _]. cbn [pbytes] in Hat.
  destruct chrom_facts as (Hch & Hnch & Htree). pose proof Htree as Htree'. apply tree_ok_facts in Htree' as (_ & Hlv & Hpos).
  destruct (nth_error (l_cnodes L) 0) as [nd0|] eqn:E0; [|apply nth_error_None in E0; lia].
  cbn [Nat.eqb] in Hat. apply has_at_prefix in Hat. unfold chrom_header in Hat.
  rewrite (has_at_slice_n bs _ _ 32 Hat) by (rewrite enc_flds_length; reflexivity). cbn [rdo rbind].
  destruct scalars_facts as (_ & _ & _ & _ & Hkey & Hcb & _). unfold W32, W64 in *.
  rewrite <- (app_nil_r (enc_flds big _)).
  flds ltac:(first [apply fits4; lia | apply fits4; vm_compute; reflexivity]).
  rewrite N.eqb_refl. cbn [negb]. rewrite Nat2N.id. change (8 =? 8) with true. cbn [negb].
  change (o (PChrom 0) + 32) with (cnode_off o 0%nat).
  rewrite (chrom_walk cget (cnode_off o) big bs (l_ckey L) cnode_at 64%nat 0%nat (x_chroms X)).
  - reflexivity.
  - rewrite (cleaves_sk 64%nat 0%nat _ Hlv). now rewrite pick_all.
  - pose proof bs_length_ge. lia.
Qed.
End EmitBase.
