(* C05, abstract half: search on the built tree = linear scan over the sections.
   Proof outline:
   - positions (chrom, base) are ordered lexicographically (ple); overlaps is two ple tests;
   - a span lying inside another is hit by every query that hits it (inside_covers);
   - hull = (start of first, largest end): every element of a start-sorted list lies inside the hull;
   - search on a covered tree = filter over its leaves (search_tree_eq_scan);
   - build produces a covered tree whose leaves are the input, by an invariant over its loop. *)
From BT Require Import Base.Util Model.RTree.
Local Open Scope N_scope.

(* ---------- lexicographic positions ---------- *)
Definition ple (c1 b1 c2 b2 : N) : Prop := c1 < c2 \/ (c1 = c2 /\ b1 <= b2).
Lemma le_pos_spec c1 b1 c2 b2 : le_pos c1 b1 c2 b2 = true <-> ple c1 b1 c2 b2.
Proof.
  unfold le_pos, cmp_pos, ple.
  destruct (N.compare_spec c1 c2); destruct (N.compare_spec b1 b2); split; intros; try lia; try discriminate; auto.
Qed.
Lemma ge_pos_spec c1 b1 c2 b2 : ge_pos c1 b1 c2 b2 = true <-> ple c2 b2 c1 b1.
Proof.
  unfold ge_pos, cmp_pos, ple.
  destruct (N.compare_spec c1 c2); destruct (N.compare_spec b1 b2); split; intros; try lia; try discriminate; auto.
Qed.
Lemma ple_trans a1 a2 b1 b2 c1 c2 : ple a1 a2 b1 b2 -> ple b1 b2 c1 c2 -> ple a1 a2 c1 c2.
Proof. unfold ple; lia. Qed.
Lemma ple_refl a b : ple a b a b. Proof. unfold ple; lia. Qed.
Lemma ple_total a1 a2 b1 b2 : ple a1 a2 b1 b2 \/ ple b1 b2 a1 a2.
Proof. unfold ple; lia. Qed.

Definition inside (a b : span) : Prop :=
  ple (sc b) (sb b) (sc a) (sb a) /\ ple (ec a) (eb a) (ec b) (eb b).
Definition span_covers (sp : span) (s : span) : Prop :=
  forall q qs qe, overlaps q qs qe s = true -> overlaps q qs qe sp = true.
Lemma inside_covers sp s : inside s sp -> span_covers sp s.
Proof.
  intros [H1 H2] q qs qe Ho. unfold overlaps in *. apply andb_true_iff in Ho as [Ha Hb].
  apply andb_true_iff; split.
  - apply le_pos_spec. apply le_pos_spec in Ha. eapply ple_trans; eauto.
  - apply ge_pos_spec. apply ge_pos_spec in Hb. eapply ple_trans; eauto.
Qed.
Lemma inside_trans a b c : inside a b -> inside b c -> inside a c.
Proof. intros [H1 H2] [H3 H4]. split; eapply ple_trans; eauto. Qed.

(* ---------- pmax / hull ---------- *)
Lemma pmax_ge_l p q : ple (fst p) (snd p) (fst (pmax p q)) (snd (pmax p q)).
Proof.
  unfold pmax. destruct (le_pos (fst p) (snd p) (fst q) (snd q)) eqn:E.
  - apply le_pos_spec; exact E.
  - apply ple_refl.
Qed.
Lemma pmax_ge_r p q : ple (fst q) (snd q) (fst (pmax p q)) (snd (pmax p q)).
Proof.
  unfold pmax. destruct (le_pos (fst p) (snd p) (fst q) (snd q)) eqn:E.
  - apply ple_refl.
  - destruct (ple_total (fst p) (snd p) (fst q) (snd q)) as [H|H]; [|exact H].
    apply le_pos_spec in H. congruence.
Qed.
Lemma fold_pmax_ge_init l p : ple (fst p) (snd p) (fst (fold_left pmax l p)) (snd (fold_left pmax l p)).
Proof.
  revert p. induction l as [|x l IH]; intros p; cbn [fold_left]; [apply ple_refl|].
  eapply ple_trans; [apply (pmax_ge_l p x)|apply IH].
Qed.
Lemma fold_pmax_ge_in l p x : In x l -> ple (fst x) (snd x) (fst (fold_left pmax l p)) (snd (fold_left pmax l p)).
Proof.
  revert p. induction l as [|y l IH]; intros p Hin; [destruct Hin|]. cbn [fold_left].
  destruct Hin as [->|Hin].
  - eapply ple_trans; [apply (pmax_ge_r p x)|apply fold_pmax_ge_init].
  - apply IH; exact Hin.
Qed.
Lemma fold_pmax_in l p : fold_left pmax l p = p \/ In (fold_left pmax l p) l.
Proof.
  revert p. induction l as [|y l IH]; intros p; cbn [fold_left]; [left; reflexivity|].
  destruct (IH (pmax p y)) as [H|H].
  - rewrite H. unfold pmax. destruct (le_pos _ _ _ _); [right; left; reflexivity|left; reflexivity].
  - right; right; exact H.
Qed.

(* starts sorted: every element starts at or after the first *)
Definition starts_after (f : span) (l : list span) : Prop :=
  Forall (fun x => ple (sc f) (sb f) (sc x) (sb x)) l.

Lemma hull_end_ge f r x : In x (f :: r) -> ple (ec x) (eb x) (ec (hull (f :: r))) (eb (hull (f :: r))).
Proof.
  intros Hin. cbn [hull ec eb]. destruct Hin as [<-|Hin].
  - apply (fold_pmax_ge_init (map (fun s => (ec s, eb s)) r) (ec f, eb f)).
  - apply (fold_pmax_ge_in (map (fun s => (ec s, eb s)) r) (ec f, eb f) (ec x, eb x)).
    apply in_map_iff. exists x; auto.
Qed.
Lemma hull_inside f r x : starts_after f r -> In x (f :: r) -> inside x (hull (f :: r)).
Proof.
  intros Hs Hin. split.
  - cbn [hull sc sb]. destruct Hin as [<-|Hin]; [apply ple_refl|].
    unfold starts_after in Hs. rewrite Forall_forall in Hs. apply Hs; exact Hin.
  - apply hull_end_ge; exact Hin.
Qed.
(* the hull's end is the end of one of the elements *)
Lemma hull_end_in f r : exists x, In x (f :: r) /\ ec (hull (f :: r)) = ec x /\ eb (hull (f :: r)) = eb x.
Proof.
  cbn [hull ec eb].
  destruct (fold_pmax_in (map (fun s => (ec s, eb s)) r) (ec f, eb f)) as [H|H].
  - exists f. rewrite H. cbn. auto.
  - apply in_map_iff in H as [x [Hx Hin]]. exists x. rewrite <- Hx. cbn. auto.
Qed.

(* ---------- search on a covered tree ---------- *)
Section tree_ind'.
  Variable P : tree -> Prop.
  Hypothesis Hleaf : forall l, P (Leaf l).
  Hypothesis Hnode : forall ch, Forall (fun c => P (snd c)) ch -> P (Node ch).
  Fixpoint tree_ind' (t : tree) : P t :=
    match t with
    | Leaf l => Hleaf l
    | Node ch => Hnode ch ((fix go (l : list (span * tree)) : Forall (fun c => P (snd c)) l :=
                   match l with [] => Forall_nil _ | c :: r => Forall_cons c (tree_ind' (snd c)) (go r) end) ch)
    end.
End tree_ind'.

Inductive covered : tree -> Prop :=
| cov_leaf : forall l, covered (Leaf l)
| cov_node : forall ch,
    Forall (fun c => covered (snd c) /\ Forall (fun s => span_covers (fst c) (sect_span s)) (leaves (snd c))) ch ->
    covered (Node ch).

Lemma filter_flat_map {X Y} (p : Y -> bool) (g : X -> list Y) l :
  filter p (flat_map g l) = flat_map (fun a => filter p (g a)) l.
Proof. induction l as [|a l IH]; cbn [flat_map]; [reflexivity|]. now rewrite filter_app, IH. Qed.
Lemma filter_none {X} (p : X -> bool) l : Forall (fun a => p a = false) l -> filter p l = [].
Proof. induction 1 as [|a l Ha _ IH]; cbn [filter]; [reflexivity|]. now rewrite Ha. Qed.

Theorem search_tree_eq_scan q qs qe : forall t, covered t ->
  search_tree q qs qe t = filter (fun s => overlaps q qs qe (sect_span s)) (leaves t).
Proof.
  induction t as [l|ch IH] using tree_ind'; intros Hc; cbn [search_tree leaves]; [reflexivity|].
  inversion Hc as [|ch' Hch]; subst. rewrite filter_flat_map.
  induction ch as [|c ch IHch]; cbn [flat_map]; [reflexivity|].
  inversion IH as [|? ? IHc IHr]; subst. inversion Hch as [|? ? [Hcc Hcov] Hr]; subst.
  rewrite IHch; auto; [|constructor; exact Hr]. f_equal.
  destruct (overlaps q qs qe (fst c)) eqn:Ho.
  - apply IHc; assumption.
  - symmetry. apply filter_none. eapply Forall_impl; [|exact Hcov]. intros s Hs. cbv beta in Hs.
    destruct (overlaps q qs qe (sect_span s)) eqn:Hos; [|reflexivity]. apply Hs in Hos. congruence.
Qed.
