(* ValueIter (merge_sections_many) for every window size W > 0 and any number of sorted disjoint error-free streams:
   the collected output is sorted, disjoint, zero-free, and its per-base signal is the sum of the inputs' signals. *)
From BT Require Import Base.Util Model.Merge Proofs.MergeSig Proofs.MergeWin.
Local Open Scope N_scope.

(* ------------------------------------------------------------------ small list facts *)
Lemma last_in {X} (l : list X) : forall d, In (last l d) (d :: l).
Proof.
  induction l as [|a r IH]; intros d; [left; reflexivity|].
  change (last (a :: r) d) with (match r with [] => a | _ => last r d end).
  destruct r as [|b r']; [right; left; reflexivity|].
  destruct (IH d) as [H|H]; [left; exact H|right; right; exact H].
Qed.

Lemma split_last_app {X} (q : list X) z : split_last (q ++ [z]) = Some (q, z).
Proof.
  induction q as [|a r IH]; [reflexivity|]. cbn [app split_last]. rewrite IH. reflexivity.
Qed.
Lemma snoc_case {X} (l : list X) : l = [] \/ exists q z, l = q ++ [z].
Proof.
  destruct l as [|a r]; [left; reflexivity|]. right.
  destruct (@exists_last _ (a :: r)) as [q [z E]]; [discriminate|]. exists q, z. exact E.
Qed.

Lemma sorted_nz_zero_nil lo R : sorted_from lo R -> Forall nzv R -> (forall x, sigz R x = 0%Z) -> R = [].
Proof.
  destruct R as [|v r]; [reflexivity|]. cbn [sorted_from]. intros [H1 [H2 H3]] Hnz Hz. exfalso.
  inversion Hnz as [|? ? Hv _]; subst. specialize (Hz (v_start v)). cbn [sigz] in Hz.
  rewrite inb_true in Hz by lia. rewrite (sorted_from_below _ _ _ H3) in Hz by lia. unfold nzv in Hv. lia.
Qed.

Lemma sorted_from_count lo hi R : sorted_from lo R -> Forall (fun v => v_end v <= hi) R -> lo + N.of_nat (length R) <= N.max lo hi.
Proof.
  revert lo. induction R as [|v r IH]; intros lo Hs Hh; cbn [length]; [lia|].
  cbn [sorted_from] in Hs. destruct Hs as [H1 [H2 H3]]. inversion Hh as [|? ? Hv Hr]; subst.
  specialize (IH _ H3 Hr). lia.
Qed.

Lemma sorted_from_tail_ge lo R : sorted_from lo R -> Forall (fun v => lo < v_end v) R.
Proof.
  intros Hs. apply sorted_from_starts in Hs. eapply Forall_impl; [|exact Hs]. cbn beta. intros a [H1 H2]. lia.
Qed.

(* ------------------------------------------------------------------ the held-back value goes to the front of the queue *)
Lemma iq_front f cs runs l : sorted_from cs runs -> v_start l < v_end l -> v_end l <= cs ->
  insert_into_queue (S f) runs l = Ok (l :: runs).
Proof.
  intros Hs Hl Hc. cbn [insert_into_queue]. destruct runs as [|r0 rs]; [reflexivity|].
  cbn [last_opt]. pose proof (sorted_from_starts _ _ Hs) as Hall. rewrite Forall_forall in Hall.
  destruct (Hall _ (last_in rs r0)) as [Hz1 Hz2]. rewrite (proj2 (N.leb_gt (v_end (last rs r0)) (v_start l))) by lia.
  cbn [iq_scan]. destruct (Hall r0 (or_introl eq_refl)) as [Hr1 Hr2].
  rewrite (proj2 (N.leb_le (v_end l) (v_start r0))) by lia. reflexivity.
Qed.

(* ------------------------------------------------------------------ invariant of the iterator state *)
Definition bounded (maxend : N) (Ps : list (list value)) : Prop := Forall (Forall (fun v => v_end v <= maxend)) Ps.
Definition st_buf (st : vstate) : list value := match vs_buf st with Some b => b | None => [] end.
Definition st_queue (st : vstate) : list value := st_buf st ++ opt_list (vs_last st).
Definition st_sig (st : vstate) (Ps : list (list value)) (x : N) : Z :=
  (sigz (st_queue st) x + fut (vs_next_start st) Ps x)%Z.

Definition queue_ok (lo cs hi : N) (Q : list value) : Prop :=
  lo <= cs /\ sorted_from lo Q /\ Forall nzv Q /\ Forall (fun v => v_end v <= cs) Q /\ Forall (fun v => v_end v <= hi) Q.

Definition inv (W maxend lo : N) (st : vstate) (Ps : list (list value)) : Prop :=
  vs_error st = false /\ Forall2 st_rel (vs_secs st) Ps /\ Forall (ok_items (vs_next_start st)) Ps /\ bounded maxend Ps /\
  queue_ok lo (vs_next_start st) (maxend + W) (st_queue st).

(* what one call of next() may return: the end (nothing left to deliver), or the next value *)
Definition step_ok (W maxend lo : N) (sg : N -> Z) (r : option item * vstate) : Prop :=
  match r with
  | (None, _) => forall x, sg x = 0%Z
  | (Some (IE _), _) => False
  | (Some (IV v), st') =>
      lo <= v_start v /\ v_start v < v_end v /\ v_end v <= maxend + W /\ nzv v /\
      exists Ps', inv W maxend (v_end v) st' Ps' /\ forall x, sg x = (sigz [v] x + st_sig st' Ps' x)%Z
  end.

Lemma step_ok_ext W maxend lo sg sg' r : (forall x, sg x = sg' x) -> step_ok W maxend lo sg r -> step_ok W maxend lo sg' r.
Proof.
  intros He. destruct r as [[[v|c]|] st']; cbn [step_ok].
  - intros [H1 [H2 [H3 [H4 [Ps' [H5 H6]]]]]]. repeat split; auto. exists Ps'. split; [exact H5|].
    intros x. rewrite <- He. apply H6.
  - tauto.
  - intros H x. rewrite <- He. apply H.
Qed.

Lemma all_nil_ssumz Ps x : existsb nonnil Ps = false -> ssumz Ps x = 0%Z.
Proof.
  induction Ps as [|P r IH]; [reflexivity|]. cbn [existsb ssumz]. intros H. apply orb_false_iff in H.
  destruct H as [H1 H2]. destruct P; [|discriminate]. cbn [sigz]. rewrite (IH H2). reflexivity.
Qed.
Lemma some_nonnil_bound cs maxend Ps : existsb nonnil Ps = true -> Forall (ok_items cs) Ps -> bounded maxend Ps -> cs <= maxend.
Proof.
  intros H Hok Hb. apply existsb_exists in H. destruct H as [P [Hin Hn]].
  rewrite Forall_forall in Hok. unfold bounded in Hb. rewrite Forall_forall in Hb.
  specialize (Hok _ Hin). specialize (Hb _ Hin). destruct P as [|v r]; [discriminate|].
  cbn [ok_items] in Hok. inversion Hb as [|? ? Hv _]; subst. lia.
Qed.

Lemma win_loop_eq f W secs last_val next_start mdl :
  win_loop (S f) W secs last_val next_start mdl =
      let cs := next_start in
      let ns := cs + W in
      match secs_loop W cs secs (repeatN 0%Z (N.to_nat W)) mdl false with
      | WinPanic => Panic
      | WinErr c => Ok (Some (IE c), mkVS true secs None last_val ns)
      | WinOk data mdl' touched secs' =>
          if W <? mdl' then Panic
          else
            let runs := rle_go cs (firstn (N.to_nat mdl') data) None in
            match (match last_val with
                   | Some l => insert_into_queue (S (S (length runs))) runs l
                   | None => Ok runs
                   end) with
            | Ok q =>
                match split_last q with
                | None =>
                    if touched then win_loop f W secs' None ns mdl'
                    else Ok (None, mkVS false secs' None None ns)
                | Some (q', z) =>
                    match q' with
                    | a :: rest => Ok (Some (IV a), mkVS false secs' (Some rest) (Some z) ns)
                    | [] =>
                        if touched then win_loop f W secs' (Some z) ns mdl'
                        else Ok (Some (IV z), mkVS false secs' None None ns)
                    end
                end
            | Err c => Err c
            | Panic => Panic
            | Fuel => Fuel
            end
      end.
Proof. reflexivity. Qed.

Lemma win_loop_ok W maxend : 0 < W -> forall n secs Ps L lo cs mdl,
  Forall2 st_rel secs Ps -> Forall (ok_items cs) Ps -> bounded maxend Ps -> mdl <= W ->
  queue_ok lo cs (maxend + W) (opt_list L) ->
  (1 <= n)%nat -> maxend + W < cs + N.of_nat n * W ->
  exists r, win_loop n W secs L cs mdl = Ok r /\
            step_ok W maxend lo (fun x => (sigz (opt_list L) x + fut cs Ps x)%Z) r.
Proof.
  intros HW. induction n as [|n IH]; intros secs Ps L lo cs mdl HR Hok Hb Hm HQ Hn Hfuel; [exfalso; lia|].
  rewrite win_loop_eq. cbv zeta.
  destruct (window_ok W cs HW secs Ps mdl HR Hok Hm) as [data [mdl' [E [Hm' [Rs [Re [Rz Rg]]]]]]].
  rewrite E. rewrite (proj2 (N.ltb_ge W mdl')) by lia.
  set (runs := rle_go cs (firstn (N.to_nat mdl') data) None) in *.
  set (Ps' := adv_all (cs + W) Ps) in *.
  destruct HQ as [Ql [Qs [Qz [Qc Qh]]]].
  assert (Hq : match L with Some l => insert_into_queue (S (S (length runs))) runs l | None => Ok runs end
               = Ok (opt_list L ++ runs)).
  { destruct L as [l|]; [|reflexivity]. cbn [opt_list app] in *.
    cbn [sorted_from] in Qs. inversion Qc; subst. apply (iq_front _ cs); try lia. exact Rs. }
  rewrite Hq. clear Hq.
  (* facts about the queue *)
  assert (HR' : Forall2 st_rel (map canon Ps') Ps') by apply adv_all_rel.
  assert (Hok' : Forall (ok_items (cs + W)) Ps') by (eapply adv_all_ok; exact Hok).
  assert (Hb' : bounded maxend Ps') by (apply adv_all_Forall; exact Hb).
  assert (Rh : Forall (fun v => v_end v <= maxend + W) runs).
  { destruct (N.le_gt_cases cs maxend) as [Hle|Hgt].
    - eapply Forall_impl; [|exact Re]. cbn beta. intros a Ha. lia.
    - assert (Hnil : existsb nonnil Ps = false).
      { destruct (existsb nonnil Ps) eqn:Et; [|reflexivity]. pose proof (some_nonnil_bound _ _ _ Et Hok Hb). exfalso; lia. }
      assert (Hnil' : existsb nonnil Ps' = false).
      { destruct (existsb nonnil Ps') eqn:Et; [|reflexivity]. pose proof (some_nonnil_bound _ _ _ Et Hok' Hb'). exfalso; lia. }
      rewrite (sorted_nz_zero_nil cs runs Rs Rz); [constructor|].
      intros x. specialize (Rg x). unfold fut in Rg. rewrite !all_nil_ssumz in Rg by assumption.
      destruct (cs <=? x), (cs + W <=? x); lia. }
  set (q := opt_list L ++ runs) in *.
  assert (Qs' : sorted_from lo q).
  { unfold q. apply (sorted_from_app lo cs); auto. }
  assert (Qz' : Forall nzv q) by (apply Forall_app; split; assumption).
  assert (Qc' : Forall (fun v => v_end v <= cs + W) q).
  { apply Forall_app. split; [|exact Re]. eapply Forall_impl; [|exact Qc]. cbn beta. intros a Ha. lia. }
  assert (Qh' : Forall (fun v => v_end v <= maxend + W) q) by (apply Forall_app; split; assumption).
  assert (Qg : forall x, (sigz (opt_list L) x + fut cs Ps x = sigz q x + fut (cs + W) Ps' x)%Z).
  { intros x. unfold q. rewrite sigz_app, Rg. lia. }
  assert (Hrec : existsb nonnil Ps = true -> (1 <= n)%nat /\ maxend + W < cs + W + N.of_nat n * W).
  { intros Et. pose proof (some_nonnil_bound _ _ _ Et Hok Hb). split; [|lia].
    destruct n as [|n']; [exfalso; lia|lia]. }
  destruct (snoc_case q) as [Eq|[q' [z Eq]]]; rewrite Eq in *.
  - (* nothing to emit in this window *)
    cbn [split_last]. destruct (existsb nonnil Ps) eqn:Et.
    + destruct (Hrec eq_refl) as [Hn' Hf'].
      destruct (IH (map canon Ps') Ps' None lo (cs + W) mdl' HR' Hok' Hb' Hm') as [r [Er Sr]]; auto.
      { cbn [opt_list]. repeat split; try lia; constructor. }
      exists r. split; [exact Er|]. eapply step_ok_ext; [|exact Sr]. intros x. cbv beta. rewrite Qg. reflexivity.
    + eexists. split; [reflexivity|]. cbn [step_ok]. intros x.
      assert (HL : opt_list L = []) by (destruct L; [discriminate Eq|reflexivity]).
      rewrite HL. cbn [sigz]. unfold fut. rewrite all_nil_ssumz by exact Et. destruct (cs <=? x); reflexivity.
  - rewrite split_last_app. destruct q' as [|a rest].
    + (* a single value: held back while some stream is alive *)
      cbn [app] in *. destruct (existsb nonnil Ps) eqn:Et.
      * destruct (Hrec eq_refl) as [Hn' Hf'].
        destruct (IH (map canon Ps') Ps' (Some z) lo (cs + W) mdl' HR' Hok' Hb' Hm') as [r [Er Sr]]; auto.
        { cbn [opt_list]. cbn [sorted_from] in Qs' |- *. inversion Qc'; subst. repeat split; try lia; try assumption. }
        exists r. split; [exact Er|]. eapply step_ok_ext; [|exact Sr]. intros x. cbv beta. cbn [opt_list]. rewrite Qg. reflexivity.
      * eexists. split; [reflexivity|]. cbn [step_ok]. cbn [sorted_from] in Qs'.
        inversion Qz'; subst. inversion Qh'; subst. inversion Qc'; subst. repeat split; try lia; try assumption.
        exists Ps'. split.
        -- unfold inv, st_queue, st_buf. cbn [vs_error vs_secs vs_next_start vs_buf vs_last opt_list app].
           repeat split; try assumption; try lia; constructor.
        -- intros x. unfold st_sig, st_queue, st_buf. cbn [vs_next_start vs_buf vs_last opt_list app]. rewrite Qg. cbn [sigz]. lia.
    + (* several values: the first is returned, the last is held back *)
      eexists. split; [reflexivity|]. cbn [step_ok]. cbn [app] in *. cbn [sorted_from] in Qs'.
      inversion Qz'; subst. inversion Qh'; subst. inversion Qc'; subst. repeat split; try lia; try assumption.
      exists Ps'. split.
      * unfold inv, st_queue, st_buf. cbn [vs_error vs_secs vs_next_start vs_buf vs_last opt_list].
        repeat split; try assumption. tauto.
      * intros x. unfold st_sig, st_queue, st_buf. cbn [vs_next_start vs_buf vs_last opt_list]. rewrite Qg. cbn [sigz]. lia.
Qed.

(* ------------------------------------------------------------------ one call of next() *)
Lemma vi_next_ok W maxend wf : 0 < W -> (1 <= wf)%nat -> maxend + W < N.of_nat wf * W ->
  forall lo st Ps, inv W maxend lo st Ps ->
  exists r, vi_next wf W st = Ok r /\ step_ok W maxend lo (st_sig st Ps) r.
Proof.
  intros HW Hwf Hfuel lo st Ps [He [HR [Hok [Hb HQ]]]]. unfold vi_next. rewrite He.
  destruct st as [err secs buf lastv ns]. unfold st_sig, st_queue, st_buf in *.
  cbn [vs_error vs_secs vs_buf vs_last vs_next_start] in *.
  assert (Hwin : forall (HQ0 : queue_ok lo ns (maxend + W) (opt_list lastv)),
     exists r, win_loop wf W secs lastv ns 0 = Ok r /\
               step_ok W maxend lo (fun x => (sigz ([] ++ opt_list lastv) x + fut ns Ps x)%Z) r).
  { intros HQ0. apply win_loop_ok; auto; lia. }
  destruct buf as [[|v r']|].
  - apply Hwin. exact HQ.
  - eexists. split; [reflexivity|]. cbn [step_ok]. destruct HQ as [Ql [Qs [Qz [Qc Qh]]]].
    cbn [app sorted_from] in *. inversion Qz; subst. inversion Qc; subst. inversion Qh; subst.
    repeat split; try lia; try assumption. exists Ps. split.
    + unfold inv, st_queue, st_buf. cbn [vs_error vs_secs vs_next_start vs_buf vs_last].
      repeat split; try assumption. tauto.
    + intros x. unfold st_sig, st_queue, st_buf. cbn [vs_next_start vs_buf vs_last]. cbn [sigz]. lia.
  - apply Hwin. exact HQ.
Qed.

(* ------------------------------------------------------------------ the consumer *)
Lemma vi_collect_ok W maxend wf : 0 < W -> (1 <= wf)%nat -> maxend + W < N.of_nat wf * W ->
  forall n lo st Ps, inv W maxend lo st Ps -> (N.to_nat (maxend + W - lo) < n)%nat ->
  exists out, vi_collect n wf W st = Ok (map IV out) /\
              sorted_from lo out /\ Forall nzv out /\ forall x, sigz out x = st_sig st Ps x.
Proof.
  intros HW Hwf Hfuel. induction n as [|n IH]; intros lo st Ps Hinv Hn; [exfalso; lia|].
  destruct (vi_next_ok W maxend wf HW Hwf Hfuel lo st Ps Hinv) as [r [Er Sr]].
  cbn [vi_collect]. rewrite Er. destruct r as [[[v|c]|] st']; cbn [step_ok] in Sr.
  - destruct Sr as [H1 [H2 [H3 [H4 [Ps' [Hinv' Hsig]]]]]].
    destruct (IH (v_end v) st' Ps' Hinv') as [out [Eo [So [Zo Go]]]]; [lia|].
    rewrite Eo. exists (v :: out). split; [reflexivity|]. split; [|split].
    + cbn [sorted_from]. repeat split; try lia. exact So.
    + constructor; assumption.
    + intros x. rewrite Hsig. cbn [sigz]. rewrite Go. lia.
  - destruct Sr.
  - exists []. split; [reflexivity|]. split; [exact I|]. split; [constructor|]. intros x. rewrite Sr. reflexivity.
Qed.

(* ------------------------------------------------------------------ merge_sections_many *)
Lemma max_end_bound (vs : list value) : Forall (fun v => v_end v <= max_end (map IV vs)) vs.
Proof.
  induction vs as [|v r IH]; [constructor|]. cbn [map max_end item_end]. constructor; [lia|].
  eapply Forall_impl; [|exact IH]. cbn beta. intros a Ha. lia.
Qed.
Lemma max_end_all_bound (vss : list (list value)) : bounded (max_end_all (map (map IV) vss)) vss.
Proof.
  unfold bounded. induction vss as [|vs r IH]; [constructor|]. cbn [map max_end_all]. constructor.
  - eapply Forall_impl; [|apply max_end_bound]. cbn beta. intros a Ha. lia.
  - eapply Forall_impl; [|exact IH]. cbn beta. intros P HP. eapply Forall_impl; [|exact HP]. cbn beta. intros a Ha. lia.
Qed.

Lemma init_rel (vss : list (list value)) : Forall2 st_rel (map (fun s => (s, None)) (map (map IV) vss)) vss.
Proof. induction vss as [|vs r IH]; cbn [map]; constructor; [reflexivity|exact IH]. Qed.

Theorem merge_many_ok W vss : 0 < W -> Forall (sorted_from 0) vss ->
  exists out, merge_sections_many W (map (map IV) vss) = Ok (map IV out) /\
    sorted_from 0 out /\ Forall (fun v => v_val v <> 0%Z) out /\
    forall x, sig out x = nz_opt (ssum vss x).
Proof.
  intros HW Hs. unfold merge_sections_many. cbv zeta.
  set (maxend := max_end_all (map (map IV) vss)).
  set (wf := win_fuel W (map (map IV) vss)).
  assert (Hdiv : maxend < W * N.succ (maxend / W)) by (apply N.mul_succ_div_gt; lia).
  assert (Hwf : N.of_nat wf = maxend / W + 3) by (unfold wf, win_fuel; fold maxend; lia).
  assert (Hfuel : maxend + W < N.of_nat wf * W) by (rewrite Hwf; lia).
  assert (Hinv : inv W maxend 0 (vi_init (map (map IV) vss)) vss).
  { unfold inv, vi_init, st_queue, st_buf. cbn [vs_error vs_secs vs_next_start vs_buf vs_last opt_list app].
    split; [reflexivity|]. split; [apply init_rel|]. split.
    - eapply Forall_impl; [|exact Hs]. intros P HP. apply ok_items_of_sorted. exact HP.
    - split; [apply max_end_all_bound|]. repeat split; try lia; constructor. }
  destruct (vi_collect_ok W maxend wf HW ltac:(lia) Hfuel (wf * N.to_nat W + 2) 0 _ vss Hinv) as [out [Eo [So [Zo Go]]]]; [nia|].
  exists out. split; [exact Eo|]. split; [exact So|]. split; [exact Zo|].
  intros x. rewrite (sorted_nonzero_sig _ _ _ So Zo), Go. unfold st_sig, st_queue, st_buf, vi_init.
  cbn [vs_next_start vs_buf vs_last opt_list app sigz]. unfold fut. rewrite (proj2 (N.leb_le 0 x)) by lia.
  rewrite (ssum_ssumz _ _ Hs). reflexivity.
Qed.

(* non-vacuity / sanity: three streams, window size 4; values cross window boundaries, cancel, one stream is short *)
Example merge_many_example :
  let vss := [[mkV 0 3 8%Z; mkV 3 9 4%Z]; [mkV 2 6 (-8)%Z; mkV 8 13 1%Z]; [mkV 7 8 0%Z]] in
  Forall (sorted_from 0) vss /\
  merge_sections_many 4 (map (map IV) vss) =
    Ok (map IV [mkV 0 2 8%Z; mkV 3 4 (-4)%Z; mkV 4 6 (-4)%Z; mkV 6 8 4%Z; mkV 8 9 5%Z; mkV 9 12 1%Z; mkV 12 13 1%Z]).
Proof.
  cbv zeta. split; [|vm_compute; reflexivity].
  repeat constructor; cbn [v_start v_end]; lia.
Qed.
