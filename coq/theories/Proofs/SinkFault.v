(* C14: error propagation through the BufWriter model.  If any single sink operation of the
   undisturbed run is made to fail, the run does not return Ok. *)
From BT Require Import Base.Util Base.LE Model.BBIFile Model.SinkTrace.
Local Open Scope N_scope.

(* the failing operation has not been attempted yet *)
Definition clean (f : fault) (s : st) : Prop :=
  match f with Some (kd, k) => 2 < kd \/ (cnt kd s <= k)%nat | None => True end.
Definition mono (s s' : st) : Prop :=
  (s_nseek s <= s_nseek s')%nat /\ (s_nwrite s <= s_nwrite s')%nat /\ (s_nflush s <= s_nflush s')%nat.
(* the counters count the operations of the trace *)
Definition counted (s : st) : Prop :=
  s_nseek s = count_kind 0 (s_ops s) /\ s_nwrite s = count_kind 1 (s_ops s) /\ s_nflush s = count_kind 2 (s_ops s).

Lemma mono_refl s : mono s s. Proof. unfold mono; lia. Qed.
Lemma mono_trans a b c : mono a b -> mono b c -> mono a c. Proof. unfold mono; lia. Qed.
Lemma cnt_mono kd s s' : mono s s' -> (cnt kd s <= cnt kd s')%nat.
Proof. unfold mono, cnt. intros [? [? ?]]. destruct kd as [|[?|?|]]; lia. Qed.
Lemma clean_back f s s' : mono s s' -> clean f s' -> clean f s.
Proof.
  unfold clean. destruct f as [[kd k]|]; [|auto]. intros Hm [H|H]; [left; exact H|right].
  pose proof (cnt_mono kd s s' Hm). lia.
Qed.

(* what every piece of the BufWriter model satisfies *)
Definition good_at (m : fault -> M) (s : st) : Prop :=
  (forall f r s', m f s = (r, s') ->
      mono s s' /\ (clean f s -> r = Ok tt -> clean f s') /\ (clean f s' -> m None s = (r, s')))
  /\ (forall r s', m None s = (r, s') -> counted s -> counted s').
Definition good (m : fault -> M) : Prop := forall s, good_at m s.

Lemma good_ret : good (fun _ => ret).
Proof.
  intros s. split.
  - intros f r s' H. inversion H; subst. split; [apply mono_refl|]. split; auto.
  - intros r s' H Hc. inversion H; subst. exact Hc.
Qed.

Lemma good_upd (g : st -> st) :
  (forall s, s_nseek (g s) = s_nseek s /\ s_nwrite (g s) = s_nwrite s /\ s_nflush (g s) = s_nflush s /\ s_ops (g s) = s_ops s) ->
  good (fun _ => upd g).
Proof.
  intros Hg s. destruct (Hg s) as [H1 [H2 [H3 H4]]]. split.
  - intros f r s' H. unfold upd in H. inversion H; subst. split; [unfold mono; lia|]. split; [|auto].
    intros Hc _. unfold clean in *. destruct f as [[kd k]|]; [|exact I]. destruct Hc as [Hc|Hc]; [left; exact Hc|right].
    unfold cnt in *. destruct kd as [|[?|?|]]; lia.
  - intros r s' H Hc. unfold upd in H. inversion H; subst. unfold counted in *. rewrite H1, H2, H3, H4. exact Hc.
Qed.

Lemma good_buffer b : good (fun _ => buffer b).
Proof. apply good_upd. intros s. cbn. auto. Qed.

Lemma count_kind_app kd a b : count_kind kd (a ++ b) = (count_kind kd a + count_kind kd b)%nat.
Proof. unfold count_kind. now rewrite filter_app, app_length. Qed.

Lemma good_sink (opf : st -> sop) : good (fun f s => sink f (opf s) s).
Proof.
  intros s. split.
  - intros f r s' H. unfold sink in H.
    destruct (hit f (kind_of (opf s)) (cnt (kind_of (opf s)) s)) eqn:Hh; inversion H; subst; clear H.
    + (* the operation fails *)
      split; [unfold mono, bump; cbn; destruct (kind_of (opf s)) as [|[?|?|]]; lia|].
      split; [intros _ Hr; discriminate|].
      intros Hc. exfalso. unfold hit in Hh. destruct f as [[kd k]|]; [|discriminate].
      apply andb_true_iff in Hh as [H1 H2]. apply N.eqb_eq in H1. apply Nat.eqb_eq in H2. subst kd.
      unfold clean in Hc. destruct Hc as [Hc|Hc].
      * destruct (opf s); cbn [kind_of] in Hc; lia.
      * subst k. unfold cnt, bump in Hc. destruct (opf s); cbn [kind_of s_nseek s_nwrite s_nflush] in Hc; lia.
    + split; [unfold mono, emit, bump; cbn; destruct (kind_of (opf s)) as [|[?|?|]]; lia|].
      split.
      * intros Hc _. unfold clean in *. destruct f as [[kd k]|]; [|exact I].
        destruct Hc as [Hc|Hc]; [left; exact Hc|].
        destruct (N.ltb_spec 2 kd) as [Hk|Hk]; [left; exact Hk|right].
        unfold hit in Hh. apply andb_false_iff in Hh.
        destruct (opf s) eqn:Eo; cbn [kind_of] in *; unfold cnt, emit, bump in *; cbn in *;
          destruct kd as [|[[?|?|]|[?|?|]|]]; cbn in *; try lia;
          (destruct Hh as [Hh|Hh]; [discriminate|apply Nat.eqb_neq in Hh; lia]).
      * intros _. unfold sink. cbn [hit]. reflexivity.
  - intros r s' H Hc. unfold sink in H. cbn [hit] in H. inversion H; subst; clear H.
    unfold counted in *. destruct Hc as [H1 [H2 H3]]. unfold emit, bump. cbn [s_nseek s_nwrite s_nflush s_ops].
    rewrite !count_kind_app. rewrite <- H1, <- H2, <- H3.
    destruct (opf s); unfold count_kind; cbn [filter kind_of];
      repeat match goal with |- context [(?a =? ?b)] => let v := eval vm_compute in (a =? b) in change (a =? b) with v end;
      cbn [length]; repeat split; lia.
Qed.

Lemma good_bind m k : good m -> good k -> good (fun f => bindM (m f) (k f)).
Proof.
  intros Hm Hk s. split.
  - intros f r s' H. unfold bindM in H. destruct (m f s) as [r1 s1] eqn:E1.
    destruct (proj1 (Hm s) f r1 s1 E1) as [M1 [A1 B1]].
    destruct r1 as [[]| | |].
    + destruct (proj1 (Hk s1) f r s' H) as [M2 [A2 B2]].
      split; [eapply mono_trans; eauto|]. split.
      * intros Hc Hr. apply A2; [apply A1; auto|exact Hr].
      * intros Hc. unfold bindM. rewrite (B1 (clean_back f s1 s' M2 Hc)). apply B2. exact Hc.
    + inversion H; subst. split; [exact M1|]. split; [intros _ Hr; discriminate|].
      intros Hc. unfold bindM. rewrite (B1 Hc). reflexivity.
    + inversion H; subst. split; [exact M1|]. split; [intros _ Hr; discriminate|].
      intros Hc. unfold bindM. rewrite (B1 Hc). reflexivity.
    + inversion H; subst. split; [exact M1|]. split; [intros _ Hr; discriminate|].
      intros Hc. unfold bindM. rewrite (B1 Hc). reflexivity.
  - intros r s' H Hc. unfold bindM in H. destruct (m None s) as [r1 s1] eqn:E1.
    pose proof (proj2 (Hm s) r1 s1 E1 Hc) as C1.
    destruct r1 as [[]| | |]; [exact (proj2 (Hk s1) r s' H C1)| | |]; inversion H; subst; exact C1.
Qed.

(* a choice made on the state alone *)
Lemma good_if (P : st -> bool) m1 m2 : good m1 -> good m2 -> good (fun f s => if P s then m1 f s else m2 f s).
Proof. intros H1 H2 s. unfold good_at. destruct (P s); [apply H1|apply H2]. Qed.

Lemma good_sink_write b : good (fun f => sink_write f b).
Proof. exact (good_sink (fun s => SWrite (s_pos s) b)). Qed.

Lemma good_clear_buf : good (fun _ => upd (set_buf [])).
Proof. apply good_upd. intros s. cbn. auto. Qed.

Lemma good_flush_buf : good flush_buf.
Proof.
  intros s. unfold good_at, flush_buf. destruct (s_buf s) as [|x b] eqn:Eb.
  - apply (good_ret s).
  - apply (good_bind (fun f => sink_write f (x :: b)) (fun _ => upd (set_buf []))
             (good_sink_write (x :: b)) good_clear_buf s).
Qed.

Lemma good_write_all b : good (fun f => bw_write_all f b).
Proof.
  intros s. unfold good_at, bw_write_all.
  destruct (Nlen b <? CAP - Nlen (s_buf s)); [apply (good_buffer b s)|].
  apply (good_bind (fun f => if CAP - Nlen (s_buf s) <? Nlen b then flush_buf f else ret)
                   (fun f => if CAP <=? Nlen b then sink_write f b else buffer b)).
  - destruct (CAP - Nlen (s_buf s) <? Nlen b); [exact good_flush_buf|exact good_ret].
  - destruct (CAP <=? Nlen b); [exact (good_sink_write b)|exact (good_buffer b)].
Qed.

Lemma good_copy_loop : forall fuel b, good (fun f => copy_loop fuel f b).
Proof.
  induction fuel as [|fu IH]; intros b s.
  - split.
    + intros f r s' H. cbn in H. inversion H; subst. split; [apply mono_refl|]. split; [intros _ Hr; discriminate|auto].
    + intros r s' H Hc. cbn in H. inversion H; subst. exact Hc.
  - unfold good_at. cbn [copy_loop].
    destruct (CAP <=? CAP - Nlen (s_buf s)).
    + destruct b as [|x b']; [apply (good_ret s)|].
      apply (good_bind (fun _ => buffer (firstn (N.to_nat (CAP - Nlen (s_buf s))) (x :: b')))
                       (fun f => copy_loop fu f (skipn (N.to_nat (CAP - Nlen (s_buf s))) (x :: b')))
                       (good_buffer _) (IH _) s).
    + apply (good_bind flush_buf (fun f => copy_loop fu f b) good_flush_buf (IH b) s).
Qed.

Lemma good_unwrapped u m : good m -> good (fun f s => unwrapped u (m f s)).
Proof.
  intros Hm s. split.
  - intros f r s' H. destruct (m f s) as [r1 s1] eqn:E1.
    destruct (proj1 (Hm s) f r1 s1 E1) as [M1 [A1 B1]].
    assert (Hs : s' = s1) by (unfold unwrapped in H; destruct r1; [|destruct u| |]; inversion H; reflexivity).
    subst s'. split; [exact M1|]. split.
    + intros Hc Hr. apply A1; [exact Hc|]. unfold unwrapped in H. destruct r1; [|destruct u| |]; inversion H; congruence.
    + intros Hc. rewrite (B1 Hc). exact H.
  - intros r s' H Hc. destruct (m None s) as [r1 s1] eqn:E1.
    assert (Hs : s' = s1) by (unfold unwrapped in H; destruct r1; [|destruct u| |]; inversion H; reflexivity).
    subst s'. exact (proj2 (Hm s) r1 s1 E1 Hc).
Qed.

Lemma good_exec1 c : good (fun f => exec1 f c).
Proof.
  destruct c as [u b|u b|t|]; cbn [exec1].
  - exact (good_unwrapped u _ (good_write_all b)).
  - exact (good_unwrapped u _ (good_copy_loop (copy_fuel b) b)).
  - exact (good_bind flush_buf (fun f => sink_seek f t) good_flush_buf (good_sink (fun s => SSeek (target t s)))).
  - exact (good_bind flush_buf sink_flush good_flush_buf (good_sink (fun _ => SFlush))).
Qed.

Lemma good_exec cs : good (fun f => exec f cs).
Proof.
  induction cs as [|c cs IH]; cbn [exec]; [exact good_ret|].
  exact (good_bind (fun f => exec1 f c) (fun f => exec f cs) (good_exec1 c) IH).
Qed.

(* ---- a run that ends with a flush leaves nothing in the buffer when it succeeds ---- *)
Lemma exec_app f a b s : exec f (a ++ b) s = bindM (exec f a) (exec f b) s.
Proof.
  revert s. induction a as [|c a IH]; intros s; cbn [app exec].
  - reflexivity.
  - unfold bindM. destruct (exec1 f c s) as [r s1]. destruct r as [[]| | |]; try reflexivity.
    rewrite IH. unfold bindM. reflexivity.
Qed.

Lemma sink_buf f op s r s' : sink f op s = (r, s') -> s_buf s' = s_buf s.
Proof. unfold sink. destruct (hit _ _ _); intros H; inversion H; reflexivity. Qed.

Lemma flush_buf_ok_empty f s s' : flush_buf f s = (Ok tt, s') -> s_buf s' = [].
Proof.
  unfold flush_buf. destruct (s_buf s) as [|x b] eqn:Eb.
  - intros H. inversion H; subst. exact Eb.
  - unfold bindM. destruct (sink_write f (x :: b) s) as [[[]| | |] s1]; intros H; inversion H; reflexivity.
Qed.

Lemma bw_flush_ok_empty f s s' : bw_flush f s = (Ok tt, s') -> s_buf s' = [].
Proof.
  unfold bw_flush, bindM. destruct (flush_buf f s) as [[[]| | |] s1] eqn:E1; try discriminate.
  intros H. unfold sink_flush in H. rewrite (sink_buf _ _ _ _ _ H). exact (flush_buf_ok_empty f s s1 E1).
Qed.

Lemma exec_flush_last f cs s s' : exec f (cs ++ [CFlush]) s = (Ok tt, s') -> s_buf s' = [].
Proof.
  rewrite exec_app. unfold bindM. destruct (exec f cs s) as [[[]| | |] s1]; try discriminate.
  cbn [exec exec1]. unfold bindM. destruct (bw_flush f s1) as [[[]| | |] s2] eqn:E; try discriminate.
  intros H. inversion H; subst. exact (bw_flush_ok_empty f s1 s' E).
Qed.

Lemma count_kind_big kd ops : 2 < kd -> count_kind kd ops = 0%nat.
Proof.
  intros Hk. unfold count_kind. induction ops as [|op l IH]; [reflexivity|]. cbn [filter].
  replace (kind_of op =? kd) with false; [exact IH|]. symmetry. apply N.eqb_neq. destruct op; cbn [kind_of]; lia.
Qed.

Lemma counted_st0 : counted st0. Proof. repeat split. Qed.

(* ---- the theorem: every operation of the undisturbed run, made to fail, makes the run fail ---- *)
Theorem fault_not_ok (kd : N) (k : nat) (cs : list call) :
  (k < count_kind kd (snd (run None (Ok tt) (cs ++ [CFlush]))))%nat ->
  fst (run (Some (kd, k)) (Ok tt) (cs ++ [CFlush])) <> Ok tt.
Proof.
  intros Hk Hok. unfold run in *.
  set (f := Some (kd, k)) in *.
  destruct (exec f (cs ++ [CFlush]) st0) as [r s] eqn:E.
  destruct (flush_buf f s) as [r2 s2] eqn:E2. cbn [fst] in Hok.
  destruct r as [[]| | |]; try discriminate. clear Hok.
  destruct (proj1 (good_exec (cs ++ [CFlush]) st0) f (Ok tt) s E) as [_ [A B]].
  assert (Hc0 : clean f st0) by (right; unfold cnt, st0; destruct kd as [|[?|?|]]; cbn; lia).
  pose proof (A Hc0 eq_refl) as Hc.
  rewrite (B Hc) in Hk.
  pose proof (exec_flush_last f cs st0 s E) as Hb.
  assert (Hf : flush_buf None s = (Ok tt, s)) by (unfold flush_buf; rewrite Hb; reflexivity).
  rewrite Hf in Hk. cbn [snd] in Hk.
  pose proof (proj2 (good_exec (cs ++ [CFlush]) st0) (Ok tt) s (B Hc) counted_st0) as [C0 [C1 C2]].
  destruct (N.ltb_spec 2 kd) as [Hbig|Hsmall].
  - rewrite (count_kind_big kd (s_ops s) Hbig) in Hk. lia.
  - unfold clean, f in Hc. destruct Hc as [Hc|Hc]; [lia|].
    assert (Hkd : kd = 0 \/ kd = 1 \/ kd = 2) by lia.
    destruct Hkd as [->|[->| ->]]; unfold cnt in Hc; [rewrite <- C0 in Hk|rewrite <- C1 in Hk|rewrite <- C2 in Hk]; lia.
Qed.

(* without the final flush the last write is left to the drop, which discards its error *)
Lemma drop_discards : forall b,
  b <> [] -> Nlen b < CAP ->
  run (Some (1, 0%nat)) (Ok tt) [CWrite false b] = (Ok tt, []) /\ run None (Ok tt) [CWrite false b] = (Ok tt, [SWrite 0 b]).
Proof.
  intros b Hb Hl. unfold run. cbn [exec exec1]. unfold bindM, bw_write_all. cbn [st0 s_buf].
  change (Nlen []) with 0. rewrite N.sub_0_r. destruct (N.ltb_spec (Nlen b) CAP) as [_|H]; [|lia].
  unfold buffer, upd, unwrapped, ret. cbn [set_buf s_buf app].
  unfold flush_buf. cbn [s_buf set_buf]. destruct b as [|x b]; [congruence|].
  unfold bindM, sink_write, sink. cbn. split; reflexivity.
Qed.

(* a run whose status is not Ok never returns Ok, whatever fails *)
Lemma refused_status_any f status cs : status <> Ok tt -> fst (run f status cs) <> Ok tt.
Proof.
  intros Hs. unfold run. destruct (exec f cs st0) as [r s].
  destruct (flush_buf f s) as [r2 s2]. cbn [fst]. destruct r as [[]| | |]; [exact Hs| | |]; discriminate.
Qed.
