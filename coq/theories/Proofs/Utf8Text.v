(* C13: the text sources behind the real line reader (Model/Utf8.v).
   - a line that is not well-formed UTF-8 is an unparsable line: [all_ok] of the guarded lines is None;
   - on a text whose lines are all UTF-8 the guarded sources ARE the byte-level sources of Accept.v
     (so every theorem about those carries over);
   - [utf8_ok] on ASCII, and the corner cases of the well-formedness table, evaluated. *)
From BT Require Import Base.Util Base.Float Model.RTree Model.BBIFile Model.BigWigWrite Model.Accept Model.Utf8.
Local Open Scope N_scope.

Lemma utf8_ok_ascii l : forallb (fun b => b <? 128) l = true -> utf8_ok l = true.
Proof.
  induction l as [|b r IH]; [reflexivity|]. cbn [forallb utf8_ok]. intros H.
  apply andb_true_iff in H. destruct H as [Hb Hr]. rewrite Hb. exact (IH Hr).
Qed.

Section Guard.
Context {V : Type}.
Variable parse : list N -> pline V.

Lemma guard_line_ok line : utf8_ok line = true -> guard_line parse line = parse line.
Proof. intros H. unfold guard_line. now rewrite H. Qed.
Lemma guard_line_bad line : utf8_ok line = false -> snd (guard_line parse line) = PErr E_IO.
Proof. intros H. unfold guard_line. now rewrite H. Qed.
(* the guard never changes the chromosome field: the runs of lines are those of the byte model *)
Lemma guard_line_fst line : fst (guard_line parse line) = fst (parse line).
Proof. unfold guard_line. now destruct (utf8_ok line). Qed.

Lemma guard_all_utf8 ls : Forall (fun l => utf8_ok l = true) ls -> map (guard_line parse) ls = map parse ls.
Proof.
  induction 1 as [|l r Hl _ IH]; [reflexivity|]. cbn [map]. now rewrite IH, (guard_line_ok l Hl).
Qed.

Lemma guard_bad_none ls l : In l ls -> utf8_ok l = false -> all_ok (map (guard_line parse) ls) = None.
Proof.
  induction ls as [|x r IH]; [intros []|]. intros [E|Hin] Hb; cbn [map all_ok].
  - subst x. unfold guard_line. rewrite Hb. reflexivity.
  - destruct (guard_line parse x) as [c [e|v]]; [reflexivity|]. now rewrite (IH Hin Hb).
Qed.
End Guard.

Lemma bw_lines_u_utf8 fok text : Forall (fun l => utf8_ok l = true) (lines_of text) ->
  bw_lines_u fok text = bw_lines fok text.
Proof. intros H. unfold bw_lines_u, bw_lines. exact (guard_all_utf8 (bw_parse_line fok) _ H). Qed.
Lemma bb_lines_u_utf8 text : Forall (fun l => utf8_ok l = true) (lines_of text) ->
  bb_lines_u text = bb_lines text.
Proof. intros H. unfold bb_lines_u, bb_lines. exact (guard_all_utf8 bb_parse_line _ H). Qed.

Lemma bw_lines_u_bad fok text l : In l (lines_of text) -> utf8_ok l = false -> all_ok (bw_lines_u fok text) = None.
Proof. apply guard_bad_none. Qed.
Lemma bb_lines_u_bad text l : In l (lines_of text) -> utf8_ok l = false -> all_ok (bb_lines_u text) = None.
Proof. apply guard_bad_none. Qed.

Lemma bw_lines_u_nil fok text : lines_of text <> [] -> bw_lines_u fok text <> [].
Proof. intros H E. apply map_eq_nil in E. contradiction. Qed.
Lemma bb_lines_u_nil text : lines_of text <> [] -> bb_lines_u text <> [].
Proof. intros H E. apply map_eq_nil in E. contradiction. Qed.

(* ---- the table, evaluated ---- *)
Example utf8_accepts :
  utf8_ok [] = true /\
  utf8_ok [99; 104; 114; 49; 9; 48] = true /\
  utf8_ok [195; 169] = true /\                      (* U+00E9 *)
  utf8_ok [194; 128] = true /\                      (* U+0080, the first 2-byte scalar *)
  utf8_ok [223; 191] = true /\                      (* U+07FF *)
  utf8_ok [224; 160; 128] = true /\                 (* U+0800, the first 3-byte scalar *)
  utf8_ok [226; 130; 172] = true /\                 (* U+20AC *)
  utf8_ok [237; 159; 191] = true /\                 (* U+D7FF, just below the surrogates *)
  utf8_ok [238; 128; 128] = true /\                 (* U+E000, just above *)
  utf8_ok [239; 191; 191] = true /\                 (* U+FFFF *)
  utf8_ok [240; 144; 128; 128] = true /\            (* U+10000, the first 4-byte scalar *)
  utf8_ok [240; 159; 152; 128] = true /\            (* U+1F600 *)
  utf8_ok [244; 143; 191; 191; 65] = true.          (* U+10FFFF, then 'A' *)
Proof. vm_compute. repeat split. Qed.
Example utf8_refuses :
  utf8_ok [255; 254] = false /\
  utf8_ok [128] = false /\                          (* stray continuation byte *)
  utf8_ok [65; 191; 66] = false /\
  utf8_ok [192; 128] = false /\                     (* overlong NUL *)
  utf8_ok [193; 191] = false /\                     (* overlong U+007F *)
  utf8_ok [224; 159; 191] = false /\                (* overlong U+07FF *)
  utf8_ok [240; 143; 191; 191] = false /\           (* overlong U+FFFF *)
  utf8_ok [237; 160; 128] = false /\                (* U+D800 *)
  utf8_ok [237; 191; 191] = false /\                (* U+DFFF *)
  utf8_ok [244; 144; 128; 128] = false /\           (* U+110000 *)
  utf8_ok [245; 128; 128; 128] = false /\
  utf8_ok [195] = false /\                          (* truncated 2-byte sequence *)
  utf8_ok [49; 226; 130] = false /\                 (* truncated 3-byte sequence at the end *)
  utf8_ok [240; 159; 152] = false /\                (* truncated 4-byte sequence *)
  utf8_ok [195; 65] = false /\                      (* lead byte followed by ASCII *)
  utf8_ok [226; 130; 65] = false /\
  utf8_ok [300] = false.                            (* not a byte *)
Proof. vm_compute. repeat split. Qed.

(* the refused line is met in stream order: an earlier offending line wins, a later one does not *)
Example utf8_line_order :
  let fok := fun _ : list N => true in
  let o := {| o_compress := false; o_ips := 1024; o_bs := 256; o_izoom := 160; o_maxzooms := 10; o_manual := None; o_sort_all := true |} in
  let sz := [([99], 100)] in                                                     (* "c" : 100 *)
  (* c 0 5 1 / c 5 9 <FF FE> : the second line is not text *)
  bw_text_serial_u fok o sz [99;9;48;9;53;9;49;10; 99;9;53;9;57;9;255;254;10] = Err E_IO /\
  bw_text_parallel_u fok o sz [99;9;48;9;53;9;49;10; 99;9;53;9;57;9;255;254;10] = Err E_IO /\
  bw_text_serial fok o sz [99;9;48;9;53;9;49;10; 99;9;53;9;57;9;255;254;10] = Ok tt /\    (* the byte model accepted it *)
  (* BED: c 0 5 / c 5 9 x<C3> *)
  bb_text_serial_u o sz [99;9;48;9;53;10; 99;9;53;9;57;9;120;195;10] = Err E_IO /\
  bb_text_parallel_u o sz [99;9;48;9;53;10; 99;9;53;9;57;9;120;195;10] = Err E_IO /\
  (* c 0 5 1 / c 3 9 1 (overlap) / c 9 9 <FF>: the serial source reads one line ahead: the held value
     (line 1) is checked against line 2 before line 3 is read: class 32 *)
  bw_text_serial_u fok o sz [99;9;48;9;53;9;49;10; 99;9;51;9;57;9;49;10; 99;9;57;9;57;9;255;10] = Err E_OVERLAP /\
  (* c 0 5 1 / c 3 <FF> 1: the parse error of the line read ahead comes before the check of the held value *)
  bw_text_serial_u fok o sz [99;9;48;9;53;9;49;10; 99;9;51;9;255;9;49;10] = Err E_IO.
Proof. vm_compute. repeat split. Qed.
