(* C08 at file level, part 4: one zoom level on a byte image.
   An image that holds the encoded sections of a level contiguously at the directory entry's data
   offset and the index write_index lays out for them at its index offset answers every zoom query
   through the reader ([zoom_interval]: directory lookup, index root, pointer-chasing search, block
   reads, record decode, record filter) with exactly the level's records that pass the reader's test,
   in stored order, each statistic as its stored f32.  Built from C05 (search on the index bytes = scan
   of the placed sections, via C07's [zoom_query_complete]), the record codec (C08FileCodec) and the
   list-level argument (a section whose span misses the range holds no record the filter keeps).
   The level without any record (every entry zero-length) is the one-leaf empty index. *)
From Coq Require Import Sorting.Sorted.
From BT Require Import Base.Util Base.LE Base.Float Generated.Consts Model.RTree Model.BBIFile Model.BigWigWrite Model.BBIRead
  Proofs.RTreeAbs Proofs.RTreeBuild Proofs.RTreeCodec Proofs.RTreeLayout Proofs.ZoomQuery Proofs.ZoomSorted
  Proofs.BedAssemble Proofs.C08FileCodec Proofs.C08FileLayout.
Local Open Scope N_scope.

Lemma write_index_header b ips pos secs ix lv : write_index b ips pos secs = Ok (ix, lv) ->
  exists sp body, ix = index_header b ips (Nlen secs) sp pos ++ body.
Proof.
  unfold write_index. intros H. destruct (build (N.to_nat b) secs) as [[t l]| | |]; cbn [rbind] in H; try discriminate.
  unfold rtree_bytes in H. destruct (write_levels b t l l (pos + 48)) as [body| | |]; cbn [rbind] in H; try discriminate.
  injection H as <- <-. exists (span_of t), body. reflexivity.
Qed.

Lemma cir_root_written img b ips n sp pos body : has_at img pos (index_header b ips n sp pos ++ body) ->
  cir_tree_root false img pos = Ok (pos + 48).
Proof.
  intros H. apply has_at_app in H as [H _]. unfold cir_tree_root.
  rewrite (has_at_slice_w _ _ _ 48 H) by (now rewrite index_header_length). cbn [rdo rbind].
  unfold index_header.
  assert (E : firstn 4 (u32 CIR_TREE_MAGIC ++ u32 b ++ u64 n ++ u32 (sc sp) ++ u32 (sb sp) ++ u32 (ec sp) ++ u32 (eb sp) ++ u64 pos ++ u32 ips ++ u32 0)
              = u32 CIR_TREE_MAGIC) by reflexivity.
  rewrite E. replace (dec false (u32 CIR_TREE_MAGIC) =? CIR_TREE_MAGIC) with true by (vm_compute; reflexivity). reflexivity.
Qed.

(* the index of a level without sections: header + one empty leaf; the search finds nothing *)
Lemma write_index_empty b ips pos ix lv : write_index b ips pos [] = Ok (ix, lv) ->
  exists sp, ix = index_header b ips 0 sp pos ++ [1; 0; 0; 0].
Proof.
  unfold write_index. destruct (N.to_nat b) as [|k] eqn:Eb; [cbn; discriminate|].
  change (build (S k) []) with (Ok (Leaf [], 0%nat) : res (tree * nat)). cbn [rbind].
  unfold rtree_bytes. cbn [write_levels Nat.ltb Nat.leb write_tree Nat.eqb negb rbind]. intros H. injection H as <- <-.
  exists (span_of (Leaf [])). reflexivity.
Qed.
Lemma search_empty_leaf img root q s e fuel : has_at img root [1; 0; 0; 0] -> (2 <= fuel)%nat ->
  search_bytes fuel false img root q s e = Ok [].
Proof.
  intros H Hf. destruct fuel as [|[|f]]; try lia. unfold search_bytes. cbn [search_loop]. unfold read_node.
  rewrite (has_at_slice_w _ _ _ 4 H) by reflexivity.
  change (nth 0 [1; 0; 0; 0] 0) with 1. change (negb ((1 =? 0) || (1 =? 1))) with false. cbv iota.
  change (N.to_nat (dec false (skipn 2 [1; 0; 0; 0]))) with 0%nat. change (1 =? 1) with true. cbv iota.
  change (0 * 32)%nat with 0%nat. unfold slice. cbn [firstn length Nat.eqb parse_leaf_items filter map rbind app]. reflexivity.
Qed.

Lemma place_bounds' : forall data off s, In s (place off data) ->
  off <= s_off s /\ s_off s + s_size s <= off + Nlen (data_bytes data).
Proof.
  induction data as [|d data IH]; intros off s Hin; [destruct Hin|].
  cbn [place] in Hin. unfold data_bytes. cbn [flat_map]. fold (data_bytes data). rewrite Nlen_app'.
  destruct Hin as [<-|Hin]; cbn [s_off s_size]; [lia|]. apply IH in Hin. lia.
Qed.

(* span fields of the placed sections come from records of the sections *)
Lemma placed_fields fp : forall rsecs sds pos sct, mapM (encode_zoom_section fp) rsecs = Ok sds -> In sct (place pos sds) ->
  exists sec f, In sec rsecs /\ In f sec /\ In (last sec f) sec /\
    s_chrom sct = z_chrom f /\ s_start sct = z_start f /\ s_end sct = z_end (last sec f).
Proof.
  induction rsecs as [|sec rsecs IH]; intros sds pos sct H Hin; cbn [mapM] in H.
  - injection H as <-. destruct Hin.
  - destruct (encode_zoom_section fp sec) as [sd| | |] eqn:E; try discriminate. cbn [rbind] in H.
    destruct (mapM (encode_zoom_section fp) rsecs) as [sds'| | |] eqn:E2; try discriminate.
    cbn [rbind] in H. injection H as <-. cbn [place] in Hin. destruct Hin as [<-|Hin].
    + unfold encode_zoom_section in E. destruct sec as [|f r]; [discriminate|]. injection E as <-.
      exists (f :: r), f. cbn [s_chrom s_start s_end sd_chrom sd_start sd_end].
      split; [now left|]. split; [now left|]. split; [|auto].
      destruct (exists_last (l := f :: r) ltac:(discriminate)) as [l' [a Ea]]. rewrite Ea. rewrite last_last.
      apply in_or_app. right. now left.
    + destruct (IH _ _ _ eq_refl Hin) as [sec' [f [H1 H2]]]. exists sec', f. split; [now right|exact H2].
Qed.

Section Level.
Variable infl : list N -> list N.
Variable i : info.
Hypothesis Hbig : h_big (i_hdr i) = false.
Hypothesis Hubuf : h_ubuf (i_hdr i) = 0.

Theorem zoom_level_on_image fp img b ips (rsecs : list (list zrec)) sds h ix lv A B c q s e r :
  find (fun z => zh_res z =? r) (i_zooms i) = Some h -> chrom_id i c = Ok q ->
  2 <= b <= 65535 ->
  mapM (encode_zoom_section fp) rsecs = Ok sds ->
  Forall sec_ok rsecs -> StronglySorted rec_le (concat rsecs) -> Forall rec_u32 (concat rsecs) ->
  zh_index h = zh_data h + Nlen (data_bytes sds) ->
  write_index b ips (zh_index h) (place (zh_data h) sds) = Ok (ix, lv) ->
  img = A ++ data_bytes sds ++ ix ++ B -> Nlen A = zh_data h -> Nlen img <= U64 ->
  zoom_interval infl img i c s e r = Ok (map (zrec_read fp) (filter (zkeep q s e) (concat rsecs))).
Proof.
  intros Hfind Hcid Hb Henc Hok Hsorted Hu32 Hidx Hwi Himg HA Hlen.
  unfold zoom_interval. rewrite Hfind, Hbig.
  destruct (write_index_header _ _ _ _ _ _ Hwi) as [sp [body Hix]].
  set (pre := A ++ data_bytes sds).
  assert (Hpre : Nlen pre = zh_index h) by (unfold pre; rewrite Nlen_app'; lia).
  assert (Himg' : img = pre ++ ix ++ B) by (unfold pre; rewrite Himg; now rewrite <- app_assoc).
  assert (Hat_ix : has_at img (zh_index h) ix) by (rewrite Himg', <- Hpre; apply has_at_mid).
  assert (Hroot : cir_tree_root false img (zh_index h) = Ok (zh_index h + 48)).
  { rewrite Hix in Hat_ix. eapply cir_root_written. exact Hat_ix. }
  rewrite Hroot. cbn [rbind]. rewrite Hcid. cbn [rbind].
  assert (Hat_data : has_at img (zh_data h) (data_bytes sds)).
  { rewrite Himg, <- HA. apply has_at_mid. }
  assert (Hixlen : 48 <= Nlen ix).
  { rewrite Hix, Nlen_app'. unfold Nlen at 1. rewrite index_header_length. lia. }
  assert (Himglen : Nlen img = Nlen A + Nlen (data_bytes sds) + Nlen ix + Nlen B) by (rewrite Himg, !Nlen_app'; lia).
  unfold search_blocks. rewrite Hbig.
  destruct rsecs as [|sec0 rsecs'] eqn:Ers.
  - (* a level without records *)
    cbn [mapM] in Henc. injection Henc as <-. cbn [place] in Hwi.
    destruct (write_index_empty _ _ _ _ _ Hwi) as [sp' Hix'].
    assert (Hleaf : has_at img (zh_index h + 48) [1; 0; 0; 0]).
    { rewrite Hix' in Hat_ix. apply has_at_app in Hat_ix as [_ H2]. unfold Nlen in H2. rewrite index_header_length in H2. exact H2. }
    rewrite (search_empty_leaf img _ q s e (S (length img)) Hleaf).
    + reflexivity.
    + pose proof (has_at_length _ _ _ Hleaf) as Hl. cbn [length] in Hl. lia.
  - assert (Hrne : rsecs <> []) by (rewrite Ers; discriminate). rewrite <- Ers in *. clear Ers.
    set (secs := place (zh_data h) sds) in *.
    assert (Hl : length rsecs = length secs).
    { eapply f2_length. apply (zoom_index_test fp q s e rsecs sds (zh_data h) Henc). }
    assert (Hsne : secs <> []).
    { intros E. rewrite E in Hl. destruct rsecs; [congruence|discriminate]. }
    assert (Hsok : Forall sect_ok secs).
    { apply Forall_forall. intros sct Hs. destruct (place_bounds' _ _ _ Hs) as [B1 B2].
      destruct (placed_fields fp _ _ _ _ Henc Hs) as [sec [f [Hsec [Hf [Hlst [F1 [F2 F3]]]]]]].
      rewrite Forall_forall in Hu32.
      assert (Hf32 : rec_u32 f) by (apply Hu32; apply in_concat; exists sec; auto).
      assert (Hl32 : rec_u32 (last sec f)) by (apply Hu32; apply in_concat; exists sec; auto).
      destruct Hf32 as (G1 & G2 & _). destruct Hl32 as (_ & _ & G3 & _).
      unfold sect_ok. rewrite F1, F2, F3. unfold U64 in *. repeat split; try assumption; lia. }
    destruct (zoom_query_complete fp b ips (zh_data h) (zh_index h) rsecs sds Hok Henc Hb Hsne
                (sections_sorted fp rsecs sds (zh_data h) Hsorted Henc) Hsok) as [ix' [lv' [Hwi' Hsearch]]].
    fold secs in Hwi'. rewrite Hwi in Hwi'. injection Hwi' as <- <-.
    assert (Hfit : zh_index h + Nlen ix <= U64) by lia.
    destruct (Hsearch Hfit pre B q s e (S (length img)) Hpre) as [Hs1 [Hs2 _]].
    { rewrite Himg', !app_length. lia. }
    rewrite <- Himg' in Hs1. rewrite Hs1. cbn [rbind].
    set (hit := filter (fun p => zsec_hit q s e (fst p)) (combine rsecs secs)) in *.
    pose proof (placed_sections fp img rsecs sds (zh_data h) Henc Hat_data) as Hplaced. fold secs in Hplaced.
    fold secs. fold hit. rewrite (collect_zoom_blocks infl i Hbig Hubuf fp img q s e hit).
    + fold secs in Hs2. fold hit in Hs2. rewrite Hs2. reflexivity.
    + apply Forall_forall. intros p Hp. unfold hit in Hp. apply filter_In in Hp as [Hp _].
      rewrite Forall_forall in Hplaced. exact (Hplaced p Hp).
    + apply Forall_forall. intros p Hp. unfold hit in Hp. apply filter_In in Hp as [Hp _].
      destruct p as [p1 p2]. apply in_combine_l in Hp. cbn [fst]. apply Forall_forall. intros z Hz. rewrite Forall_forall in Hu32. apply Hu32.
      apply in_concat. exists p1. auto.
Qed.
End Level.
