(* C10: the recursive chromosome-tree walk (read_chrom_tree_block) on ANY node store: every node
   the walk reaches holds its bytes at the offset its key stands for; the walk resolves within
   depth h.  Then it returns the leaves' (name, id, size) in walk order, whatever the number of
   levels, the fan-out, the placement of the nodes, the byte order, the key width. *)
From BT Require Import Base.Util Base.LE Base.Float Generated.Consts Model.RTree Model.BBIFile Model.BigWigWrite
  Model.BBIRead Proofs.RTreeCodec Proofs.C10Codec Proofs.C10Search Proofs.C10Sections Spec.FormatEmit.
Local Open Scope N_scope.

(* ---------- names and zero padding ---------- *)
Lemma drop_zeros_repeat n l : drop_zeros (repeatN 0 n ++ l) = drop_zeros l.
Proof. induction n as [|n IH]; [reflexivity|]. cbn [repeatN app drop_zeros]. exact IH. Qed.
Lemma drop_zeros_nz l : forallb (fun x => 0 <? x) l = true -> drop_zeros l = l.
Proof.
  destruct l as [|x l]; [reflexivity|]. cbn [forallb]. intros H. apply andb_true_iff in H as [H _].
  apply N.ltb_lt in H. destruct x; [lia|reflexivity].
Qed.
Lemma rev_repeatN {X} (x : X) n : rev (repeatN x n) = repeatN x n.
Proof.
  induction n as [|n IH]; [reflexivity|]. cbn [repeatN rev]. rewrite IH.
  clear IH. induction n as [|n IH]; [reflexivity|]. cbn [repeatN app]. now rewrite IH.
Qed.
Lemma forallb_rev {X} (p : X -> bool) l : forallb p (rev l) = forallb p l.
Proof.
  induction l as [|a l IH]; [reflexivity|]. cbn [rev forallb]. rewrite forallb_app, IH. cbn [forallb].
  rewrite andb_true_r. apply andb_comm.
Qed.
Lemma drop_zeros_head l r : forallb (fun x => 0 <? x) l = true -> drop_zeros (l ++ r) = l ++ r \/ l = [].
Proof.
  destruct l as [|x l]; [now right|left]. cbn [forallb] in H. apply andb_true_iff in H as [H _].
  apply N.ltb_lt in H. cbn [app drop_zeros]. destruct x; [lia|reflexivity].
Qed.
Lemma trim_padded nm n : forallb (fun x => 0 <? x) nm = true -> trim_zeros (nm ++ repeatN 0 n) = nm.
Proof.
  intros H. unfold trim_zeros.
  destruct (drop_zeros_head nm (repeatN 0 n) H) as [E| ->].
  - rewrite E, rev_app_distr, rev_repeatN, drop_zeros_repeat.
    assert (Hr : forallb (fun x => 0 <? x) (rev nm) = true) by now rewrite forallb_rev.
    destruct (drop_zeros_head (rev nm) [] Hr) as [E2|E2].
    + rewrite app_nil_r in E2. rewrite E2. apply rev_involutive.
    + rewrite E2. cbn. rewrite <- (rev_involutive nm), E2. reflexivity.
  - cbn [app]. rewrite <- (app_nil_r (repeatN 0 n)), drop_zeros_repeat. reflexivity.
Qed.
Lemma firstn_app_repeat {X} (z : X) : forall (l : list X) k m1 m2, (k <= length l + m1)%nat -> (k <= length l + m2)%nat ->
  firstn k (l ++ repeatN z m1) = firstn k (l ++ repeatN z m2).
Proof.
  induction l as [|a l IH]; intros k m1 m2 H1 H2.
  - cbn [app length] in *. revert m1 m2 H1 H2. induction k as [|k IHk]; intros; [reflexivity|].
    destruct m1; [lia|]. destruct m2; [lia|]. cbn [repeatN firstn]. f_equal. apply IHk; lia.
  - destruct k as [|k]; [reflexivity|]. cbn [app firstn length] in *. f_equal. apply IH; lia.
Qed.
Lemma firstn_pad {X} (l : list X) z k : (length l <= k)%nat ->
  firstn k (l ++ repeatN z k) = l ++ repeatN z (k - length l).
Proof.
  intros H. rewrite (firstn_app_repeat z l k k (k - length l)) by lia.
  replace k with (length (l ++ repeatN z (k - length l))) at 1 by (rewrite app_length, repeatN_length; lia).
  apply firstn_exact'.
Qed.

Section ChromTree.
Context {K : Type}.
Inductive cgnode := CGLeaf (items : list chrom_info) | CGInner (kids : list (name * K)).
Variable get : K -> option cgnode.
Variable off : K -> N.
Variables (big : bool) (bs : list N) (key : nat).

Definition padk (nm : name) : list N := firstn key (nm ++ repeatN 0 key).
Definition cg_bytes (g : cgnode) : list N :=
  match g with
  | CGLeaf items =>
      [1; 0] ++ enc big 2 (Nlen items)
      ++ flat_map (fun c => padk (ci_name c) ++ enc_flds big [(4%nat, ci_id c); (4%nat, ci_len c)]) items
  | CGInner kids =>
      [0; 0] ++ enc big 2 (Nlen kids) ++ flat_map (fun kc => padk (fst kc) ++ enc big 8 (off (snd kc))) kids
  end.
Definition cinfo_ok (c : chrom_info) : Prop :=
  (length (ci_name c) <= key)%nat /\ forallb (fun x => 0 <? x) (ci_name c) = true /\ ci_id c < 4294967296 /\ ci_len c < 4294967296.
Definition cg_ok (g : cgnode) : Prop :=
  match g with
  | CGLeaf items => Nlen items < 65536 /\ Forall cinfo_ok items
  | CGInner kids => Nlen kids < 65536 /\ Forall (fun kc => off (snd kc) < 18446744073709551616) kids
  end.
Hypothesis Hat : forall k g, get k = Some g -> has_at bs (off k) (cg_bytes g) /\ cg_ok g.

Fixpoint cleaves (h : nat) (k : K) : option (list chrom_info) :=
  match h with
  | O => None
  | S h' =>
      match get k with
      | None => None
      | Some (CGLeaf l) => Some l
      | Some (CGInner kids) => ocat (map (fun kc => cleaves h' (snd kc)) kids)
      end
  end.

Lemma padk_length nm : length (padk nm) = key.
Proof. unfold padk. rewrite firstn_length, app_length, repeatN_length. lia. Qed.

Lemma parse_leaf_ok items rest : Forall cinfo_ok items ->
  parse_chrom_leaf big key (length items)
    (flat_map (fun c => padk (ci_name c) ++ enc_flds big [(4%nat, ci_id c); (4%nat, ci_len c)]) items ++ rest) = items.
Proof.
  induction 1 as [|c items (H1 & H2 & H3 & H4) _ IH]; [reflexivity|].
  cbn [length flat_map parse_chrom_leaf]. rewrite <- !app_assoc.
  rewrite (firstn_app_exact key (padk (ci_name c))) by apply padk_length.
  rewrite (skipn_app_exact key (padk (ci_name c))) by apply padk_length.
  rewrite (skipn_add key 4). rewrite (skipn_add key 8).
  rewrite (skipn_app_exact key (padk (ci_name c))) by apply padk_length.
  flds ltac:(apply fits4; lia).
  rewrite skipn_flds by reflexivity. rewrite IH.
  unfold padk. rewrite firstn_pad by exact H1. rewrite trim_padded by exact H2. destruct c; reflexivity.
Qed.
Lemma parse_children_ok (kids : list (name * K)) rest : Forall (fun kc => off (snd kc) < 18446744073709551616) kids ->
  parse_chrom_children big key (length kids)
    (flat_map (fun kc => padk (fst kc) ++ enc big 8 (off (snd kc))) kids ++ rest) = map (fun kc => off (snd kc)) kids.
Proof.
  induction 1 as [|kc kids H _ IH]; [reflexivity|].
  cbn [length flat_map parse_chrom_children map]. rewrite <- !app_assoc.
  rewrite (skipn_app_exact key (padk (fst kc))) by apply padk_length.
  rewrite (skipn_add key 8). rewrite (skipn_app_exact key (padk (fst kc))) by apply padk_length.
  rewrite (firstn_app_exact 8) by apply enc_length. rewrite (skipn_app_exact 8) by apply enc_length.
  rewrite dec_enc by exact H. now rewrite IH.
Qed.

Lemma node_head isleaf n items_bytes o : n < 65536 -> has_at bs o ([isleaf; 0] ++ enc big 2 n ++ items_bytes) ->
  slice bs o 4 = Some ([isleaf; 0] ++ enc big 2 n) /\ slice bs (o + 4) (length items_bytes) = Some items_bytes.
Proof.
  intros Hn H. rewrite app_assoc in H. apply has_at_app in H as [H1 H2]. split.
  - apply has_at_slice_n; [exact H1|]. rewrite app_length, enc_length. reflexivity.
  - replace 4 with (Nlen ([isleaf; 0] ++ enc big 2 n)).
    + now apply has_at_slice.
    + unfold Nlen. rewrite app_length, enc_length. reflexivity.
Qed.

Theorem chrom_walk : forall h k l, cleaves h k = Some l ->
  forall fuel, (h <= fuel)%nat -> read_chrom_block fuel big bs key (off k) = Ok l.
Proof.
  induction h as [|h IH]; intros k l Hl fuel Hf; [discriminate|].
  destruct fuel as [|fuel]; [exfalso; lia|]. cbn [cleaves] in Hl.
  destruct (get k) as [[items|kids]|] eqn:G; [| |discriminate]; destruct (Hat k _ G) as [Hh Hok]; cbn [cg_bytes cg_ok] in Hh, Hok.
  - injection Hl as <-. destruct Hok as [Hn Hitems].
    apply node_head in Hh as [H1 H2]; [|exact Hn].
    cbn [read_chrom_block]. rewrite H1. cbn [rdo rbind app nth skipn]. rewrite dec_enc by exact Hn.
    unfold Nlen. rewrite Nat2N.id.
    rewrite (flat_map_length_const _ (key + 8)%nat) in H2.
    2:{ intros c. rewrite app_length, padk_length, enc_flds_length. reflexivity. }
    rewrite Nat.mul_comm in H2. rewrite H2. cbn [rdo rbind]. change (1 =? 1) with true. cbv iota.
    rewrite <- (app_nil_r (flat_map _ items)). now rewrite parse_leaf_ok.
  - destruct Hok as [Hn Hkids].
    apply node_head in Hh as [H1 H2]; [|exact Hn].
    cbn [read_chrom_block]. rewrite H1. cbn [rdo rbind app nth skipn]. rewrite dec_enc by exact Hn.
    unfold Nlen. rewrite Nat2N.id.
    rewrite (flat_map_length_const _ (key + 8)%nat) in H2.
    2:{ intros c. rewrite app_length, padk_length, enc_length. reflexivity. }
    rewrite Nat.mul_comm in H2. rewrite H2. cbn [rdo rbind]. change (0 =? 1) with false. cbv iota.
    rewrite <- (app_nil_r (flat_map _ kids)). rewrite parse_children_ok by exact Hkids.
    clear H1 H2 G Hn Hkids. revert l Hl. induction kids as [|kc kids IHk]; intros l Hl.
    + cbn in Hl. injection Hl as <-. reflexivity.
    + cbn [map] in Hl. apply ocat_cons_inv in Hl as (la & lr & Ha & Hr & ->). cbn [map].
      rewrite (IH (snd kc) la Ha fuel) by lia. cbn [rbind]. rewrite (IHk lr Hr). reflexivity.
Qed.
End ChromTree.
Arguments cgnode K : clear implicits.
