(* C16: the UCSC flag rewriting (compat_arg_mut over the generated table).  Finite sweeps over
   Generated/Consts.v: recompiled whenever cli.rs changes. *)
From BT Require Import Base.Util Generated.Consts Model.BBIFile Model.BigWigWrite Model.BBIRead Model.CliText.
Local Open Scope N_scope.

Definition all_keys : list (list N) := map fst COMPAT_REPLACE ++ COMPAT_IGNORE ++ COMPAT_UNIMPLEMENTED.

(* when no key of the three tables is a prefix of the argument, it is left alone *)
Lemma compat_arg_no_key a : forallb (fun k => negb (is_prefix k a)) all_keys = true -> compat_arg a = Ok a.
Proof.
  intros H. unfold all_keys in H. rewrite !forallb_app in H.
  apply andb_true_iff in H as [H1 H]. apply andb_true_iff in H as [H2 H3].
  unfold compat_arg.
  assert (F : find (fun kv => is_prefix (fst kv) a) COMPAT_REPLACE = None).
  { clear H2 H3. induction COMPAT_REPLACE as [|kv r IH]; [reflexivity|].
    cbn [map forallb] in H1. apply andb_true_iff in H1 as [Hk Hr]. cbn [find].
    apply negb_true_iff in Hk. rewrite Hk. apply IH. exact Hr. }
  rewrite F.
  assert (G : forall ks, forallb (fun k => negb (is_prefix k a)) ks = true -> existsb (fun k => is_prefix k a) ks = false).
  { induction ks as [|k r IH]; intros Hks; [reflexivity|].
    cbn [forallb] in Hks. apply andb_true_iff in Hks as [Hk Hr]. cbn [existsb].
    apply negb_true_iff in Hk. rewrite Hk. apply IH. exact Hr. }
  rewrite (G _ H2), (G _ H3). reflexivity.
Qed.

(* a key-shape test [shape] that every key passes and that excludes the argument *)
Lemma no_key_by_shape (shape : list N -> bool) a :
  forallb shape all_keys = true -> (forall k, shape k = true -> is_prefix k a = false) ->
  forallb (fun k => negb (is_prefix k a)) all_keys = true.
Proof.
  intros Hs Hk. induction all_keys as [|k r IH]; [reflexivity|].
  cbn [forallb] in *. apply andb_true_iff in Hs as [H1 H2]. rewrite (Hk k H1). cbn [negb andb]. apply IH. exact H2.
Qed.

(* every key starts with '-' followed by a character that is neither '-' nor a digit, and has a third character
   that is not a digit *)
Definition key_shape (k : list N) : bool :=
  match k with
  | k0 :: x :: y :: _ => (k0 =? 45) && negb (x =? 45) && negb (is_digit x) && negb (is_digit y)
  | _ => false
  end.
Lemma keys_shape : forallb key_shape all_keys = true.
Proof. vm_compute. reflexivity. Qed.
Lemma key_shape_inv k : key_shape k = true ->
  exists x y r, k = 45 :: x :: y :: r /\ (x =? 45) = false /\ is_digit x = false /\ is_digit y = false.
Proof.
  destruct k as [|k0 [|x [|y r]]]; try discriminate. cbn [key_shape]. intros H.
  apply andb_true_iff in H as [H Hy]. apply andb_true_iff in H as [H Hx]. apply andb_true_iff in H as [H0 Hx45].
  apply N.eqb_eq in H0. subst. apply negb_true_iff in Hy, Hx, Hx45. exists x, y, r. auto.
Qed.

(* --long flags, with or without =value: unchanged *)
Theorem compat_long_fixed t : compat_arg (45 :: 45 :: t) = Ok (45 :: 45 :: t).
Proof.
  apply compat_arg_no_key. apply (no_key_by_shape key_shape); [exact keys_shape|].
  intros k Hk. destruct (key_shape_inv k Hk) as (x & y & r & -> & Hx & _ & _).
  cbn [is_prefix]. rewrite N.eqb_refl, Hx. reflexivity.
Qed.

(* anything that does not start with '-' (values, numbers, paths) and the empty argument: unchanged *)
Theorem compat_nondash_fixed c t : c <> 45 -> compat_arg (c :: t) = Ok (c :: t).
Proof.
  intros Hc. apply compat_arg_no_key. apply (no_key_by_shape key_shape); [exact keys_shape|].
  intros k Hk. destruct (key_shape_inv k Hk) as (x & y & r & -> & _).
  cbn [is_prefix]. replace (45 =? c) with false by (symmetry; apply N.eqb_neq; congruence). reflexivity.
Qed.
Theorem compat_empty_fixed : compat_arg [] = Ok [].
Proof. vm_compute. reflexivity. Qed.
(* "-" (stdin) and a short flag with a number attached (-t4, -z10) *)
Theorem compat_dash_fixed : compat_arg [45] = Ok [45].
Proof. vm_compute. reflexivity. Qed.
Theorem compat_short_number_fixed x d t : is_digit d = true -> compat_arg (45 :: x :: d :: t) = Ok (45 :: x :: d :: t).
Proof.
  intros Hd. apply compat_arg_no_key. apply (no_key_by_shape key_shape); [exact keys_shape|].
  intros k Hk. destruct (key_shape_inv k Hk) as (kx & ky & r & -> & _ & _ & Hy).
  cbn [is_prefix]. destruct (ky =? d) eqn:E.
  - apply N.eqb_eq in E. subst. congruence.
  - rewrite !andb_false_r. reflexivity.
Qed.

(* every native flag the translator found in the clap structs, as its own argument: unchanged *)
Definition res_bytes_eqb (r : res (list N)) (x : list N) : bool :=
  match r with Ok y => bytes_eqb y x | _ => false end.
Lemma native_flags_sweep :
  forallb (fun f => res_bytes_eqb (compat_arg f) f) (NATIVE_LONG_FLAGS ++ NATIVE_SHORT_FLAGS) = true.
Proof. vm_compute. reflexivity. Qed.

Lemma name_cmp_eq : forall a b, name_cmp a b = Eq -> a = b.
Proof.
  induction a as [|x a IH]; intros [|y b] H; try discriminate H; [reflexivity|].
  cbn [name_cmp] in H. destruct (x ?= y) eqn:E; try discriminate H.
  apply N.compare_eq in E. subst. f_equal. apply IH. exact H.
Qed.
Lemma bytes_eqb_eq a b : bytes_eqb a b = true -> a = b.
Proof.
  unfold bytes_eqb, name_eqb. destruct (name_cmp a b) eqn:E; try discriminate. intros _. now apply name_cmp_eq.
Qed.

Theorem compat_native_flags_fixed f : In f (NATIVE_LONG_FLAGS ++ NATIVE_SHORT_FLAGS) -> compat_arg f = Ok f.
Proof.
  intros Hin. pose proof native_flags_sweep as H. rewrite forallb_forall in H. specialize (H f Hin).
  unfold res_bytes_eqb in H. destruct (compat_arg f) as [y| | |]; try discriminate H.
  apply bytes_eqb_eq in H. now subst.
Qed.

(* ---- the UCSC spellings the property names (written out by hand; '=' not included, so both `-chrom=x` and
   `-blockSize 50` are covered): each rewrites to the native flag, whatever follows it ---- *)
Definition s_unc := [45;117;110;99].                                   (* -unc *)
Definition s_uncompressed := [45;45;117;110;99;111;109;112;114;101;115;115;101;100].
Definition s_blockSize := [45;98;108;111;99;107;83;105;122;101].       (* -blockSize *)
Definition s_block_size := [45;45;98;108;111;99;107;45;115;105;122;101].
Definition s_itemsPerSlot := [45;105;116;101;109;115;80;101;114;83;108;111;116].
Definition s_items_per_slot := [45;45;105;116;101;109;115;45;112;101;114;45;115;108;111;116].
Definition s_chrom := [45;99;104;114;111;109].                         (* -chrom *)
Definition s_chrom_n := [45;45;99;104;114;111;109].
Definition s_start := [45;115;116;97;114;116].
Definition s_start_n := [45;45;115;116;97;114;116].
Definition s_end := [45;101;110;100].
Definition s_end_n := [45;45;101;110;100].
Definition s_as := [45;97;115].
Definition s_autosql := [45;45;97;117;116;111;115;113;108].
Definition s_zooms := [45;122;111;111;109;115].
Definition s_zooms_n := [45;45;122;111;111;109;115].
Definition ucsc_named : list (list N * list N) :=
  [ (s_unc, s_uncompressed); (s_blockSize, s_block_size); (s_itemsPerSlot, s_items_per_slot); (s_chrom, s_chrom_n);
    (s_start, s_start_n); (s_end, s_end_n); (s_as, s_autosql); (s_zooms, s_zooms_n) ].

Theorem compat_ucsc : forall u n, In (u, n) ucsc_named -> forall v, compat_arg (u ++ v) = Ok (n ++ v).
Proof.
  intros u n Hin v. cbn [ucsc_named In] in Hin.
  repeat (destruct Hin as [Hin|Hin]; [injection Hin as <- <-; vm_compute; reflexivity|]). destruct Hin.
Qed.

(* the flags UCSC tools accept and bigtools has no use for are dropped from the argument list *)
Definition fixed_arg (a : list N) : Prop := compat_arg a = Ok a /\ a <> [].
Lemma mapM_app {X Y} (f : X -> res Y) a b :
  mapM f (a ++ b) = (do x <- mapM f a; do y <- mapM f b; Ok (x ++ y)).
Proof.
  induction a as [|h a IH]; cbn [app mapM rbind].
  - destruct (mapM f b); reflexivity.
  - destruct (f h); cbn [rbind]; try reflexivity. rewrite IH.
    destruct (mapM f a); cbn [rbind]; try reflexivity. destruct (mapM f b); reflexivity.
Qed.
Lemma mapM_fixed l : Forall fixed_arg l -> mapM compat_arg l = Ok l.
Proof.
  induction 1 as [|a l [Ha _] _ IH]; [reflexivity|]. cbn [mapM]. rewrite Ha. cbn [rbind]. rewrite IH. reflexivity.
Qed.
Definition kept (io : list N * list N) : bool := negb (is_nil (snd io) && negb (is_nil (fst io))).
Lemma kept_same l : Forall fixed_arg l -> map snd (filter kept (combine l l)) = l.
Proof.
  induction 1 as [|a l [_ Ha] _ IH]; [reflexivity|]. cbn [combine filter]. unfold kept at 1. cbn [fst snd].
  destruct a; [contradiction|]. cbn [is_nil andb negb map snd]. now rewrite IH.
Qed.
Lemma combine_app {X Y} (a1 a2 : list X) (b1 b2 : list Y) : length a1 = length b1 ->
  combine (a1 ++ a2) (b1 ++ b2) = combine a1 b1 ++ combine a2 b2.
Proof.
  revert b1. induction a1 as [|x a1 IH]; intros [|y b1] H; try discriminate H; [reflexivity|].
  cbn [app combine]. f_equal. apply IH. now injection H.
Qed.

Theorem compat_ignored_dropped : forall pre post, Forall fixed_arg pre -> Forall fixed_arg post ->
  compat_args_vec (pre ++ [[45;116;97;98]] ++ post) = Ok (pre ++ post).
Proof.
  intros pre post Hpre Hpost. unfold compat_args_vec.
  rewrite !mapM_app, (mapM_fixed pre Hpre), (mapM_fixed post Hpost). cbn [rbind mapM].
  change (compat_arg [45;116;97;98]) with (@Ok (list N) []). cbn [rbind app].
  change (pre ++ [45;116;97;98] :: post) with (pre ++ [[45;116;97;98]] ++ post).
  change (pre ++ [] :: post) with (pre ++ [[]] ++ post).
  rewrite !combine_app by reflexivity. fold kept. rewrite !filter_app, !map_app.
  rewrite (kept_same pre Hpre), (kept_same post Hpost). reflexivity.
Qed.

(* ---- examples (non-vacuity): complete argument vectors through compat_args ---- *)
Definition b (s : list N) := s.
Example compat_args_example_ucsc :
  compat_args [ [98;105;103;116;111;111;108;115];                               (* bigtools *)
                [98;101;100;71;114;97;112;104;84;111;66;105;103;87;105;103];    (* bedGraphToBigWig *)
                s_unc; s_blockSize ++ [61;51]; [105;110]; [99;115]; [111;117;116] ]
  = Ok [ [98;105;103;116;111;111;108;115]; [98;101;100;103;114;97;112;104;116;111;98;105;103;119;105;103];
         s_uncompressed; s_block_size ++ [61;51]; [105;110]; [99;115]; [111;117;116] ].
Proof. vm_compute. reflexivity. Qed.
Example compat_args_example_restrict :
  compat_args [ [47;120;47;98;105;103;66;101;100;84;111;66;101;100];            (* /x/bigBedToBed *)
                s_chrom ++ [61;99;104;114;45;99;104;114;111;109]; s_start ++ [61;53]; s_end ++ [61;57]; [45;116;97;98]; [97]; [98] ]
  = Ok [ [47;120;47;98;105;103;98;101;100;116;111;98;101;100];
         s_chrom_n ++ [61;99;104;114;45;99;104;114;111;109]; s_start_n ++ [61;53]; s_end_n ++ [61;57]; [97]; [98] ].
Proof. vm_compute. reflexivity. Qed.

(* whole argument vectors: for each command of the generated list, called by its own (lower-case) name or as
   `bigtools <command>`, compat_args is compat_args_vec on the whole vector *)
Theorem compat_args_tools : forall tool args, In tool COMPAT_COMMANDS ->
  compat_args (tool :: args) = compat_args_vec (tool :: args) /\
  compat_args (COMPAT_MULTICALL :: tool :: args) = compat_args_vec (COMPAT_MULTICALL :: tool :: args).
Proof.
  intros tool args Hin. unfold COMPAT_COMMANDS in Hin. cbn [In] in Hin.
  repeat (destruct Hin as [<-|Hin]; [split; vm_compute; reflexivity|]). destruct Hin.
Qed.
