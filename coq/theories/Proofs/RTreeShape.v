(* C05, shape of the trees that get_rtreeindex (build) produces: uniform height, and on every
   level every node except the LAST one of that level is full (exactly b entries); every node has
   at most b entries and all recorded fields are in range when the sections' fields are.
   This is the fact write_tree's child-pointer formula silently relies on. *)
From BT Require Import Base.Util Base.LE Generated.Consts Model.RTree
  Proofs.Chunks Proofs.RTreeAbs Proofs.RTreeBuild Proofs.RTreeCodec.
Local Open Scope N_scope.

(* ---------- "all but the last" ---------- *)
Fixpoint abl {X} (P : X -> Prop) (l : list X) : Prop :=
  match l with [] => True | x :: r => (r <> [] -> P x) /\ abl P r end.

Lemma abl_map {X Y} (f : X -> Y) (P : Y -> Prop) l : abl P (map f l) <-> abl (fun x => P (f x)) l.
Proof.
  induction l as [|a l IH]; cbn [map abl]; [tauto|]. rewrite IH.
  assert (E : map f l <> [] <-> l <> []).
  { destruct l; cbn [map]; split; intros H; try congruence; discriminate. }
  rewrite E. tauto.
Qed.
Lemma abl_impl {X} (P Q : X -> Prop) l : (forall x, In x l -> P x -> Q x) -> abl P l -> abl Q l.
Proof.
  induction l as [|a l IH]; intros H; cbn [abl]; [tauto|]. intros [H1 H2]. split.
  - intros Hne. apply H; [left; reflexivity|auto].
  - apply IH; [|exact H2]. intros x Hx. apply H. right; exact Hx.
Qed.

Section ChunkShape.
Context {X : Type}.
Lemma chunks_fuel_nil fuel b : chunks_fuel fuel b (@nil X) = [].
Proof. destruct fuel; reflexivity. Qed.

Lemma chunks_fuel_abl : forall fuel b (l : list X), (0 < b)%nat -> (length l <= fuel)%nat ->
  abl (fun c => length c = b) (chunks_fuel fuel b l).
Proof.
  induction fuel as [|f IH]; intros b l Hb Hl; [exact I|].
  destruct l as [|a l']; [exact I|]. cbn [chunks_fuel abl]. split.
  - intros Hne. rewrite firstn_length.
    destruct (le_lt_dec (length (a :: l')) b) as [Hle|Hlt]; [|lia].
    exfalso. apply Hne. rewrite skipn_all2 by exact Hle. apply chunks_fuel_nil.
  - apply IH; [exact Hb|]. rewrite skipn_length. cbn [length] in *. lia.
Qed.
(* every chunk except the last has exactly b elements *)
Lemma chunks_abl b (l : list X) : (0 < b)%nat -> abl (fun c => length c = b) (chunks b l).
Proof. intros Hb. apply chunks_fuel_abl; auto. Qed.
Lemma chunks_len_bound b (l : list X) c : (0 < b)%nat -> In c (chunks b l) -> (length c <= b)%nat.
Proof. intros Hb Hin. eapply chunks_fuel_len_bound; [exact Hb| |exact Hin]. lia. Qed.
End ChunkShape.

Lemma Forall_concat {X} (P : X -> Prop) (ll : list (list X)) : Forall P (concat ll) <-> Forall (Forall P) ll.
Proof.
  induction ll as [|l ll IH]; cbn [concat]; [split; constructor|].
  rewrite Forall_app, IH. split; [intros [H1 H2]; constructor; auto|intros H; inversion H; auto].
Qed.

(* ---------- uniform height, nodes of a level ---------- *)
Fixpoint height (h : nat) (t : tree) : Prop :=
  match h with
  | O => match t with Leaf _ => True | Node _ => False end
  | S k => match t with Leaf _ => False | Node ch => Forall (fun c => height k (snd c)) ch end
  end.

(* the subtrees sitting at level [dest], left to right, of a tree whose root sits at level [curr] *)
Fixpoint level_nodes (curr dest : nat) (t : tree) : list tree :=
  if Nat.eqb curr dest then [t] else
  match curr with
  | O => []
  | S c => match t with Leaf _ => [] | Node ch => flat_map (fun x => level_nodes c dest (snd x)) ch end
  end.
Definition lvl (curr dest : nat) (ts : list tree) : list tree := flat_map (level_nodes curr dest) ts.

Definition children (t : tree) : list tree := match t with Leaf _ => [] | Node ch => map snd ch end.
Definition kids (ns : list tree) : list tree := flat_map children ns.

Lemma level_nodes_same k t : level_nodes k k t = [t].
Proof. destruct k; cbn [level_nodes]; rewrite Nat.eqb_refl; reflexivity. Qed.
Lemma lvl_same k ts : lvl k k ts = ts.
Proof.
  unfold lvl. induction ts as [|t ts IH]; cbn [flat_map]; [reflexivity|].
  rewrite level_nodes_same, IH. reflexivity.
Qed.
Lemma lvl_app c d a b : lvl c d (a ++ b) = lvl c d a ++ lvl c d b.
Proof. unfold lvl. apply flat_map_app. Qed.

Lemma level_nodes_node c d ch : (d <= c)%nat ->
  level_nodes (S c) d (Node ch) = lvl c d (map snd ch).
Proof.
  intros Hd. cbn [level_nodes]. replace (Nat.eqb (S c) d) with false by (symmetry; apply Nat.eqb_neq; lia).
  unfold lvl. induction ch as [|x ch IH]; cbn [map flat_map]; [reflexivity|]. now rewrite IH.
Qed.

Lemma flat_map_flat_map {A B C} (f : A -> list B) (g : B -> list C) l :
  flat_map g (flat_map f l) = flat_map (fun a => flat_map g (f a)) l.
Proof. induction l as [|a l IH]; cbn [flat_map]; [reflexivity|]. now rewrite flat_map_app, IH. Qed.

(* the nodes of level d are the children of the nodes of level d+1 *)
Lemma kids_level : forall h t d, height h t -> (S d <= h)%nat ->
  kids (level_nodes h (S d) t) = level_nodes h d t.
Proof.
  induction h as [|h IH]; intros t d Hh Hd; [exfalso; lia|].
  destruct t as [l|ch]; [destruct Hh|]. cbn [height] in Hh.
  destruct (Nat.eq_dec h d) as [->|Hne].
  - rewrite level_nodes_same. unfold kids. cbn [flat_map children]. rewrite app_nil_r.
    rewrite level_nodes_node by lia. now rewrite lvl_same.
  - rewrite !level_nodes_node by lia. unfold kids, lvl. rewrite flat_map_flat_map.
    induction Hh as [|c ch Hc _ IHch]; cbn [map flat_map]; [reflexivity|].
    rewrite IHch. f_equal. apply IH; [exact Hc|lia].
Qed.

Lemma height_level : forall h t d, height h t -> (d <= h)%nat -> Forall (height d) (level_nodes h d t).
Proof.
  induction h as [|h IH]; intros t d Hh Hd.
  - assert (d = 0)%nat as -> by lia. rewrite level_nodes_same. constructor; [exact Hh|constructor].
  - destruct (Nat.eq_dec d (S h)) as [->|Hne].
    + rewrite level_nodes_same. constructor; [exact Hh|constructor].
    + destruct t as [l|ch]; [destruct Hh|]. cbn [height] in Hh.
      rewrite level_nodes_node by lia. unfold lvl.
      induction Hh as [|c ch Hc _ IHch]; cbn [map flat_map]; [constructor|].
      apply Forall_app. split; [apply IH; [exact Hc|lia]|exact IHch].
Qed.

(* ---------- sizes and ranges ---------- *)
(* bytes a node occupies on disk *)
Definition nsize (t : tree) : N :=
  match t with Leaf l => 4 + 32 * Nlen l | Node ch => 4 + 24 * Nlen ch end.
(* bytes a full node of level d occupies *)
Definition nfull (b : N) (d : nat) : N :=
  match d with O => full_leaf b | S _ => full_nonleaf b end.

Definition node_ok (b : nat) (t : tree) : Prop :=
  match t with
  | Leaf l => (length l <= b)%nat /\ Forall sect_ok l
  | Node ch => (length ch <= b)%nat /\ Forall (fun c => span_ok (fst c)) ch
  end.

Lemma zero_span_ok : span_ok zero_span.
Proof. unfold span_ok, zero_span, U32. cbn. lia. Qed.

Lemma hull_ok l : Forall span_ok l -> span_ok (hull l).
Proof.
  intros H. destruct l as [|f r]; [apply zero_span_ok|].
  destruct (hull_end_in f r) as [x [Hin [He1 He2]]].
  rewrite Forall_forall in H. pose proof (H x Hin) as (_ & _ & Hx3 & Hx4).
  pose proof (H f (or_introl eq_refl)) as (Hf1 & Hf2 & _ & _).
  unfold span_ok. rewrite He1, He2. cbn [hull sc sb]. auto.
Qed.

Lemma sect_span_ok s : sect_ok s -> span_ok (sect_span s).
Proof. intros (H1 & H2 & H3 & _). unfold span_ok, sect_span. cbn. auto. Qed.

Lemma node_ok_span b t : node_ok b t -> span_ok (span_of t).
Proof.
  destruct t as [l|ch]; intros [_ H]; cbn [span_of]; apply hull_ok.
  - rewrite Forall_map. eapply Forall_impl; [|exact H]. apply sect_span_ok.
  - rewrite Forall_map. exact H.
Qed.

(* ---------- the invariant of build's loop ---------- *)
Definition level_ok (b : nat) (d : nat) (L : list tree) : Prop :=
  abl (fun t => nsize t = nfull (N.of_nat b) d) L /\ Forall (node_ok b) L.

Definition shaped (b : nat) (lv : nat) (cur : list tree) : Prop :=
  Forall (height lv) cur /\ forall d, (d <= lv)%nat -> level_ok b d (lvl lv d cur).

Lemma level_nodes_mk_node lv d c : (d <= lv)%nat -> level_nodes (S lv) d (mk_node c) = lvl lv d c.
Proof.
  intros Hd. unfold mk_node. rewrite level_nodes_node by exact Hd. rewrite map_map. cbn [snd].
  now rewrite map_id.
Qed.
Lemma lvl_mk_nodes lv d cs : (d <= lv)%nat -> lvl (S lv) d (map mk_node cs) = lvl lv d (concat cs).
Proof.
  intros Hd. induction cs as [|c cs IH]; [reflexivity|].
  cbn [map concat]. rewrite lvl_app, <- IH. unfold lvl at 1. cbn [flat_map].
  rewrite level_nodes_mk_node by exact Hd. reflexivity.
Qed.
Lemma height_mk_node lv c : Forall (height lv) c -> height (S lv) (mk_node c).
Proof. intros H. unfold mk_node. cbn [height]. rewrite Forall_map. cbn [snd]. exact H. Qed.

Lemma shaped_step b lv cur : (0 < b)%nat -> shaped b lv cur ->
  shaped b (S lv) (map mk_node (chunks b cur)).
Proof.
  intros Hb [Hh Hl].
  pose proof (chunks_concat b cur Hb) as Hcat.
  assert (Hcur : Forall (node_ok b) cur).
  { destruct (Hl lv (le_n _)) as [_ H]. now rewrite lvl_same in H. }
  split.
  - rewrite Forall_map. rewrite <- Hcat in Hh. apply Forall_concat in Hh.
    eapply Forall_impl; [|exact Hh]. intros c Hc. now apply height_mk_node.
  - intros d Hd. destruct (Nat.eq_dec d (S lv)) as [->|Hne].
    + rewrite lvl_same. split.
      * apply abl_map. eapply abl_impl; [|apply (chunks_abl b cur Hb)].
        intros c _ Hc. cbv beta in Hc. unfold mk_node. cbn [nsize nfull]. unfold Nlen. rewrite map_length, Hc.
        unfold full_nonleaf, NODEHEADER_SIZE, NON_LEAFNODE_SIZE. reflexivity.
      * rewrite Forall_map. apply Forall_forall. intros c Hc. unfold mk_node. cbn [node_ok].
        rewrite map_length. split; [apply (chunks_len_bound b cur c Hb Hc)|].
        rewrite Forall_map. cbn [fst].
        rewrite <- Hcat in Hcur. apply Forall_concat in Hcur. rewrite Forall_forall in Hcur.
        eapply Forall_impl; [|apply (Hcur c Hc)]. intros t Ht. eapply node_ok_span; exact Ht.
    + rewrite lvl_mk_nodes by lia. rewrite Hcat. apply Hl. lia.
Qed.

Lemma shaped_init b secs : (0 < b)%nat -> Forall sect_ok secs -> shaped b 0 (map Leaf (chunks b secs)).
Proof.
  intros Hb Hok. pose proof (chunks_concat b secs Hb) as Hcat. split.
  - rewrite Forall_map. apply Forall_forall. intros c _. exact I.
  - intros d Hd. assert (d = 0)%nat as -> by lia. rewrite lvl_same. split.
    + apply abl_map. eapply abl_impl; [|apply (chunks_abl b secs Hb)].
      intros c _ Hc. cbv beta in Hc. cbn [nsize nfull]. unfold Nlen. rewrite Hc.
      unfold full_leaf, NODEHEADER_SIZE, LEAFNODE_SIZE. reflexivity.
    + rewrite Forall_map. apply Forall_forall. intros c Hc. cbn [node_ok].
      split; [apply (chunks_len_bound b secs c Hb Hc)|].
      rewrite <- Hcat in Hok. apply Forall_concat in Hok. rewrite Forall_forall in Hok. apply Hok. exact Hc.
Qed.

Lemma build_loop_shaped b : (0 < b)%nat -> forall fuel cur lv t lv',
  build_loop fuel b cur lv = Ok (t, lv') -> cur <> [] -> shaped b lv cur -> shaped b lv' [t].
Proof.
  intros Hb. induction fuel as [|f IH]; intros cur lv t lv' Hbl Hne Hs; [discriminate|].
  destruct cur as [|t0 [|t1 rest]]; [congruence| |].
  - cbn [build_loop] in Hbl. inversion Hbl; subst. exact Hs.
  - cbn [build_loop] in Hbl. eapply IH; [exact Hbl| |apply shaped_step; [exact Hb|exact Hs]].
    intros E. apply map_eq_nil in E. apply chunks_nil_iff in E. discriminate.
Qed.

(* what build establishes about the shape *)
Theorem build_shaped b secs t lv : (0 < b)%nat -> secs <> [] -> Forall sect_ok secs ->
  build b secs = Ok (t, lv) -> shaped b lv [t].
Proof.
  intros Hb Hne Hok Hbuild. unfold build in Hbuild. destruct b as [|b']; [lia|].
  eapply (build_loop_shaped (S b') Hb); [exact Hbuild| |apply shaped_init; [exact Hb|exact Hok]].
  intros E. apply map_eq_nil in E. apply chunks_nil_iff in E. contradiction.
Qed.

(* the single-tree reading of [shaped] *)
Lemma shaped_single b lv t : shaped b lv [t] ->
  height lv t /\ forall d, (d <= lv)%nat -> level_ok b d (level_nodes lv d t).
Proof.
  intros [Hh Hl]. split; [inversion Hh; assumption|].
  intros d Hd. specialize (Hl d Hd). unfold lvl in Hl. cbn [flat_map] in Hl. now rewrite app_nil_r in Hl.
Qed.
