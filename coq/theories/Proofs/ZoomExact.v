(* C07: what the per-record statistics mean in exact arithmetic.  In the [exact] mode of
   Base/Float.v no operation rounds; reading a finite value m*2^e as the rational number it denotes
   ([qval]), the sum / sum of squares of a record are the sums over the stored values meeting the
   record of (overlap length x value) resp. (overlap length x value x value), and min / max are the least / greatest of those values. *)
From Coq Require Import QArith Qpower.
From BT Require Import Base.Util Base.Float Model.RTree Model.BBIFile Model.BigWigWrite Model.BBIRead
  Proofs.BigWigQuery Proofs.ZoomLoop Proofs.ZoomInv Proofs.ZoomThms.

Definition q2 (e : Z) : Q := Qpower (2 # 1) e.
Definition qval (x : fl) : Q := match x with FFin m e => inject_Z m * q2 e | _ => 0 end.
Definition finite (x : fl) : Prop := exists m e, x = FFin m e.

Lemma two_nz : ~ (2 # 1) == 0. Proof. discriminate. Qed.
Lemma q2_add a b : q2 (a + b) == q2 a * q2 b.
Proof. unfold q2. apply Qpower_plus. exact two_nz. Qed.
Lemma q2_pos e : 0 < q2 e.
Proof. unfold q2. apply Qpower_0_lt. reflexivity. Qed.
Lemma shiftl_q m k : (0 <= k)%Z -> inject_Z (Z.shiftl m k) == inject_Z m * q2 k.
Proof.
  intros Hk. rewrite Z.shiftl_mul_pow2 by exact Hk. rewrite inject_Z_mult. unfold q2.
  rewrite Zpower_Qpower by exact Hk. reflexivity.
Qed.

Lemma align_q m1 e1 m2 e2 : let '(x, y, e) := align m1 e1 m2 e2 in
  inject_Z x * q2 e == inject_Z m1 * q2 e1 /\ inject_Z y * q2 e == inject_Z m2 * q2 e2.
Proof.
  unfold align. split.
  - rewrite shiftl_q by lia. rewrite <- Qmult_assoc, <- q2_add.
    replace (e1 - Z.min e1 e2 + Z.min e1 e2)%Z with e1 by lia. reflexivity.
  - rewrite shiftl_q by lia. rewrite <- Qmult_assoc, <- q2_add.
    replace (e2 - Z.min e1 e2 + Z.min e1 e2)%Z with e2 by lia. reflexivity.
Qed.

Lemma fadd_exact m1 e1 m2 e2 : exists m e, fadd64 exact (FFin m1 e1) (FFin m2 e2) = FFin m e /\
  qval (FFin m e) == qval (FFin m1 e1) + qval (FFin m2 e2).
Proof.
  unfold fadd64, fadd_with. cbn [r64 exact]. pose proof (align_q m1 e1 m2 e2) as H.
  destruct (align m1 e1 m2 e2) as [[x y] e]. destruct H as [H1 H2].
  exists (x + y)%Z, e. split; [reflexivity|]. cbn [qval]. rewrite inject_Z_plus, Qmult_plus_distr_l, H1, H2. reflexivity.
Qed.
Lemma fmul_exact m1 e1 m2 e2 : fmul64 exact (FFin m1 e1) (FFin m2 e2) = FFin (m1 * m2) (e1 + e2) /\
  qval (FFin (m1 * m2) (e1 + e2)) == qval (FFin m1 e1) * qval (FFin m2 e2).
Proof.
  split; [reflexivity|]. cbn [qval]. rewrite inject_Z_mult, q2_add. ring.
Qed.

(* comparison of finite values is comparison of what they denote *)
Lemma fcmp_q m1 e1 m2 e2 : exists c, fcmp (FFin m1 e1) (FFin m2 e2) = Some c /\
  match c with
  | Lt => qval (FFin m1 e1) < qval (FFin m2 e2)
  | Eq => qval (FFin m1 e1) == qval (FFin m2 e2)
  | Gt => qval (FFin m2 e2) < qval (FFin m1 e1)
  end.
Proof.
  unfold fcmp. pose proof (align_q m1 e1 m2 e2) as H.
  destruct (align m1 e1 m2 e2) as [[x y] e]. destruct H as [H1 H2]. exists (x ?= y)%Z. split; [reflexivity|].
  cbn [qval]. pose proof (q2_pos e) as Hp.
  destruct (Z.compare_spec x y) as [Heq|Hlt|Hgt]; rewrite <- H1, <- H2.
  - rewrite Heq. reflexivity.
  - apply Qmult_lt_compat_r; [exact Hp|]. rewrite <- Zlt_Qlt. exact Hlt.
  - apply Qmult_lt_compat_r; [exact Hp|]. rewrite <- Zlt_Qlt. exact Hgt.
Qed.

Lemma fmin_q a b : finite a -> finite b ->
  (fmin a b = a \/ fmin a b = b) /\ qval (fmin a b) <= qval a /\ qval (fmin a b) <= qval b.
Proof.
  intros [m1 [e1 ->]] [m2 [e2 ->]]. unfold fmin. destruct (fcmp_q m1 e1 m2 e2) as [c [Hc Hq]]. rewrite Hc.
  destruct c.
  - split; [now left|]. split; [apply Qle_refl|]. rewrite Hq. apply Qle_refl.
  - split; [now left|]. split; [apply Qle_refl|]. apply Qlt_le_weak. exact Hq.
  - split; [now right|]. split; [apply Qlt_le_weak; exact Hq|apply Qle_refl].
Qed.
Lemma fmax_q a b : finite a -> finite b ->
  (fmax a b = a \/ fmax a b = b) /\ qval a <= qval (fmax a b) /\ qval b <= qval (fmax a b).
Proof.
  intros [m1 [e1 ->]] [m2 [e2 ->]]. unfold fmax. destruct (fcmp_q m1 e1 m2 e2) as [c [Hc Hq]]. rewrite Hc.
  destruct c.
  - split; [now left|]. split; [apply Qle_refl|]. rewrite Hq. apply Qle_refl.
  - split; [now right|]. split; [apply Qlt_le_weak; exact Hq|apply Qle_refl].
  - split; [now left|]. split; [apply Qle_refl|]. apply Qlt_le_weak. exact Hq.
Qed.

(* ---- folds over contributions ---- *)
Definition qlen (p : piece) : Q := inject_Z (Z.of_N (plen p)).
Fixpoint qsum (f : piece -> Q) (cs : list piece) : Q :=
  match cs with [] => 0 | p :: r => f p + qsum f r end.

Lemma sum_fold_exact : forall cs acc, finite acc -> Forall (fun p => finite (p_val p)) cs ->
  finite (fold_left (sum_step exact) cs acc) /\
  qval (fold_left (sum_step exact) cs acc) == qval acc + qsum (fun p => qlen p * qval (p_val p)) cs.
Proof.
  induction cs as [|p cs IH]; intros acc Ha Hf; cbn [fold_left qsum].
  - split; [exact Ha|]. ring.
  - inversion Hf as [|? ? Hp Hrest]; subst. destruct Ha as [ma [ea ->]]. destruct Hp as [mv [ev Hv]].
    assert (Hstep : exists m e, sum_step exact (FFin ma ea) p = FFin m e /\
                      qval (FFin m e) == qval (FFin ma ea) + qlen p * qval (p_val p)).
    { unfold sum_step. rewrite Hv. unfold f_of_N.
      destruct (fmul_exact (Z.of_N (plen p)) 0 mv ev) as [Hm Hmq]. rewrite Hm.
      destruct (fadd_exact ma ea (Z.of_N (plen p) * mv) (0 + ev)) as [m [e [Hadd Haq]]].
      exists m, e. split; [exact Hadd|]. rewrite Haq, Hmq. unfold qlen. cbn [qval].
      unfold q2 at 2. cbn [Qpower]. ring. }
    destruct Hstep as [m [e [Hst Hstq]]]. rewrite Hst.
    destruct (IH (FFin m e) (ex_intro _ m (ex_intro _ e eq_refl)) Hrest) as [Hfin Hq].
    split; [exact Hfin|]. rewrite Hq, Hstq. ring.
Qed.

Lemma sumsq_fold_exact : forall cs acc, finite acc -> Forall (fun p => finite (p_val p)) cs ->
  finite (fold_left (sumsq_step exact) cs acc) /\
  qval (fold_left (sumsq_step exact) cs acc) == qval acc + qsum (fun p => qlen p * qval (p_val p) * qval (p_val p)) cs.
Proof.
  induction cs as [|p cs IH]; intros acc Ha Hf; cbn [fold_left qsum].
  - split; [exact Ha|]. ring.
  - inversion Hf as [|? ? Hp Hrest]; subst. destruct Ha as [ma [ea ->]]. destruct Hp as [mv [ev Hv]].
    assert (Hstep : exists m e, sumsq_step exact (FFin ma ea) p = FFin m e /\
                      qval (FFin m e) == qval (FFin ma ea) + qlen p * qval (p_val p) * qval (p_val p)).
    { unfold sumsq_step. rewrite Hv. unfold f_of_N.
      destruct (fmul_exact (Z.of_N (plen p)) 0 mv ev) as [Hm Hmq]. rewrite Hm.
      destruct (fmul_exact (Z.of_N (plen p) * mv) (0 + ev) mv ev) as [Hm2 Hmq2]. rewrite Hm2.
      destruct (fadd_exact ma ea (Z.of_N (plen p) * mv * mv) (0 + ev + ev)) as [m [e [Hadd Haq]]].
      exists m, e. split; [exact Hadd|]. rewrite Haq, Hmq2, Hmq. unfold qlen. cbn [qval].
      unfold q2 at 2. cbn [Qpower]. ring. }
    destruct Hstep as [m [e [Hst Hstq]]]. rewrite Hst.
    destruct (IH (FFin m e) (ex_intro _ m (ex_intro _ e eq_refl)) Hrest) as [Hfin Hq].
    split; [exact Hfin|]. rewrite Hq, Hstq. ring.
Qed.

Lemma min_fold_exact : forall cs acc, finite acc -> Forall (fun p => finite (p_val p)) cs ->
  let r := fold_left (fun m p => fmin m (p_val p)) cs acc in
  finite r /\ (r = acc \/ exists p, In p cs /\ r = p_val p) /\
  qval r <= qval acc /\ Forall (fun p => qval r <= qval (p_val p)) cs.
Proof.
  induction cs as [|p cs IH]; intros acc Ha Hf; cbv zeta; cbn [fold_left].
  - split; [exact Ha|]. split; [now left|]. split; [apply Qle_refl|constructor].
  - inversion Hf as [|? ? Hp Hrest]; subst.
    destruct (fmin_q acc (p_val p) Ha Hp) as [Hsel [Hle1 Hle2]].
    assert (Hfm : finite (fmin acc (p_val p))) by (destruct Hsel as [->| ->]; assumption).
    destruct (IH (fmin acc (p_val p)) Hfm Hrest) as [Hfin [Hwho [Hle Hall]]].
    split; [exact Hfin|]. split; [|split].
    + destruct Hwho as [Hw|[p' [Hin Hw]]].
      * destruct Hsel as [Hs|Hs]; [left; congruence|right; exists p; split; [now left|congruence]].
      * right. exists p'. split; [now right|exact Hw].
    + eapply Qle_trans; eauto.
    + constructor; [eapply Qle_trans; eauto|exact Hall].
Qed.
Lemma max_fold_exact : forall cs acc, finite acc -> Forall (fun p => finite (p_val p)) cs ->
  let r := fold_left (fun m p => fmax m (p_val p)) cs acc in
  finite r /\ (r = acc \/ exists p, In p cs /\ r = p_val p) /\
  qval acc <= qval r /\ Forall (fun p => qval (p_val p) <= qval r) cs.
Proof.
  induction cs as [|p cs IH]; intros acc Ha Hf; cbv zeta; cbn [fold_left].
  - split; [exact Ha|]. split; [now left|]. split; [apply Qle_refl|constructor].
  - inversion Hf as [|? ? Hp Hrest]; subst.
    destruct (fmax_q acc (p_val p) Ha Hp) as [Hsel [Hle1 Hle2]].
    assert (Hfm : finite (fmax acc (p_val p))) by (destruct Hsel as [->| ->]; assumption).
    destruct (IH (fmax acc (p_val p)) Hfm Hrest) as [Hfin [Hwho [Hle Hall]]].
    split; [exact Hfin|]. split; [|split].
    + destruct Hwho as [Hw|[p' [Hin Hw]]].
      * destruct Hsel as [Hs|Hs]; [left; congruence|right; exists p; split; [now left|congruence]].
      * right. exists p'. split; [now right|exact Hw].
    + eapply Qle_trans; eauto.
    + constructor; [eapply Qle_trans; eauto|exact Hall].
Qed.

(* the statistics of a record in exact arithmetic *)
Definition exact_stats (r : zrec) (cs : list piece) : Prop :=
  qval (su_sum (z_sum r)) == qsum (fun p => qlen p * qval (p_val p)) cs /\
  qval (su_sumsq (z_sum r)) == qsum (fun p => qlen p * qval (p_val p) * qval (p_val p)) cs /\
  (exists p, In p cs /\ su_min (z_sum r) = p_val p) /\ Forall (fun p => qval (su_min (z_sum r)) <= qval (p_val p)) cs /\
  (exists p, In p cs /\ su_max (z_sum r) = p_val p) /\ Forall (fun p => qval (p_val p) <= qval (su_max (z_sum r))) cs.

Lemma stats_of_exact r cs : Forall (fun p => finite (p_val p)) cs -> stats_of exact r cs -> exact_stats r cs.
Proof.
  intros Hf Hs. destruct cs as [|p0 cs0]; [destruct Hs|]. set (cs := p0 :: cs0) in *.
  destruct Hs as [_ [_ [Hmin [Hmax [Hsum Hsq]]]]].
  assert (Hz : finite fzero) by (exists 0%Z, 0%Z; reflexivity).
  assert (Hp0 : finite (p_val p0)) by (inversion Hf; assumption).
  destruct (sum_fold_exact cs fzero Hz Hf) as [_ H1]. destruct (sumsq_fold_exact cs fzero Hz Hf) as [_ H2].
  destruct (min_fold_exact cs (p_val p0) Hp0 Hf) as [_ [Hw3 [_ H3]]].
  destruct (max_fold_exact cs (p_val p0) Hp0 Hf) as [_ [Hw4 [_ H4]]]. cbv zeta in *.
  unfold exact_stats. rewrite Hsum, Hsq, Hmin, Hmax. split; [|split; [|split; [|split; [|split]]]].
  - rewrite H1. cbn [qval fzero]. ring.
  - rewrite H2. cbn [qval fzero]. ring.
  - destruct Hw3 as [->|Hw]; [exists p0; split; [now left|reflexivity]|exact Hw].
  - exact H3.
  - destruct Hw4 as [->|Hw]; [exists p0; split; [now left|reflexivity]|exact Hw].
  - exact H4.
Qed.

Open Scope N_scope.
Theorem zoom_stats_exact ips size chrom len vals st : 1 <= size -> wf_vals len vals ->
  Forall (fun v => finite (v_val v)) vals ->
  zoom_chrom exact ips size chrom vals zstate0 = Ok st ->
  Forall (fun r => exact_stats r (contribs (z_start r) (z_end r) vals)) (concat (zs_out st)).
Proof.
  intros Hsz Hwf Hfin Hrun. pose proof (zoom_stats exact ips size chrom len vals st Hsz Hwf Hrun) as H.
  eapply Forall_impl; [|exact H]. cbv beta zeta. intros r [_ Hs]. apply stats_of_exact; [|exact Hs].
  apply Forall_forall. intros p Hp. apply contribs_spec in Hp. destruct Hp as [v [Hv [-> _]]].
  rewrite Forall_forall in Hfin. exact (Hfin v Hv).
Qed.
