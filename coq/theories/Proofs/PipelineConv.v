(* The converters' pipeline (Model/Pipeline.v part 2: write_bg / write_bed): invariant, output =
   the single-threaded text for every interleaving, progress, completion. *)
From BT Require Import Base.Util Model.RTree Model.BBIFile Model.Pipeline Proofs.PipelineInv.

Record vlocal (T : list bytes) (c : vchrom) : Prop := {
  vl_order : v_out c ++ concat (v_todo c) = concat T;
  vl_closed : v_closed c = true -> v_todo c = [] }.

Record vgood (Ts : list (list bytes)) (joined vk k : nat) (c : vchrom) : Prop := {
  vg_local : vlocal (nth k Ts []) c;
  vg_joined : (k < joined)%nat -> v_closed c = true;
  vg_spliced : (k < vk)%nat -> v_closed c = true }.

Record VInv (out0 : bytes) (Ts : list (list bytes)) (s : vst) : Prop := {
  vi_len : length (v_chroms s) = length Ts;
  vi_good : forall k c, nth_error (v_chroms s) k = Some c -> vgood Ts (v_joined s) (v_k s) k c;
  vi_joined : (v_joined s <= v_spawned s)%nat;
  vi_spawned : (v_spawned s <= length Ts)%nat;
  vi_drv : v_drv_done s = true -> v_spawned s = length Ts;
  vi_join : v_join_done s = true -> v_joined s = v_spawned s /\ v_drv_done s = true;
  vi_k : (v_k s <= v_spawned s)%nat;
  vi_mid : v_pc s = VPoll \/ v_pc s = VAwait -> (v_k s < v_spawned s)%nat;
  vi_await : v_pc s = VAwait -> forall c, nth_error (v_chroms s) (v_k s) = Some c -> v_closed c = true;
  vi_done : v_pc s = VDone -> v_k s = length Ts;
  vi_file : v_file s = out0 ++ concat (map (@concat N) (firstn (v_k s) Ts)) }.

Lemma vinv_init out0 Ts : VInv out0 Ts (vinit out0 Ts).
Proof.
  constructor; cbn.
  - apply map_length.
  - intros k c H. rewrite nth_error_map in H. destruct (nth_error Ts k) as [T|] eqn:E; [|discriminate].
    cbn in H. inversion H; subst c. constructor.
    + constructor; cbn; [|discriminate]. f_equal. symmetry. apply nth_error_nth_default. exact E.
    + lia.
    + lia.
  - lia.
  - lia.
  - discriminate.
  - discriminate.
  - lia.
  - intros [H|H]; discriminate.
  - discriminate.
  - discriminate.
  - rewrite app_nil_r. reflexivity.
Qed.

Lemma file_step_ok c c' : file_step c = Some c' ->
  (v_closed c = true -> v_closed c' = true) /\ forall T, vlocal T c -> vlocal T c'.
Proof.
  unfold file_step. destruct (v_closed c) eqn:Ec; [discriminate|].
  destruct (v_todo c) as [|w r] eqn:Et; intros H; inversion H; subst c'; clear H; cbn.
  - split; [auto|]. intros T L. constructor; cbn; [|reflexivity].
    rewrite <- (vl_order _ _ L), Et. reflexivity.
  - split; [discriminate|]. intros T L. constructor; cbn; [|discriminate].
    rewrite <- (vl_order _ _ L), Et. cbn [concat]. rewrite <- app_assoc. reflexivity.
Qed.

Lemma closed_out Ts j vk k c : vgood Ts j vk k c -> v_closed c = true -> v_out c = concat (nth k Ts []).
Proof.
  intros G E. pose proof (vg_local _ _ _ _ _ G) as L. pose proof (vl_order _ _ L) as H.
  rewrite (vl_closed _ _ L E) in H. cbn in H. rewrite app_nil_r in H. exact H.
Qed.

Lemma vinv_step out0 Ts win t s s' : VInv out0 Ts s -> vstep win t s = Some s' -> VInv out0 Ts s'.
Proof.
  intros I.
  pose proof (vi_len _ _ _ I) as HL. pose proof (vi_joined _ _ _ I) as HJ. pose proof (vi_spawned _ _ _ I) as HS.
  pose proof (vi_k _ _ _ I) as HK.
  destruct t as [| |k|]; cbn [vstep].
  - (* driver *)
    destruct (v_drv_done s) eqn:Hd; [discriminate|].
    destruct (v_spawned s <? length (v_chroms s))%nat eqn:Hlt.
    + apply Nat.ltb_lt in Hlt. destruct (v_spawned s - v_joined s <? win)%nat; [|discriminate].
      intros H. inversion H; subst s'; clear H. constructor; cbn;
        try (first [exact HL | apply (vi_good _ _ _ I) | apply (vi_await _ _ _ I) | apply (vi_done _ _ _ I) | apply (vi_file _ _ _ I)]).
      * lia.
      * lia.
      * discriminate.
      * intros E. destruct (vi_join _ _ _ I E). congruence.
      * lia.
      * intros Hp. pose proof (vi_mid _ _ _ I Hp). lia.
    + apply Nat.ltb_ge in Hlt. intros H. inversion H; subst s'; clear H. constructor; cbn;
        try (first [exact HL | exact HJ | exact HS | exact HK | apply (vi_good _ _ _ I) | apply (vi_mid _ _ _ I)
                   | apply (vi_await _ _ _ I) | apply (vi_done _ _ _ I) | apply (vi_file _ _ _ I)]).
      * intros _. lia.
      * intros E. destruct (vi_join _ _ _ I E). congruence.
  - (* join *)
    destruct (v_join_done s) eqn:Hjd; [discriminate|].
    destruct (v_joined s <? v_spawned s)%nat eqn:Hlt.
    + apply Nat.ltb_lt in Hlt.
      destruct (nth_error (v_chroms s) (v_joined s)) as [c|] eqn:En; [|discriminate].
      destruct (v_closed c) eqn:Ec; [|discriminate].
      intros H. inversion H; subst s'; clear H. constructor; cbn;
        try (first [exact HL | exact HS | exact HK | apply (vi_drv _ _ _ I) | apply (vi_mid _ _ _ I)
                   | apply (vi_await _ _ _ I) | apply (vi_done _ _ _ I) | apply (vi_file _ _ _ I)]).
      * intros k x Hn. pose proof (vi_good _ _ _ I k x Hn) as G. constructor.
        -- apply (vg_local _ _ _ _ _ G).
        -- intros Hs. destruct (Nat.eq_dec k (v_joined s)) as [->|Hne]; [congruence|].
           apply (vg_joined _ _ _ _ _ G). lia.
        -- apply (vg_spliced _ _ _ _ _ G).
      * lia.
      * discriminate.
    + apply Nat.ltb_ge in Hlt. destruct (v_drv_done s) eqn:Hd; [|discriminate].
      intros H. inversion H; subst s'; clear H. constructor; cbn;
        try (first [exact HL | exact HJ | exact HS | exact HK | apply (vi_good _ _ _ I) | apply (vi_mid _ _ _ I)
                   | apply (vi_await _ _ _ I) | apply (vi_done _ _ _ I) | apply (vi_file _ _ _ I)]).
      * intros _. apply (vi_drv _ _ _ I Hd).
      * intros _. split; [lia|reflexivity].
  - (* file task k *)
    destruct (k <? v_spawned s)%nat eqn:Hk; [|discriminate]. apply Nat.ltb_lt in Hk.
    destruct (nth_error (v_chroms s) k) as [c|] eqn:En; [|discriminate].
    destruct (file_step c) as [c'|] eqn:Ef; [|discriminate].
    intros H. inversion H; subst s'; clear H.
    destruct (file_step_ok c c' Ef) as [Hmono Hloc].
    pose proof (nth_error_lt _ _ _ En) as Hlt.
    assert (Hget : forall j x, nth_error (set_nth k c' (v_chroms s)) j = Some x ->
                     (j = k /\ x = c') \/ (j <> k /\ nth_error (v_chroms s) j = Some x)).
    { intros j x Hj. destruct (Nat.eq_dec j k) as [->|Hne].
      - rewrite nth_error_set_same in Hj by exact Hlt. inversion Hj. auto.
      - rewrite nth_error_set_other in Hj by exact Hne. auto. }
    constructor; cbn;
      try (first [exact HJ | exact HS | exact HK | apply (vi_drv _ _ _ I) | apply (vi_join _ _ _ I) | apply (vi_mid _ _ _ I)
                 | apply (vi_done _ _ _ I) | apply (vi_file _ _ _ I)]).
    + rewrite set_nth_length. exact HL.
    + intros j x Hj. destruct (Hget j x Hj) as [[-> ->]|[Hne Hj']].
      * pose proof (vi_good _ _ _ I k c En) as G. constructor.
        -- apply Hloc. apply (vg_local _ _ _ _ _ G).
        -- intros Hs. apply Hmono. apply (vg_joined _ _ _ _ _ G Hs).
        -- intros Hs. apply Hmono. apply (vg_spliced _ _ _ _ _ G Hs).
      * apply (vi_good _ _ _ I j x Hj').
    + intros Hp x Hx. destruct (Hget _ _ Hx) as [[Hk' ->]|[Hne Hx']].
      * apply Hmono. apply (vi_await _ _ _ I Hp c). rewrite Hk'. exact En.
      * apply (vi_await _ _ _ I Hp x Hx').
  - (* main *)
    destruct (v_pc s) eqn:Hpc.
    + destruct (v_k s <? v_spawned s)%nat eqn:Hlt.
      * apply Nat.ltb_lt in Hlt. intros H. inversion H; subst s'; clear H. constructor; cbn;
          try (first [exact HL | exact HJ | exact HS | exact HK | apply (vi_good _ _ _ I) | apply (vi_drv _ _ _ I)
                     | apply (vi_join _ _ _ I) | apply (vi_file _ _ _ I)]).
        -- intros _. exact Hlt.
        -- discriminate.
        -- discriminate.
      * apply Nat.ltb_ge in Hlt. destruct (v_drv_done s && v_join_done s) eqn:Hdj; [|discriminate].
        apply andb_prop in Hdj. destruct Hdj as [Hd Hjd].
        intros H. inversion H; subst s'; clear H. pose proof (vi_drv _ _ _ I Hd) as Hall.
        constructor; cbn;
          try (first [exact HL | exact HJ | exact HS | exact HK | apply (vi_good _ _ _ I) | apply (vi_drv _ _ _ I)
                     | apply (vi_join _ _ _ I) | apply (vi_file _ _ _ I)]).
        -- intros [H|H]; discriminate.
        -- discriminate.
        -- intros _. lia.
    + destruct (nth_error (v_chroms s) (v_k s)) as [c|] eqn:En; [|discriminate].
      destruct (v_closed c) eqn:Ec; [|discriminate].
      intros H. inversion H; subst s'; clear H. constructor; cbn;
        try (first [exact HL | exact HJ | exact HS | exact HK | apply (vi_good _ _ _ I) | apply (vi_drv _ _ _ I)
                   | apply (vi_join _ _ _ I) | apply (vi_file _ _ _ I)]).
      * intros _. apply (vi_mid _ _ _ I). auto.
      * intros _ x Hx. congruence.
      * discriminate.
    + destruct (nth_error (v_chroms s) (v_k s)) as [c|] eqn:En; [|discriminate].
      destruct (v_closed c) eqn:Ec; [|discriminate].
      intros H. inversion H; subst s'; clear H.
      pose proof (vi_mid _ _ _ I (or_intror Hpc)) as Hmid. pose proof (vi_good _ _ _ I _ c En) as G.
      constructor; cbn [v_chroms v_spawned v_joined v_drv_done v_join_done v_k v_pc v_file];
        try (first [exact HL | exact HJ | exact HS | apply (vi_drv _ _ _ I) | apply (vi_join _ _ _ I)]).
      * intros k x Hn. pose proof (vi_good _ _ _ I k x Hn) as Gk. constructor.
        -- apply (vg_local _ _ _ _ _ Gk).
        -- apply (vg_joined _ _ _ _ _ Gk).
        -- intros Hs. destruct (Nat.eq_dec k (v_k s)) as [->|Hne]; [congruence|].
           apply (vg_spliced _ _ _ _ _ Gk). lia.
      * lia.
      * intros [H|H]; discriminate.
      * discriminate.
      * discriminate.
      * rewrite (vi_file _ _ _ I), (closed_out _ _ _ _ _ G Ec).
        assert (Hn : nth_error Ts (v_k s) = Some (nth (v_k s) Ts [])).
        { apply nth_error_nth'. lia. }
        rewrite (firstn_S_nth_error _ _ _ Hn), map_app, concat_app. cbn [map concat]. rewrite app_nil_r.
        rewrite app_assoc. reflexivity.
    + discriminate.
Qed.

Lemma vinv_run out0 Ts win : forall sched s, VInv out0 Ts s -> VInv out0 Ts (vrun win sched s).
Proof.
  induction sched as [|t r IH]; intros s I; cbn [vrun]; [exact I|].
  apply IH. unfold vstep_or_stay. destruct (vstep win t s) eqn:E; [|exact I]. eapply vinv_step; eauto.
Qed.

Lemma vinv_reachable out0 Ts win sched : VInv out0 Ts (vrun win sched (vinit out0 Ts)).
Proof. apply vinv_run. apply vinv_init. Qed.

(* ---------------------------------------------------------------- order *)
Theorem converter_order : forall win out0 Ts sched,
  let s := vrun win sched (vinit out0 Ts) in
  (exists n, v_file s = out0 ++ concat (map (@concat N) (firstn n Ts))) /\
  (vterminal s = true -> v_file s = seq_text out0 Ts).
Proof.
  intros win out0 Ts sched s. pose proof (vinv_reachable out0 Ts win sched) as I. fold s in I. split.
  - exists (v_k s). apply (vi_file _ _ _ I).
  - unfold vterminal. destruct (v_pc s) eqn:Hpc; try discriminate. intros _.
    rewrite (vi_file _ _ _ I), (vi_done _ _ _ I Hpc), firstn_all. reflexivity.
Qed.

(* ---------------------------------------------------------------- progress *)
Lemma file_task_enabled win s k c : (k < v_spawned s)%nat -> nth_error (v_chroms s) k = Some c -> v_closed c = false ->
  exists t s', vstep win t s = Some s'.
Proof.
  intros Hk En Ec. exists (VFile k). cbn [vstep]. apply Nat.ltb_lt in Hk. rewrite Hk, En. unfold file_step. rewrite Ec.
  destruct (v_todo c); eexists; reflexivity.
Qed.

Lemma join_side_enabled win out0 Ts s : VInv out0 Ts s -> v_join_done s = false ->
  ((v_joined s < v_spawned s)%nat \/ v_drv_done s = true) -> exists t s', vstep win t s = Some s'.
Proof.
  intros I Hjd Hor. pose proof (vi_len _ _ _ I) as HL. pose proof (vi_spawned _ _ _ I) as HS.
  destruct (v_joined s <? v_spawned s)%nat eqn:Hlt.
  - apply Nat.ltb_lt in Hlt.
    destruct (nth_error (v_chroms s) (v_joined s)) as [c|] eqn:En.
    2:{ apply nth_error_None in En. lia. }
    destruct (v_closed c) eqn:Ec.
    + exists VJoin. cbn [vstep]. apply Nat.ltb_lt in Hlt. rewrite Hjd, Hlt, En, Ec. eexists; reflexivity.
    + apply (file_task_enabled win s _ c Hlt En Ec).
  - destruct Hor as [H|Hd]; [apply Nat.ltb_ge in Hlt; lia|].
    exists VJoin. cbn [vstep]. rewrite Hjd, Hlt, Hd. eexists; reflexivity.
Qed.

Lemma vinv_progress out0 Ts win s : (1 <= win)%nat -> VInv out0 Ts s -> vterminal s = false ->
  exists t s', vstep win t s = Some s'.
Proof.
  intros Hwin I Ht. pose proof (vi_len _ _ _ I) as HL. pose proof (vi_spawned _ _ _ I) as HS.
  pose proof (vi_joined _ _ _ I) as HJ.
  destruct (v_pc s) eqn:Hpc.
  - destruct (v_k s <? v_spawned s)%nat eqn:Hlt.
    + exists VMain. cbn [vstep]. rewrite Hpc, Hlt. eexists; reflexivity.
    + destruct (v_drv_done s) eqn:Hd.
      * destruct (v_join_done s) eqn:Hjd.
        -- exists VMain. cbn [vstep]. rewrite Hpc, Hlt, Hd, Hjd. eexists; reflexivity.
        -- apply (join_side_enabled win out0 Ts s I Hjd). auto.
      * destruct (v_spawned s <? length (v_chroms s))%nat eqn:Hsp.
        -- destruct (v_spawned s - v_joined s <? win)%nat eqn:Hw.
           ++ exists VDriver. cbn [vstep]. rewrite Hd, Hsp, Hw. eexists; reflexivity.
           ++ apply Nat.ltb_ge in Hw.
              assert (Hjd : v_join_done s = false).
              { destruct (v_join_done s) eqn:E; [|reflexivity]. destruct (vi_join _ _ _ I E). congruence. }
              apply (join_side_enabled win out0 Ts s I Hjd). left. lia.
        -- exists VDriver. cbn [vstep]. rewrite Hd, Hsp. eexists; reflexivity.
  - pose proof (vi_mid _ _ _ I (or_introl Hpc)) as Hmid.
    destruct (nth_error (v_chroms s) (v_k s)) as [c|] eqn:En.
    2:{ apply nth_error_None in En. lia. }
    destruct (v_closed c) eqn:Ec.
    + exists VMain. cbn [vstep]. rewrite Hpc, En, Ec. eexists; reflexivity.
    + apply (file_task_enabled win s _ c Hmid En Ec).
  - pose proof (vi_mid _ _ _ I (or_intror Hpc)) as Hmid.
    destruct (nth_error (v_chroms s) (v_k s)) as [c|] eqn:En.
    2:{ apply nth_error_None in En. lia. }
    pose proof (vi_await _ _ _ I Hpc c En) as Ec.
    exists VMain. cbn [vstep]. rewrite Hpc, En, Ec. eexists; reflexivity.
  - unfold vterminal in Ht. rewrite Hpc in Ht. discriminate.
Qed.

Theorem converter_progress : forall win out0 Ts sched, (1 <= win)%nat ->
  let s := vrun win sched (vinit out0 Ts) in
  vterminal s = false -> exists t s', vstep win t s = Some s'.
Proof. intros win out0 Ts sched Hwin s Ht. apply (vinv_progress out0 Ts win s Hwin); [apply vinv_reachable|exact Ht]. Qed.

(* await_real_file is only reached once is_real_file_ready answered true: it never blocks *)
Theorem converter_await_never_blocks : forall win out0 Ts sched,
  let s := vrun win sched (vinit out0 Ts) in
  v_pc s = VAwait -> exists s', vstep win VMain s = Some s'.
Proof.
  intros win out0 Ts sched s Hpc. pose proof (vinv_reachable out0 Ts win sched) as I. fold s in I.
  pose proof (vi_mid _ _ _ I (or_intror Hpc)) as Hmid. pose proof (vi_len _ _ _ I) as HL.
  pose proof (vi_spawned _ _ _ I) as HS.
  destruct (nth_error (v_chroms s) (v_k s)) as [c|] eqn:En.
  2:{ apply nth_error_None in En. lia. }
  pose proof (vi_await _ _ _ I Hpc c En) as Ec. cbn [vstep]. rewrite Hpc, En, Ec. eexists; reflexivity.
Qed.

(* ---------------------------------------------------------------- completion *)
Definition vcmeasure (c : vchrom) : nat := (length (v_todo c) + (if v_closed c then 0 else 1))%nat.
Fixpoint vsum (l : list nat) : nat := match l with [] => 0%nat | x :: r => (x + vsum r)%nat end.
Definition vpc_left (p : vpc) : nat := match p with VRecv => 3 | VPoll => 2 | VAwait => 1 | VDone => 0 end%nat.
Definition vmeasure (s : vst) : nat :=
  (vsum (map vcmeasure (v_chroms s)) + (length (v_chroms s) - v_spawned s) + (length (v_chroms s) - v_joined s) +
   (if v_drv_done s then 0 else 1) + (if v_join_done s then 0 else 1) +
   (3 * (length (v_chroms s) - v_k s) + vpc_left (v_pc s)))%nat.

Lemma vsum_set_nth : forall (l : list vchrom) k c c', nth_error l k = Some c ->
  (vsum (map vcmeasure (set_nth k c' l)) + vcmeasure c = vsum (map vcmeasure l) + vcmeasure c')%nat.
Proof.
  induction l as [|x r IH]; intros [|k] c c' Hn; cbn [nth_error] in Hn; try discriminate.
  - inversion Hn; subst x. cbn [set_nth map vsum]. lia.
  - cbn [set_nth map vsum]. specialize (IH k c c' Hn). lia.
Qed.

Lemma vstep_measure win t s s' : vstep win t s = Some s' -> (vmeasure s' < vmeasure s)%nat.
Proof.
  destruct t as [| |k|]; cbn [vstep].
  - destruct (v_drv_done s) eqn:Hd; [discriminate|].
    destruct (v_spawned s <? length (v_chroms s))%nat eqn:Hlt.
    + apply Nat.ltb_lt in Hlt. destruct (v_spawned s - v_joined s <? win)%nat; [|discriminate].
      intros H. inversion H; subst s'; clear H. unfold vmeasure.
      cbn [v_chroms v_spawned v_joined v_drv_done v_join_done v_k v_pc]. rewrite Hd. lia.
    + intros H. inversion H; subst s'; clear H. unfold vmeasure.
      cbn [v_chroms v_spawned v_joined v_drv_done v_join_done v_k v_pc]. rewrite Hd. lia.
  - destruct (v_join_done s) eqn:Hjd; [discriminate|].
    destruct (v_joined s <? v_spawned s)%nat eqn:Hlt.
    + destruct (nth_error (v_chroms s) (v_joined s)) as [c|] eqn:En; [|discriminate].
      destruct (v_closed c); [|discriminate]. intros H. inversion H; subst s'; clear H. unfold vmeasure.
      cbn [v_chroms v_spawned v_joined v_drv_done v_join_done v_k v_pc]. rewrite Hjd. apply nth_error_lt in En. lia.
    + destruct (v_drv_done s); [|discriminate]. intros H. inversion H; subst s'; clear H. unfold vmeasure.
      cbn [v_chroms v_spawned v_joined v_drv_done v_join_done v_k v_pc]. rewrite Hjd. lia.
  - destruct (k <? v_spawned s)%nat; [|discriminate].
    destruct (nth_error (v_chroms s) k) as [c|] eqn:En; [|discriminate].
    destruct (file_step c) as [c'|] eqn:Ef; [|discriminate].
    intros H. inversion H; subst s'; clear H. unfold vmeasure.
    cbn [v_chroms v_spawned v_joined v_drv_done v_join_done v_k v_pc]. rewrite set_nth_length.
    pose proof (vsum_set_nth _ k c c' En).
    assert (vcmeasure c' < vcmeasure c)%nat.
    { unfold file_step in Ef. destruct (v_closed c) eqn:Ec; [discriminate|].
      destruct (v_todo c) eqn:Et; inversion Ef; unfold vcmeasure; cbn [v_todo v_closed]; rewrite Ec, Et; cbn [length]; lia. }
    lia.
  - destruct (v_pc s) eqn:Hpc.
    + destruct (v_k s <? v_spawned s)%nat.
      * intros H. inversion H; subst s'; clear H. unfold vmeasure.
        cbn [v_chroms v_spawned v_joined v_drv_done v_join_done v_k v_pc]. rewrite Hpc. cbn [vpc_left]. lia.
      * destruct (v_drv_done s && v_join_done s); [|discriminate]. intros H. inversion H; subst s'; clear H. unfold vmeasure.
        cbn [v_chroms v_spawned v_joined v_drv_done v_join_done v_k v_pc]. rewrite Hpc. cbn [vpc_left]. lia.
    + destruct (nth_error (v_chroms s) (v_k s)) as [c|]; [|discriminate]. destruct (v_closed c); [|discriminate].
      intros H. inversion H; subst s'; clear H. unfold vmeasure.
      cbn [v_chroms v_spawned v_joined v_drv_done v_join_done v_k v_pc]. rewrite Hpc. cbn [vpc_left]. lia.
    + destruct (nth_error (v_chroms s) (v_k s)) as [c|] eqn:En; [|discriminate]. destruct (v_closed c); [|discriminate].
      intros H. inversion H; subst s'; clear H. unfold vmeasure.
      cbn [v_chroms v_spawned v_joined v_drv_done v_join_done v_k v_pc]. rewrite Hpc. apply nth_error_lt in En.
      cbn [vpc_left]. lia.
    + discriminate.
Qed.

Lemma vrun_app win a : forall b s, vrun win (a ++ b) s = vrun win b (vrun win a s).
Proof. induction a as [|t r IH]; intros b s; cbn [app vrun]; [reflexivity|apply IH]. Qed.

Lemma vinv_completion out0 Ts win : (1 <= win)%nat ->
  forall n s, (vmeasure s <= n)%nat -> VInv out0 Ts s -> exists more, vterminal (vrun win more s) = true.
Proof.
  intros Hwin. induction n as [|n IH]; intros s Hm I.
  - destruct (vterminal s) eqn:Ht; [exists []; exact Ht|].
    destruct (vinv_progress out0 Ts win s Hwin I Ht) as [t [s' Hs]].
    pose proof (vstep_measure win t s s' Hs). lia.
  - destruct (vterminal s) eqn:Ht; [exists []; exact Ht|].
    destruct (vinv_progress out0 Ts win s Hwin I Ht) as [t [s' Hs]].
    pose proof (vstep_measure win t s s' Hs) as Hlt.
    destruct (IH s') as [more Hmore]; [lia|eapply vinv_step; eauto|].
    exists (t :: more). cbn [vrun]. unfold vstep_or_stay. rewrite Hs. exact Hmore.
Qed.

Theorem converter_completion : forall win out0 Ts sched, (1 <= win)%nat ->
  exists more, vterminal (vrun win (sched ++ more) (vinit out0 Ts)) = true.
Proof.
  intros win out0 Ts sched Hwin.
  destruct (vinv_completion out0 Ts win Hwin _ (vrun win sched (vinit out0 Ts)) (Nat.le_refl _)
              (vinv_reachable out0 Ts win sched)) as [more H].
  exists more. rewrite vrun_app. exact H.
Qed.
