(* C20: bin geometry (bin_edge / bin_index of Model/PyArrays.v) and small list lemmas used by the
   proofs about the array routines. *)
From BT Require Import Base.Util Model.PyArrays.
Local Open Scope Z_scope.

(* ---- bin geometry *)
Lemma to_usize_nonneg : forall z, 0 <= z -> to_usize z = z.
Proof. intros z Hz. unfold to_usize. destruct (Z.ltb_spec z 0); [exfalso; lia | reflexivity]. Qed.

Lemma bin_edge_div : forall k span bins, 0 <= k -> 0 <= span -> 0 < bins ->
  bin_edge k span bins = (k * span) / bins.
Proof. intros. unfold bin_edge. apply Z.quot_div_nonneg; nia. Qed.

Lemma bin_edge_0 : forall span bins, bin_edge 0 span bins = 0.
Proof. intros. unfold bin_edge. rewrite Z.mul_0_l. destruct bins; reflexivity. Qed.

Lemma bin_edge_last : forall span bins, 0 <= span -> 0 < bins -> bin_edge bins span bins = span.
Proof.
  intros. rewrite bin_edge_div by lia. rewrite Z.mul_comm. apply Z.div_mul. lia.
Qed.

Lemma bin_edge_mono : forall a b span bins, 0 <= a <= b -> 0 <= span -> 0 < bins ->
  bin_edge a span bins <= bin_edge b span bins.
Proof.
  intros. rewrite !bin_edge_div by lia. apply Z.div_le_mono; nia.
Qed.

Lemma bin_edge_nonneg : forall k span bins, 0 <= k -> 0 <= span -> 0 < bins -> 0 <= bin_edge k span bins.
Proof. intros. rewrite bin_edge_div by lia. apply Z.div_pos; nia. Qed.

(* with at most one bin per base no bin is empty *)
Lemma bin_edge_strict : forall k span bins, 0 <= k -> 0 < bins <= span ->
  bin_edge k span bins < bin_edge (k + 1) span bins.
Proof.
  intros k span bins Hk Hb. rewrite !bin_edge_div by lia.
  assert (H1 : (k * span) / bins + 1 <= ((k + 1) * span) / bins).
  { replace ((k * span) / bins + 1) with ((k * span + 1 * bins) / bins) by (rewrite Z.div_add by lia; reflexivity).
    apply Z.div_le_mono; nia. }
  lia.
Qed.

Lemma bin_edge_le_span : forall k span bins, 0 <= k <= bins -> 0 <= span -> 0 < bins ->
  bin_edge k span bins <= span.
Proof.
  intros. rewrite <- (bin_edge_last span bins) at 2 by lia. apply bin_edge_mono; lia.
Qed.

Lemma bin_index_div : forall pos span bins, 0 <= pos -> 0 < span -> 0 < bins ->
  bin_index pos span bins = ((pos + 1) * bins - 1) / span.
Proof.
  intros. unfold bin_index. rewrite Z.quot_div_nonneg by nia.
  apply to_usize_nonneg. apply Z.div_pos; nia.
Qed.

(* bin_index pos is THE bin whose span holds the base at offset pos *)
Lemma bin_index_spec : forall pos span bins, 0 <= pos < span -> 0 < bins ->
  let k := bin_index pos span bins in
  0 <= k < bins /\ bin_edge k span bins <= pos < bin_edge (k + 1) span bins.
Proof.
  intros pos span bins Hp Hb k. subst k. rewrite bin_index_div by lia.
  set (q := ((pos + 1) * bins - 1) / span).
  assert (Hq0 : 0 <= q) by (apply Z.div_pos; nia).
  assert (Hlo : q * span <= (pos + 1) * bins - 1).
  { unfold q. rewrite Z.mul_comm. apply Z.mul_div_le. lia. }
  assert (Hhi : (pos + 1) * bins - 1 < (q + 1) * span).
  { unfold q. pose proof (Z.mod_pos_bound ((pos + 1) * bins - 1) span ltac:(lia)) as Hm.
    pose proof (Z.div_mod ((pos + 1) * bins - 1) span ltac:(lia)) as Hd. nia. }
  split; [split; [exact Hq0|]|split].
  - apply Z.div_lt_upper_bound; nia.
  - rewrite bin_edge_div by lia. assert (q * span / bins < pos + 1); [|lia].
    apply Z.div_lt_upper_bound; nia.
  - rewrite bin_edge_div by lia. assert (pos + 1 <= (q + 1) * span / bins); [|lia].
    apply Z.div_le_lower_bound; nia.
Qed.

Lemma bin_index_unique : forall k pos span bins, 0 <= pos < span -> 0 < bins -> 0 <= k ->
  bin_edge k span bins <= pos < bin_edge (k + 1) span bins -> bin_index pos span bins = k.
Proof.
  intros k pos span bins Hp Hb Hk [H1 H2].
  destruct (bin_index_spec pos span bins Hp Hb) as [[Hq0 Hq1] [H3 H4]].
  set (q := bin_index pos span bins) in *.
  destruct (Z.lt_trichotomy q k) as [Hlt | [Heq | Hgt]]; [|exact Heq|].
  - exfalso. pose proof (bin_edge_mono (q + 1) k span bins ltac:(lia) ltac:(lia) Hb). lia.
  - exfalso. pose proof (bin_edge_mono (k + 1) q span bins ltac:(lia) ltac:(lia) Hb). lia.
Qed.

Lemma bin_index_mono : forall p1 p2 span bins, 0 <= p1 <= p2 -> p2 < span -> 0 < bins ->
  bin_index p1 span bins <= bin_index p2 span bins.
Proof.
  intros p1 p2 span bins H1 H2 Hb. rewrite !bin_index_div by lia. apply Z.div_le_mono; [lia|].
  assert ((p1 + 1) * bins <= (p2 + 1) * bins) by (apply Z.mul_le_mono_nonneg_r; lia). lia.
Qed.

(* a bin lies at or before the one holding pos iff it starts at or before pos *)
Lemma bin_le_index_iff : forall k pos span bins, 0 <= pos < span -> 0 < bins -> 0 <= k ->
  (k <= bin_index pos span bins <-> bin_edge k span bins <= pos).
Proof.
  intros k pos span bins Hp Hb Hk.
  destruct (bin_index_spec pos span bins Hp Hb) as [[Hq0 Hq1] [H3 H4]].
  set (q := bin_index pos span bins) in *. split; intro H.
  - pose proof (bin_edge_mono k q span bins ltac:(lia) ltac:(lia) Hb). lia.
  - destruct (Z.le_gt_cases k q) as [Hle | Hgt]; [exact Hle|].
    exfalso. pose proof (bin_edge_mono (q + 1) k span bins ltac:(lia) ltac:(lia) Hb). lia.
Qed.

(* ---- seqZ *)
Lemma seqZ_length : forall n a, length (seqZ a n) = n.
Proof. induction n as [|n IH]; intro a; cbn [seqZ length]; [reflexivity | rewrite IH; reflexivity]. Qed.

Lemma seqZ_app : forall n m a, seqZ a (n + m) = seqZ a n ++ seqZ (a + Z.of_nat n) m.
Proof.
  induction n as [|n IH]; intros m a.
  - cbn [seqZ Nat.add app Z.of_nat]. rewrite Z.add_0_r. reflexivity.
  - cbn [seqZ Nat.add app]. rewrite IH.
    replace (a + Z.of_nat (S n)) with (a + 1 + Z.of_nat n) by lia. reflexivity.
Qed.

Lemma seqZ_nth : forall n a i d, (i < n)%nat -> nth i (seqZ a n) d = a + Z.of_nat i.
Proof.
  induction n as [|n IH]; intros a i d Hi; [exfalso; lia|].
  destruct i as [|i]; cbn [seqZ nth]; [lia|]. rewrite IH by lia. lia.
Qed.

Lemma seqZ_In : forall n a x, In x (seqZ a n) <-> a <= x < a + Z.of_nat n.
Proof.
  induction n as [|n IH]; intros a x; cbn [seqZ In].
  - split; [intros []|lia].
  - rewrite IH. lia.
Qed.

Lemma seqZ_map_shift : forall n a c, seqZ (a + c) n = map (fun x => x + c) (seqZ a n).
Proof.
  induction n as [|n IH]; intros a c; cbn [seqZ map]; [reflexivity|].
  f_equal. rewrite <- IH. f_equal. lia.
Qed.

(* splitting a Z range at a point *)
Lemma seqZ_split : forall lo mid hi, lo <= mid <= hi ->
  seqZ lo (Z.to_nat (hi - lo)) = seqZ lo (Z.to_nat (mid - lo)) ++ seqZ mid (Z.to_nat (hi - mid)).
Proof.
  intros lo mid hi H. replace (Z.to_nat (hi - lo)) with (Z.to_nat (mid - lo) + Z.to_nat (hi - mid))%nat by lia.
  rewrite seqZ_app. replace (lo + Z.of_nat (Z.to_nat (mid - lo))) with mid by lia. reflexivity.
Qed.

(* ---- nth-extensionality for lists *)
Lemma list_ext : forall {X} (d : X) (l1 l2 : list X), length l1 = length l2 ->
  (forall i, (i < length l1)%nat -> nth i l1 d = nth i l2 d) -> l1 = l2.
Proof.
  intros X d. induction l1 as [|x l1 IH]; intros [|y l2] Hl H; cbn [length] in *; try discriminate; [reflexivity|].
  f_equal.
  - apply (H 0%nat). lia.
  - apply IH; [lia|]. intros i Hi. apply (H (S i)). lia.
Qed.

(* ---- map_range / set_nth *)
Lemma map_range_length : forall {X} (f : X -> X) l a n, length (map_range f a n l) = length l.
Proof.
  intros X f. induction l as [|x l IH]; intros a n; cbn [map_range length]; [reflexivity|].
  destruct a as [|a]; [destruct n as [|n]|]; cbn [length]; try rewrite IH; reflexivity.
Qed.

Lemma map_range_nth : forall {X} (f : X -> X) d l a n i, (i < length l)%nat ->
  nth i (map_range f a n l) d = if (a <=? i)%nat && (i <? a + n)%nat then f (nth i l d) else nth i l d.
Proof.
  intros X f d. induction l as [|x l IH]; intros a n i Hi; cbn [length] in Hi; [exfalso; lia|].
  cbn [map_range]. destruct a as [|a].
  - destruct n as [|n].
    + cbn [Nat.leb andb Nat.add]. destruct (Nat.ltb_spec i 0); [exfalso; lia|reflexivity].
    + destruct i as [|i]; cbn [nth]; [reflexivity|].
      rewrite IH by lia. cbn [Nat.leb andb Nat.add].
      destruct (Nat.ltb_spec i n), (Nat.ltb_spec (S i) (S n)); try reflexivity; exfalso; lia.
  - destruct i as [|i]; cbn [nth]; [reflexivity|].
    rewrite IH by lia.
    destruct (Nat.leb_spec a i), (Nat.leb_spec (S a) (S i)); try (exfalso; lia); cbn [andb]; [|reflexivity].
    destruct (Nat.ltb_spec i (a + n)), (Nat.ltb_spec (S i) (S a + n)); try reflexivity; exfalso; lia.
Qed.

Lemma set_nth_length : forall {X} (x : X) l i, length (set_nth i x l) = length l.
Proof.
  intros X x. induction l as [|y l IH]; intros i; destruct i; cbn [set_nth length]; try reflexivity.
  rewrite IH. reflexivity.
Qed.

Lemma set_nth_nth : forall {X} (x d : X) l i j, (i < length l)%nat ->
  nth j (set_nth i x l) d = if (j =? i)%nat then x else nth j l d.
Proof.
  intros X x d. induction l as [|y l IH]; intros i j Hi; cbn [length] in Hi; [exfalso; lia|].
  destruct i as [|i]; destruct j as [|j]; cbn [set_nth nth Nat.eqb]; try reflexivity.
  apply IH. lia.
Qed.
