(* C07 in IEEE arithmetic.  Proofs/ZoomThms.v characterises every zoom record, for every mode fp, as the
   fold of the accumulation steps over the contributions of the stored values to its span
   ([stats_of fp r cs]); Proofs/ZoomExact.v reads the exact-mode fold as rational sums ([exact_stats]).
   Here: when the stored values lie on a grid 2^G and the chromosome's  sum len*|val|  and  sum len*val^2
   stay below 2^53 grid units, the IEEE folds denote the same numbers, so the records of the IEEE run
   (the one compared bit for bit with the implementation) have the exact statistics. *)
From Coq Require Import QArith Qpower.
From BT Require Import Base.Util Base.Float Model.RTree Model.BBIFile Model.BigWigWrite Model.BBIRead
  Proofs.BigWigQuery Proofs.ZoomLoop Proofs.ZoomInv Proofs.ZoomThms Proofs.ZoomExact Proofs.BwSummary Proofs.C06FileFloat
  Proofs.ZoomReadCodec Proofs.FloatExact.
Local Open Scope Z_scope.

(* the rational a value denotes does not depend on the carrier pair *)
Lemma pow_q m k : 0 <= k -> inject_Z (m * 2 ^ k) == inject_Z m * q2 k.
Proof. intros Hk. rewrite <- Z.shiftl_mul_pow2 by exact Hk. apply shiftl_q. exact Hk. Qed.
Lemma same_num_qval a b : same_num a b -> qval a == qval b.
Proof.
  destruct a as [m1 e1| |s], b as [m2 e2| |t]; cbn [same_num]; try tauto; try reflexivity.
  intros H. cbn [qval]. set (mn := Z.min e1 e2) in *.
  assert (A1 : q2 e1 == q2 (e1 - mn) * q2 mn) by (rewrite <- q2_add; replace (e1 - mn + mn) with e1 by lia; reflexivity).
  assert (A2 : q2 e2 == q2 (e2 - mn) * q2 mn) by (rewrite <- q2_add; replace (e2 - mn + mn) with e2 by lia; reflexivity).
  rewrite A1, A2, !Qmult_assoc. rewrite <- (pow_q m1) by (unfold mn; lia). rewrite <- (pow_q m2) by (unfold mn; lia).
  rewrite H. reflexivity.
Qed.

(* the contributions of values in the domain are in the domain *)
Section Contribs.
Variables (E G : Z) (s e : N).
Let pk (p : piece) : Z := gk E G (p_val p).

Lemma contribs_grid vals : Forall (vgrid E G) vals -> Forall (fun p => on_grid E G (p_val p)) (contribs s e vals).
Proof.
  intros H. rewrite Forall_forall. intros p Hp. apply contribs_spec in Hp. destruct Hp as (v & Hv & -> & _).
  rewrite Forall_forall in H. exact (H v Hv).
Qed.
Lemma contribs_bounds vals :
  kabs plen pk (contribs s e vals) <= gabs E G vals /\ ksq plen pk (contribs s e vals) <= gsq E G vals.
Proof.
  unfold gabs, gsq, contribs. induction vals as [|v r IH]; [cbn; lia|]. cbn [flat_map].
  rewrite kabs_app, ksq_app. destruct IH as (I1 & I2).
  assert (H : kabs plen pk (contrib s e v) <= Z.of_N (vlenN v) * Z.abs (vk E G v) /\
              ksq plen pk (contrib s e v) <= Z.of_N (vlenN v) * vk E G v * vk E G v).
  { unfold contrib. cbv zeta. destruct (N.ltb_spec (N.max (v_start v) s) (N.min (v_end v) e)) as [Hlt|Hge].
    - unfold kabs, ksq. cbn [map zsum fold_right]. unfold pk, plen, p_val, p_end, p_start, vk, vlenN. cbn [fst snd].
      set (k := gk E G (v_val v)).
      assert (Hl : Z.of_N (N.min (v_end v) e - N.max (v_start v) s) <= Z.of_N (v_end v - v_start v)) by lia.
      assert (0 <= Z.of_N (N.min (v_end v) e - N.max (v_start v) s)) by lia.
      split; nia.
    - unfold kabs, ksq. cbn [map zsum fold_right]. pose proof (N2Z.is_nonneg (vlenN v)). split; nia. }
  unfold kabs at 3. unfold ksq at 3. cbn [map zsum fold_right].
  fold (zsum (map (fun t => Z.of_N (vlenN t) * Z.abs (vk E G t)) r)). fold (zsum (map (fun t => Z.of_N (vlenN t) * vk E G t * vk E G t) r)).
  destruct H as (H1 & H2). unfold kabs, ksq in I1, I2, H1, H2 |- *. cbn [zsum fold_right] in *. unfold zsum in *. lia.
Qed.
End Contribs.

(* a record that is the IEEE fold of contributions on the grid, within the bound, has the exact statistics *)
Lemma stats_of_ieee_exact E G r cs : grid_ok E G ->
  Forall (fun p => on_grid E G (p_val p)) cs ->
  kabs plen (fun p => gk E G (p_val p)) cs < P53 -> ksq plen (fun p => gk E G (p_val p)) cs < P53 ->
  stats_of ieee r cs ->
  exact_stats r cs /\
  gval E G (su_sum (z_sum r)) (ksum plen (fun p => gk E G (p_val p)) cs) /\
  gval (E + E) (G + G) (su_sumsq (z_sum r)) (ksq plen (fun p => gk E G (p_val p)) cs) /\
  same_num (su_sum (z_sum r)) (fold_left (sum_step exact) cs fzero) /\
  same_num (su_sumsq (z_sum r)) (fold_left (sumsq_step exact) cs fzero).
Proof.
  intros Hok Hg B1 B2 Hs. destruct cs as [|p0 cs0]; [destruct Hs|]. set (cs := p0 :: cs0) in *.
  destruct Hs as [_ [_ [Hmin [Hmax [Hsum Hsq]]]]].
  destruct (fold_sum_ieee_exact plen p_val E G cs (proj2 (proj2 (grid_ok_modes E G Hok))) Hg B1) as (S1 & S2 & S3).
  destruct (fold_sq_ieee_exact plen p_val E G cs Hok Hg B2) as (Q1 & Q2 & Q3).
  change (fold_left (step_sum plen p_val ieee) cs fzero) with (fold_left (sum_step ieee) cs fzero) in S1, S3.
  change (fold_left (step_sum plen p_val exact) cs fzero) with (fold_left (sum_step exact) cs fzero) in S2, S3.
  change (fold_left (step_sq plen p_val ieee) cs fzero) with (fold_left (sumsq_step ieee) cs fzero) in Q1, Q3.
  change (fold_left (step_sq plen p_val exact) cs fzero) with (fold_left (sumsq_step exact) cs fzero) in Q2, Q3.
  assert (Hf : Forall (fun p => finite (p_val p)) cs).
  { eapply Forall_impl; [|exact Hg]. intros p (F & _). destruct (p_val p) as [m e0| |]; cbn [fin_ge] in F; try contradiction.
    exists m, e0. reflexivity. }
  assert (Hz : finite fzero) by (exists 0, 0; reflexivity).
  assert (Hp0 : finite (p_val p0)) by (inversion Hf; assumption).
  destruct (sum_fold_exact cs fzero Hz Hf) as [_ H1]. destruct (sumsq_fold_exact cs fzero Hz Hf) as [_ H2].
  destruct (min_fold_exact cs (p_val p0) Hp0 Hf) as [_ [Hw3 [_ H3]]].
  destruct (max_fold_exact cs (p_val p0) Hp0 Hf) as [_ [Hw4 [_ H4]]]. cbv zeta in *.
  rewrite <- Hsum in S1, S3. rewrite <- Hsq in Q1, Q3.
  split; [|split; [exact S1|split; [exact Q1|split; [exact S3|exact Q3]]]].
  unfold exact_stats. rewrite Hmin, Hmax. split; [|split; [|split; [|split; [|split]]]].
  - rewrite (same_num_qval _ _ S3), H1. cbn [qval fzero]. ring.
  - rewrite (same_num_qval _ _ Q3), H2. cbn [qval fzero]. ring.
  - destruct Hw3 as [->|Hw]; [exists p0; split; [now left|reflexivity]|exact Hw].
  - exact H3.
  - destruct Hw4 as [->|Hw]; [exists p0; split; [now left|reflexivity]|exact Hw].
  - exact H4.
Qed.

Open Scope N_scope.
(* C07_stats_ieee_on_grid: the records the IEEE run produces have the statistics C07_stats_exact states for
   the exact run; sum and sum of squares are grid numbers (given), hence binary64 values *)
Theorem zoom_stats_ieee_on_grid E G ips size chrom len vals st : 1 <= size -> wf_vals len vals ->
  grid_ok E G -> Forall (vgrid E G) vals -> (gabs E G vals < P53)%Z -> (gsq E G vals < P53)%Z ->
  zoom_chrom ieee ips size chrom vals zstate0 = Ok st ->
  Forall (fun r => let cs := contribs (z_start r) (z_end r) vals in
            exact_stats r cs /\
            gval E G (su_sum (z_sum r)) (ksum plen (fun p => gk E G (p_val p)) cs) /\
            gval (E + E) (G + G) (su_sumsq (z_sum r)) (ksq plen (fun p => gk E G (p_val p)) cs))
         (concat (zs_out st)).
Proof.
  intros Hsz Hwf Hok Hg B1 B2 Hrun.
  pose proof (zoom_stats ieee ips size chrom len vals st Hsz Hwf Hrun) as H.
  eapply Forall_impl; [|exact H]. cbv beta zeta. intros r [_ Hs].
  pose proof (contribs_bounds E G (z_start r) (z_end r) vals) as K. cbv zeta in K. destruct K as (K1 & K2).
  destruct (stats_of_ieee_exact E G r (contribs (z_start r) (z_end r) vals) Hok (contribs_grid E G _ _ vals Hg) ltac:(lia) ltac:(lia) Hs) as (X & S & Q & _).
  split; [exact X|]. split; assumption.
Qed.

(* ... and they are, field by field, the numbers of the records of the exact run (same spans, same covered
   counts, same extremes; sum and sum of squares denote the same numbers) *)
Theorem zoom_ieee_exact_records E G ips size chrom len vals st st' : 1 <= size -> wf_vals len vals ->
  grid_ok E G -> Forall (vgrid E G) vals -> (gabs E G vals < P53)%Z -> (gsq E G vals < P53)%Z ->
  zoom_chrom ieee ips size chrom vals zstate0 = Ok st -> zoom_chrom exact ips size chrom vals zstate0 = Ok st' ->
  Forall (fun r => forall r', In r' (concat (zs_out st')) -> z_start r' = z_start r -> z_end r' = z_end r ->
            su_items (z_sum r) = su_items (z_sum r') /\ su_bases (z_sum r) = su_bases (z_sum r') /\
            su_min (z_sum r) = su_min (z_sum r') /\ su_max (z_sum r) = su_max (z_sum r') /\
            same_num (su_sum (z_sum r)) (su_sum (z_sum r')) /\ same_num (su_sumsq (z_sum r)) (su_sumsq (z_sum r')))
         (concat (zs_out st)).
Proof.
  intros Hsz Hwf Hok Hg B1 B2 Hrun Hrun'.
  pose proof (zoom_stats ieee ips size chrom len vals st Hsz Hwf Hrun) as H.
  pose proof (zoom_stats exact ips size chrom len vals st' Hsz Hwf Hrun') as H'.
  eapply Forall_impl; [|exact H]. cbv beta zeta. intros r [_ Hs] r' Hin' Es Ee.
  rewrite Forall_forall in H'. destruct (H' r' Hin') as [_ Hs']. cbv zeta in Hs'. rewrite Es, Ee in Hs'.
  pose proof (contribs_bounds E G (z_start r) (z_end r) vals) as K. cbv zeta in K. destruct K as (K1 & K2).
  destruct (stats_of_ieee_exact E G r (contribs (z_start r) (z_end r) vals) Hok (contribs_grid E G _ _ vals Hg) ltac:(lia) ltac:(lia) Hs) as (_ & _ & _ & S & Q).
  destruct (contribs (z_start r) (z_end r) vals) as [|p0 cs0]; [destruct Hs|].
  destruct Hs as (A1 & A2 & A3 & A4 & _ & _). destruct Hs' as (B1' & B2' & B3 & B4 & B5 & B6).
  rewrite A1, A2, A3, A4, B1', B2', B3, B4, B5, B6. repeat split; assumption.
Qed.

(* what comes back from the file: a grid number below 2^24 grid units survives `as f32`, the f32 pattern
   and its decoding: the reader returns the exact sum (as a number) *)
Theorem stat_read_on_grid E G x k : (E <= 0)%Z -> (E <= G)%Z -> (-149 <= G <= 104)%Z -> (Z.abs k < 2 ^ 24)%Z ->
  gval E G x k -> same_num (stat_read ieee x) x.
Proof.
  intros HE HG HR Hk H. destruct (gval_finite _ _ _ _ H) as (M & E0 & -> & _).
  destruct (grid_to_f32_ieee E G _ k HE HG HR Hk H) as (_ & Hs).
  pose proof (f32_read_value_ieee M E0) as R. unfold stat_read, f32_rt.
  destruct (to_f32 ieee (FFin M E0)) as [m e0| |s] eqn:Et; [|destruct R|cbn [same_num] in Hs; destruct Hs].
  destruct R as (m' & e' & Er & Z0 & NZ). rewrite Er.
  eapply same_num_trans; [|exact Hs].
  destruct (Z.eq_dec m 0) as [->|Hm].
  - rewrite (Z0 eq_refl). cbn [same_num]. lia.
  - destruct (NZ Hm) as (L1 & L2 & V). apply (same_num_at (-149)); [lia|lia|].
    replace (e' - -149)%Z with (e' + 149)%Z by lia. replace (e0 - -149)%Z with (e0 + 149)%Z by lia. exact V.
Qed.

(* non-vacuity: the values of C07_example (1.0, 3.25, -1.0; resolution 10) are in the generator domain;
   the IEEE run's second record [12,14) holds sum 6.5 = 52/8 and sumsq 21.125 = 1352/64 (the first: 16.75 and 38.6875) *)
Example zoom_on_grid_example :
  let vals := [ {| v_start := 2; v_end := 9; v_bits := 1065353216 |}; {| v_start := 9; v_end := 14; v_bits := 1078984704 |};
                {| v_start := 30; v_end := 31; v_bits := 3212836864 |} ] in
  in_exact_domain vals = true /\ wf_vals 40 vals /\
  exists st, zoom_chrom ieee 2 10 0 vals zstate0 = Ok st /\
    map (fun r => (z_start r, z_end r, gk dom_E dom_G (su_sum (z_sum r)), gk (dom_E + dom_E) (dom_G + dom_G) (su_sumsq (z_sum r))))
        (concat (zs_out st)) = [(2, 12, 134%Z, 2476%Z); (12, 14, 52%Z, 1352%Z); (30, 31, (-8)%Z, 64%Z)].
Proof.
  cbv zeta. split; [vm_compute; reflexivity|]. split; [repeat (constructor; cbn; try lia)|].
  eexists. split; [vm_compute; reflexivity|]. vm_compute. reflexivity.
Qed.

(* the generator domain *)
Theorem zoom_stats_ieee_in_domain ips size chrom len vals st : 1 <= size -> wf_vals len vals ->
  in_exact_domain vals = true ->
  zoom_chrom ieee ips size chrom vals zstate0 = Ok st ->
  Forall (fun r => exact_stats r (contribs (z_start r) (z_end r) vals)) (concat (zs_out st)).
Proof.
  intros Hsz Hwf Hd Hrun. destruct (in_exact_domain_hyps vals Hd) as (Hok & Hg & B1 & B2).
  pose proof (zoom_stats_ieee_on_grid dom_E dom_G ips size chrom len vals st Hsz Hwf Hok Hg B1 B2 Hrun) as H.
  eapply Forall_impl; [|exact H]. cbv beta zeta. intros r (X & _). exact X.
Qed.
