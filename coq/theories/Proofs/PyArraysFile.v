(* C20 with the WRITTEN FILE as the subject.
   Model/PyArrays.v's wrappers [values_wig] / [values_bed] take the stored items of the chromosome and apply the
   reader's overlap filter to them ([fetch_wig]: strictly overlapping values, clipped; [fetch_bed]: whole entries).
   Here the middle is the reader model on a byte image: [values_wig_file] / [values_bed_file] are the same wrappers
   (chromosome length looked up in the table read from the file, fetch clamp [max s 0, max (min e len) 0) cast to
   u32, the array routine, the out-of-bounds block) with [bw_interval] / [bb_interval] on the bytes in place of the
   filter.  For the bytes returned by the writer models, C01_query_on_input / C04_written_file_query identify the
   reader's answer with the filter of the data that was WRITTEN, so the wrappers on the file are the wrappers on
   that data, and C20_per_base / C20_bins speak about the values / entries of the input.
   bigBed: the reader returns [filter (bkeep fs fe)], every entry that overlaps or merely touches the fetched range:
   that is [fetch_bed true]; C20's theorems hold for either [touch].
   [num : N -> Z] = the number (in eighths) a stored f32 bit pattern stands for; arbitrary. *)
From BT Require Import Base.Util Model.PyArrays Proofs.PyArraysGeom Proofs.PyArraysCover Proofs.PyArraysBed Proofs.PyArraysValues.
From BT Require Base.LE Base.Float Model.RTree Model.BBIFile Model.BigWigWrite Model.BBIRead Model.BigBedWrite Model.BBIReadBed.
From BT Require Proofs.Chunks Proofs.BigWigQuery Proofs.RTreeCodec Proofs.BigWigFile Proofs.BigWigFileChroms Proofs.BigWigFileRoundTrip
  Proofs.BigWigFileThms Proofs.BigWigFileInput.
From BT Require Proofs.BedQuery Proofs.BedEndToEnd Proofs.BedZoomFit.
Local Open Scope Z_scope.

Notation wvalue := BigWigWrite.value (only parsing).
Notation bname := BBIFile.name (only parsing).

(* ------------------------------------------------------------------ items as the array routines see them *)
Definition wv_of (num : N -> Z) (v : wvalue) : wval :=
  {| w_start := Z.of_N (BigWigWrite.v_start v); w_end := Z.of_N (BigWigWrite.v_end v); w_val := num (BigWigWrite.v_bits v) |}.
Definition be_of (x : BigBedWrite.entry) : bent :=
  {| b_start := Z.of_N (BigBedWrite.e_start x); b_end := Z.of_N (BigBedWrite.e_end x) |}.

(* `chroms().find(|x| x.name == chrom)`: the length the wrappers clamp against *)
Definition chrom_len (i : BBIRead.info) (c : bname) : option Z :=
  match find (fun ci => BBIFile.name_eqb (BBIRead.ci_name ci) c) (BBIRead.i_chroms i) with
  | Some ci => Some (Z.of_N (BBIRead.ci_len ci))
  | None => None
  end.
Definition E_NOCHROM_PY : N := 10%N.                    (* KeyError: unknown chromosome *)

(* intervals_to_array on a byte image: the reader is asked for [fs as u32, fe as u32) *)
Definition values_wig_file (num : N -> Z) (infl : list N -> list N) (bs : list N) (i : BBIRead.info) (c : bname)
           (s e : Z) (bins : option Z) (st : stat) (missing oob : fl) : res (list out) :=
  match chrom_len i c with
  | None => Err E_NOCHROM_PY
  | Some length =>
      if e <=? s then Err 9%N else
      let nbins := match bins with Some b => b | None => to_usize (e - s) end in
      let '(fs, fe) := clamp s e length in
      do got <- BBIRead.bw_interval infl bs i c (Z.to_N fs) (Z.to_N fe);
      let fetched := map (wv_of num) got in
      do arr <- match bins with
                | Some b => to_array_bins s e fetched st b missing (Z.to_nat nbins)
                | None => to_array s e fetched missing (Z.to_nat nbins)
                end;
      oob_fill s e length nbins oob arr
  end.
(* entries_to_array on a byte image *)
Definition values_bed_file (infl : list N -> list N) (f : list N) (i : BBIRead.info) (c : bname)
           (s e : Z) (bins : option Z) (st : stat) (missing oob : fl) : res (list out) :=
  match chrom_len i c with
  | None => Err E_NOCHROM_PY
  | Some length =>
      if e <=? s then Err 9%N else
      let nbins := match bins with Some b => b | None => to_usize (e - s) end in
      let '(fs, fe) := clamp s e length in
      do got <- BBIReadBed.bb_interval infl f i c (Z.to_N fs) (Z.to_N fe);
      let fetched := map be_of got in
      do arr <- match bins with
                | Some b => to_entry_array_bins s e fetched st b missing (Z.to_nat nbins)
                | None => to_entry_array s e fetched missing (Z.to_nat nbins)
                end;
      oob_fill s e length nbins oob arr
  end.

(* ------------------------------------------------------------------ the reader's filter IS the model's fetch *)
Lemma keep_wv num fs fe (v : wvalue) : 0 <= fs -> 0 <= fe ->
  BBIRead.keep (Z.to_N fs) (Z.to_N fe) v = ((fs <? w_end (wv_of num v)) && (w_start (wv_of num v) <? fe)).
Proof.
  intros Hs He. unfold BBIRead.keep, wv_of. cbn [w_start w_end]. f_equal.
  - destruct (N.ltb_spec (Z.to_N fs) (BigWigWrite.v_end v)), (Z.ltb_spec fs (Z.of_N (BigWigWrite.v_end v))); try reflexivity; exfalso; lia.
  - destruct (N.ltb_spec (BigWigWrite.v_start v) (Z.to_N fe)), (Z.ltb_spec (Z.of_N (BigWigWrite.v_start v)) fe); try reflexivity; exfalso; lia.
Qed.
Lemma clip_wv num fs fe (v : wvalue) : 0 <= fs -> 0 <= fe ->
  wv_of num (BBIRead.clip (Z.to_N fs) (Z.to_N fe) v) =
  {| w_start := Z.max (w_start (wv_of num v)) fs; w_end := Z.min (w_end (wv_of num v)) fe; w_val := w_val (wv_of num v) |}.
Proof.
  intros Hs He. unfold wv_of, BBIRead.clip. cbn [BigWigWrite.v_start BigWigWrite.v_end BigWigWrite.v_bits w_start w_end w_val].
  f_equal; lia.
Qed.

Lemma fetch_wig_of_clip num fs fe vals : 0 <= fs -> 0 <= fe ->
  map (wv_of num) (BBIRead.clip_filter (Z.to_N fs) (Z.to_N fe) vals) = fetch_wig (map (wv_of num) vals) fs fe.
Proof.
  intros Hs He. unfold BBIRead.clip_filter, fetch_wig. induction vals as [|v r IH]; [reflexivity|].
  cbn [filter map]. rewrite (keep_wv num fs fe v Hs He).
  destruct ((fs <? w_end (wv_of num v)) && (w_start (wv_of num v) <? fe)); [|exact IH].
  cbn [map]. rewrite IH, (clip_wv num fs fe v Hs He). reflexivity.
Qed.

Lemma bkeep_be fs fe (x : BigBedWrite.entry) : 0 <= fs -> 0 <= fe ->
  BBIReadBed.bkeep (Z.to_N fs) (Z.to_N fe) x = keep true fs fe (b_start (be_of x)) (b_end (be_of x)).
Proof.
  intros Hs He. unfold BBIReadBed.bkeep, keep, be_of. cbn [b_start b_end]. f_equal.
  - destruct (N.leb_spec (Z.to_N fs) (BigBedWrite.e_end x)), (Z.leb_spec fs (Z.of_N (BigBedWrite.e_end x))); try reflexivity; exfalso; lia.
  - destruct (N.leb_spec (BigBedWrite.e_start x) (Z.to_N fe)), (Z.leb_spec (Z.of_N (BigBedWrite.e_start x)) fe); try reflexivity; exfalso; lia.
Qed.

Lemma fetch_bed_of_bkeep fs fe es : 0 <= fs -> 0 <= fe ->
  map be_of (filter (BBIReadBed.bkeep (Z.to_N fs) (Z.to_N fe)) es) = fetch_bed true (map be_of es) fs fe.
Proof.
  intros Hs He. unfold fetch_bed. induction es as [|x r IH]; [reflexivity|].
  cbn [filter map]. rewrite (bkeep_be fs fe x Hs He).
  destruct (keep true fs fe (b_start (be_of x)) (b_end (be_of x))); [|exact IH].
  cbn [map]. now rewrite IH.
Qed.

Lemma clamp_nonneg s e len : 0 <= fst (clamp s e len) /\ 0 <= snd (clamp s e len).
Proof. unfold clamp. cbn [fst snd]. lia. Qed.

(* the wrapper on a byte image whose reader answers with the filter of [vals] = the wrapper on [vals] *)
Lemma values_wig_file_of_answers num infl bs i c len vals :
  chrom_len i c = Some len ->
  (forall s e, BBIRead.bw_interval infl bs i c s e = Ok (BBIRead.clip_filter s e vals)) ->
  forall s e bins st missing oob,
    values_wig_file num infl bs i c s e bins st missing oob = values_wig len (map (wv_of num) vals) s e bins st missing oob.
Proof.
  intros Hl Hq s e bins st missing oob. unfold values_wig_file, values_wig. rewrite Hl.
  destruct (e <=? s); [reflexivity|].
  destruct (clamp_nonneg s e len) as [H1 H2]. destruct (clamp s e len) as [fs fe]. cbn [fst snd] in H1, H2.
  rewrite Hq. cbn [rbind]. rewrite (fetch_wig_of_clip num fs fe vals H1 H2). reflexivity.
Qed.

Lemma values_bed_file_of_answers infl f i c len es :
  chrom_len i c = Some len ->
  (forall s e, BBIReadBed.bb_interval infl f i c s e = Ok (filter (BBIReadBed.bkeep s e) es)) ->
  forall s e bins st missing oob,
    values_bed_file infl f i c s e bins st missing oob = values_bed true len (map be_of es) s e bins st missing oob.
Proof.
  intros Hl Hq s e bins st missing oob. unfold values_bed_file, values_bed. rewrite Hl.
  destruct (e <=? s); [reflexivity|].
  destruct (clamp_nonneg s e len) as [H1 H2]. destruct (clamp s e len) as [fs fe]. cbn [fst snd] in H1, H2.
  rewrite Hq. cbn [rbind]. rewrite (fetch_bed_of_bkeep fs fe es H1 H2). reflexivity.
Qed.

(* the table lookup: a chromosome named once in the table, with that length *)
Lemma chrom_len_found (i : BBIRead.info) c len :
  In c (map BBIRead.ci_name (BBIRead.i_chroms i)) ->
  (forall ci, In ci (BBIRead.i_chroms i) -> BBIRead.ci_name ci = c -> BBIRead.ci_len ci = len) ->
  chrom_len i c = Some (Z.of_N len).
Proof.
  intros Hin Hlen. unfold chrom_len.
  destruct (find (fun ci => BBIFile.name_eqb (BBIRead.ci_name ci) c) (BBIRead.i_chroms i)) as [ci|] eqn:E.
  - apply find_some in E as [Hci Hn]. apply BigWigFileChroms.name_eqb_eq in Hn. now rewrite (Hlen ci Hci Hn).
  - exfalso. apply in_map_iff in Hin as [ci [Hn Hci]]. pose proof (find_none _ _ E ci Hci) as Hf. cbv beta in Hf.
    rewrite Hn, BigWigFileChroms.name_eqb_refl in Hf. discriminate.
Qed.

(* accepted bigWig values that are all non-empty are what C20 calls [wig_ok] *)
Lemma wig_ok_of_wf num len : forall vals lo, BigWigQuery.wf_vals len vals ->
  Forall (fun v : wvalue => (BigWigWrite.v_start v < BigWigWrite.v_end v)%N) vals ->
  (forall v, In v vals -> (lo <= BigWigWrite.v_start v)%N) -> (lo <= len)%N ->
  wig_ok (Z.of_N lo) (Z.of_N len) (map (wv_of num) vals).
Proof.
  induction vals as [|v r IH]; intros lo Hwf Hne Hlo Hll; cbn [map wig_ok]; [lia|].
  inversion Hne as [|? ? Hv Hr]; subst.
  pose proof (BigWigQuery.wf_head _ _ _ Hwf) as [_ Hel]. pose proof (BigWigQuery.wf_after_head _ _ _ Hwf) as Haft.
  rewrite Forall_forall in Haft. unfold wv_of at 1 2 3. cbn [w_start w_end].
  pose proof (Hlo v (or_introl eq_refl)) as Hl.
  split; [lia|]. split; [lia|].
  apply IH; [exact (BigWigQuery.wf_tail _ _ _ Hwf)|exact Hr|exact Haft|exact Hel].
Qed.

(* ------------------------------------------------------------------ bigWig: written file *)
Section WigFile.
Variables (fp : Float.fpmode) (o : BBIFile.opts) (sizes : list (bname * N)) (inp : list BigWigWrite.item) (bs : list N).
Hypothesis Ho : BigWigFileRoundTrip.opts_ok o.
Hypothesis Hi : BigWigFileRoundTrip.input_ok sizes inp.
Hypothesis Hs : (Nlen bs < RTreeCodec.U64)%N.
Hypothesis Hw : BigWigWrite.bw_write fp o sizes inp = Ok bs \/ BigWigWrite.bw_write_multipass fp o sizes inp = Ok bs.

(* the wrapper on the written bytes is the wrapper on the written values, for EVERY call: any range (also end <= start:
   the same refusal), any bin count, statistic, missing / oob *)
Theorem values_wig_written : exists i, BBIRead.read_info bs = Ok i /\
  forall num infl c, In c (map fst inp) ->
  chrom_len i c = Some (Z.of_N (BigWigFileChroms.len_of sizes c)) /\
  forall s e bins st missing oob,
    values_wig_file num infl bs i c s e bins st missing oob =
    values_wig (Z.of_N (BigWigFileChroms.len_of sizes c)) (map (wv_of num) (BigWigFileInput.vals_of inp c)) s e bins st missing oob.
Proof.
  destruct (BigWigFileThms.write_roundtrip_for fp o sizes inp bs Ho Hi Hs Hw) as (i & Hri & _ & _ & _ & _ & _ & _ & _ & _ & Hc & _).
  exists i. split; [exact Hri|]. intros num infl c Hin.
  pose proof (BigWigFileInput.chrom_has_run inp c (BigWigFileThms.write_grouped fp o sizes inp bs Hw) Hin) as Hr.
  assert (Hl : chrom_len i c = Some (Z.of_N (BigWigFileChroms.len_of sizes c))).
  { apply chrom_len_found.
    - rewrite Hc. unfold BigWigFileRoundTrip.expected_chroms. rewrite map_map.
      apply in_map_iff. apply (in_map fst) in Hr. cbn [fst] in Hr.
      rewrite <- (BigWigFileChroms.number_names 0 (map fst (BigWigWrite.runs inp))) in Hr.
      apply in_map_iff in Hr as [[k id] [E Hk]]. cbn [fst] in E. subst k. exists (c, id). split; [reflexivity|exact Hk].
    - intros ci Hci Hn. rewrite Hc in Hci. unfold BigWigFileRoundTrip.expected_chroms in Hci.
      apply in_map_iff in Hci as [[k id] [<- _]]. cbn [BigWigFileChroms.ci_of BBIRead.ci_name BBIRead.ci_len fst] in *. now subst k. }
  split; [exact Hl|].
  apply (values_wig_file_of_answers num infl bs i c _ _ Hl). intros s e.
  exact (BigWigFileInput.on_input_query fp o sizes inp bs Ho Hi Hs Hw i infl c s e Hri Hin).
Qed.

(* the written values of a chromosome with data are [wig_ok] when none of them is empty *)
Lemma written_wig_ok num c : In c (map fst inp) ->
  Forall (fun v : wvalue => (BigWigWrite.v_start v < BigWigWrite.v_end v)%N) (BigWigFileInput.vals_of inp c) ->
  wig_ok 0 (Z.of_N (BigWigFileChroms.len_of sizes c)) (map (wv_of num) (BigWigFileInput.vals_of inp c)).
Proof.
  intros Hin Hne.
  destruct (BigWigFileThms.write_accepted fp o sizes inp bs Hw c _
              (BigWigFileInput.chrom_has_run inp c (BigWigFileThms.write_grouped fp o sizes inp bs Hw) Hin)) as (len & Hl & Hwf & _).
  unfold BigWigFileChroms.len_of. rewrite Hl.
  apply (wig_ok_of_wf num len _ 0%N Hwf Hne); intros; apply N.le_0_l.
Qed.

(* C20_per_base and C20_bins with the bytes as the subject *)
Theorem values_file_wig : exists i, BBIRead.read_info bs = Ok i /\
  forall num infl c, In c (map fst inp) ->
  Forall (fun v : wvalue => (BigWigWrite.v_start v < BigWigWrite.v_end v)%N) (BigWigFileInput.vals_of inp c) ->
  let len := Z.of_N (BigWigFileChroms.len_of sizes c) in
  let vals := map (wv_of num) (BigWigFileInput.vals_of inp c) in
  forall s e st missing oob, s < e ->
  values_wig_file num infl bs i c s e None st missing oob
    = Ok (map (base_cell (wig_at vals) len missing oob) (seqZ s (Z.to_nat (e - s))))
  /\ forall bins, 0 < bins <= e - s ->
     values_wig_file num infl bs i c s e (Some bins) st missing oob
       = Ok (map (fun k => bin_cell (wig_at vals) len st missing oob
                             (s + bin_edge k (e - s) bins) (s + bin_edge (k + 1) (e - s) bins))
                 (seqZ 0 (Z.to_nat bins))).
Proof.
  destruct values_wig_written as (i & Hri & H). exists i. split; [exact Hri|].
  intros num infl c Hin Hne len vals s e st missing oob Hse.
  destruct (H num infl c Hin) as [_ Heq]. pose proof (written_wig_ok num c Hin Hne) as Hok. fold len vals in Hok.
  split.
  - rewrite Heq. exact (values_wig_per_base len vals s e st missing oob Hok Hse).
  - intros bins Hb. rewrite Heq. exact (values_wig_bins len vals s e bins st missing oob Hok Hse Hb).
Qed.
End WigFile.

(* ------------------------------------------------------------------ bigBed: written file *)
Section BedFile.
Variables (two_pass : bool) (fp : Float.fpmode) (o : BBIFile.opts) (sizes : list (bname * N)) (autosql : option (list N))
          (input : list BigBedWrite.bitem) (f : list N).
Hypothesis Hw : BedZoomFit.bb_write_either two_pass fp o sizes autosql input = Ok f.
Hypothesis Hh : BedEndToEnd.file_hyps o sizes input f.

Theorem values_bed_written : exists i, BBIRead.read_info f = Ok i /\
  forall infl c es, In (c, es) (BigBedWrite.bruns input) ->
  exists len, BBIFile.lookup c sizes = Some len /\ chrom_len i c = Some (Z.of_N len) /\
  forall s e bins st missing oob,
    values_bed_file infl f i c s e bins st missing oob = values_bed true (Z.of_N len) (map be_of es) s e bins st missing oob.
Proof.
  destruct (BedZoomFit.written_file_roundtrip two_pass fp o sizes autosql input f Hw Hh) as (i & Hri & Hfull & _ & _ & Hct & Hlen).
  destruct (BedZoomFit.written_file_query two_pass fp o sizes autosql input f Hw Hh) as (i' & Hri' & Hq).
  rewrite Hri in Hri'. apply BigWigFile.Ok_inj in Hri'. subst i'.
  exists i. split; [exact Hri|]. intros infl c es Hr.
  destruct (Hfull infl c es Hr) as (len & Hl & _). exists len. split; [exact Hl|].
  assert (Hnames : map BBIRead.ci_name (BBIRead.i_chroms i) = map fst (BigBedWrite.bruns input)).
  { apply (f_equal (map fst)) in Hct. rewrite map_map in Hct. cbn [fst] in Hct.
    rewrite <- (map_length fst (BigBedWrite.bruns input)) in Hct. rewrite BedEndToEnd.combine_seqN_fst in Hct. exact Hct. }
  assert (Hcl : chrom_len i c = Some (Z.of_N len)).
  { apply chrom_len_found.
    - rewrite Hnames. apply in_map_iff. exists (c, es). split; [reflexivity|exact Hr].
    - intros ci Hci Hn. rewrite Forall_forall in Hlen. specialize (Hlen ci Hci). rewrite Hn, Hl in Hlen. now injection Hlen. }
  split; [exact Hcl|].
  apply (values_bed_file_of_answers infl f i c _ es Hcl). intros s e. exact (Hq infl c es s e Hr).
Qed.

Theorem values_file_bed : exists i, BBIRead.read_info f = Ok i /\
  forall infl c es, In (c, es) (BigBedWrite.bruns input) ->
  exists len, BBIFile.lookup c sizes = Some len /\
  (bed_ok 0 (Z.of_N len) (map be_of es) ->
   forall s e st missing oob, s < e ->
   values_bed_file infl f i c s e None st missing oob
     = Ok (map (base_cell (bed_at (map be_of es)) (Z.of_N len) missing oob) (seqZ s (Z.to_nat (e - s))))
   /\ forall bins, 0 < bins <= e - s ->
      values_bed_file infl f i c s e (Some bins) st missing oob
        = Ok (map (fun k => bin_cell (bed_at (map be_of es)) (Z.of_N len) st missing oob
                              (s + bin_edge k (e - s) bins) (s + bin_edge (k + 1) (e - s) bins))
                  (seqZ 0 (Z.to_nat bins)))).
Proof.
  destruct values_bed_written as (i & Hri & H). exists i. split; [exact Hri|].
  intros infl c es Hr. destruct (H infl c es Hr) as (len & Hl & _ & Heq). exists len. split; [exact Hl|].
  intros Hok s e st missing oob Hse. split.
  - rewrite Heq. exact (values_bed_per_base true (Z.of_N len) (map be_of es) s e st missing oob Hok Hse).
  - intros bins Hb. rewrite Heq. exact (values_bed_bins true (Z.of_N len) (map be_of es) s e bins st missing oob Hok Hse Hb).
Qed.
End BedFile.

(* ------------------------------------------------------------------ computed instances (writer model -> bytes -> reader -> array)
   bigWig: chromosome "a" of 12 bases holding 1.5 on [0,4), 1.0 on [4,6), -1.5 on [9,12) (two sections), "b" one value.
   Range [-2,14) per base with missing 2.5, oob NaN: NaN NaN | 1.5 x4 | 1.0 x2 | 2.5 x3 | -1.5 x3 | NaN NaN;
   range [2,12) in 3 bins (widths 3,3,4), mean: 32/3 eighths, 8/1, -36/3; an unknown chromosome is refused.
   bigBed: chromosome "c" of 40 bases, entries [0,10) [5,20) [5,8) [30,40) (overlapping, nested).  The reader asked for
   [20,30) returns [5,20) and [30,40), which only TOUCH the range (bkeep / touch = true); they add nothing to the array:
   range [20,44) in 3 bins, max, missing 2.5: [20,28) no data -> 2.5; [28,36) depth 1; [36,44) leaves the chromosome -> NaN. *)
From BT Require Model.Entry_C15.
Definition pf_num (b : N) : Z := match Entry_C15.eighths_of_bits b with Some z => z | None => 0 end.
Definition pf_opts : BBIFile.opts :=
  {| BBIFile.o_compress := false; BBIFile.o_ips := 2%N; BBIFile.o_bs := 2%N; BBIFile.o_izoom := 10%N; BBIFile.o_maxzooms := 2%N;
     BBIFile.o_manual := None; BBIFile.o_sort_all := true |}.
Definition pf_v (a b bits : N) : wvalue := {| BigWigWrite.v_start := a; BigWigWrite.v_end := b; BigWigWrite.v_bits := bits |}.
Definition pf_wsizes : list (bname * N) := [([97%N], 12%N); ([98%N], 9%N)].
Definition pf_winp : list BigWigWrite.item :=
  [([97%N], pf_v 0 4 1069547520); ([97%N], pf_v 4 6 1065353216); ([97%N], pf_v 9 12 3217031168); ([98%N], pf_v 1 3 1065353216)].
Definition pf_wbytes : list N := match BigWigWrite.bw_write Float.ieee pf_opts pf_wsizes pf_winp with Ok b => b | _ => [] end.
Definition pf_e (a b : N) : BigBedWrite.entry := {| BigBedWrite.e_start := a; BigBedWrite.e_end := b; BigBedWrite.e_rest := [] |}.
Definition pf_es : list BigBedWrite.entry := [pf_e 0 10; pf_e 5 20; pf_e 5 8; pf_e 30 40].
Definition pf_bsizes : list (bname * N) := [([99%N], 40%N)].
Definition pf_binp : list BigBedWrite.bitem := map (fun x => ([99%N], x)) pf_es.
Definition pf_bbytes : list N :=
  match BedZoomFit.bb_write_either false Float.ieee pf_opts pf_bsizes None pf_binp with Ok b => b | _ => [] end.

Example values_file_example_hyps :
  (BigWigFileRoundTrip.opts_ok pf_opts /\ BigWigFileRoundTrip.input_ok pf_wsizes pf_winp /\ (Nlen pf_wbytes < RTreeCodec.U64)%N /\
   BigWigWrite.bw_write Float.ieee pf_opts pf_wsizes pf_winp = Ok pf_wbytes /\ In [97%N] (map fst pf_winp) /\
   Forall (fun v : wvalue => (BigWigWrite.v_start v < BigWigWrite.v_end v)%N) (BigWigFileInput.vals_of pf_winp [97%N])) /\
  (BedZoomFit.bb_write_either false Float.ieee pf_opts pf_bsizes None pf_binp = Ok pf_bbytes /\
   BedEndToEnd.file_hyps pf_opts pf_bsizes pf_binp pf_bbytes /\ In ([99%N], pf_es) (BigBedWrite.bruns pf_binp) /\
   bed_ok 0 40 (map be_of pf_es)).
Proof.
  split.
  - split; [unfold BigWigFileRoundTrip.opts_ok; cbn; lia|]. split.
    { unfold BigWigFileRoundTrip.input_ok.
      assert (Hr : BigWigWrite.runs pf_winp = [([97%N], [pf_v 0 4 1069547520; pf_v 4 6 1065353216; pf_v 9 12 3217031168]); ([98%N], [pf_v 1 3 1065353216])]) by reflexivity.
      rewrite Hr. cbn [map fst].
      repeat match goal with |- _ /\ _ => split end;
        first [ reflexivity
              | unfold pf_wsizes, pf_winp, pf_v; cbn [map app]; repeat constructor; try discriminate; reflexivity ]. }
    split; [vm_compute; reflexivity|]. split; [vm_compute; reflexivity|]. split; [left; reflexivity|].
    match goal with |- Forall _ ?l => let l' := eval vm_compute in l in change l with l' end.
    repeat constructor.
  - split; [vm_compute; reflexivity|]. split.
    { unfold BedEndToEnd.file_hyps. split; [cbn; lia|]. split; [vm_compute; reflexivity|]. split.
      - unfold BedEndToEnd.input_ok, pf_binp, pf_es, pf_e. cbn [map].
        repeat constructor; cbn [fst snd BigBedWrite.e_start BigBedWrite.e_end BigBedWrite.e_rest];
          try (unfold RTreeCodec.U32; vm_compute; reflexivity); try discriminate; try (intros [? ?]; discriminate).
      - split; [repeat constructor; cbn; unfold RTreeCodec.U32; lia|vm_compute; discriminate]. }
    split; [left; reflexivity|]. cbn [map be_of pf_es pf_e bed_ok b_start b_end BigBedWrite.e_start BigBedWrite.e_end]. unfold pf_es, pf_e. cbn. lia.
Qed.

Example values_file_example_run :
  match BBIRead.read_info pf_wbytes with
  | Ok i =>
      values_wig_file pf_num (fun x => x) pf_wbytes i [97%N] (-2) 14 None Mean (FV 20) FNaN =
        Ok [ONaN; ONaN; OQ 12 1; OQ 12 1; OQ 12 1; OQ 12 1; OQ 8 1; OQ 8 1; OQ 20 1; OQ 20 1; OQ 20 1;
            OQ (-12) 1; OQ (-12) 1; OQ (-12) 1; ONaN; ONaN] /\
      values_wig_file pf_num (fun x => x) pf_wbytes i [97%N] 2 12 (Some 3) Mean (FV 20) FNaN = Ok [OQ 32 3; OQ 8 1; OQ (-36) 3] /\
      values_wig_file pf_num (fun x => x) pf_wbytes i [99%N] 2 12 (Some 3) Mean (FV 20) FNaN = Err E_NOCHROM_PY
  | _ => False
  end /\
  match BBIRead.read_info pf_bbytes with
  | Ok i =>
      BBIReadBed.bb_interval (fun x => x) pf_bbytes i [99%N] 20 30 = Ok [pf_e 5 20; pf_e 30 40] /\
      values_bed_file (fun x => x) pf_bbytes i [99%N] 4 12 None Mean (FV 20) FNaN =
        Ok [OQ 8 1; OQ 24 1; OQ 24 1; OQ 24 1; OQ 16 1; OQ 16 1; OQ 8 1; OQ 8 1] /\
      values_bed_file (fun x => x) pf_bbytes i [99%N] 4 12 (Some 2) Mean (FV 20) FNaN = Ok [OQ 80 4; OQ 48 4] /\
      values_bed_file (fun x => x) pf_bbytes i [99%N] 20 44 (Some 3) Max (FV 20) FNaN = Ok [OQ 20 1; OQ 8 1; ONaN]
  | _ => False
  end.
Proof. split; vm_compute; repeat split; reflexivity. Qed.
