(* C10, whole file, part 3: every R-tree of an emitted file (main index and zoom indexes) is a
   well-formed node store in the sense of Proofs/C10Search.v, so the reader's search returns the
   overlapping blocks of that tree, in file-content order. *)
From BT Require Import Base.Util Base.LE Base.Float Generated.Consts Model.RTree Model.BBIFile Model.BigWigWrite
  Model.BBIRead Proofs.RTreeAbs Proofs.RTreeCodec Proofs.C10Codec Proofs.C10Search Proofs.C10Sections Proofs.C10Place
  Proofs.C10ChromTree Proofs.C10EmitBase Proofs.C10EmitBlocks Spec.FormatEmit Spec.FormatWf Model.ReadBed_C10.
Local Open Scope N_scope.

(* ---------- read_node on nodes encoded in either byte order ---------- *)
Definition li_fits (it : leaf_item) : Prop :=
  span_ok (li_span it) /\ li_off it < 18446744073709551616 /\ li_size it < 18446744073709551616.

Lemma parse_leaf_items_enc big items rest : Forall li_fits items ->
  parse_leaf_items big (length items) (flat_map (fun it => enc_flds big (leaf_item_flds it)) items ++ rest) = items.
Proof.
  induction 1 as [|it items ((H1 & H2 & H3 & H4) & H5 & H6) _ IH]; [reflexivity|].
  cbn [length flat_map parse_leaf_items]. rewrite <- app_assoc. unfold parse_span. unfold U32 in H1, H2, H3, H4.
  flds ltac:(first [apply fits4; lia | apply fits8; lia]).
  rewrite skipn_flds by reflexivity. rewrite IH. destruct it as [[a b c d] x y]; reflexivity.
Qed.
Lemma parse_inner_items_enc big (items : list (span * N)) rest :
  Forall (fun it => span_ok (fst it) /\ snd it < 18446744073709551616) items ->
  parse_inner_items big (length items)
    (flat_map (fun it => enc_flds big (span_flds (fst it) ++ [(8%nat, snd it)])) items ++ rest) = items.
Proof.
  induction 1 as [|it items ((H1 & H2 & H3 & H4) & H5) _ IH]; [reflexivity|].
  cbn [length flat_map parse_inner_items]. rewrite <- app_assoc. unfold parse_span. unfold U32 in H1, H2, H3, H4.
  flds ltac:(first [apply fits4; lia | apply fits8; lia]).
  rewrite skipn_flds by reflexivity. rewrite IH. destruct it as [[a b c d] x]; reflexivity.
Qed.

Lemma read_node_leaf_enc L bs off items :
  has_at bs off (node_hdr_bytes L 1 (Nlen items) ++ flat_map (fun it => enc_flds (l_big L) (leaf_item_flds it)) items) ->
  Nlen items < 65536 -> Forall li_fits items -> read_node (l_big L) bs off = Ok (PLeaf items).
Proof.
  intros Hat Hn Hok. unfold node_hdr_bytes in Hat. rewrite <- app_assoc in Hat.
  apply (node_head (l_big L) bs 1 (Nlen items)) in Hat as [H1 H2]; [|exact Hn].
  unfold read_node. rewrite H1. cbn [app nth skipn]. change (1 =? 0) with false. change (1 =? 1) with true. cbn [orb negb].
  rewrite dec_enc by exact Hn. unfold Nlen. rewrite Nat2N.id.
  rewrite (flat_map_length_const _ 32%nat) in H2 by (intros it; rewrite enc_flds_length; reflexivity).
  rewrite H2. rewrite <- (app_nil_r (flat_map _ items)). now rewrite parse_leaf_items_enc.
Qed.
Lemma read_node_inner_enc L bs off (items : list (span * N)) :
  has_at bs off (node_hdr_bytes L 0 (Nlen items)
                 ++ flat_map (fun it => enc_flds (l_big L) (span_flds (fst it) ++ [(8%nat, snd it)])) items) ->
  Nlen items < 65536 -> Forall (fun it => span_ok (fst it) /\ snd it < 18446744073709551616) items ->
  read_node (l_big L) bs off = Ok (PInner items).
Proof.
  intros Hat Hn Hok. unfold node_hdr_bytes in Hat. rewrite <- app_assoc in Hat.
  apply (node_head (l_big L) bs 0 (Nlen items)) in Hat as [H1 H2]; [|exact Hn].
  unfold read_node. rewrite H1. cbn [app nth skipn]. change (0 =? 0) with true. change (0 =? 1) with false. cbn [orb negb].
  rewrite dec_enc by exact Hn. unfold Nlen. rewrite Nat2N.id.
  rewrite (flat_map_length_const _ 24%nat) in H2 by (intros it; rewrite enc_flds_length; reflexivity).
  rewrite H2. rewrite <- (app_nil_r (flat_map _ items)). now rewrite parse_inner_items_enc.
Qed.

Lemma ocat_option_map {X Y} (f : list X -> list Y) (g : nat -> option (list X)) cs :
  (forall a b, f (a ++ b) = f a ++ f b) -> f [] = [] ->
  ocat (map (fun c => option_map f (g c)) cs) = option_map f (ocat (map g cs)).
Proof.
  intros Happ Hnil. induction cs as [|c cs IH]; [cbn; now rewrite Hnil|].
  cbn [map ocat]. destruct (g c) as [a|]; cbn [option_map]; [|reflexivity].
  rewrite IH. destruct (ocat (map g cs)) as [b|]; cbn [option_map]; [now rewrite Happ|reflexivity].
Qed.

Section EmitTree.
Variables (cmp infl : list N -> list N).
Hypothesis Hinfl : forall b, infl (cmp b) = b.
Variable L : layout.
Variable X : content.
Hypothesis Hwf : wf_b cmp L X = true.

Let big := l_big L.
Let bt := block_table cmp L X.
Let o := off_fn (offsets L X bt).
Let bs := emit cmp L X.
Let inf := exp_info cmp L X.

Variable t : nat.
Hypothesis Ht : (t < length bt)%nat.
Let nodes := tree_nodes L t.
Let items := leaf_items_of bt o t.

Definition rget (i : nat) : option (gnode nat) :=
  match nth_error nodes i with
  | Some (ILeaf f c) => Some (GLeaf (firstn c (skipn f items)))
  | Some (IInner cs) => Some (GInner (map (fun c => (child_span L bt t c, c)) cs))
  | None => None
  end.

Lemma leaf_item_nth i it : nth_error items i = Some it ->
  exists b, nth_error (tree_blocks bt t) i = Some b /\
            it = {| li_span := bi_span b; li_off := o (PBlock t i); li_size := Nlen (bi_stored b) |}.
Proof.
  unfold items, leaf_items_of. rewrite nth_error_map. intros H.
  destruct (nth_error (combine (seq 0 (length (tree_blocks bt t))) (tree_blocks bt t)) i) as [[k b]|] eqn:E; [|discriminate].
  cbn [option_map fst snd] in H. injection H as <-.
  assert (Hin := nth_error_In _ _ E). apply combine_seq_nth in Hin as [Hb _]. rewrite Nat.sub_0_r in Hb.
  (* k = i *)
  assert (Hk : forall (l : list binfo) s i k b, nth_error (combine (seq s (length l)) l) i = Some (k, b) -> k = (s + i)%nat).
  { clear. induction l as [|y l IH]; intros s i k b E.
    - destruct i; discriminate.
    - cbn [length seq combine] in E. destruct i as [|i]; cbn [nth_error] in E.
      + injection E as <- _. lia.
      + apply IH in E. lia. }
  apply Hk in E. cbn in E.
  subst k. exists b. split; [exact Hb|reflexivity].
Qed.

Lemma items_fits : Forall li_fits items.
Proof.
  apply Forall_forall. intros it Hin. apply In_nth_error in Hin as [i Hi].
  destruct (leaf_item_nth i it Hi) as [b [Hb ->]].
  destruct (block_data_emit cmp infl Hinfl L X Hwf t i b Ht Hb) as (_ & H1 & H2).
  pose proof (blocks_ok cmp L X Hwf t Ht) as Hok. rewrite Forall_forall in Hok.
  destruct (Hok b (nth_error_In _ _ Hb)) as [Hs _]. unfold li_fits, W64 in *. cbn [li_span li_off li_size]. tauto.
Qed.

Lemma tree_facts : forallb (inode_ok (length nodes)) nodes = true
  /\ sk_leaves nodes (length nodes) 0 = Some (seq 0 (length (tree_blocks bt t))) /\ (0 < length nodes)%nat
  /\ (sk_size nodes (length nodes) 0 <= count_nodes t (length nodes) (l_order L))%nat.
Proof.
  destruct (trees_facts cmp L X Hwf t Ht) as (_ & H1 & H2). apply tree_ok_facts in H1 as (Ha & Hb & Hc). tauto.
Qed.

Lemma gleaves_sk : forall h i, gleaves rget h i = option_map (pick items) (sk_leaves nodes h i).
Proof.
  induction h as [|h IH]; intros i; [reflexivity|].
  cbn [gleaves sk_leaves]. unfold rget at 1. destruct (nth_error nodes i) as [[f c|cs]|]; [| |reflexivity].
  - cbn [option_map]. now rewrite pick_seq.
  - rewrite map_map. cbn [snd]. rewrite <- (ocat_option_map (pick items) (sk_leaves nodes h) cs (pick_app items) eq_refl).
    f_equal. apply map_ext. intros c. apply IH.
Qed.
Lemma gsize_sk : forall h i, gsize rget h i = sk_size nodes h i.
Proof.
  induction h as [|h IH]; intros i; [reflexivity|].
  cbn [gsize sk_size]. unfold rget at 1. destruct (nth_error nodes i) as [[f c|cs]|]; try reflexivity.
  f_equal. induction cs as [|c cs IHc]; [reflexivity|]. cbn [map fold_right snd]. now rewrite IH, IHc.
Qed.

Lemma child_span_covers h c ls : (h <= length nodes)%nat -> gleaves rget h c = Some ls ->
  Forall (fun l => span_covers (child_span L bt t c) (li_span l)) ls.
Proof.
  intros Hh Hl. rewrite gleaves_sk in Hl. destruct (sk_leaves nodes h c) as [ix|] eqn:E; [|discriminate].
  cbn [option_map] in Hl. injection Hl as <-.
  pose proof (sk_leaves_mono nodes h (length nodes) c ix E Hh) as E'.
  unfold child_span. fold nodes. rewrite E'.
  apply Forall_forall. intros l Hin. apply pick_In in Hin as [i [Hi Hn]].
  destruct (leaf_item_nth i l Hn) as [b [Hb ->]]. cbn [li_span].
  apply inside_covers. apply cover_inside. apply in_map_iff. exists i. split; [|exact Hi].
  now rewrite (nth_error_nth _ _ binfo0 Hb).
Qed.

Lemma gcov_ok : forall h i, (h <= length nodes)%nat -> gcov rget h i.
Proof.
  induction h as [|h IH]; intros i Hh; [exact I|].
  cbn [gcov]. unfold rget at 1. destruct (nth_error nodes i) as [[f c|cs]|]; try exact I.
  rewrite Forall_map. cbn [fst snd]. apply Forall_forall. intros c _. split.
  - apply IH. lia.
  - intros ls Hl. apply (child_span_covers h c ls); [lia|exact Hl].
Qed.

Lemma node_at i nd : nth_error nodes i = Some nd -> has_at bs (node_off o t i) (rnode_bytes L bt o t nd)
  /\ node_off o t i < W64.
Proof.
  intros En. assert (Hi : (i < length (nth t (l_trees L) []))%nat) by (apply nth_error_Some; unfold nodes, tree_nodes in En; congruence).
  destruct (at_piece cmp L X Hwf _ (needed_node cmp L X t i Ht Hi)) as [Hat Hb].
  fold bt in Hat, Hb. fold o in Hat, Hb. fold bs in Hat. cbn [pbytes] in Hat. fold nodes in Hat. rewrite En in Hat.
  assert (Hps : (if Nat.eqb i 0 then 48 else 0) <= psize L X bt (PNode t i)).
  { unfold psize. cbn [pbytes]. fold nodes. rewrite En. destruct (Nat.eqb i 0); [|lia].
    unfold Nlen. rewrite app_length. unfold index_header. rewrite enc_flds_length. cbn. lia. }
  unfold node_off. split; [|unfold W64 in *; lia].
  destruct (Nat.eqb i 0).
  - apply has_at_app in Hat as [_ Hat]. unfold index_header, Nlen in Hat. rewrite enc_flds_length in Hat. exact Hat.
  - cbn [app] in Hat. now rewrite N.add_0_r.
Qed.

Lemma child_span_ok c : span_ok (child_span L bt t c).
Proof.
  unfold child_span. destruct (sk_leaves (tree_nodes L t) (length (tree_nodes L t)) c) as [ix|].
  - apply cover_span_ok. rewrite Forall_map. apply Forall_forall. intros i _.
    pose proof (blocks_ok cmp L X Hwf t Ht) as Hok. rewrite Forall_forall in Hok.
    destruct (nth_error (tree_blocks bt t) i) as [b|] eqn:E.
    + rewrite (nth_error_nth _ _ binfo0 E). apply (Hok b (nth_error_In _ _ E)).
    + rewrite nth_overflow by (now apply nth_error_None). unfold span_ok, U32. cbn. lia.
  - unfold span_ok, U32. cbn. lia.
Qed.

Lemma rget_read i g : rget i = Some g -> read_node big bs (node_off o t i) = Ok (render (node_off o t) g).
Proof.
  intros Hg. unfold rget in Hg. destruct (nth_error nodes i) as [nd|] eqn:En; [|discriminate].
  destruct (node_at i nd En) as [Hat _].
  destruct tree_facts as (Hnodes & _). pose proof (forallb_nth _ _ _ _ Hnodes En) as Hnd.
  destruct nd as [f c|cs]; injection Hg as <-; cbn [render rnode_bytes inode_ok] in *.
  - apply read_node_leaf_enc; [exact Hat| |].
    + apply N.ltb_lt in Hnd. unfold Nlen, W16 in *. rewrite firstn_length. lia.
    + pose proof items_fits as Hf. rewrite Forall_forall in Hf. apply Forall_forall. intros it Hin.
      apply Hf. eapply In_skipn, In_firstn, Hin.
  - apply andb_true_iff in Hnd as [Hn Hcs]. apply N.ltb_lt in Hn. rewrite map_map. cbn [fst snd].
    apply read_node_inner_enc.
    + rewrite flat_map_map. cbn [fst snd]. unfold Nlen in *. rewrite map_length. exact Hat.
    + unfold Nlen in *. rewrite map_length. exact Hn.
    + rewrite Forall_map. cbn [fst snd]. apply Forall_forall. intros c Hc. split; [apply child_span_ok|].
      rewrite forallb_forall in Hcs. apply Hcs in Hc. apply Nat.ltb_lt in Hc.
      destruct (nth_error nodes c) as [ndc|] eqn:Ec; [|apply nth_error_None in Ec; lia].
      destruct (node_at c ndc Ec) as [_ H]. exact H.
Qed.

Lemma bs_nodes_length : (4 * count_nodes t (length nodes) (l_order L) <= length bs)%nat.
Proof.
  unfold bs. rewrite (bs_eq cmp L X). fold bt. fold o. rewrite !app_length. unfold count_nodes.
  pose proof (lay_length_ge (pbytes L X bt o) (l_fill L) (is_node t (length nodes)) 4) as G.
  assert (HP : forall j, is_node t (length nodes) j = true -> (4 <= length (pbytes L X bt o j))%nat).
  { intros [| |k|i|u i|u i|i] Hj; try discriminate. cbn [is_node] in Hj. apply andb_true_iff in Hj as [Hu Hi].
    apply Nat.eqb_eq in Hu. subst u. apply Nat.ltb_lt in Hi.
    cbn [pbytes]. fold nodes. destruct (nth_error nodes i) as [nd|] eqn:E; [|apply nth_error_None in E; lia].
    rewrite app_length. destruct nd; unfold rnode_bytes; rewrite app_length, node_hdr_length; lia. }
  specialize (G HP (l_order L)). lia.
Qed.

Theorem search_emit chrom s e :
  search_blocks inf bs (node_off o t 0) chrom s e = Ok (hits chrom s e items).
Proof.
  destruct tree_facts as (_ & Hlv & _ & Hsz).
  unfold search_blocks. unfold inf, exp_info, exp_header. cbn [i_hdr h_big]. fold bs.
  rewrite (search_any_root rget (node_off o t) big bs rget_read chrom s e (length nodes) 0%nat items).
  - reflexivity.
  - rewrite gleaves_sk, Hlv. cbn [option_map]. f_equal.
    replace (length (tree_blocks bt t)) with (length items) by apply leaf_items_length. apply pick_all.
  - apply gcov_ok. lia.
  - rewrite gsize_sk. pose proof bs_nodes_length. fold bs. lia.
Qed.

Lemma cir_root_emit : cir_tree_root big bs (o (PNode t 0)) = Ok (node_off o t 0).
Proof.
  destruct (off_node0 cmp L X Hwf t Ht) as [Hat _]. fold bt in Hat. fold o in Hat. fold bs in Hat.
  cbn [pbytes] in Hat. destruct tree_facts as (_ & _ & Hpos & _).
  fold nodes in Hat. destruct (nth_error nodes 0) as [nd|] eqn:E; [|apply nth_error_None in E; lia].
  cbn [Nat.eqb] in Hat. apply has_at_prefix in Hat. unfold index_header in Hat.
  unfold cir_tree_root. rewrite (has_at_slice_n bs _ _ 48 Hat) by (rewrite enc_flds_length; reflexivity).
  cbn [rdo rbind]. unfold big.
  flds0 ltac:(apply fits4; vm_compute; reflexivity). rewrite N.eqb_refl. reflexivity.
Qed.
End EmitTree.
