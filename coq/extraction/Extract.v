(* Extraction of the executable models.  Only ExtrOcamlBasic is used: bool, option,
   list, prod, unit, sumbool map to OCaml's own; N, Z, positive, nat, ascii, string stay
   Coq datatypes.  No Extract Constant / Extract Inductive of our own. *)
Require Extraction.
Require Import ExtrOcamlBasic.
From BT Require Import Model.Entry.
Set Extraction Output Directory ".".
Extraction "model.ml" dispatch.
