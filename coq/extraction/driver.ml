(* Generic driver for the extracted models: reads one S-expression per line on stdin,
   applies Model.dispatch <id>, prints one S-expression per line.  The only conversions
   are OCaml int <-> Coq Z (binary positive), done here. *)
open Model

let rec pos_of_int (n : int) : positive =
  if n = 1 then XH
  else if n land 1 = 0 then XO (pos_of_int (n lsr 1))
  else XI (pos_of_int (n lsr 1))
let z_of_int (n : int) : z =
  if n = 0 then Z0 else if n > 0 then Zpos (pos_of_int n) else Zneg (pos_of_int (- n))
let rec int_of_pos = function
  | XH -> 1 | XO p -> 2 * int_of_pos p | XI p -> 2 * int_of_pos p + 1
let int_of_z = function Z0 -> 0 | Zpos p -> int_of_pos p | Zneg p -> - (int_of_pos p)

(* parser *)
let parse (s : string) : sexp =
  let n = String.length s in
  let i = ref 0 in
  let rec skip () = while !i < n && (s.[!i] = ' ' || s.[!i] = '\t' || s.[!i] = '\r') do incr i done
  and item () : sexp =
    skip ();
    if !i >= n then failwith "eof"
    else if s.[!i] = '(' then begin
      incr i;
      let acc = ref [] in
      skip ();
      while !i < n && s.[!i] <> ')' do acc := item () :: !acc; skip () done;
      if !i >= n then failwith "unclosed";
      incr i; L (List.rev !acc)
    end else begin
      let j = !i in
      while !i < n && s.[!i] <> ' ' && s.[!i] <> '(' && s.[!i] <> ')' do incr i done;
      A (z_of_int (int_of_string (String.sub s j (!i - j))))
    end
  in item ()

let rec print (b : Buffer.t) (x : sexp) : unit =
  match x with
  | A z -> Buffer.add_string b (string_of_int (int_of_z z))
  | L l ->
    Buffer.add_char b '(';
    List.iteri (fun k y -> if k > 0 then Buffer.add_char b ' '; print b y) l;
    Buffer.add_char b ')'

let () =
  let id = z_of_int (int_of_string Sys.argv.(1)) in
  let buf = Buffer.create 65536 in
  (try
    while true do
      let line = input_line stdin in
      if String.length line > 0 then begin
        Buffer.clear buf;
        (try print buf (dispatch id (parse line))
         with Stack_overflow -> Buffer.clear buf; Buffer.add_string buf "(-2)");
        print_string (Buffer.contents buf); print_newline ()
      end
    done
  with End_of_file -> ())
