(* Generic driver for the extracted models: reads one S-expression per line on stdin,
   applies Model.dispatch <id>, prints one S-expression per line.  The only conversions
   are OCaml int <-> Coq Z (binary positive), done here. *)
open Model

let rec pos_of_int (n : int) : positive =
  if n = 1 then XH
  else if n land 1 = 0 then XO (pos_of_int (n lsr 1))
  else XI (pos_of_int (n lsr 1))
let z_of_int (n : int) : z =
  if n = 0 then Z0 else if n > 0 then Zpos (pos_of_int n) else Zneg (pos_of_int (- n))

(* arbitrary size, for the rare numbers that do not fit an OCaml int (u64 bit patterns):
   decimal digit arrays, least significant first *)
let dec_of_pos (p : positive) : string =
  (* bits most significant first *)
  let rec bits p acc = match p with XH -> 1 :: acc | XO q -> bits q (0 :: acc) | XI q -> bits q (1 :: acc) in
  let bl = bits p [] in
  let digits = ref [| 0 |] in
  List.iter (fun b ->
    let d = !digits in
    let n = Array.length d in
    let carry = ref b in
    for i = 0 to n - 1 do
      let v = d.(i) * 2 + !carry in
      d.(i) <- v mod 10; carry := v / 10
    done;
    if !carry > 0 then digits := Array.append d [| !carry |]) bl;
  let d = !digits in
  String.init (Array.length d) (fun i -> Char.chr (48 + d.(Array.length d - 1 - i)))
let rec pos_small (p : positive) (depth : int) : bool =
  depth < 61 && (match p with XH -> true | XO q | XI q -> pos_small q (depth + 1))
let rec int_of_pos = function
  | XH -> 1 | XO p -> 2 * int_of_pos p | XI p -> 2 * int_of_pos p + 1
let string_of_pos p = if pos_small p 0 then string_of_int (int_of_pos p) else dec_of_pos p
let string_of_z = function Z0 -> "0" | Zpos p -> string_of_pos p | Zneg p -> "-" ^ string_of_pos p

(* decimal string -> positive for long literals: repeated halving of the digit array *)
let pos_of_dec (s : string) : positive =
  let d = Array.init (String.length s) (fun i -> Char.code s.[i] - 48) in (* most significant first *)
  let is_zero () = Array.for_all (fun x -> x = 0) d in
  let halve () = (* returns remainder *)
    let r = ref 0 in
    Array.iteri (fun i x -> let v = !r * 10 + x in d.(i) <- v / 2; r := v mod 2) d; !r in
  let bits = ref [] in (* least significant first *)
  while not (is_zero ()) do bits := halve () :: !bits done;
  (* !bits is most significant first *)
  match !bits with
  | [] -> failwith "zero"
  | _ :: rest -> List.fold_left (fun acc b -> if b = 1 then XI acc else XO acc) XH rest
let z_of_string (s : string) : z =
  let neg = String.length s > 0 && s.[0] = '-' in
  let body = if neg then String.sub s 1 (String.length s - 1) else s in
  if String.length body <= 17 then z_of_int (int_of_string s)
  else let p = pos_of_dec body in if neg then Zneg p else Zpos p

(* parser *)
let parse (s : string) : sexp =
  let n = String.length s in
  let i = ref 0 in
  let rec skip () = while !i < n && (s.[!i] = ' ' || s.[!i] = '\t' || s.[!i] = '\r') do incr i done
  and item () : sexp =
    skip ();
    if !i >= n then failwith "eof"
    else if s.[!i] = '(' then begin
      incr i;
      let acc = ref [] in
      skip ();
      while !i < n && s.[!i] <> ')' do acc := item () :: !acc; skip () done;
      if !i >= n then failwith "unclosed";
      incr i; L (List.rev !acc)
    end else begin
      let j = !i in
      while !i < n && s.[!i] <> ' ' && s.[!i] <> '(' && s.[!i] <> ')' do incr i done;
      A (z_of_string (String.sub s j (!i - j)))
    end
  in item ()

let rec print (b : Buffer.t) (x : sexp) : unit =
  match x with
  | A z -> Buffer.add_string b (string_of_z z)
  | L l ->
    Buffer.add_char b '(';
    List.iteri (fun k y -> if k > 0 then Buffer.add_char b ' '; print b y) l;
    Buffer.add_char b ')'

let () =
  let id = z_of_int (int_of_string Sys.argv.(1)) in
  let buf = Buffer.create 65536 in
  (try
    while true do
      let line = input_line stdin in
      if String.length line > 0 then begin
        Buffer.clear buf;
        (try print buf (dispatch id (parse line))
         with Stack_overflow -> Buffer.clear buf; Buffer.add_string buf "(-2)");
        print_string (Buffer.contents buf); print_newline ()
      end
    done
  with End_of_file -> ())
