#!/usr/bin/env python3
"""Rewrites the generated blocks of /verif/DESIGN.md (between <!-- GEN:x:BEGIN --> / <!-- GEN:x:END --> markers):
status table per property (from MANIFEST.json, the plug-ins' THEOREMS, evidence/*.json) and the seeded-change table
(from seeded/*/meta.json, result.json)."""
import json, os, re, sys, glob
V = os.path.abspath(os.path.join(os.path.dirname(__file__), ".."))
sys.path.insert(0, os.path.join(V, "tools"))
from vlib import runner
man = json.load(open(f"{V}/MANIFEST.json"))
rows = ["| id | theorems (Qed, axiom-free) | quick run: cases / distinct non-trivial | model≠impl | oracle failures (known classes) | wall s | technique |",
        "|---|---|---|---|---|---|---|"]
for c in man["checks"]:
    pid = c["property_id"]
    p = runner.load_prop(pid)
    ev = {}
    try: ev = json.load(open(f"{V}/evidence/{pid}.json"))
    except Exception: pass
    cov = ev.get("coverage", {})
    rows.append(f"| {pid} | {len(p.THEOREMS)} | {cov.get('evaluations','?')} / {cov.get('distinct_nontrivial','?')} ({ev.get('tier','?')}) | {cov.get('model_impl_disagreements','?')} | {cov.get('oracle_failures','?')} {json.dumps(cov.get('known_finding_hits',{})) if cov.get('known_finding_hits') else ''} | {ev.get('wall_s','?')} | {c.get('technique','')} |")
for n in man.get("not_applicable", []):
    rows.append(f"| {n['property_id']} | — | not claimed: {n['reason']} | | | | |")
status = "\n".join(rows)
srows = ["| seeded change | property | what was changed | what it needs to manifest | quick tier | thorough tier |", "|---|---|---|---|---|---|"]
for d in sorted(glob.glob(f"{V}/seeded/*/meta.json")):
    m = json.load(open(d)); sid = m["id"]; res = {}
    rp = os.path.join(os.path.dirname(d), "result.json")
    if os.path.exists(rp): res = json.load(open(rp))
    def verdict(tier):
        out = []
        for k, v in sorted(res.items()):
            pid, t = k.split(":")
            if t != tier: continue
            if "caught" not in v: out.append(f"{pid}: {v.get('status')}")
            elif v["caught"]: out.append(f"{pid}: **caught**" + (" (no-failing-input-found)" if v.get("no_failing_input_found") else " (failing input)"))
            else: out.append(f"{pid}: missed")
        return "; ".join(out) or "not run"
    srows.append(f"| {sid} | {m['property']} | {m['summary'][:220].replace('|','/')} | {m['needs'][:260].replace('|','/')} | {verdict('quick')} | {verdict('thorough')} |")
seeded = "\n".join(srows)
p = f"{V}/DESIGN.md"; s = open(p).read()
for name, text in (("status", status), ("seeded", seeded)):
    pat = re.compile(rf"(<!-- GEN:{name}:BEGIN -->).*?(<!-- GEN:{name}:END -->)", re.S)
    if pat.search(s):
        s = pat.sub(lambda mm: mm.group(1) + "\n" + text + "\n" + mm.group(2), s)
    else:
        print(f"marker GEN:{name} not found in DESIGN.md")
open(p, "w").write(s)
print("DESIGN.md generated blocks rewritten")
