"""Generators of "bbi cases" (DESIGN.md §6): chromosome sets, value / entry layouts from a small
grammar, option sets, queries.  Shared by C01-C11, C13, C14.  All randomness from the rng passed in."""
import struct
from .core import sx

def f32bits(x):
    return struct.unpack("<I", struct.pack("<f", x))[0]

NICE = [1.0, 2.0, 0.5, -1.0, 3.25, 100.0, -0.125, 7.0, 0.0, 1e-3, 12345.678, -2.5e10, 3.0e-30]

def rand_f32(rng, mode):
    """mode 'nice': small dyadics; 'any': arbitrary finite pattern (never -0.0, never NaN/inf)"""
    if mode == "nice":
        return f32bits(rng.choice(NICE[:9]))
    if mode == "mixed" and rng.random() < 0.6:
        return f32bits(rng.choice(NICE))
    while True:
        b = rng.getrandbits(32)
        if (b >> 23) & 0xFF == 0xFF or b == 0x80000000:
            continue
        return b

NAMES = ["chr1", "chr10", "chr2", "chrX", "a", "chrUn_gl000220", "chr1_random", "B", "chrM", "échr", "chrm"]   # chrM / chrm differ in letter case only

def chrom_set(rng, sort_all, nmax=6):
    n = rng.choice([1, 1, 2, 2, 3, 4, nmax])
    names = rng.sample(NAMES, n)
    if sort_all:
        names.sort(key=lambda s: s.encode())
    return names

def layout(rng, ips, style=None, maxitems=None):
    """a sorted, non-overlapping list of (start,end) for one chromosome and the chromosome length"""
    style = style or rng.choice(["dense", "sparse", "adjacent", "zero", "edge", "longgap", "longitem", "single", "mixed"])
    n = rng.choice([1, 2, 3, ips, ips + 1, 2 * ips, 3 * ips + 2]) if maxitems is None else rng.randint(1, maxitems)
    n = max(1, min(n, 60))
    if style in ("longgap", "longitem"):
        n = min(n, 8)
    if style == "single":
        n = 1
    pos = rng.choice([0, 0, 1, 7])
    items = []
    for i in range(n):
        if style == "dense":
            gap, ln = 0, rng.choice([1, 2, 5])
        elif style == "sparse":
            gap, ln = rng.choice([3, 10, 40]), rng.choice([1, 4, 10])
        elif style == "adjacent":
            gap, ln = 0, rng.choice([1, 10, 16])
        elif style == "zero":
            gap, ln = rng.choice([0, 2]), rng.choice([0, 0, 3])
        elif style == "longgap":
            gap, ln = rng.choice([0, 300, 1000]), rng.choice([1, 5])
        elif style == "longitem":
            gap, ln = rng.choice([0, 3]), rng.choice([1, 1, 5, 300])
        else:
            gap, ln = rng.choice([0, 0, 1, 5, 9, 10, 11, 30]), rng.choice([0, 1, 2, 5, 10, 20, 33])
        if i > 0:
            pos += gap
        items.append((pos, pos + ln))
        pos += ln
    length = pos + rng.choice([0, 0, 1, 100])
    if style == "edge":
        length = pos
    # zero-length values exactly at 0 or at the chromosome end are a known finding (K1): keep them rare
    if items[0] == (0, 0) and rng.random() < 0.9:
        items[0] = (0, 1) if len(items) == 1 or items[1][0] >= 1 else items[0]
        length = max(length, 1)
    if items[-1][0] == items[-1][1] == length and rng.random() < 0.9:
        length += 1
    return items, max(length, 1), style

def options(rng, tier, compress=None, zoom_mode=None):
    comp = rng.choice([0, 0, 1]) if compress is None else compress
    ips = rng.choice([1, 2, 3, 7, 1024])
    bs = rng.choice([2, 3, 4, 5, 256])
    zm = zoom_mode or rng.choice(["auto", "auto-small", "manual", "manual-odd", "none"] * 3 + ["auto-many", "manual-many"])
    izoom, maxz, manual = 160, 10, []
    if zm == "auto-small":
        izoom, maxz = rng.choice([1, 2, 5, 10]), rng.choice([1, 3, 10])
    elif zm == "auto-many":
        # more levels asked for than the zoom directory has room for (MAX_ZOOM_LEVELS)
        izoom, maxz = rng.choice([1, 2, 3]), rng.choice([11, 12, 13, 16])
    elif zm == "manual-many":
        manual = [rng.sample([4, 6, 8, 10, 12, 14, 16, 20, 24, 28, 32, 40, 48, 56, 64, 80, 96, 128], rng.choice([11, 12, 13, 15]))]
        maxz = rng.choice([10, 13, 20])
    elif zm == "manual":
        manual = [sorted(rng.sample([1, 2, 3, 5, 10, 16, 40, 100, 1000, 100000], rng.choice([1, 2, 3])))]
    elif zm == "manual-odd":
        manual = [rng.choice([[10, 10], [0, 10], [40, 10], [10, 0, 40, 10], [0], [5, 20, 80, 320, 1280, 5120, 20480, 81920, 327680, 1310720]])]
    elif zm == "none":
        manual = [[]]
    if comp and not manual:
        # automatic zoom selection depends on compressed sizes, which the model does not predict
        manual = [[rng.choice([4, 10, 50]), 200]]
        zm = "manual"
    return [comp, ips, bs, izoom, maxz, manual, None], zm

def bw_case(rng, tier, kind=None, fmode="mixed", compress=None, zoom_mode=None, style=None, extra_queries=True):
    sort_all = rng.choice([1, 1, 1, 0])
    names = chrom_set(rng, sort_all)
    o, zm = options(rng, tier, compress, zoom_mode)
    o[6] = sort_all
    ips = o[1]
    sizes = []; inp = []; tags = [zm, "compress=%d" % o[0], "ips=%d" % ips, "bs=%d" % o[2], "chroms=%d" % len(names)]
    queries = []
    per = {}
    for nm in names:
        items, length, st = layout(rng, min(ips, 8), style)
        tags.append(st)
        sizes.append([nm, length])
        vals = [[nm, s, e, rand_f32(rng, fmode)] for (s, e) in items]
        inp += vals
        per[nm] = (items, length)
        queries.append([0, nm, 0, length])
    # an unused chromosome in the size table
    if rng.random() < 0.3:
        sizes.append(["chrUnused", 1000])
    rng.shuffle(sizes)
    queries.append([4]); queries.append([3])
    if extra_queries:
        zl = (o[5][0] if o[5] else [o[3] * 4 ** k for k in range(min(o[4], 10))])
        for nm in names:
            items, length = per[nm]
            for r in list(zl)[:4]:
                queries.append([2, nm, 0, length, r])
            pts = sorted(set([0, length] + [p for it in items[:6] for p in (it[0], it[1])] + [p + d for it in items[:3] for p in it for d in (-1, 1) if 0 <= p + d <= length]))
            for _ in range(6):
                s = rng.choice(pts); e = rng.choice(pts)
                if s > e: s, e = e, s
                queries.append([rng.choice([0, 0, 1]), nm, s, e])
                if zl and rng.random() < 0.5:
                    queries.append([2, nm, s, e, rng.choice(list(zl))])
        queries.append([0, "nochrom", 0, 10]); queries.append([2, names[0], 0, 1, 7777])
    k = rng.choice([0, 0, 1]) if kind is None else kind
    tags.append("pass=%d" % (k + 1))
    return sx([k, o, sizes, inp, queries]), tags
