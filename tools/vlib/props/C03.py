from ..runner import Prop
from .. import bbigen
from .. import core
from ..core import parse_sx, sx

# The extracted model walks a 350 kB byte list per block read on the cache-reset files; with OCaml's default
# 256k-word minor heap most of the time goes into promoting and re-marking that list.  (Cost only.)
core.ENV.setdefault("OCAMLRUNPARAM", "s=16M,o=400")


class C03(Prop):
    ID = "C03"
    THEOREMS = ["C03_section_codec", "C03_block_decode", "C03_query_image", "C03_query", "C03_values", "C03_sorted_clipped",
                "C03_values_array", "C03_values_pointwise", "C03_cover_unique", "C03_step", "C03_block_read_reset",
                "C03_cache_bounded", "C03_reopen", "C03_history", "C03_history_written",
                "C03_query_compressed", "C03_values_compressed", "C03_history_written_compressed"]
    RULE = ("bbi cases written by the real BigWigWrite with small items_per_slot {1,2,3,7} and block_size {2,3,4,256} so that a chromosome "
            "spans many blocks and index levels; per file the query HISTORY is built from all 'interesting' (s,e): 0, chromosome length, "
            "every item boundary and every block boundary -1/0/+1 -- all pairs s<=e (incl. empty ranges) for small files, block-boundary "
            "biased samples for large ones -- as interval queries, per-base value queries and (when the file has zoom levels) zoom queries, "
            "in random order with repetitions; plus out-of-scope queries (unknown chromosome, s>e, e>length) that only the model "
            "comparison looks at; plus files with items_per_slot=1 and >5000 blocks whose history drives the caching reader through its "
            "5000-entry reset in the middle of a query. Each history is answered by a fresh plain reader per query, one plain reader, one "
            "cached() reader, and reopen() of the used cached reader (history reversed). "
            "non-trivial = at least 2 stored values and 8 queries; distinct = distinct case text")
    CORRESPONDENCE = ("answers of BigWigRead::get_interval / values / get_zoom_interval through plain, cached and reopened readers "
                      "= Model/BBIRead.v + Model/CachedRead.v answers on Model/BigWigWrite.v's file")
    TRUSTED = ["harness/src/bbi.rs answer printing", "tempfile on disk for the Reopen-able readers"]
    ASSUMPTIONS = ["f32 -0.0 and NaN are not stored (sign of zero not modelled; NaN is the 'no data' marker of values())",
                   "libdeflater round-trips (compressed files are compared at reader level only)",
                   "a zero-length stored value covers no base: the oracle accepts it reported or omitted"]
    PER_CASE_TIMEOUT = 120.0

    # ------------------------------------------------------------------ case building
    def build(self, rng, tier, ips, bs, nchrom, style=None, maxitems=None, zoom=False, compress=None, nq=None, exhaustive_limit=13, big=0):
        sort_all = rng.choice([1, 1, 0])
        names = rng.sample(bbigen.NAMES, nchrom)
        if sort_all:
            names.sort(key=lambda s: s.encode())
        comp = rng.choice([0, 0, 1]) if compress is None else compress
        if zoom:
            zl = sorted(rng.sample([2, 5, 10, 40], 2))
            manual = [zl]
        else:
            zl = []
            manual = [[]]
        o = [comp, ips, bs, 160, 10, manual, sort_all]
        sizes = []; inp = []; per = {}
        tags = ["compress=%d" % comp, "ips=%d" % ips, "bs=%d" % bs, "chroms=%d" % nchrom, "zoom=%d" % (1 if zoom else 0)]
        for nm in names:
            if big:
                items, length, st = self.big_layout(rng, big)
            else:
                items, length, st = bbigen.layout(rng, min(ips, 8), style, maxitems)
            tags.append(st)
            sizes.append([nm, length])
            inp += [[nm, s, e, bbigen.rand_f32(rng, "mixed")] for (s, e) in items]
            per[nm] = (items, length)
        if rng.random() < 0.3:
            sizes.append(["chrUnused", 1000])
        rng.shuffle(sizes)
        qset = []
        for nm in names:
            items, length = per[nm]
            qset += self.interesting(rng, nm, items, length, ips, zl, nq, exhaustive_limit)
        hist = self.history(rng, qset)
        # out-of-scope queries, anywhere in the history
        extra = [[0, "nochrom", 0, 10], [1, "nochrom", 0, 3], [0, "chrUnused", 0, 10]]
        nm = names[0]; length = per[nm][1]
        extra += [[0, nm, length, length + 5], [0, nm, 0, length + 1], [1, nm, max(0, length - 1), length + 2]]
        if length >= 2:
            extra.append([0, nm, length // 2 + 1, length // 2])      # s > e, interval only
        if zl:
            extra.append([2, nm, 0, length, 7777])
        for q in extra:
            if rng.random() < 0.5:
                hist.insert(rng.randrange(len(hist) + 1), q)
        kind = rng.choice([0, 0, 1])
        tags.append("pass=%d" % (kind + 1))
        tags.append("queries~%d" % (10 * (len(hist) // 10)))
        return sx([kind, o, sizes, inp, hist]), tags

    @staticmethod
    def big_layout(rng, n):
        """n sorted non-overlapping items with a mix of adjacent / gapped / zero-length (strictly inside) / long ones"""
        n = rng.randint(max(2, n // 2), n)
        pos = rng.choice([0, 1, 9]); items = []
        for k in range(n):
            pos += rng.choice([0, 0, 0, 1, 2, 17])
            ln = rng.choice([1, 1, 2, 3, 8, 40]) if (k == 0 or k == n - 1 or rng.random() > 0.05) else 0
            items.append((pos, pos + ln)); pos += ln
        return items, pos + rng.choice([0, 1, 50]), "big"

    @staticmethod
    def points(items, length, ips):
        """0, length, every item boundary -1/0/+1; returns (all points, block-boundary points)"""
        pts = {0, length}
        blk = set()
        for k, (s, e) in enumerate(items):
            for p in (s, e):
                for d in (-1, 0, 1):
                    if 0 <= p + d <= length:
                        pts.add(p + d)
            if k % ips == 0:
                blk.update(x for x in (s - 1, s, s + 1) if 0 <= x <= length)
            if k % ips == ips - 1 or k == len(items) - 1:
                blk.update(x for x in (e - 1, e, e + 1) if 0 <= x <= length)
        return sorted(pts), sorted(blk)

    def interesting(self, rng, nm, items, length, ips, zl, nq, exhaustive_limit):
        pts, blk = self.points(items, length, ips)
        pairs = []
        if len(pts) <= exhaustive_limit and nq is None:
            pairs = [(s, e) for s in pts for e in pts if s <= e]
        else:
            n = nq or 60
            pairs = [(0, length), (0, 0), (length, length)]
            for _ in range(n):
                src = blk if (blk and rng.random() < 0.6) else pts
                s = rng.choice(src); e = rng.choice(pts if rng.random() < 0.5 else src)
                if s > e:
                    s, e = e, s
                if rng.random() < 0.15:
                    e = s
                pairs.append((s, e))
        qs = []
        for (s, e) in pairs:
            r = rng.random()
            if r < 0.22 and e - s <= 3000:
                qs.append([1, nm, s, e])
            elif r < 0.30 and zl:
                qs.append([2, nm, s, e, rng.choice(zl)])
            else:
                qs.append([0, nm, s, e])
        return qs

    @staticmethod
    def history(rng, qset):
        hist = list(qset)
        rng.shuffle(hist)
        # repetitions: the same query again later (cache hit paths), and immediately
        for _ in range(max(1, len(qset) // 5)):
            q = rng.choice(qset)
            hist.insert(rng.randrange(len(hist) + 1), q)
        if hist:
            hist.append(hist[0])
        return hist

    def reset_case(self, rng, nblocks, bs, nchrom=1, compress=0, light=False, fill=False):
        """items_per_slot = 1 and more blocks than the cache holds: a whole-chromosome query makes the caching reader
        clear its block map in the middle of the query; later queries find some blocks cached and some evicted"""
        names = sorted(rng.sample(["chr1", "chr2", "chrX"], nchrom), key=lambda s: s.encode())
        per = {}
        sizes = []; inp = []
        left = nblocks
        for ci, nm in enumerate(names):
            n = left if ci == len(names) - 1 else nblocks // nchrom
            left -= n
            pos = rng.choice([0, 3]); items = []
            for _ in range(n):
                pos += rng.choice([0, 0, 1, 2]); ln = rng.choice([1, 1, 2, 3])
                items.append((pos, pos + ln)); pos += ln
            length = pos + rng.choice([0, 5])
            per[nm] = (items, length); sizes.append([nm, length])
            inp += [[nm, s, e, bbigen.f32bits(float((k * 7) % 1000) / 8.0)] for k, (s, e) in enumerate(items)]
        o = [compress, 1, bs, 160, 10, [[]], 1]
        hist = []
        for nm in names:
            items, length = per[nm]
            n = len(items)
            def span(a, b):
                return (items[a][0], items[min(b, n - 1)][1])
            if fill:
                # exactly CACHE_LIMIT distinct blocks cached (no reset yet), all of them read again (hits only),
                # then one more block (the reset), then evicted blocks
                lim = min(5000, n)
                s0, e0 = span(0, lim - 1)
                hist += [[0, nm, s0, e0], [0, nm, s0, e0]]
                if n > lim:
                    hist.append([0, nm, items[lim][0], items[n - 1][1]])
                hist += [[0, nm, *span(0, 10)], [1, nm, *span(lim - 3, min(n - 1, lim + 2))]]
                continue
            some = [span(0, 3), span(n - 4, n - 1), span(n // 2, n // 2 + 5), span(1, 1), span(n - 1, n - 1)]
            for (s, e) in some:
                hist.append([0, nm, s, e])
            hist.append([0, nm, 0, length])                    # every block: the reset happens inside this query
            for (s, e) in some:                                  # evicted (early) and still cached (late) blocks
                hist.append([rng.choice([0, 1]), nm, s, e])
            a = rng.randrange(n); hist.append([0, nm, items[a][0], items[min(n - 1, a + 40)][1]])
            if not light:
                hist.append([0, nm, items[n // 3][0], length])      # second pass over most blocks
            hist.append([1, nm, items[0][0], items[min(n - 1, 30)][1]])
        tags = ["cache-reset" + ("-fill" if fill else ""), "compress=%d" % compress, "ips=1", "bs=%d" % bs, "chroms=%d" % nchrom, "blocks=%d" % nblocks]
        return sx([0, o, sizes, inp, hist]), tags

    # ------------------------------------------------------------------ streams
    def gen(self, rng, tier):
        quick = tier == "quick"
        # A: small files, exhaustive (s,e) over all interesting points
        nA = 220 if quick else 2500
        for i in range(nA):
            ips = rng.choice([1, 1, 2, 2, 3])
            bs = rng.choice([2, 2, 3, 4])
            yield self.build(rng, tier, ips, bs, rng.choice([1, 1, 2, 3]), maxitems=rng.choice([2, 3, 4, 5, 6]),
                             zoom=(i % 7 == 0), style=rng.choice([None, None, "dense", "adjacent", "zero", "edge", "mixed"]),
                             exhaustive_limit=16)
        # B: medium files from the layout grammar, all pairs when few points, else sampled
        nB = 90 if quick else 1500
        for i in range(nB):
            ips = rng.choice([1, 2, 3, 7])
            bs = rng.choice([2, 3, 4, 256])
            yield self.build(rng, tier, ips, bs, rng.choice([1, 2, 4, 6]), zoom=(i % 5 == 0), nq=rng.choice([25, 40]))
        # C: large files (hundreds of blocks, 3-5 index levels), sampled
        nC = 8 if quick else 120
        for i in range(nC):
            ips = rng.choice([1, 1, 2, 7])
            bs = rng.choice([2, 3, 4, 256])
            case, tags = self.build(rng, tier, ips, bs, rng.choice([1, 2]), big=rng.choice([150, 400]) if not quick else 150,
                                    nq=60 if quick else 90)
            yield case, tags + ["large"]
        # H: coordinates beyond 2^31
        for i in range(4 if quick else 60):
            yield self.huge_case(rng, i % 2)
        # D: more blocks than the cache limit
        if quick:
            yield self.reset_case(rng, 5003, 256, light=True)
        else:
            for (nb, bs, nc, comp) in [(5001, 256, 1, 0), (5003, 16, 1, 0), (5200, 256, 2, 0), (5050, 64, 1, 1), (7600, 256, 1, 0), (4999, 256, 1, 0), (5000, 256, 1, 0)]:
                yield self.reset_case(rng, nb, bs, nc, comp, light=(nb > 5300))
            yield self.reset_case(rng, 5004, 256, fill=True)
            yield self.reset_case(rng, 5000, 64, fill=True)

    def huge_case(self, rng, kind):
        """chromosomes longer than 2^31 bases, values and query bounds on both sides of 2^31 and near 2^32:
        positions are u32 in the format, so every comparison must be unsigned and 32 bits wide"""
        T31 = 1 << 31; T32 = (1 << 32) - 1
        names = ["chr1", "chrBig"] if rng.random() < 0.5 else ["chrBig"]
        ips = rng.choice([1, 2, 3]); bs = rng.choice([2, 3, 256])
        sizes = []; inp = []; hist = []
        for nm in names:
            if nm != "chrBig":
                sizes.append([nm, 1000]); inp += [[nm, 10, 20, bbigen.f32bits(1.5)], [nm, 30, 40, bbigen.f32bits(2.0)]]
                hist.append([0, nm, 0, 1000]); continue
            length = rng.choice([T32, T32 - 5, T31 + 1000, 3000000000])
            starts = sorted(set([100, 1000, T31 - 50, T31 - 10, T31, T31 + 10, T31 + 900, length - 400, length - 20] +
                                [rng.randrange(0, length - 300) for _ in range(4)]))
            items = []; last = 0
            for st in starts:
                if st < last or st + 1 > length: continue
                ln = rng.choice([1, 5, 9, 200])
                en = min(st + ln, length); items.append((st, en)); last = en
            sizes.append([nm, length])
            inp += [[nm, a, b, bbigen.f32bits(float((k % 50) + 1) / 8.0)] for k, (a, b) in enumerate(items)]
            pts = sorted(set([0, length, T31 - 1, T31, T31 + 1] + [p for (a, b) in items for p in (a, b, max(a - 1, 0), min(b + 1, length))]))
            hist.append([0, nm, 0, length])
            for _ in range(30):
                a = rng.choice(pts); b = rng.choice(pts)
                if a > b: a, b = b, a
                hist.append([0, nm, a, b])
                if b - a <= 400:
                    hist.append([1, nm, a, b])          # per-base arrays only over short ranges
        o = [rng.choice([0, 0, 1]), ips, bs, 160, 10, [[rng.choice([1000, 100000])]], 1]
        return sx([kind, o, sizes, inp, hist]), ["huge-coordinates", "ips=%d" % ips, "pass=%d" % (kind + 1)]

    def nontrivial(self, case, tags):
        c = parse_sx(case)
        return len(c[3]) >= 2 and len(c[4]) >= 8

    def shrink_candidates(self, case):
        c = parse_sx(case)
        kind, o, sizes, inp, qs = c
        out = []
        n = len(qs)
        if n > 1:
            for a, b in ((0, n // 2), (n // 2, n)):
                out.append(sx([kind, o, sizes, inp, qs[a:b]]))
            if n <= 12:
                for k in range(n):
                    out.append(sx([kind, o, sizes, inp, qs[:k] + qs[k + 1:]]))
        if 1 < len(inp) <= 40:
            for k in range(len(inp)):
                out.append(sx([kind, o, sizes, inp[:k] + inp[k + 1:], qs]))
        return out


PROP = C03()
