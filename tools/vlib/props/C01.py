from ..runner import Prop
from .. import bbigen
from ..core import parse_sx, sx

class C01(Prop):
    ID = "C01"
    THEOREMS = ["C01_accept_iff", "C01_query_sections", "C01_full_span_read", "C01_roundtrip_exact",
                "C01_read_info", "C01_chrom_table", "C01_accepted_runs", "C01_query", "C01_query_narrow", "C01_roundtrip",
                "C01_roundtrip_multipass", "C01_roundtrip_file_exact", "C01_same_regions",
                "C01_chrom_table_on_input", "C01_query_on_input", "C01_roundtrip_on_input",
                "C01_zero_length_boundary_refuted", "C01_split_chromosome_refused", "C01_accepted_one_run_per_chromosome",
                "C01_read_info_compressed", "C01_buf_size_compressed", "C01_buf_size_compressed_multipass",
                "C01_chrom_table_compressed", "C01_accepted_runs_compressed", "C01_query_compressed",
                "C01_roundtrip_compressed", "C01_roundtrip_file_exact_compressed",
                "C01_chrom_table_compressed_on_input", "C01_query_compressed_on_input", "C01_roundtrip_compressed_on_input"]
    RULE = ("bbi cases: 1-6 chromosomes (names whose first-appearance, lexicographic and id order differ), per chromosome a layout "
            "from the grammar dense/sparse/adjacent/zero-length/edge-touching/long gap/long item, arbitrary finite f32 bit patterns, "
            "options from compress x items_per_slot{1,2,3,7,1024} x block_size{2,3,4,5,256} x zoom modes x single/two pass; "
            "non-trivial = accepted input with at least 2 values; distinct = distinct case text")
    CORRESPONDENCE = "bytes of the file written by BigWigWrite (uncompressed) = Model/BigWigWrite.v bytes; reader answers = Model/BBIRead.v answers"
    TRUSTED = ["verif_hooks accessors for private header fields"]
    ASSUMPTIONS = ["f32 -0.0 is not generated (the sign of zero is not modelled)", "libdeflater round-trips (compressed files are compared at reader level only)"]
    PER_CASE_TIMEOUT = 30.0
    MODEL_TIMEOUT = 1200.0

    def gen(self, rng, tier):
        # the largest slot size the format can express (the per-section item count is a u16): a chromosome with
        # more than 65535 values and items_per_slot = 65535.  The model takes minutes on it, so in the quick tier
        # it is judged by the oracle alone; the thorough tier also runs the model.
        nbig = 65537
        big = sx([0, [1, 65535, 256, 160, 10, [[]], 1], [["chrBig", nbig + 5]],
                  [["chrBig", i, i + 1, 0x3f800000 + (i % 7)] for i in range(nbig)],
                  [[0, "chrBig", 0, nbig + 5], [0, "chrBig", 65530, nbig], [4]]])
        yield big, ["max-slot", "ips=65535", "compress=1"] + (["oracle-only"] if tier == "quick" else [])
        n = 600 if tier == "quick" else 12000
        for i in range(n):
            yield bbigen.bw_case(rng, tier, fmode=rng.choice(["any", "mixed", "nice"]), extra_queries=(i % 3 == 0))

    def nontrivial(self, case, tags):
        return case.count("(") > 12

    def known_class(self, case, impl_out):
        c = parse_sx(case)
        sizes = {bytes(s[0]): s[1] for s in c[2]}
        for it in c[3]:
            if it[1] == it[2] and (it[1] == 0 or it[1] == sizes.get(bytes(it[0]))):
                return "bw-zero-length-at-chrom-boundary"
        return None

PROP = C01()
