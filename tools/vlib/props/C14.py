import os, random
from ..runner import Prop
from .. import bbigen, bedgen, core
from ..core import parse_sx, sx

def _pfx(a, b):
    return len(a) <= len(b) and b[:len(a)] == a

class C14(Prop):
    ID = "C14"
    THEOREMS = ["C14_header_operation", "C14_prefix_rejected", "C14_prefix_rejected_ops", "C14_prefix_complete",
                "C14_prefix_serves", "C14_trace_is_file", "C14_trace_is_file_multipass", "C14_refused_input", "C14_fault", "C14_fault_state",
                "C14_last_flush_refuted", "C14_debug_split_refuted",
                "C14_bb_header_operation", "C14_bb_prefix_rejected", "C14_bb_prefix_rejected_ops", "C14_bb_prefix_complete",
                "C14_bb_prefix_serves", "C14_bb_trace_is_file", "C14_bb_trace_is_file_multipass", "C14_bb_refused_input",
                "C14_bb_fault", "C14_bb_fault_state",
                "C14_prefix_serves_zoom", "C14_bb_prefix_serves_zoom"]
    RULE = ("bigWig: bbi cases (1-6 chromosomes, layouts from the grammar, options compress x items_per_slot x block_size x zoom modes x "
            "single/two pass) plus malformed inputs (overlap, end beyond the chromosome, start > end, unknown chromosome, chromosome "
            "order, empty) at the first/middle/last chromosome; for every case: the recorded sink trace, EVERY crash point at "
            "operation granularity and byte cuts inside every write but the header operation, a failure injected at EVERY "
            "operation of every kind (seek/write/flush); plus one-chromosome cases (exact trace comparison), multi-chromosome cases above the "
            "BufWriter capacity; bigBed (single/two pass): cases from the bed grammar (1-5 chromosomes, entry layouts disjoint/overlapping/nested/identical/"
            "zero-length, rest fields, autoSql none/BED3-like/text/unparsable/multibyte), one-chromosome uncompressed cases (exact trace comparison), refused "
            "calls (unsorted, start > end, start beyond the chromosome, unknown chromosome, chromosome order, chromosome coming back, empty, NUL in the "
            "autoSql, refused options); SHORT-WRITE destinations (at most 1, 7 or 4096 bytes accepted per write call): bigWig and bigBed x single/two pass x "
            "staging in memory / in temporary files x the three limits on 2-3 chromosome inputs whose three zoom levels each exceed the 8 KiB buffer, plus "
            "ordinary small cases of both types: writer must return Ok, destination bytes and every reader answer = the reference run's; non-trivial = accepted input with at least 2 values; distinct = distinct case text")
    CORRESPONDENCE = ("recorded sink trace of BigWigWrite::write / write_multipass and of BigBedWrite::write / write_multipass = Model/SinkTrace.v / "
                      "SinkTraceBed.v trace: exactly (operations, crash-point "
                      "verdicts, fault outcomes) for one-chromosome uncompressed inputs whose regions stay below the BufWriter capacity; "
                      "as coalesced write runs (which region is written when) otherwise; refused inputs: what was written is a prefix of the model's")
    TRUSTED = ["the recording / failing sink and the crash-point replay in harness/src/bin/c14.rs"]
    ASSUMPTIONS = ["short writes: validated only (a destination accepting at most 1 / 7 / 4096 bytes per write call must end up with exactly the reference run's file); the trace model has no short writes",
                   "the header operation (one write of 64+24*levels <= 304 bytes at offset 0) is atomic: a sink that tears it is outside the property",
                   "a failing sink operation has no effect on the destination",
                   "bigBed crash points after the header operation: the total summary and the item count are not final and not asked",
                   "f32 -0.0 is not generated", "compressed files: the trace is compared by status only; crash points and faults are still enumerated"]
    PER_CASE_TIMEOUT = 120.0
    MODEL_TIMEOUT = 400.0      # crash-point replay of a two-pass bigBed case with 13 zoom levels takes ~90 s in the extracted model

    def malform(self, rng, c):
        """turn an accepted case into a refused one"""
        kind, o, sizes, inp, qs = c
        names = []
        for it in inp:
            if it[0] not in names: names.append(it[0])
        how = rng.choice(["overlap", "beyond", "inverted", "unknown", "order", "empty"])
        where = rng.choice(["first", "middle", "last"])
        nm = {"first": names[0], "middle": names[len(names) // 2], "last": names[-1]}[where]
        idx = [i for i, it in enumerate(inp) if it[0] == nm]
        i = {"first": idx[0], "middle": idx[len(idx) // 2], "last": idx[-1]}[rng.choice(["first", "middle", "last"])]
        inp = [list(x) for x in inp]
        if how == "overlap":
            if i + 1 < len(inp) and inp[i + 1][0] == nm:
                inp[i][2] = inp[i + 1][1] + 1
                if inp[i][1] > inp[i][2]: inp[i][1] = inp[i][2]
            else:
                inp.insert(i + 1, [nm, max(0, inp[i][2] - 1), inp[i][2] + 1, inp[i][3]])
        elif how == "beyond":
            ln = [s[1] for s in sizes if s[0] == nm][0]
            inp[i][2] = ln + 5
        elif how == "inverted":
            inp[i][1], inp[i][2] = inp[i][2] + 3, inp[i][2]
        elif how == "unknown":
            sizes = [s for s in sizes if s[0] != nm]
        elif how == "order":
            if len(names) < 2:
                how = "empty"; inp = []
            else:
                # move the chromosome's values to the front / back so that names are out of order
                mine = [x for x in inp if x[0] == nm]; rest = [x for x in inp if x[0] != nm]
                inp = rest + mine if nm != names[-1] else mine + rest
                o = list(o); o[6] = 1
        else:
            inp = []
        return [kind, o, sizes, inp, qs], "bad-%s-%s" % (how, where)

    def malform_bed(self, rng, c):
        """turn an accepted bigBed case into a refused call"""
        kind, o, sizes, inp, qs, cfg, asql = c
        names = []
        for it in inp:
            if it[0] not in names: names.append(it[0])
        how = rng.choice(["unsorted", "unsorted", "inverted", "beyond", "unknown", "order", "split", "empty", "nul", "options"])
        if how in ("order", "split") and len(names) < 2:
            how = rng.choice(["unsorted", "inverted", "beyond"])
        where = rng.choice(["first", "middle", "last"])
        nm = {"first": names[0], "middle": names[len(names) // 2], "last": names[-1]}[where]
        idx = [i for i, it in enumerate(inp) if it[0] == nm]
        i = {"first": idx[0], "middle": idx[len(idx) // 2], "last": idx[-1]}[rng.choice(["first", "middle", "last"])]
        inp = [list(x) for x in inp]; o = list(o)
        ln = [s[1] for s in sizes if s[0] == nm][0]
        if how == "unsorted":
            inp.insert(i + 1, [nm, max(0, inp[i][1] - 1 - rng.choice([0, 3])), inp[i][2], inp[i][3]])
            if inp[i + 1][1] >= inp[i][1]: inp[i][1] = inp[i + 1][1] + 1; inp[i][2] = max(inp[i][2], inp[i][1])
        elif how == "inverted":
            inp[i][1], inp[i][2] = inp[i][2] + 3, inp[i][2]
            for j in range(i + 1, len(inp)):
                if inp[j][0] == nm and inp[j][1] < inp[i][1]: inp[j][1] = inp[i][1]; inp[j][2] = max(inp[j][2], inp[j][1])
        elif how == "beyond":
            for j in range(i, len(inp)):
                if inp[j][0] == nm: inp[j][1] = ln + j - i; inp[j][2] = max(inp[j][2], inp[j][1])
        elif how == "unknown":
            sizes = [s for s in sizes if s[0] != nm]
        elif how == "order":
            mine = [x for x in inp if x[0] == nm]; rest = [x for x in inp if x[0] != nm]
            inp = rest + mine if nm != names[-1] else mine + rest
            o[6] = 1
        elif how == "split":
            other = [x for x in inp if x[0] != nm]; mine = [x for x in inp if x[0] == nm]
            k = max(1, len(mine) // 2)
            inp = mine[:k] + other + (mine[k:] or [[nm, mine[-1][1], mine[-1][2], []]])
            o[6] = 0
        elif how == "nul":
            asql = [list(b"table t\x00 \"x\" (int a; \"A\")")]
        elif how == "options":
            if rng.random() < 0.5: o[1] = 0
            else: o[2] = rng.choice([0, 1])
        else:
            how = "empty"; inp = []
        return [kind, o, sizes, inp, qs, cfg, asql], "bad-%s-%s" % (how, where)

    def bed_one(self, rng, tier, i):
        """one bigBed case; every other one cut down to its first chromosome and uncompressed (exact traces)"""
        one = (i % 2 == 0)
        txt, tags = bedgen.bed_case(rng, tier, want=("ranges" if i % 4 >= 2 else "roundtrip"), nqueries=10,
                                    compress=(0 if one else None))
        kind, o, sizes, inp, qs, asql, flags = parse_sx(txt)
        qs = [q for q in qs if q[0] != 7][:24]
        if one:
            first = inp[0][0]
            inp = [it for it in inp if it[0] == first]
            qs = [q for q in qs if len(q) < 2 or q[1] == first or not isinstance(q[1], list)]
            tags = [t for t in tags if not t.startswith("chroms=")] + ["chroms=1", "one-chromosome"]
        # zoom levels are part of what the file advertises: ask for them too
        levels = (o[5][0] if o[5] else [o[3] * 4 ** k for k in range(min(o[4], 10))])
        for s_ in [s for s in sizes if any(it[0] == s[0] for it in inp)][:3]:
            for r in list(levels)[:3]:
                qs.append([2, s_[0], 0, s_[1], r])
        threads = rng.choice([2, 0, 4]); inmem = rng.choice([0, 1])
        c = [10 + kind, o, sizes, inp, qs, [threads, inmem, 0], asql]
        tags = ["bigBed"] + tags
        if i % 5 == 4:
            c, t = self.malform_bed(rng, c); tags = tags + [t]
        return sx(c), tags + ["threads=%d" % threads, "inmemory=%d" % inmem]

    def spill_case(self, rng):
        """several chromosomes whose data together exceed the BufWriter capacity: the destination's buffer
        spills while a per-chromosome buffer is being emptied (the situation of D5b)"""
        nchrom = rng.choice([2, 3, 4])
        names = sorted(rng.sample(bbigen.NAMES[:9], nchrom), key=lambda x: x.encode())
        per = rng.choice([250, 300, 400, 700])
        ips = rng.choice([64, 1024])
        sizes = []; inp = []; qs = []
        for nm in names:
            n = per + rng.randint(0, 40)
            for i in range(n):
                inp.append([nm, i * 10, i * 10 + rng.choice([3, 5, 10]), bbigen.f32bits(rng.choice([1.0, 2.0, 0.5]))])
            sizes.append([nm, n * 10 + 5]); qs.append([0, nm, 0, n * 10 + 5]); qs.append([0, nm, 15, 95])
        qs += [[4], [3]]
        manual = rng.choice([[[]], [[100]], [[50, 1000]]])
        o = [0, ips, rng.choice([4, 256]), 160, 10, manual, 1]
        return [rng.choice([0, 0, 1]), o, sizes, inp, qs]

    SHORT = [1, 7, 4096]

    def zoom_staged_case(self, rng, bed, two_pass):
        """2-3 chromosomes, 300-700 values / entries each at stride 10, manual zoom levels 10, 20, 40, uncompressed: every zoom
        level is well above the destination's 8 KiB buffer, so a level that was staged (in memory or in a temporary file) is
        handed to the destination in writes of 8 KiB and more - the writes a short-writing destination cuts"""
        nchrom = rng.choice([2, 3])
        names = sorted(rng.sample(bbigen.NAMES[:9], nchrom), key=lambda x: x.encode())
        sizes = []; inp = []; qs = []
        named = rng.choice([0, 1])
        for nm in names:
            n = rng.choice([300, 450, 700]) + rng.randint(0, 40)
            for i in range(n):
                e = i * 10 + rng.choice([3, 5, 10])
                inp.append([nm, i * 10, e, ("n%d" % i if named else "") if bed else bbigen.f32bits(rng.choice([1.0, 2.0, 0.5]))])
            ln = n * 10 + 5
            sizes.append([nm, ln])
            qs += [[0, nm, 0, ln], [0, nm, 15, 95]] + [[2, nm, 0, ln, r] for r in (10, 20, 40)] + [[2, nm, ln // 2, ln // 2 + 200, 20]]
        qs += [[4], [3]] + ([[6], [5]] if bed else [])
        o = [0, rng.choice([64, 1024]), rng.choice([4, 256]), 160, 10, [[10, 20, 40]], 1]
        return [(10 if bed else 0) + (1 if two_pass else 0), o, sizes, inp, qs]

    def short_cases(self, rng, tier):
        """SHORT-WRITE destinations (cfg field 4 = the most bytes one `write` call accepts: 1, 7, 4096): the writer must still
        return Ok with exactly the file of the reference run (bytes, and every answer of the real reader), for both file types,
        both pass modes, staging in memory and in temporary files"""
        reps = 1 if tier == "quick" else 8
        k = 0
        for _ in range(reps):
            for bed in (False, True):
                for two_pass in (False, True):
                    for inmem in (0, 1):
                        for short in self.SHORT:
                            c = self.zoom_staged_case(rng, bed, two_pass)
                            threads = rng.choice([2, 0, 4])
                            c.append([threads, inmem, 1, short])
                            if bed:
                                c.append([])
                            yield sx(c), ["short-write", "short=%d" % short, "zoom-staged", "bigBed" if bed else "bigWig", "pass=%d" % (2 if two_pass else 1),
                                          "chroms=%d" % len(c[2]), "threads=%d" % threads, "inmemory=%d" % inmem]
        # ordinary small cases of both types (exact-trace ones included) through a short-writing destination
        for i in range(12 if tier == "quick" else 240):
            short = self.SHORT[i % 3]; inmem = (i // 3) % 2
            if i % 2 == 0:
                txt, tags = bbigen.bw_case(rng, tier, kind=(i // 2) % 2, fmode="nice", extra_queries=True, compress=(1 if i % 10 == 8 else 0))
                c = parse_sx(txt)
                c = [c[0], c[1], c[2], c[3], c[4][:40], [2, inmem, 1, short]]
            else:
                txt, tags = self.bed_one(rng, tier, 2 * (i // 2))
                c = parse_sx(txt)
                c[0] = 10 + (i // 2) % 2
                c[5] = [2, inmem, 1, short]
                tags = [t for t in tags if not t.startswith(("threads=", "inmemory=", "pass="))] + ["pass=%d" % (c[0] - 9)]
            yield sx(c), ["short-write", "short=%d" % short] + tags + ["threads=2", "inmemory=%d" % inmem]

    def gen(self, rng, tier):
        for x in self.gen_main(rng, tier):
            yield x
        for x in self.short_cases(rng, tier):
            yield x

    def gen_main(self, rng, tier):
        n = 120 if tier == "quick" else 1500
        for i in range(n):
            txt, tags = bbigen.bw_case(rng, tier, fmode="nice", extra_queries=True,
                                       compress=(1 if i % 9 == 8 else 0))
            c = parse_sx(txt)
            qs = c[4][:40]
            c = [c[0], c[1], c[2], c[3], qs]
            if i % 4 == 3:
                c, t = self.malform(rng, c); tags = tags + [t]
            threads = rng.choice([2, 2, 0, 4]); inmem = rng.choice([0, 0, 1])
            c.append([threads, inmem, 0])
            tags += ["threads=%d" % threads, "inmemory=%d" % inmem]
            yield sx(c), tags
        # one chromosome, uncompressed: the real trace is determined by the input and compared exactly
        for i in range(60 if tier == "quick" else 900):
            txt, tags = bbigen.bw_case(rng, tier, fmode="nice", extra_queries=True, compress=0)
            c = parse_sx(txt)
            first = c[3][0][0]
            inp = [it for it in c[3] if it[0] == first]
            qs = [q for q in c[4] if len(q) < 2 or q[1] == first or not isinstance(q[1], list)][:40]
            c = [c[0], c[1], c[2], inp, qs]
            tags = [t for t in tags if not t.startswith("chroms=")] + ["chroms=1", "one-chromosome"]
            if i % 6 == 5:
                c, t = self.malform(rng, c); tags = tags + [t]
            threads = rng.choice([2, 0, 4]); inmem = rng.choice([0, 1])
            c.append([threads, inmem, 0])
            yield sx(c), tags + ["threads=%d" % threads, "inmemory=%d" % inmem]
        # bigBed (same write_info / write_data / write_mid, its own write_pre: Model/SinkTraceBed.v)
        for i in range(70 if tier == "quick" else 900):
            yield self.bed_one(rng, tier, i)
        for i in range(8 if tier == "quick" else 120):
            c = self.spill_case(rng)
            threads = rng.choice([2, 0, 4, 8]); inmem = rng.choice([0, 1])
            c.append([threads, inmem, 0])
            yield sx(c), ["spill", "pass=%d" % (c[0] + 1), "chroms=%d" % len(c[2]), "threads=%d" % threads, "inmemory=%d" % inmem]

        # two-pass writing whose FIRST zoom level is larger than the destination's 8 KiB buffer per chromosome: in the
        # second pass those records are written straight into the destination by the per-chromosome zoom tasks,
        # so a failing destination write can land inside such a task (its error must reach the caller)
        for i in range(6 if tier == "quick" else 60):
            c = self.spill_case(rng)
            c[0] = 1; c[1][5] = [[10, 300]]; c[1][1] = rng.choice([64, 1024])
            threads = rng.choice([4, 4, 8, 2]); inmem = rng.choice([0, 0, 1])
            c.append([threads, inmem, 0])
            yield sx(c), ["spill", "zoom-spill", "pass=2", "chroms=%d" % len(c[2]), "threads=%d" % threads, "inmemory=%d" % inmem]

    def nontrivial(self, case, tags):
        return not any(t.startswith("bad-") for t in tags) and case.count("(") > 14

    STATS = {"exact_trace_cases": 0, "sink_operations": 0, "crash_points_replayed": 0, "faults_injected": 0,
             "torn_header_cuts": 0, "torn_header_cuts_accepted_and_different": 0}

    def same(self, case, impl_out, model_out):
        try:
            i = parse_sx(impl_out); m = parse_sx(model_out)
        except Exception:
            return False
        if len(i) != 6:
            return False
        st = self.STATS
        bed = (len(m) == 9)     # bigBed: a ninth field, the least number of bytes a refused run has written
        if bed:
            st["bigbed_cases"] = st.get("bigbed_cases", 0) + 1
            if m[1] and m[2] and m[0] == [0]:
                st["bigbed_exact_trace_cases"] = st.get("bigbed_exact_trace_cases", 0) + 1
        elif len(m) != 8:
            return False
        st["sink_operations"] += len(i[1]); st["crash_points_replayed"] += len(i[3]); st["faults_injected"] += len(i[5])
        st["torn_header_cuts"] += i[4][0]; st["torn_header_cuts_accepted_and_different"] += i[4][1]
        if m[1] and m[2] and m[0] == [0]:
            st["exact_trace_cases"] += 1
        if i[0] != m[0]:
            return False
        if not m[2]:            # compressed: the model does not predict the bytes
            return True
        if m[0] != [0]:
            # refused: whatever was written is a prefix of the blank headers + the sections complete before the refusal
            if bed:
                # refused options: nothing; refused autoSql: the blank headers; refused input: write_pre and a prefix of
                # the sections complete before the refusal
                if len(m[7]) == 0:
                    return len(i[2]) == 0
                return len(i[2]) == 1 and i[2][0][0] == 0 and _pfx(i[2][0][1], m[7]) and len(i[2][0][1]) >= m[8]
            if len(i[2]) == 0:
                return True
            return len(i[2]) == 1 and i[2][0][0] == 0 and _pfx(i[2][0][1], m[7]) and len(i[2][0][1]) >= min(352, len(m[7]))
        if i[2] != m[4]:
            return False
        if m[1]:
            cfg = parse_sx(case)[5]
            if len(cfg) > 3 and cfg[3] > 0:
                # short-write case: the operations are cut by the destination; the coalesced writes (compared above) are not
                st["short_write_cases_exact_model"] = st.get("short_write_cases_exact_model", 0) + 1
                return i[1] == [] and i[5] == []
            return i[1] == m[3] and i[3] == m[5] and i[5] == m[6]
        return True

    def extra_checks(self, ctx):
        """thorough tier: the same cases through a harness built WITHOUT debug assertions (cargo release
        profile): D12 was a difference between the two profiles; after its repair the recorded traces
        must be identical, and the release traces must satisfy the oracle and match the model too"""
        res = [("stat", k, v) for k, v in self.STATS.items()]
        if ctx["tier"] != "thorough":
            return res
        rc, out = core.sh(["timeout", "1500", "cargo", "build", "--offline", "--release", "--bin", "c14"],
                          cwd=core.HARNESS_DIR, timeout=1600)
        if rc != 0:
            return [("nofail", "release build of the harness failed", {"property": self.ID, "kind": "build", "detail": out[-1500:]})]
        rel = os.path.join(core.TARGET, "release", "c14")
        rng = random.Random(ctx["seed"])
        cases = [c for c, _ in self.gen(rng, "quick")]
        dbg = core.run_impl(self.ID, cases, per_case_timeout=self.PER_CASE_TIMEOUT)
        relo = core.run_sharded([rel], cases, per_case_timeout=self.PER_CASE_TIMEOUT)
        model = core.run_model(self.ID, self.MODEL_ENTRY, cases)
        orc = core.run_model(self.ID, self.ORACLE_ENTRY, ["(%s %s)" % (c, o) for c, o in zip(cases, relo)])
        n_exact = 0; n_diff = 0
        for c, d, r, m, v in zip(cases, dbg, relo, model, orc):
            if v.strip() != "1":
                res.append(("violation", "release profile", {"property": self.ID, "kind": "failing-input", "profile": "release (debug assertions off)",
                                                             "case": c, "observed_impl": r[:4000]}))
                continue
            if not self.same(c, r, m):
                res.append(("nofail", "release profile", {"property": self.ID, "kind": "correspondence-broken", "profile": "release",
                                                          "case": c, "observed_impl": r[:4000], "model": m[:4000]}))
                continue
            try:
                pm = parse_sx(m); pd = parse_sx(d); pr = parse_sx(r)
            except Exception:
                continue
            if len(pm) in (8, 9) and pm[1] and pm[2]:
                n_exact += 1
                if pd[1] != pr[1]:
                    n_diff += 1
                    res.append(("nofail", "profiles differ", {"property": self.ID, "kind": "correspondence-broken",
                                                              "what": "dev and release traces differ", "case": c,
                                                              "dev": d[:3000], "release": r[:3000]}))
            if sum(1 for k, _, _ in res if k != "stat") > 5:
                break
        res.append(("stat", "release_profile_cases", len(cases)))
        res.append(("stat", "release_profile_exact_traces_equal_to_dev", n_exact - n_diff))
        return res

PROP = C14()
