from ..runner import Prop
from .. import bbigen
from ..core import parse_sx, sx

def _pfx(a, b):
    return len(a) <= len(b) and b[:len(a)] == a

class C14(Prop):
    ID = "C14"
    THEOREMS = ["C14_header_operation", "C14_prefix_rejected", "C14_prefix_rejected_ops", "C14_prefix_complete",
                "C14_trace_is_file", "C14_trace_is_file_multipass", "C14_refused_input", "C14_fault",
                "C14_last_flush_refuted", "C14_debug_split_refuted"]
    RULE = ("bbi cases (1-6 chromosomes, layouts from the grammar, options compress x items_per_slot x block_size x zoom modes x "
            "single/two pass) plus malformed inputs (overlap, end beyond the chromosome, start > end, unknown chromosome, chromosome "
            "order, empty) at the first/middle/last chromosome; for every case: the recorded sink trace, EVERY crash point at "
            "operation granularity and byte cuts inside every write but the header operation, a failure injected at EVERY "
            "operation of every kind (seek/write/flush); non-trivial = accepted input with at least 2 values; distinct = distinct case text")
    CORRESPONDENCE = ("recorded sink trace of BigWigWrite::write / write_multipass = Model/SinkTrace.v trace: exactly (operations, crash-point "
                      "verdicts, fault outcomes) for one-chromosome uncompressed inputs whose regions stay below the BufWriter capacity; "
                      "as coalesced write runs (which region is written when) otherwise; refused inputs: what was written is a prefix of the model's")
    TRUSTED = ["the recording / failing sink and the crash-point replay in harness/src/bin/c14.rs"]
    ASSUMPTIONS = ["the header operation (one write of 64+24*levels <= 304 bytes at offset 0) is atomic: a sink that tears it is outside the property",
                   "a failing sink operation has no effect on the destination", "at most 10 zoom levels (the reserved directory)",
                   "f32 -0.0 is not generated", "compressed files: the trace is compared by status only; crash points and faults are still enumerated"]
    PER_CASE_TIMEOUT = 120.0

    def malform(self, rng, c):
        """turn an accepted case into a refused one"""
        kind, o, sizes, inp, qs = c
        names = []
        for it in inp:
            if it[0] not in names: names.append(it[0])
        how = rng.choice(["overlap", "beyond", "inverted", "unknown", "order", "empty"])
        where = rng.choice(["first", "middle", "last"])
        nm = {"first": names[0], "middle": names[len(names) // 2], "last": names[-1]}[where]
        idx = [i for i, it in enumerate(inp) if it[0] == nm]
        i = {"first": idx[0], "middle": idx[len(idx) // 2], "last": idx[-1]}[rng.choice(["first", "middle", "last"])]
        inp = [list(x) for x in inp]
        if how == "overlap":
            if i + 1 < len(inp) and inp[i + 1][0] == nm:
                inp[i][2] = inp[i + 1][1] + 1
                if inp[i][1] > inp[i][2]: inp[i][1] = inp[i][2]
            else:
                inp.insert(i + 1, [nm, max(0, inp[i][2] - 1), inp[i][2] + 1, inp[i][3]])
        elif how == "beyond":
            ln = [s[1] for s in sizes if s[0] == nm][0]
            inp[i][2] = ln + 5
        elif how == "inverted":
            inp[i][1], inp[i][2] = inp[i][2] + 3, inp[i][2]
        elif how == "unknown":
            sizes = [s for s in sizes if s[0] != nm]
        elif how == "order":
            if len(names) < 2:
                how = "empty"; inp = []
            else:
                # move the chromosome's values to the front / back so that names are out of order
                mine = [x for x in inp if x[0] == nm]; rest = [x for x in inp if x[0] != nm]
                inp = rest + mine if nm != names[-1] else mine + rest
                o = list(o); o[6] = 1
        else:
            inp = []
        return [kind, o, sizes, inp, qs], "bad-%s-%s" % (how, where)

    def gen(self, rng, tier):
        n = 90 if tier == "quick" else 1500
        for i in range(n):
            txt, tags = bbigen.bw_case(rng, tier, fmode="nice", extra_queries=True,
                                       compress=(1 if i % 9 == 8 else 0))
            c = parse_sx(txt)
            # names come back as byte lists; keep them as they are
            qs = c[4][:40]
            c = [c[0], c[1], c[2], c[3], qs]
            if i % 4 == 3:
                c, t = self.malform(rng, c); tags = tags + [t]
            threads = rng.choice([2, 2, 0, 4]); inmem = rng.choice([0, 0, 1])
            c.append([threads, inmem, 0])
            tags += ["threads=%d" % threads, "inmemory=%d" % inmem]
            yield sx(c), tags

    def nontrivial(self, case, tags):
        return not any(t.startswith("bad-") for t in tags) and case.count("(") > 14

    def same(self, case, impl_out, model_out):
        try:
            i = parse_sx(impl_out); m = parse_sx(model_out)
        except Exception:
            return False
        if len(i) != 6 or len(m) != 8:
            return False
        if i[0] != m[0]:
            return False
        if not m[2]:            # compressed: the model does not predict the bytes
            return True
        if m[0] != [0]:
            # refused: whatever was written is a prefix of the blank headers + the sections complete before the refusal
            if len(i[2]) == 0:
                return True
            return len(i[2]) == 1 and i[2][0][0] == 0 and _pfx(i[2][0][1], m[7]) and len(i[2][0][1]) >= min(352, len(m[7]))
        if i[2] != m[4]:
            return False
        if m[1]:
            return i[1] == m[3] and i[3] == m[5] and i[5] == m[6]
        return True

PROP = C14()
