"""C19 -- the stored autoSql always matches the data; the schema parser is total.

Case formats (harness/src/bin/c19.rs, Model/Entry_C19.v):
  (0 rest)                  bed_autosql(rest) and parse_autosql of its output
  (1 text expect)           parse_autosql(text); expect = () or ((n1 n2 ..)): field counts the grammar generator intended
  (2 alphabet prefix depth) parse_autosql(prefix+w) for every w over alphabet with |w| <= depth (one case = many strings)
  (3 mode schema rest)      one-line bigBed written (library / bedtobigbed, with / without schema) and read back
"""
import re
from ..runner import Prop
from .. import core
from ..core import sx, parse_sx

MAX_BATCH_DEPTH = 4                # 11 111 strings per exhaustive-context case
ADDRESS_SPACE_KB = 2_000_000       # ulimit -v for the implementation side: a runaway allocation dies instead of hurting the machine

BASIC = ["int", "uint", "short", "ushort", "byte", "ubyte", "float", "double", "char", "string", "lstring", "bigint"]
RESERVED = set(BASIC + ["enum", "set", "simple", "object", "table", "primary", "index", "unique", "auto"])
DELIMS = b' ;()[],"a1'              # the parser's delimiter alphabet plus one letter and one digit
CONTEXTS = [
    '', 'table', 'table t', 'table t index', 'table t index[', 'table t "c', 'table t "c"', 'table t "c" (',
    'table t "c" ( int', 'table t "c" ( int x', 'table t "c" ( int x;', 'table t "c" ( int x; "d', 'table t "c" ( int x; "d"',
    'table t "c" ( int[', 'table t "c" ( int[3', 'table t "c" ( int[3]', 'table t "c" ( enum', 'table t "c" ( enum(',
    'table t "c" ( enum(a', 'table t "c" ( set(a,', 'table t "c" ( int x index', 'table t "c" ( int x index[',
    'table t "c" ( int x index[1', 'table t "c" ( int x primary', 'table t "c" ( simple', 'table t "c" ( simple pt',
    'table t "c" ( object pt index[', 'table t "c" ( int x; "d" )', 'table t "c" ( int x; "d" ) simple',
]
MUT_POOL = ["(", ")", "[", "]", ";", ",", '"', " ", "", "enum(", "set(", "enum", "index", "index[", "auto", "primary", "unique",
            "table", "simple", "object", "int", "x1", '"unterminated', "INT", "[3]", ")(", "\n"]
NONASCII = ["\u00a0", "\u2003", "\u0085", "\u00e9", "\u4e2d", "\U0001F600", "\u0301", "\u0130", "\u00df", "\u212a", "\u3000", "\ufeff", "\u2028"]


class Gram:
    """grammar-based autoSql generator; returns (text, [field count per declaration])"""
    def __init__(self, rng):
        self.r = rng

    def ws(self, need=False):
        r = self.r
        k = r.choice([1, 1, 1, 2, 4]) if need else r.choice([0, 0, 1, 1, 2])
        return "".join(r.choice([" ", " ", " ", "\n", "\t", "\r\n"]) for _ in range(k))

    def ident(self):
        r = self.r
        while True:
            s = r.choice("abcdefgxyzABQ") + "".join(r.choice("abcxyzABC0123456789") for _ in range(r.choice([0, 1, 3, 6, 10])))
            if s.lower() not in RESERVED:
                return s

    def comment(self):
        r = self.r
        k = r.choice([0, 1, 5, 20, 40])
        return '"' + "".join(r.choice("abc xyz ;()[], 0123.+-\n\t'") for _ in range(k)) + '"'

    def index(self):
        r = self.r
        c = r.random()
        if c < 0.55: s = ""
        elif c < 0.65: s = self.ws(True) + "primary"
        elif c < 0.75: s = self.ws(True) + "unique"
        elif c < 0.85: s = self.ws(True) + "index"
        else: s = self.ws(True) + "index" + self.ws() + "[" + self.ws() + str(r.choice([1, 12, 255])) + self.ws() + "]"
        if r.random() < 0.2: s += self.ws(True) + "auto"
        return s

    def ftype(self):
        r = self.r
        c = r.random()
        if c < 0.55:
            t = r.choice(BASIC)
            if r.random() < 0.15: t = r.choice([t.upper(), t.capitalize()])
            return t, True
        if c < 0.75:
            kw = r.choice(["enum", "set"])
            n = r.choice([0, 1, 2, 3, 6])
            vals = [self.ident() for _ in range(n)]
            sep = lambda: self.ws() + "," + self.ws()
            body = ""
            for i, v in enumerate(vals):
                body += v + (sep() if i + 1 < len(vals) else r.choice(["", "", self.ws() + ","]))
            return kw + self.ws() + "(" + self.ws() + body + self.ws() + ")", False
        kw = r.choice(["simple", "object", "table"])
        return kw + self.ws(True) + self.ident(), True

    def field(self):
        r = self.r
        t, sizable = self.ftype()
        s = self.ws() + t
        if sizable and r.random() < 0.3:
            s += self.ws() + "[" + self.ws() + r.choice([str(r.choice([1, 2, 12])), self.ident()]) + self.ws() + "]" + self.ws()
        else:
            s += self.ws(True)
        s += self.ident() + self.index() + self.ws() + ";"
        if r.random() < 0.9: s += self.ws() + self.comment()
        return s

    def decl(self, nfields):
        r = self.r
        s = self.ws() + r.choice(["simple", "object", "table", "table"]) + self.ws(True) + self.ident()
        if r.random() < 0.1: s += self.index()
        if r.random() < 0.9: s += self.ws(True) + self.comment()
        s += self.ws() + "("
        for _ in range(nfields):
            s += self.field()
        s += self.ws() + ")"
        return s

    def schema(self, ndecl=None, maxf=8):
        r = self.r
        nd = ndecl if ndecl is not None else r.choice([1, 1, 1, 2, 3, 4, 5, 6])
        counts = [r.choice([0, 1, 2, 3, 5, maxf]) for _ in range(nd)]
        return "".join(self.decl(k) for k in counts) + self.ws(), counts[:4]   # the parser stops after four declarations


def tokens(text):
    return re.findall(r'"[^"]*"|[A-Za-z0-9_]+|\s+|.', text, re.S)


class C19(Prop):
    ID = "C19"
    THEOREMS = ["C19_parser_total", "C19_parser_output_bounded", "C19_parser_fuel_independent",
                "C19_enum_loop_unrepaired_diverges",
                "C19_generated_field_count", "C19_generated_field_count_rest", "C19_generated_field_count_bed3_line",
                "C19_parse_generated", "C19_header_field_count", "C19_header_field_count_tool",
                "C19_supplied_schema_verbatim", "C19_stored_is_supplied", "C19_write_pre_total", "C19_default_schema"]
    RULE = ("generator: rests with 0..40 extra columns and 41, 60, 100 (thorough 41..60, 100, 150), odd rests (empty columns, blanks), "
            "and 255 (thorough 255, 1000, 5000, 20000) judged by the oracle alone; grammar-based autoSql texts "
            "(simple/object/table, sized and variable arrays, enum/set, index/unique/primary/auto, 1..6 declarations, random blank "
            "space and comments containing delimiters) with the field counts the grammar intended; every truncation and single-token "
            "mutations (delete, duplicate, swap, upper-case, replace from a pool of delimiters/keywords; thorough: 3 schemas exhaustively) "
            "of them; every string w over the alphabet {space ; ( ) [ ] , \" a 1} with |w| <= d appended to each of 29 parser contexts "
            "(one case = one context extension with all its continuations up to 4 more characters; quick d=5 for the empty context and 4 "
            "otherwise, thorough 7 / 5); non-ASCII texts (checked for 'returns' only); one-line bigBeds written by the library and by "
            "bedtobigbed with and without a schema (generated n = 0..40, hand-written n+3 field tables, grammar schemas incl. unparsable "
            "ones, several declarations with different field counts, the D9 witness, a NUL byte). "
            "non-trivial = anything but the empty text; distinct = distinct case text")
    CORRESPONDENCE = ("parse results (declarations, names, types, sizes, index flags, comments, error class) of Model/AutoSql.v = "
                      "bigtools::bed::autosql::parse::parse_autosql; generated text = bed_autosql; stored schema and header field "
                      "counts = BigBedWrite/bedtobigbed + BigBedRead")
    TRUSTED = ["harness/src/bin/c19.rs (public API only, no hook)", "tools/gen_consts_extra.py (FIELDS/BED3/header translator)"]
    ASSUMPTIONS = ["model characters are ASCII (non-ASCII input is validated on the real code for 'returns' only)",
                   "3 + extra columns < 65536 (the header field count is a u16)"]
    PER_CASE_TIMEOUT = 10.0
    MODEL_TIMEOUT = 900.0              # the extracted model does Peano arithmetic; on a loaded machine a 150-column schema takes minutes

    def __init__(self):
        self.nstrings = 0

    # the implementation runs under an address-space limit
    def impl_outputs(self, lines):
        cmd = ["/bin/sh", "-c", f"ulimit -v {ADDRESS_SPACE_KB}; exec {core.harness_bin('c19')}"]
        return core.run_sharded(cmd, lines, per_case_timeout=self.PER_CASE_TIMEOUT)

    @staticmethod
    def nonascii(case_text):
        try:
            c = parse_sx(case_text)
            return c[0] == 1 and any(b >= 128 for b in c[1])
        except Exception:
            return False

    def same(self, case_text, impl_out, model_out):
        if self.nonascii(case_text):
            ok = lambda o: o.startswith("(0 ") or o.startswith("(1 ")
            return ok(impl_out) and ok(model_out)
        return impl_out == model_out

    def nontrivial(self, case_text, tags):
        return "empty" not in tags

    # ------------------------------------------------------------------ generators
    def batch(self, prefix, depth, out, tag):
        """all continuations of prefix up to depth, as cases of at most MAX_BATCH_DEPTH levels each (one case = one
        prefix extension with all ITS continuations), so that no single case is heavy for the executable model"""
        a = len(DELIMS)
        pre = prefix if isinstance(prefix, bytes) else prefix.encode()
        if depth <= MAX_BATCH_DEPTH:
            out.append((sx([2, DELIMS, pre, depth]), [tag, "batch"]))
            self.nstrings += sum(a ** k for k in range(depth + 1))
            return
        out.append((sx([2, DELIMS, pre, 0]), [tag, "batch"])); self.nstrings += 1
        for ch in DELIMS:
            self.batch(pre + bytes([ch]), depth - 1, out, tag)

    def gen(self, rng, tier):
        quick = tier == "quick"
        self.nstrings = 0
        out = []
        # 1. the generator
        ns = list(range(0, 41)) + ([41, 60, 100] if quick else list(range(41, 61)) + [100, 150])
        for n in ns:
            rest = "\t".join(rng.choice(["x", "1", "name", "0,1,", "+"]) for _ in range(n))
            out.append((sx([0, rest.encode()]), ["gen", "gen-n<=40" if n <= 40 else "gen-n>40"]))
        # large n: the executable model is superlinear in the text length (Peano arithmetic), so these are judged by
        # the property oracle on the implementation's output alone (the theorems cover every n)
        for n in ([255] if quick else [255, 1000, 5000, 20000]):
            rest = "\t".join("c%d" % i for i in range(n))
            out.append((sx([0, rest.encode()]), ["gen", "gen-n>40", "gen-large", "oracle-only"]))
        for rest in ["\t", "\t\t\t", "a\t", "\tb", " ", "a b c"]:
            out.append((sx([0, rest.encode()]), ["gen", "gen-odd-rest"]))
        # 2. grammar-based schemas, their truncations and single-token mutations
        g = Gram(rng)
        nschema = 150 if quick else 3000
        schemas = [g.schema() for _ in range(nschema)]
        for text, counts in schemas:
            out.append((sx([1, text.encode(), [counts]]), ["grammar", f"decls={len(counts)}"]))
        ntrunc = 6 if quick else 40
        for text, _ in [g.schema(maxf=4) for _ in range(ntrunc)]:
            b = text.encode()
            for k in range(len(b) + 1):
                out.append((sx([1, b[:k], []]), ["truncation"] + (["empty"] if k == 0 else [])))
        nmut = 40 if quick else 250
        for mi in range(nmut):
            text, _ = g.schema(maxf=4)
            toks = tokens(text)
            exhaustive = (not quick) and mi < 3
            positions = range(len(toks)) if exhaustive else [rng.randrange(len(toks)) for _ in range(25 if quick else 60)]
            for i in positions:
                muts = []
                if exhaustive:
                    muts = [("replace", r) for r in MUT_POOL] + [("delete", None), ("dup", None), ("swap", None), ("upper", None)]
                else:
                    kind = rng.choice(["replace", "replace", "delete", "dup", "swap", "upper"])
                    muts = [(kind, rng.choice(MUT_POOL))]
                for kind, r in muts:
                    t = list(toks)
                    if kind == "replace": t[i] = r
                    elif kind == "delete": t[i] = ""
                    elif kind == "dup": t[i] = t[i] + t[i]
                    elif kind == "swap" and i + 1 < len(t): t[i], t[i + 1] = t[i + 1], t[i]
                    elif kind == "upper": t[i] = t[i].upper()
                    out.append((sx([1, "".join(t).encode(), []]), ["mutation", "mut-" + kind]))
        # 3. exhaustive continuations of parser contexts over the delimiter alphabet
        for ctx in CONTEXTS:
            if ctx == "":
                d = 5 if quick else 7
            else:
                d = 4 if quick else 5
            self.batch(ctx, d, out, "ctx-empty" if ctx == "" else "ctx")
        # 4. non-ASCII (valid UTF-8): only "returns, does not panic or hang" is checked
        nna = 150 if quick else 4000
        for _ in range(nna):
            text, _ = g.schema(ndecl=rng.choice([1, 2]), maxf=3)
            chars = list(text)
            for _k in range(rng.choice([1, 1, 2, 5])):
                pos = rng.randrange(len(chars) + 1)
                ins = rng.choice(NONASCII)
                if rng.random() < 0.5 and pos < len(chars): chars[pos] = ins
                else: chars.insert(pos, ins)
            s = "".join(chars)
            if rng.random() < 0.4: s = s[:rng.randrange(len(s) + 1)]
            if not any(ord(c) >= 128 for c in s): s += rng.choice(NONASCII)
            out.append((sx([1, s.encode("utf-8"), []]), ["nonascii"]))
        # 5. stored verbatim with its declared field count
        out.append((sx([3, 0, b"", b""]), ["stored", "stored-library-default"]))
        for n in ([0, 1, 2, 9, 12, 13, 40] if quick else list(range(0, 41)) + [100]):
            rest = "\t".join("v%d" % i for i in range(n))
            out.append((sx([3, 2, b"", rest.encode()]), ["stored", "stored-tool-generated"]))
            out.append((sx([3, 1, core_bed_autosql_placeholder(n), rest.encode()]), ["stored", "stored-library-supplied"]))
        for i in range(6 if quick else 60):
            text, _ = g.schema(maxf=5)
            if i % 3 == 2:
                text = text[:rng.randrange(len(text))]          # does not parse: the header falls back to 3
            out.append((sx([3, 1 if i % 2 == 0 else 3, text.encode(), b"a\tb"]), ["stored", "stored-supplied-grammar"]))
        # several declarations with different field counts: the header takes the LAST one the parser returns
        for k, counts in enumerate([(2, 5), (5, 2), (0, 3), (3, 0), (1, 2, 4), (4, 2, 1, 3), (1, 2, 3, 4, 5), (6, 1, 1, 1, 1, 9)]):
            text = "".join(multi_decl(j, c) for j, c in enumerate(counts))
            out.append((sx([3, 1 if k % 2 == 0 else 3, text.encode(), b"a\tb"]), ["stored", "stored-supplied-multi"]))
            if not quick:
                out.append((sx([3, 3 if k % 2 == 0 else 1, text.encode(), b""]), ["stored", "stored-supplied-multi"]))
        # a supplied schema longer than any reader-side buffer (8 KiB): stored and returned whole
        longdoc = ('table longdoc\n"' + "documentation " * 700 + '"\n(\n string chrom; "c"\n uint chromStart; "s"\n uint chromEnd; "e"\n lstring note; "n"\n)\n').encode()
        out.append((sx([3, 1, longdoc, b"x"]), ["stored", "stored-supplied-long"]))
        out.append((sx([3, 3, longdoc, b"x"]), ["stored", "stored-supplied-long"]))
        out.append((sx([3, 1, b'table t "c" ( enum(a, b', b""]), ["stored", "stored-supplied-d9"]))
        out.append((sx([3, 1, b'table t "c" ( int x; "a\x00b" )', b""]), ["stored", "stored-nul"]))
        rng.shuffle(out)               # spread the heavy batch cases over the shards
        for c in out:
            yield c

    def extra_checks(self, ctx):
        return [("stat", "strings parsed inside the exhaustive context cases", self.nstrings)]

    # ------------------------------------------------------------------ shrinking
    def shrink_candidates(self, case_text):
        c = parse_sx(case_text)
        res = []
        if c[0] == 1:
            b = bytes(c[1])
            n = len(b)
            step = n // 2
            while step >= 1:
                for i in range(0, n, step):
                    res.append(sx([1, b[:i] + b[i + step:], []]))
                step //= 2
                if len(res) > 400: break
        elif c[0] == 2:
            alpha, prefix, depth = bytes(c[1]), bytes(c[2]), c[3]
            res.append(sx([1, prefix, []]))
            if depth > 0:
                for ch in alpha:
                    res.append(sx([2, alpha, prefix + bytes([ch]), depth - 1]))
        elif c[0] == 0:
            b = bytes(c[1])
            for i in range(len(b)):
                res.append(sx([0, b[:i] + b[i + 1:]]))
        out = []
        for r in res:
            try:
                bytes(parse_sx(r)[1]).decode("utf-8") if parse_sx(r)[0] in (0, 1) else None
                out.append(r)
            except UnicodeDecodeError:
                pass                    # the harness takes valid UTF-8 only
        return out


def multi_decl(j, nfields):
    kind = ["table", "simple", "object"][j % 3]
    return f'{kind} d{j} "decl {j}" (\n' + "".join(f'  uint f{j}x{i}; "field {i}"\n' for i in range(nfields)) + ")\n"


def core_bed_autosql_placeholder(n):
    """a supplied schema for the library path: a hand-written n+3 field table (independent of bed_autosql)"""
    s = 'table supplied\n"supplied schema"\n(\n string chrom; "c"\n uint chromStart; "s"\n uint chromEnd; "e"\n'
    for i in range(n):
        s += f" lstring extra{i}; \"x{i}\"\n"
    return (s + ")\n").encode()


PROP = C19()
