"""C20 -- the array routines behind pybigtools' `values`.

The routines are private to a cdylib, so the implementation side is not a bt_harness binary: the
real code runs inside pybigtools' own unit-test binary, into which /verif/harness/pyarrays_verif.rs
is included under cfg(all(test, bigtools_verif)) (hook commit in /repo).  `impl_outputs` writes the
cases to a file, runs `cargo test -p pybigtools verif_pyarrays` once, and reads the results back.
The two wrappers (intervals_to_array / entries_to_array) need a Python interpreter with numpy, so
their arithmetic (fetch clamp, `match bins` value, out-of-bounds fill block) is cut out of the
current text of lib.rs below (`make_glue`) and compiled into the same test binary."""
import itertools, json, os, re, struct, subprocess, threading, time
from fractions import Fraction
from ..runner import Prop
from .. import core
from ..core import sx, parse_sx

# ------------------------------------------------------------------ source splice
def fn_text(src, name):
    m = re.search(r"^fn %s\b.*?(?=^fn |\Z)" % name, src, re.S | re.M)
    if not m:
        raise RuntimeError("anchor missing in pybigtools/src/lib.rs: fn " + name)
    return m.group(0)

def pieces(src, name):
    t = fn_text(src, name)
    m = re.search(r"let \(intervals_start, intervals_end\) =\s*(.*?);", t, re.S)
    if not m:
        raise RuntimeError(name + ": fetch clamp line not found")
    clamp = m.group(1)
    m = re.search(r"let (\w+) = match bins \{(.*?)\n    \};\n", t, re.S)
    if not m:
        raise RuntimeError(name + ": `let <x> = match bins` not found")
    var, body = m.group(1), m.group(2)
    m1 = re.search(r"\n\s*\n\s+([^\n;{}]+)\n        \}\n        _ => \{", body)
    m2 = re.search(r"\n\s*\n\s+([^\n;{}]+)\n        \}\s*\Z", body)
    if not m1 or not m2:
        raise RuntimeError(name + ": result expressions of the `match bins` arms not found")
    m = re.search(r"\n    \{\n(        let mut array = v\.readwrite\(\);\n.*?)\n    \}\n\s*\n    Ok\(arr\)", t, re.S)
    if not m:
        raise RuntimeError(name + ": out-of-bounds fill block not found")
    return clamp, var, m1.group(1).strip(), m2.group(1).strip(), m.group(1)

def make_glue(librs):
    src = open(librs).read()
    out = ["// generated from %s by tools/vlib/props/C20.py -- do not edit" % librs]
    for pre, name in (("wig", "intervals_to_array"), ("bed", "entries_to_array")):
        clamp, var, e_bins, e_base, fill = pieces(src, name)
        out.append("#[allow(unused)]\nfn %s_clamp(start: i32, end: i32, length: i32) -> (u32, u32) {\n"
                   "    let (intervals_start, intervals_end) = %s;\n    (intervals_start, intervals_end)\n}" % (pre, clamp))
        out.append("#[allow(unused)]\nfn %s_tail(start: i32, end: i32, length: i32, bins: Option<usize>, oob: f64, v: &ShimArr) {\n"
                   "    let %s = match bins {\n        Some(bins) => {\n            %s\n        }\n        _ => {\n            %s\n        }\n    };\n"
                   "    {\n%s\n    }\n}" % (pre, var, e_bins, e_base, fill))
    return "\n".join(out) + "\n"

# ------------------------------------------------------------------ running the real code
def work_dir():
    d = os.path.join(core.REPO, ".verif", "py-run") if core.SCRATCH else os.path.join(core.CACHE, "py-run")
    os.makedirs(d, exist_ok=True)
    return d

def target_dir():
    return os.path.join(core.REPO, ".verif", "py-target") if core.SCRATCH else os.path.join(core.CACHE, "py-target")

def cell_token(tok):
    """f64 bit pattern (or () for NaN) -> () | (num den) exact | (+-1 0) infinities"""
    if tok == []:
        return []
    x = struct.unpack("<d", struct.pack("<Q", tok))[0]
    if x == float("inf"):
        return [1, 0]
    if x == float("-inf"):
        return [-1, 0]
    a, b = x.as_integer_ratio()
    return [a, b]

def build_env():
    d = work_dir()
    glue = os.path.join(d, "glue.rs")
    text = make_glue(os.path.join(core.REPO, "pybigtools", "src", "lib.rs"))
    if not os.path.exists(glue) or open(glue).read() != text:     # keep the mtime when unchanged
        open(glue, "w").write(text)
    return dict(os.environ, CARGO_NET_OFFLINE="true", CARGO_TARGET_DIR=target_dir(), RUSTFLAGS="--cfg bigtools_verif",
                BIGTOOLS_VERIF_PYARRAYS=os.path.join(core.VERIF, "harness", "pyarrays_verif.rs"),
                BIGTOOLS_VERIF_PYGLUE=glue)

_EXE = {}
def test_binary():
    """(re)build pybigtools' unit-test binary from the working tree of core.REPO (cargo decides what is stale:
    lib.rs, the included harness file and the generated glue are all tracked inputs) and return its path"""
    key = os.path.abspath(core.REPO)
    if key in _EXE:
        return _EXE[key]
    p = subprocess.run(["timeout", "1500", "cargo", "test", "-p", "pybigtools", "--offline", "--no-run", "--message-format=json"],
                       cwd=core.REPO, env=build_env(), stdout=subprocess.PIPE, stderr=subprocess.PIPE, text=True, errors="replace")
    exe = None
    for line in p.stdout.split("\n"):
        if not line.startswith("{"):
            continue
        try:
            m = json.loads(line)
        except ValueError:
            continue
        if m.get("reason") == "compiler-artifact" and m.get("executable") and m.get("profile", {}).get("test") \
                and m.get("target", {}).get("name") == "pybigtools":
            exe = m["executable"]
    if p.returncode != 0 or not exe:
        raise RuntimeError("pybigtools test binary did not build:\n" + p.stderr[-3000:])
    _EXE[key] = exe
    return exe

def run_shard(exe, ix, lines, per_case_timeout):
    """one result line per case line.  The binary flushes after every case, so when it is killed by the
    watchdog (no progress) or dies, the case it was working on is known: (3) resp. (2), and the rest is resumed."""
    d = work_dir()
    cases = os.path.join(d, "cases-%d.txt" % ix); out = os.path.join(d, "out-%d.txt" % ix)
    res = []
    i = 0
    hangs = 0
    while i < len(lines):
        if hangs >= 5:
            res.extend(["(3)"] * (len(lines) - i)); break
        open(cases, "w").write("\n".join(lines[i:]) + "\n")
        if os.path.exists(out):
            os.remove(out)
        env = dict(os.environ, BIGTOOLS_VERIF_CASES=cases, BIGTOOLS_VERIF_OUT=out)
        p = subprocess.Popen([exe, "verif_pyarrays", "--nocapture", "--test-threads", "1"], env=env, cwd=d,
                             stdout=subprocess.DEVNULL, stderr=subprocess.DEVNULL)
        done = 0; last = time.time(); hung = False
        while True:
            try:
                p.wait(timeout=0.5)
            except subprocess.TimeoutExpired:
                pass
            n = 0
            if os.path.exists(out):
                with open(out, "rb") as f:
                    n = f.read().count(b"\n")
            if n > done:
                done = n; last = time.time()
            if p.poll() is not None:
                break
            if time.time() - last > per_case_timeout:
                hung = True; p.kill(); p.wait(); break
        got = []
        if os.path.exists(out):
            got = open(out).read().split("\n")[:-1]       # a last line without its newline is incomplete
        got = got[:len(lines) - i]
        res.extend(got); i += len(got)
        if i < len(lines):
            res.append("(3)" if hung else "(2)"); i += 1
            hangs += 1 if hung else 0
    for f in (cases, out):
        if os.path.exists(f):
            os.remove(f)
    return res

def run_rust(lines, per_case_timeout=120.0):
    """one output line (raw, f64 bit patterns) per case line; raises on a build failure"""
    exe = test_binary()
    shards = core.NCPU
    if len(lines) < 4 * shards:
        return run_shard(exe, 0, lines, per_case_timeout)
    k = (len(lines) + shards - 1) // shards
    parts = [lines[j:j + k] for j in range(0, len(lines), k)]
    res = [None] * len(parts)
    def work(ix):
        res[ix] = run_shard(exe, ix, parts[ix], per_case_timeout)
    ts = [threading.Thread(target=work, args=(ix,)) for ix in range(len(parts))]
    [t.start() for t in ts]; [t.join() for t in ts]
    return [o for part in res for o in part]

def convert(raw):
    """result line with bit patterns -> result line with exact fractions"""
    rs = parse_sx(raw)
    if rs in ([2], [3]):          # the whole case was lost (process died / watchdog)
        return raw
    outl = []
    for r in rs:
        if r and r[0] == 0:
            outl.append([0, [cell_token(t) for t in r[1]]])
        else:
            outl.append(r)
    return sx(outl)

# ------------------------------------------------------------------ generation
VALS8 = [8, -16, 20, 1, 24, -4]          # 1, -2, 2.5, 0.125, 3, -0.5
FILLS = [(0, []), (-8, []), (20, 56), ([], []), (0, 0), (-8, 20), (20, -8), ([], 56), (8, []), (16, 56), (24, 0)]   # (missing, oob) in eighths, [] = NaN; 8, 16, 24 = the whole numbers 1, 2, 3 (a count can coincide with them)

def wig_layouts(length, kmax=3):
    """all lists of <= kmax disjoint non-empty intervals in start order on [0, length)"""
    def rec(lo, k):
        yield []
        if k == 0:
            return
        for a in range(lo, length):
            for b in range(a + 1, length + 1):
                for rest in rec(b, k - 1):
                    yield [(a, b)] + rest
    return rec(0, kmax)

def bed_layouts(length, kmax=3):
    """all lists of <= kmax non-empty entries sorted by (start, end), overlaps and duplicates allowed"""
    ents = [(a, b) for a in range(length) for b in range(a + 1, length + 1)]
    for k in range(kmax + 1):
        for comb in itertools.combinations_with_replacement(ents, k):
            yield list(comb)

def ranges(length, below=2, above=2):
    for s in range(-below, length + above):
        for e in range(s + 1, length + above + 1):
            yield s, e

def all_queries(length, rng, touch_choices, below=2, above=2):
    """every range, per base and every bin count with every statistic; the fill values cycle"""
    k = rng.randrange(len(FILLS))
    for s, e in ranges(length, below, above):
        m, o = FILLS[k % len(FILLS)]; k += 1
        yield [s, e, 0, 0, m, o, rng.choice(touch_choices)]
        for bins in range(1, e - s + 1):
            for st in (0, 1, 2):
                m, o = FILLS[k % len(FILLS)]; k += 1
                yield [s, e, bins, st, m, o, rng.choice(touch_choices)]

def some_queries(length, rng, n, touch_choices, below=3, above=3):
    for _ in range(n):
        s = rng.randint(-below, length + above - 1)
        e = rng.randint(s + 1, length + above)
        m, o = rng.choice(FILLS)
        if rng.random() < 0.2:
            yield [s, e, 0, 0, m, o, rng.choice(touch_choices)]
        else:
            yield [s, e, rng.randint(1, e - s), rng.randrange(3), m, o, rng.choice(touch_choices)]

ZVALS8 = [8, 20, 1, 24, 16, 0]           # bigBed zoom levels hold depth statistics: never negative

def zoom_records(length, rng, vals=VALS8):
    """disjoint zoom records in start order, as a zoom level holds them; sum = mean * bases exactly"""
    recs = []; pos = rng.choice([0, 0, 1])
    while pos < length and len(recs) < 4:
        ln = rng.randint(1, max(1, length // 2))
        end = min(length, pos + ln)
        bases = rng.randint(1, end - pos)
        mean8 = rng.choice(vals)
        lo8 = mean8 - rng.choice([0, 8]); hi8 = mean8 + rng.choice([0, 16])
        if vals is ZVALS8:
            lo8 = max(lo8, 0)
        recs.append([pos, end, bases, lo8, hi8, mean8 * bases])
        pos = end + rng.choice([0, 0, 1, 2])
    return recs

class C20(Prop):
    ID = "C20"
    HARNESS = "c20"
    THEOREMS = ["C20_bin_index_spec", "C20_per_base", "C20_bins", "C20_bins_nan_free", "C20_oob",
                "C20_zoom_bins", "C20_zoom_step_function", "C20_zoom_missing", "C20_zoom_nan_free", "C20_zoom_oob",
                "C20_fetch_clamp", "C20_oob_layout",
                "C20_sums_exact_in_domain", "C20_bin_mean_ieee", "C20_entry_sums_exact_in_domain",
                # the written file as the subject: reader model on the bytes in the middle of the wrappers (Proofs/PyArraysFile.v)
                "C20_values_wig_written", "C20_values_bed_written", "C20_values_file", "C20_values_file_bed"]
    RULE = ("one case = one chromosome (length, value/entry layout) with a batch of queries (s, e, bins, statistic, missing, oob, "
            "reader hands over touching items or not).  Exhaustive block: every layout of <= 3 values (disjoint) / <= 3 entries "
            "(any overlap) on chromosomes of <= 5 bases (quick; <= 6 thorough) x every range [s,e) from 2 below 0 to 2 past the end x "
            "per-base and every bin count 1..e-s x mean/min/max, fill values cycling through 8 (missing, oob) pairs incl. NaN.  "
            "Layout-exhaustive block: every bigWig layout of <= 3 values on 12 bases (quick; thorough adds sampled layouts up to 24 bases) "
            "and a sample of bigBed layouts, each with sampled queries; a sample of layouts with every query.  Zoom routes (exact=False): every "
            "level of <= 2 records on <= 4 bases (5 thorough) x every range x every bin count x 3 statistics through both routines, plus "
            "sampled levels of <= 4 records on <= 12 (24) bases.  "
            "non-trivial = at least one value/entry and one query; distinct = distinct case text")
    CORRESPONDENCE = ("cells of Model/PyArrays.v values_wig / values_bed / values_*_zoom = to_array, to_entry_array, to_array_bins, "
                      "to_entry_array_bins, to_array_zoom, to_entry_array_zoom driven as intervals_to_array / entries_to_array drive them "
                      "(exact; a mean's f64 cell = the correctly rounded model quotient)")
    TRUSTED = ["pybigtools hook: #[cfg(all(test, bigtools_verif))] mod verif { include!(..) } and ZoomRecord::verif_new",
               "/verif/harness/pyarrays_verif.rs (case reader, in-memory replica of the readers' overlap filter, stand-in for the numpy handle)",
               "make_glue in tools/vlib/props/C20.py: textual cut of the wrappers' clamp / match-bins / oob-fill block out of lib.rs",
               "Python float.as_integer_ratio and int/int true division (correct rounding) in the comparison",
               "PyO3 / numpy argument unpacking and the readers themselves are outside (C03/C04 cover the readers)"]
    ASSUMPTIONS = ["positions < 2^31, no i32/i64 wrap-around", "values, missing, oob are multiples of 1/8 of small magnitude (f64 sums exact)",
                   "ranges have s < e; bin counts 1..e-s", "bigWig values disjoint and in start order; bigBed entries in start order, non-empty",
                   "zoom records: sum a whole multiple of bases_covered (their f64 mean exact)"]
    PER_CASE_TIMEOUT = 120.0

    def impl_outputs(self, lines):
        raw = run_rust(lines, self.PER_CASE_TIMEOUT)
        if len(raw) != len(lines):
            raise RuntimeError("pybigtools test binary returned %d lines for %d cases" % (len(raw), len(lines)))
        return [convert(r) for r in raw]

    # model cell (num den) = exact quotient; implementation cell = exact value of the f64
    def same(self, case_text, impl_out, model_out):
        try:
            ri = parse_sx(impl_out); rm = parse_sx(model_out)
        except Exception:
            return False
        if len(ri) != len(rm):
            return False
        for a, b in zip(ri, rm):
            if a[0] != b[0]:
                return False
            if a[0] != 0:
                if a != b:
                    return False
                continue
            if len(a[1]) != len(b[1]):
                return False
            for x, y in zip(a[1], b[1]):
                if x == [] or y == []:
                    if x != y:
                        return False
                elif x[1] == 0 or y[1] == 0:
                    if x != y:
                        return False
                else:
                    # y[0]/y[1] correctly rounded to f64 must be the f64 the implementation produced
                    if Fraction(x[0], x[1]) != Fraction(*(y[0] / y[1]).as_integer_ratio()):
                        return False
        return True

    def case(self, kind, length, items, queries):
        return sx([kind, length, items, queries])

    def gen(self, rng, tier):
        quick = tier == "quick"
        both = [0, 1]
        # 1. exhaustive small scope
        small = 5 if quick else 6
        for length in range(1, small + 1):
            for lay in wig_layouts(length):
                items = [[a, b, VALS8[(i + a) % len(VALS8)]] for i, (a, b) in enumerate(lay)]
                yield self.case(0, length, items, list(all_queries(length, rng, [0]))), ["wig", "exhaustive", f"len={length}", f"items={len(items)}"]
            lays = list(bed_layouts(length))
            cap = 250 if quick else 2500
            if len(lays) > cap:
                lays = [lays[i] for i in sorted(rng.sample(range(len(lays)), cap))]
            for lay in lays:
                items = [[a, b] for a, b in lay]
                yield self.case(1, length, items, list(all_queries(length, rng, both))), ["bed", "exhaustive", f"len={length}", f"items={len(items)}"]
        # 2. all bigWig layouts on 12 bases, sampled queries; sampled bigBed layouts
        length = 12
        nq = 10 if quick else 40
        for lay in wig_layouts(length):
            items = [[a, b, rng.choice(VALS8)] for (a, b) in lay]
            yield self.case(0, length, items, list(some_queries(length, rng, nq, [0]))), ["wig", "layouts12", f"items={len(items)}"]
        ents = [(a, b) for a in range(length) for b in range(a + 1, length + 1)]
        for _ in range(3000 if quick else 30000):
            k = rng.choice([1, 2, 3, 3])
            lay = sorted(rng.choice(ents) for _ in range(k))
            yield self.case(1, length, [[a, b] for a, b in lay], list(some_queries(length, rng, nq, both))), ["bed", "layouts12", f"items={k}"]
        # 3. some layouts with every query
        for _ in range(12 if quick else 120):
            length = rng.choice([8, 12]) if quick else rng.choice([12, 17, 24])
            kind = rng.randrange(2)
            if kind == 0:
                lays = None
                pts = sorted(rng.sample(range(length + 1), rng.choice([2, 4, 6])))
                items = [[pts[i], pts[i + 1], rng.choice(VALS8)] for i in range(0, len(pts), 2)]
            else:
                items = [list(x) for x in sorted((lambda a: (a, rng.randint(a + 1, length)))(rng.randrange(length)) for _ in range(3))]
            yield self.case(kind, length, items, list(all_queries(length, rng, both if kind else [0], 3, 3))), ["wig" if kind == 0 else "bed", "allqueries", f"len={length}"]
        # 5. megabase ranges with many bins (bigWig, binned only): bin edges are bin * span / bins, a product beyond 2^31
        for _ in range(1 if quick else 30):
            L = rng.choice([3000000, 5000011])      # the oracle recomputes per base: keep it in the megabase range
            starts = sorted(rng.sample(range(0, L - 2000), 3))
            items = []; last = 0
            for st in starts:
                st = max(st, last); en = min(L, st + rng.choice([1, 100, 1000])); items.append([st, en, rng.choice(VALS8)]); last = en
            items.append([max(last, L - 500), L, rng.choice(VALS8)])
            qs = []
            for _q in range(3 if quick else 6):
                s0 = rng.choice([0, 0, -5, 1000]); e0 = rng.choice([L, L, L + 7, L - 1000])
                m, o = rng.choice(FILLS)
                qs.append([s0, e0, [1000, 997, 713][_q % 3] if quick else rng.choice([1000, 997, 713, 10]), (_q + 1) % 3 if quick else rng.randrange(3), m, o, 0])
            yield self.case(0, L, items, qs), ["wig", "megabase-bins", f"len={L}"]
        # 4. thorough: sampled layouts up to 24 bases (also 15/11, 17/7: widths whose f64 quotient is inexact)
        if not quick:
            for _ in range(20000):
                length = rng.randint(13, 24)
                kind = rng.randrange(2)
                if kind == 0:
                    pts = sorted(rng.sample(range(length + 1), rng.choice([2, 4, 6])))
                    items = [[pts[i], pts[i + 1], rng.choice(VALS8)] for i in range(0, len(pts), 2)]
                else:
                    items = [list(x) for x in sorted((lambda a: (a, rng.randint(a + 1, length)))(rng.randrange(length)) for _ in range(rng.randint(1, 3)))]
                yield self.case(kind, length, items, list(some_queries(length, rng, 40, both if kind else [0]))), ["wig" if kind == 0 else "bed", "sampled24"]
        # 5. zoom routes (exact = False).  Exhaustive small scope: every level of <= 2 records on <= 4 bases
        #    (<= 5 thorough) x every range x every bin count x 3 statistics, through both routines
        for length in range(1, (4 if quick else 5) + 1):
            for lay in wig_layouts(length, 2):
                for kind in (2, 3):
                    vals = VALS8 if kind == 2 else ZVALS8
                    items = []
                    for i, (a, b) in enumerate(lay):
                        mean8 = vals[(i + a + b) % len(vals)]
                        bases = 1 + (a + i) % (b - a)
                        lo8 = mean8 - (8 if (a + i) % 2 else 0)
                        if kind == 3:
                            lo8 = max(lo8, 0)
                        items.append([a, b, bases, lo8, mean8 + (16 if (b + i) % 2 else 0), mean8 * bases])
                    qs = [q for q in all_queries(length, rng, both) if q[2] > 0]
                    yield self.case(kind, length, items, qs), ["zoom-wig" if kind == 2 else "zoom-bed", "exhaustive", f"len={length}"]
        #    sampled levels; the bigBed routine mostly on non-negative statistics (what a bigBed level holds)
        for _ in range(600 if quick else 6000):
            length = rng.randint(4, 12 if quick else 24)
            kind = rng.choice([2, 3])
            vals = ZVALS8 if kind == 3 and rng.random() < 0.8 else VALS8
            qs = [q for q in some_queries(length, rng, 12, both) if q[2] > 0]
            yield self.case(kind, length, zoom_records(length, rng, vals), qs), ["zoom-wig" if kind == 2 else "zoom-bed"]

    def nontrivial(self, case, tags):
        c = parse_sx(case)
        return len(c[2]) > 0 and len(c[3]) > 0

    def shrink_candidates(self, case_text):
        c = parse_sx(case_text)
        kind, length, items, qs = c
        # one query at a time, then fewer items
        if len(qs) > 1:
            for q in qs:
                yield sx([kind, length, items, [q]])
        for i in range(len(items)):
            yield sx([kind, length, items[:i] + items[i + 1:], qs])

PROP = C20()
