"""C18 - slicing a text input for parallel work loses nothing and reorders nothing.

Three routines behind one harness binary / one model dispatch (leading tag in the case):
  (0 file a b depth (alphabet) (extra seqs))   FileView on [a,b) and on the isolated range, every op sequence
                                               of length `depth` over the alphabet (prefixes are observed too)
  (1 file (n ...))                             split_file_into_chunks_by_size for every chunk count
  (2 ((chrom len) ...) final_newline [filler]) index_chroms on a synthesised BED file (filler 1: lines padded with U+00E9)
Exhaustive small scope, as the property asks."""
import itertools
from ..runner import Prop
from ..core import sx, parse_sx

U64MAX = 2**64 - 1
I64MAX = 2**63 - 1
I64MIN = -2**63

R = lambda n: [0, n]
SS = lambda k: [1, k]
SC = lambda d: [2, d]
SE = lambda d: [3, d]

# six-op alphabets; every sequence of length `depth` over each is run on every window
THEMES = [
    [R(1), R(3), SS(0), SS(2), SC(-1), SE(-1)],
    [R(2), R(100), SS(100), SC(1), SC(-100), SE(-8)],
    [R(0), R(1), SC(I64MAX), SC(I64MIN), SE(3), SS(U64MAX)],
    [R(2), SS(1), SC(2), SC(-3), SE(-2), SE(-100)],
    [R(5), SS(4), SS(2**63), SC(100), SE(0), SE(I64MIN)],
    [R(4), SS(3), SS(U64MAX - 4), SC(I64MAX - 3), SC(0), SE(-5)],
    [R(1), SS(5), SS(6), SC(-2), SE(-6), SE(I64MAX)],
    [R(3), R(7), SS(7), SC(3), SC(-7), SE(-3)],
]
POOL = [R(n) for n in (0, 1, 2, 3, 5, 100)] + \
       [SS(k) for k in (0, 1, 2, 3, 5, 8, 100, 2**63 - 1, 2**63, U64MAX - 5, U64MAX)] + \
       [SC(d) for d in (0, 1, -1, 2, -2, 4, -5, 100, -100, I64MAX, I64MAX - 6, I64MIN, I64MIN + 3)] + \
       [SE(d) for d in (0, -1, -2, -3, -5, -8, -100, 1, 50, I64MIN, I64MAX)]


def bed_len_ok(lens, nl):
    """line lengths the harness can realise: 'cN<TAB>0<TAB>1' is 6 bytes (+1 for the newline)"""
    for i, l in enumerate(lens):
        has_nl = nl or i + 1 < len(lens)
        if l < 6 + (1 if has_nl else 0):
            return False
    return True


class C18(Prop):
    ID = "C18"
    THEOREMS = ["C18_view_translation", "C18_view_eq_cursor", "C18_view_read_all",
                "C18_chunks_partition", "C18_chunks_lines", "C18_chunks_line_stream",
                "C18_index_grouped", "C18_index_grouped_100", "C18_index_grouped_if_ok",
                "C18_index_none_not_grouped", "C18_index_never_none", "C18_groupedb_iff", "C18_index_views_concat",
                "C18_view_lines", "C18_line_offsets_are_byte_offsets",
                "C18_parallel_stream_eq_serial", "C18_parallel_stream_eq_serial_100", "C18_index_streams",
                "C18_chunk_stream_eq_serial", "C18_chunks_cut_at_lines", "C18_chunks_feed_C17",
                "C18_parallel_source_eq_serial"]
    RULE = ("exhaustive small scope. view: every window 0<=a<=b<=len of files of 0..L bytes (plus windows reaching past the "
            "end, a>b, a>=2^63) x every op sequence of length d over eight fixed six-op alphabets and random alphabets from a pool "
            "of 41 ops with boundary arguments (0, +-1, window length +-1, 100, u64::MAX, i64::MIN/MAX), observed after every op, "
            "on the view and on the isolated range (thorough: additionally every sequence of length 6 over three-op and of length 5 over "
            "four-op alphabets); chunker: every file of 0..k lines with line lengths from a small set "
            "(empty line, short, long, CRLF / trailing blanks), with and without final newline, every chunk count 0..lines+2, "
            "chunks and per-chunk line streams through FileView+BufReader+StreamingLineReader; indexer: every file of 1..k lines "
            "with lengths from a small set x every run pattern (grouped) x final newline, run-length vectors x one very long "
            "line at every position, non-grouped chromosome orders, a malformed line at every position; both routines also on text "
            "with two-byte UTF-8 characters (seeks land inside a character). "
            "non-trivial = every case except the empty file; distinct = distinct case text")
    CORRESPONDENCE = ("outcomes of FileView read/seek sequences, chunk lists and line streams, index_chroms result and the "
                      "per-chromosome view streams = Model/FileView.v, Model/Chunker.v, Model/Indexer.v")
    TRUSTED = ["std::io::BufReader / read_line / File (regular file semantics: no short reads, seek returns the target)",
               "harness synthesis of BED text from (chromosome, length) lines"]
    ASSUMPTIONS = ["file length < 2^63 (off_t)", "valid UTF-8 input whose lines do not end in non-ASCII white space (the models see bytes and trim ASCII white space)",
                   "no I/O errors of the underlying file", "recursion depth limit 100 of do_index: the grouped-index theorem "
                   "carries the hypothesis that the limit covers the file (see notes/C18.md)"]
    PER_CASE_TIMEOUT = 20.0

    # ------------------------------------------------------------------ generators
    def view_cases(self, rng, tier):
        if tier == "quick":
            lens, depth, themes, nrand, rdepth = [0, 1, 3, 6], 4, THEMES[:5], 1, 3
        else:
            lens, depth, themes, nrand, rdepth = [0, 1, 2, 3, 6, 9], 4, THEMES, 6, 4
        for ln in lens:
            data = [65 + i for i in range(ln)]
            wins = [(a, b, "win") for a in range(ln + 1) for b in range(a, ln + 1)]
            wins += [(0, ln + 3, "win-past-end"), (ln // 2, U64MAX, "win-past-end"), (ln + 2, ln + 5, "win-start-past-end"),
                     (ln // 2 + 1, ln // 2, "win-a>b"), (2**63, U64MAX, "win-a>=2^63")]
            for a, b, wt in wins:
                for ti, alpha in enumerate(themes):
                    yield sx([0, data, a, b, depth, alpha, []]), ["view", wt, f"view-len={ln}", f"view-depth={depth}",
                                                                  f"view-seqs={len(alpha) ** depth}"]
                for _ in range(nrand):
                    alpha = rng.sample(POOL, 6)
                    # make the arguments window-relative now and then
                    w = b - a if b >= a and b < 2**60 else ln
                    alpha[0] = rng.choice([SE(-(w + 1)), SE(-w), SC(-(w + 1)), SS(w), SS(w + 1), R(w), R(w + 1)])
                    yield sx([0, data, a, b, rdepth, alpha, []]), ["view", wt, f"view-len={ln}", f"view-depth={rdepth}",
                                                                   f"view-seqs={6 ** rdepth}", "view-random-alphabet"]
        if tier != "quick":
            # longer histories over smaller alphabets: every sequence of length 6 over three ops, of length 5 over four
            small = [([R(2), SC(-3), SE(-1)], 6), ([R(1), SS(2), SE(-100)], 6), ([R(3), SC(2), SS(U64MAX)], 6),
                     ([R(1), SC(I64MIN), SC(I64MAX)], 6), ([R(1), SS(1), SC(-1), SE(-2)], 5), ([R(2), SS(4), SC(1), SE(-8)], 5)]
            for ln in (3, 6):
                data = [65 + i for i in range(ln)]
                wins = [(a, b, "win") for a in range(ln + 1) for b in range(a, ln + 1)] + [(ln // 2, U64MAX, "win-past-end")]
                for a, b, wt in wins:
                    for alpha, d in small:
                        yield sx([0, data, a, b, d, alpha, []]), ["view", wt, f"view-len={ln}", f"view-depth={d}",
                                                                   f"view-seqs={len(alpha) ** d}"]
        # the whole pool, pairs only, on one file
        data = [65 + i for i in range(5)]
        for a in range(6):
            for b in range(a, 6):
                yield sx([0, data, a, b, 2, POOL, []]), ["view", "win", "view-len=5", "view-depth=2", f"view-seqs={len(POOL) ** 2}"]

    def chunk_cases(self, rng, tier):
        # a line is its content without the newline
        if tier == "quick":
            kinds = [b"", b"a", b"bcd", b"efghijklmnop"]; maxlines = 5
        else:
            kinds = [b"", b"a", b"bcd", b"efghijklmnop", b"q\tr \r"]; maxlines = 6
        for k in range(0, maxlines + 1):
            for combo in itertools.product(kinds, repeat=k):
                for nl in (True, False):
                    if not nl and (k == 0 or combo[-1] == b""):
                        continue
                    data = b"\n".join(combo) + (b"\n" if nl and k > 0 else b"")
                    yield sx([1, data, list(range(0, k + 3))]), ["chunker", f"chunker-lines={k}", "final-newline" if nl else "no-final-newline"]
        # non-ASCII text (two-byte characters): chunk boundaries fall inside a character
        nk = [b"", "\u00e9".encode(), "a\u00e9\u00e9".encode(), "\u00e9\u00e9\u00e9\u00e9\u00e9".encode()]
        for k in range(1, (4 if tier == "quick" else 5) + 1):
            for combo in itertools.product(nk, repeat=k):
                for nl in (True, False):
                    if not nl and combo[-1] == b"":
                        continue
                    data = b"\n".join(combo) + (b"\n" if nl else b"")
                    yield sx([1, data, list(range(0, k + 3)) + [len(data), len(data) + 1]]), ["chunker", f"chunker-lines={k}", "non-ascii",
                                                                                              "final-newline" if nl else "no-final-newline"]
        # text-like: CRLF line ends, trailing blanks, one long line beyond BufReader's 8 KiB buffer
        extra = [b"a\tb \r\nc\r\n\r\nd  ", b"x" * 9000 + b"\ny\n" + b"z" * 20, b"y\n" + b"x" * 9000, b"\n\n\n", b"no newline at all",
                 # lines whose end lies several buffer lengths beyond a chunk target
                 b"x" * 18000 + b"\nyy\n"]
        for data in extra:
            ns = [1, 2] if len(data) > 15000 else list(range(0, 8)) + [100, 1000]      # the model walks the bytes once per chunk
            yield sx([1, data, ns]), ["chunker", "chunker-text-like"] + (["line>8KiB-beyond-target"] if len(data) > 15000 else [])

    def index_cases(self, rng, tier):
        def files_from(lens, mask):
            c = 1; out = []
            for i, l in enumerate(lens):
                if i > 0 and mask[i - 1]:
                    c += 1
                out.append([c, l])
            return out
        # (a) every file of 1..k lines over a set of lengths x every run pattern x final newline
        lset, k = ([7, 10, 23], 4) if tier == "quick" else ([7, 10, 23], 7)
        for n in range(1, k + 1):
            for lens in itertools.product(lset, repeat=n):
                for mask in itertools.product([False, True], repeat=n - 1):
                    for nl in (1, 0):
                        yield sx([2, files_from(lens, mask), nl]), ["indexer", "grouped", f"indexer-lines={n}", "lengths-exhaustive"]
        # (b) run-length vectors x base length x one very long line anywhere
        maxrun, maxchrom = (3, 3) if tier == "quick" else (4, 4)
        longs = [60] if tier == "quick" else [60, 400, 9000]
        for nchrom in range(1, maxchrom + 1):
            for runs in itertools.product(range(1, maxrun + 1), repeat=nchrom):
                chroms = [ci + 1 for ci, r in enumerate(runs) for _ in range(r)]
                n = len(chroms)
                for base in ([8, 13] if tier == "quick" else [7, 8, 13]):
                    pats = [([base] * n, "uniform"), ([base + (i % 3) for i in range(n)], "varying")]
                    for lg in longs:
                        for i in range(n):
                            p = [base] * n; p[i] = lg
                            pats.append((p, "one-long-line"))
                    for lens, pt in pats:
                        for nl in (1, 0):
                            yield sx([2, [[c, l] for c, l in zip(chroms, lens)], nl]), ["indexer", "grouped", f"indexer-lines={n}", pt]
        # (c) not grouped: chromosome sequences with a return to an earlier chromosome
        nn = 5 if tier == "quick" else 6
        for n in range(3, nn + 1):
            for chroms in itertools.product([1, 2, 3], repeat=n):
                if chroms[0] != 1:
                    continue
                seen = set(); prev = None; grouped = True
                for c in chroms:
                    if c != prev and c in seen:
                        grouped = False
                    seen.add(c); prev = c
                if grouped:
                    continue
                lens = [rng.choice([7, 9, 30]) for _ in range(n)]
                yield sx([2, [[c, l] for c, l in zip(chroms, lens)], rng.choice([0, 1])]), ["indexer", "not-grouped", f"indexer-lines={n}"]
        # (d) malformed stream: a line parse_line rejects at every position; the empty file
        yield sx([2, [], 1]), ["indexer", "empty-file", "malformed"]
        for n in range(1, (6 if tier == "quick" else 8)):
            for bad in range(n):
                for mask in itertools.product([False, True], repeat=n - 1):
                    lens = [rng.choice([8, 11, 40]) for _ in range(n)]
                    f = files_from(lens, mask); f[bad][0] = 0
                    yield sx([2, f, 1]), ["indexer", "malformed", f"indexer-lines={n}"]
        # (f) non-ASCII text in the name column (two-byte characters): probes land inside a character
        nas = [9, 10, 11, 12, 13, 14, 15, 16] if tier == "quick" else list(range(9, 22))
        for l1 in nas:
            for l2 in nas:
                for nl in (1, 0):
                    yield sx([2, [[1, l1], [2, l2]], nl, 1]), ["indexer", "grouped", "indexer-lines=2", "non-ascii"]
        nas3 = [9, 12, 15, 16] if tier == "quick" else [9, 10, 12, 15, 16, 19]
        for lens in itertools.product(nas3, repeat=3):
            for mask in itertools.product([False, True], repeat=2):
                yield sx([2, files_from(lens, mask), 1, 1]), ["indexer", "grouped", "indexer-lines=3", "non-ascii"]
        # (e) larger files: longer runs, many chromosomes, random lengths (bisection depth > 3)
        for _ in range(150 if tier == "quick" else 10000):
            nchrom = rng.randint(1, 8)
            f = []
            for c in range(1, nchrom + 1):
                for _ in range(rng.choice([1, 1, 2, 5, 17])):
                    f.append([c, rng.choice([7, 8, 8, 9, 15, 40, 200])])
            filler = rng.choice([0, 0, 1])
            yield sx([2, f, rng.choice([0, 1]), filler]), ["indexer", "grouped", "indexer-larger", f"indexer-lines~{len(f) // 10 * 10}"] + \
                (["non-ascii"] if filler else [])

    def gen(self, rng, tier):
        yield from self.index_cases(rng, tier)
        yield from self.chunk_cases(rng, tier)
        yield from self.view_cases(rng, tier)

    def nontrivial(self, case, tags):
        return "empty-file" not in tags and case not in ("(1 () (0 1 2))",)

    # ------------------------------------------------------------------ shrinking
    def shrink_candidates(self, case_text):
        c = parse_sx(case_text)
        out = []
        if c[0] == 0:
            _, data, a, b, depth, alpha, extra = c
            if depth > 0:
                # single sequences instead of the enumeration
                for q in itertools.islice(itertools.product(alpha, repeat=depth), 0, 3000):
                    out.append(sx([0, data, a, b, 0, [], [list(q)]]))
            for i, q in enumerate(extra):
                if len(extra) > 1:
                    out.append(sx([0, data, a, b, depth, alpha, [q]]))
                for j in range(len(q)):
                    out.append(sx([0, data, a, b, depth, alpha, extra[:i] + [q[:j] + q[j + 1:]] + extra[i + 1:]]))
        elif c[0] == 1:
            _, data, ns = c
            if len(ns) > 1:
                for n in ns:
                    out.append(sx([1, data, [n]]))
            for i in range(len(data)):
                out.append(sx([1, data[:i] + data[i + 1:], ns]))
        elif c[0] == 2:
            f, nl, rest = c[1], c[2], c[3:]
            for i in range(len(f)):
                out.append(sx([2, f[:i] + f[i + 1:], nl] + rest))
            for i in range(len(f)):
                if f[i][1] > 8:
                    out.append(sx([2, f[:i] + [[f[i][0], max(8, f[i][1] // 2)]] + f[i + 1:], nl] + rest))
            if rest:
                out.append(sx([2, f, nl]))
        return out


PROP = C18()
