from ..runner import Prop
from .. import bedgen, core
from ..core import parse_sx, sx

class C02(Prop):
    ID = "C02"
    THEOREMS = ["C02_accept_iff", "C02_sections_are_chunks", "C02_item_count", "C02_roundtrip", "C02_section_codec", "C02_autosql_verbatim", "C02_autosql_nul_refused", "C02_zero_zero_refuted", "C02_file_roundtrip", "C02_runs_are_input", "C02_written_file_roundtrip",
                "C02_model_uncompressed", "C02_written_file_roundtrip_compressed", "C02_written_file_buf_size_compressed", "C02_ubuf_fits_of_bounds"]
    RULE = ("bigBed cases: 1-5 chromosomes (names whose first-appearance, lexicographic and id order differ), per chromosome a "
            "start-sorted entry layout from the grammar disjoint/overlapping/nested/identical/zero-length/very-long-then-short/"
            "largest-end-not-last (block and every index level)/ends past the chromosome end/mixed, rest fields of 0..20 "
            "tab-separated printable UTF-8 columns incl. multi-byte, autoSql none/generated/arbitrary/unparsable/multi-byte/with NUL, "
            "options from compress x items_per_slot{1,2,3,7,1024} x block_size{2,3,4,5,256} x zoom modes x single/two pass; "
            "plus a stream of refused inputs (start>end, start>=length, unsorted, unknown chromosome, chromosome order, empty, block_size<2 / items_per_slot=0, a chromosome in two runs); "
            "non-trivial = accepted input with at least 2 entries; distinct = distinct case text")
    CORRESPONDENCE = ("accept/refuse class, chromosome table, full-span entries (plain reader and caching-reader history), autosql(), "
                      "item_count(), header field counts, zoom directory of BigBedWrite/BigBedRead = Model/BigBedWrite.v + Model/BBIReadBed.v; "
                      "every byte of the file equal for uncompressed files (summary and zoom levels from Model/BedSweep.v); "
                      "COMPRESSED files (replay compressor): every block of the real file inflated by the extracted Spec/Inflate.zlib_decode, "
                      "the table {inflated block -> real compressed block} as the compressor of Model/BigBedWriteZ.v, model file = real file byte for byte "
                      "(offsets, sizes, index, zoom selection on compressed sizes, uncompress_buf_size, inflated content of every block)")
    TRUSTED = ["verif_hooks accessors for private header fields"]
    ASSUMPTIONS = ["rest fields and autoSql are valid UTF-8 (String in the API)",
                   "libdeflater's compressed bytes are not predicted: they are taken from the real file, block by block, and must inflate (Spec/Inflate.v) to the model's raw sections",
                   "total summary and zoom levels come from Model/BedSweep.v (C06/C08); depth counter below 2^24 (f32 exact)"]
    PER_CASE_TIMEOUT = 30.0

    # ---- replay compressor (compressed cases carry flag bit 2: the harness appends the real file's bytes) ----
    # driver entry 2 on (case, implementation output): (1 blocks ubuf answers) when the file of Model/BigBedWriteZ.v with the
    # replay compressor IS the real file; answers = the reader MODEL on those bytes with Spec/Inflate as decompressor.
    def __init__(self):
        self.replay = {}          # case text -> answer of driver entry 2
        self.replay_only = set()  # compress + automatic zoom selection: the model line (uncompressed model file) does not apply
        self.replay_stats = {"files": 0, "byte_equal": 0, "blocks_inflated": 0, "different": 0, "automatic_zoom_selection_compressed": 0}

    @staticmethod
    def _replay_case(case):
        try:
            return int(case.rstrip().rstrip(")").split()[-1]) & 4 != 0
        except ValueError:
            return False

    def impl_outputs(self, lines):
        outs = Prop.impl_outputs(self, lines)
        idx = [k for k, (l, o) in enumerate(zip(lines, outs)) if self._replay_case(l) and o.startswith("(0 ") and l not in self.replay]
        if idx:
            pairs = ["(%s %s)" % (lines[k], outs[k]) for k in idx]
            res = core.run_model(self.ID, 2, pairs, per_case_timeout=self.MODEL_TIMEOUT)
            for k, r in zip(idx, res):
                r = r.strip()
                self.replay[lines[k]] = r
                self.replay_stats["files"] += 1
                if r.startswith("(1 "):
                    self.replay_stats["byte_equal"] += 1
                    self.replay_stats["blocks_inflated"] += int(r[3:].split()[0])
                    if lines[k] in self.replay_only:
                        self.replay_stats["automatic_zoom_selection_compressed"] += 1
                else:
                    self.replay_stats["different"] += 1
        return outs

    def same(self, case, impl_out, model_out):
        if self._replay_case(case) and impl_out.startswith("(0 "):
            k = impl_out.rfind("(")
            stripped = impl_out[:k].rstrip() + ")"      # without the real file's bytes
            r = self.replay.get(case, "")
            if not (r.startswith("(1 ") and stripped.startswith("(0 () ")):
                return False
            answers_impl = stripped[len("(0 () "):-1]
            answers_replay = r[3:].split(" ", 2)[2][:-1]    # reader model on the real = model bytes
            if answers_impl != answers_replay:
                return False
            return case in self.replay_only or stripped == model_out
        return impl_out == model_out

    def extra_checks(self, ctx):
        return [("stat", "replay_compressor", dict(self.replay_stats))]

    def gen(self, rng, tier):
        for c, t in self.gen0(rng, tier):
            cc = parse_sx(c)
            if cc[1][0] == 1:                    # options.compress: ask for the real bytes
                cc[6] = cc[6] | 4
                yield sx(cc), t + ["replay"]
            else:
                yield c, t
        # compression together with AUTOMATIC zoom selection (it looks at compressed sizes): only the replay comparison
        # applies (file bytes, and the reader model on them); shared generators never produce this combination
        n = 60 if tier == "quick" else 1500
        for i in range(n):
            c, t = bedgen.bed_case(rng, tier, want="roundtrip", compress=0, zoom_mode=rng.choice(["auto", "auto-small", "auto-many"]),
                                   small_index=(i % 3 == 0))
            cc = parse_sx(c)
            cc[1][0] = 1; cc[6] = 4
            c2 = sx(cc)
            self.replay_only.add(c2)
            yield c2, [x for x in t if not x.startswith("compress=") and not x.startswith("bytes=")] + ["compress=1", "bytes=0", "replay", "replay-only"]

    def gen0(self, rng, tier):
        n = 500 if tier == "quick" else 8000
        for i in range(n):
            yield bedgen.bed_case(rng, tier, want="roundtrip", small_index=(i % 4 == 0))
        # exact bytes: uncompressed, no zoom levels
        for i in range(n // 4):
            yield bedgen.bed_case(rng, tier, want="roundtrip", compress=0, zoom_mode="none", small_index=(i % 2 == 0))
        # the known finding K2 and the refused inputs
        for i in range(n // 20):
            c, t = bedgen.bed_case(rng, tier, want="roundtrip", allow00=True, style=rng.choice(["zero", "mixed", "identical"]))
            yield c, t + ["allow00"]
        for i in range(n // 25):
            c, t = bedgen.bed_case(rng, tier, want="roundtrip", nul_autosql=True)
            yield c, t + ["refuse:nul-autosql"]
        for i in range(n // 8):
            c, t = bedgen.bed_case(rng, tier, want="roundtrip")
            cc = parse_sx(c)
            kind = rng.choice(["start>end", "start>=len", "unsorted", "unknown-chrom", "chrom-order", "empty", "options", "split-chrom"])
            inp = cc[3]
            j = rng.randrange(len(inp))
            if kind == "start>end":
                inp[j][2] = max(inp[j][1] - rng.choice([1, 5]), 0); inp[j][1] = inp[j][2] + rng.choice([1, 3])
            elif kind == "start>=len":
                ln = [s[1] for s in cc[2] if s[0] == inp[j][0]][0]
                inp[j][1] = ln + rng.choice([0, 1]); inp[j][2] = inp[j][1] + 5
            elif kind == "unsorted":
                inp[j][1] += 7; inp[j][2] = max(inp[j][2], inp[j][1])
            elif kind == "unknown-chrom":
                cc[2] = [s for s in cc[2] if s[0] != inp[j][0]]
            elif kind == "chrom-order":
                cc[1][6] = 1
                names = []
                for it in inp:
                    if it[0] not in names: names.append(it[0])
                names.reverse()
                cc[3] = [it for nm in names for it in inp if it[0] == nm]
            elif kind == "options":
                if rng.random() < 0.5: cc[1][2] = rng.choice([0, 1])
                else: cc[1][1] = 0
            elif kind == "split-chrom":
                # the first chromosome comes back after the others (start-sorted within each run)
                cc[1][6] = 0
                first = inp[0][0]
                cc[3] = inp + [[first, it[1], it[2], it[3]] for it in inp if it[0] == first][:2]
                if len(set(bytes(it[0]) for it in inp)) < 2:
                    other = [s for s in cc[2] if s[0] != first]
                    if other:
                        cc[3] = inp + [[other[0][0], 0, 1, []]] + [[first, inp[0][1], inp[0][2], []]]
                    else:
                        kind = "split-chrom-single"
            else:
                cc[3] = []
            yield sx(cc), t + ["refuse:" + kind]

    def nontrivial(self, case, tags):
        return not any(t.startswith("refuse:") for t in tags) and case.count("(") > 14

    def known_class(self, case, impl_out):
        c = parse_sx(case)
        for it in c[3]:
            if it[1] == 0 and it[2] == 0:
                return "bb-entry-0-0"
        return None

PROP = C02()
