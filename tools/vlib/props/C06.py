from ..runner import Prop
from .. import bbigen, bedgen68
from ..core import parse_sx, sx

class C06(Prop):
    ID = "C06"
    THEOREMS = ["C06_bw_summary", "C06_bw_min_of_values", "C06_sweep_eq_rle_depth", "C06_bb_accepted_valid",
                "C06_bb_chrom_summary", "C06_bb_summary", "C06_bb_item_count", "C06_bb_file_summary", "C06_bb_summary_ieee",
                # the reader on the bytes of the written file (C01 / C02 whole-file developments + the f64 field codec)
                "C06_f64_roundtrip", "C06_bw_file_stored", "C06_bw_file_summary", "C06_bw_file_summary_ieee",
                "C06_bb_file_summary_read", "C06_bb_file_item_count",
                # IEEE = exact on a checkable domain (Proofs/FloatExact.v)
                "C06_fadd_ieee_exact", "C06_fmul_ieee_exact", "C06_to_f32_ieee_exact", "C06_grid_fadd_ieee", "C06_grid_fmul_ieee",
                "C06_fold_sum_ieee_exact", "C06_fold_sq_ieee_exact", "C06_in_exact_domain_hyps",
                "C06_bw_summary_ieee_exact_on_grid", "C06_bw_summary_ieee_in_domain"]
    RULE = ("bigBed: 1-6 chromosomes, per chromosome a start-sorted BED layout from the grammar disjoint/partly overlapping/nested/"
            "identical/zero-length/very-long-then-short/dense/gaps relative to the first resolution, options compress x items_per_slot"
            "{1,2,3,7,1024} x zoom modes x single/two pass, plus a malformed stream (unsorted, start>end, start>=length, unknown "
            "chromosome, chromosome order); bigWig: the shared bbi cases with exactly representable values (small dyadics); "
            "non-trivial = accepted input with at least 2 items; distinct = distinct case text")
    CORRESPONDENCE = ("summary (get_summary) and item count (item_count / data count) of the file written by BigBedWrite / BigWigWrite "
                      "= Model/BedSweep.v bb_total_summary / Model/BigWigWrite.v summary, bit for bit (IEEE model)")
    TRUSTED = []
    ASSUMPTIONS = ["fewer than 2^24 entries cover one base (the depth counter is an f32 in the code, a natural number in the model)",
                   "sums stay below 2^53 (exact in f64); bigWig values are small dyadics so every intermediate is exact",
                   "libdeflater round-trips (compressed files are read back through the real reader)"]
    PER_CASE_TIMEOUT = 30.0

    def gen(self, rng, tier):
        nbb, nbw = (2000, 400) if tier == "quick" else (30000, 5000)
        for i in range(nbb):
            yield bedgen68.bb_case(rng, tier, zoom_mode=rng.choice(["none", "none", "manual", "auto", "auto-small"]),
                                   invalid=(i % 12 == 11), nqueries=1)
        for i in range(nbw):
            text, tags = bbigen.bw_case(rng, tier, fmode="nice", extra_queries=False)
            c = parse_sx(text)
            c[4] = [[3]]
            yield sx(c), ["bigwig"] + tags

    def nontrivial(self, case, tags):
        return not any(t.startswith("invalid") for t in tags) and case.count("(") > 14

    def shrink_candidates(self, case_text):
        return bedgen68.shrink(case_text)

PROP = C06()
