import math, os, random, re, shutil, struct, subprocess, tempfile, time
from ..runner import Prop
from .. import core, bbigen, bedgen68
from ..core import parse_sx, sx

# ---------------------------------------------------------------------------------------------------------------
# info-tool stage: what `bigwiginfo` / `bigbedinfo` PRINT about a file = what the library reader returns for it
# ---------------------------------------------------------------------------------------------------------------
# covered-base counts whose three-digit groups are the boundary values of a thousands-separator routine
# (0, 1, 9, 10, 99, 100, 101, 999 in a non-leading / leading position)
BASES_FIXED = [100, 1000, 5100, 1005100, 10, 999, 100000, 1100000, 1000100, 5099, 5101, 1001, 1010, 1, 100100, 9009, 1000000, 2]
GROUPS = [0, 1, 9, 10, 11, 99, 100, 101, 500, 999]
NICE = [1.0, 2.0, 0.5, -1.0, 3.25, 100.0, -0.125, 7.0, 0.0]          # as bbigen.rand_f32(mode="nice"): every sum is exact
GROUPED = re.compile(r"^[0-9]{1,3}(,[0-9]{3})*$")


def bases_target(rng, i):
    if i < len(BASES_FIXED):
        return BASES_FIXED[i]
    ng = rng.choice([1, 2, 2, 2, 3, 3])
    lead = rng.choice([1, 5, 9, 10, 99, 100, 101, 999, rng.randrange(1, 1000)])
    b = lead
    for _ in range(ng - 1):
        b = b * 1000 + rng.choice(GROUPS + [rng.randrange(1000)])
    return b


def blocks(rng, total, names):
    """disjoint [s,e) blocks per chromosome whose lengths add up to `total` (>= 1)"""
    k = min(total, rng.choice([1, 2, 3, 5, 8, 13]))
    cuts = sorted(rng.sample(range(1, total), k - 1)) if k > 1 else []
    lens = [b - a for a, b in zip([0] + cuts, cuts + [total])]
    names = names[:max(1, min(len(names), k))]
    per = {nm: [] for nm in names}
    for j, ln in enumerate(lens):
        per[names[j * len(names) // len(lens)]].append(ln)
    out = []
    for nm in names:
        pos = rng.choice([0, 0, 3, 1000]); bl = []
        for ln in per[nm]:
            pos += rng.choice([0, 0, 1, 7, 100])
            bl.append((pos, pos + ln)); pos += ln
        out.append((nm, bl, pos + rng.choice([0, 1, 500])))
    return out


def info_case(rng, i, path):
    """(case text, kind, bases the input covers)"""
    kind = 20 if i % 2 == 0 else 21
    total = bases_target(rng, i // 2)
    names = sorted(rng.sample(bbigen.NAMES, rng.choice([1, 1, 2, 3])), key=lambda s: s.encode())
    big = total > 2000000
    manual = rng.choice([[], [], [[]], [[100, 1000]]]) if not big else [[]]
    o = [rng.choice([0, 1]), rng.choice([1, 3, 7, 1024]), rng.choice([2, 4, 256]), 160, 10, manual, 1]
    sizes = []; inp = []
    for nm, bl, length in blocks(rng, total, names):
        sizes.append([nm, max(length, 1)])
        if kind == 20:
            inp += [[nm, s, e, bbigen.f32bits(rng.choice(NICE))] for (s, e) in bl]
        else:
            ent = []
            for (s, e) in bl:
                ent.append((s, e))
                for _ in range(rng.choice([0, 0, 1, 2])):          # nested / identical entries: depth > 1, coverage unchanged
                    x = rng.randrange(s, e); y = rng.randrange(x, e + 1)
                    ent.append(rng.choice([(s, e), (x, y), (x, e)]))
            ent.sort()
            inp += [[nm, s, e, rng.choice(["", "n%d" % s, "x\t5\t+"])] for (s, e) in ent]
    return sx([kind, o, sizes, inp, path]), kind, total


def f64_of_bits(b):
    return struct.unpack("<d", struct.pack("<Q", b))[0]


def fdiv(x, y):
    """IEEE-754 binary64 division (Python raises on a zero divisor)"""
    try:
        return x / y
    except ZeroDivisionError:
        if x == 0 or math.isnan(x):
            return float("nan")
        return math.copysign(float("inf"), x) * math.copysign(1.0, y)


def fsqrt(x):
    return float("nan") if (math.isnan(x) or x < 0) else math.sqrt(x)


def printed_matches(printed, expected):
    """the tools print `{:.6}`: re-parse the decimal; tolerance = half a unit of the sixth decimal + 1e-6 relative"""
    try:
        p = float(printed)
    except ValueError:
        return False
    if math.isnan(expected) or math.isnan(p):
        return math.isnan(expected) and math.isnan(p)
    if math.isinf(expected) or math.isinf(p):
        return p == expected
    return abs(p - expected) <= 5.0e-7 + 1e-6 * abs(expected)


def ungroup(text):
    """(value, well-formed) of a number printed with thousands separators: 1-3 digits, then groups of exactly three"""
    ok = bool(GROUPED.match(text)) and not (len(text) > 1 and text[0] == "0")
    digits = text.replace(",", "")
    return (int(digits) if digits.isdigit() else None), ok

class C06(Prop):
    ID = "C06"
    THEOREMS = ["C06_bw_summary", "C06_bw_min_of_values", "C06_sweep_eq_rle_depth", "C06_bb_accepted_valid",
                "C06_bb_chrom_summary", "C06_bb_summary", "C06_bb_item_count", "C06_bb_file_summary", "C06_bb_summary_ieee",
                # the reader on the bytes of the written file (C01 / C02 whole-file developments + the f64 field codec)
                "C06_f64_roundtrip", "C06_bw_file_stored", "C06_bw_file_summary", "C06_bw_file_summary_ieee",
                "C06_bb_file_summary_read", "C06_bb_file_item_count",
                # IEEE = exact on a checkable domain (Proofs/FloatExact.v)
                "C06_fadd_ieee_exact", "C06_fmul_ieee_exact", "C06_to_f32_ieee_exact", "C06_grid_fadd_ieee", "C06_grid_fmul_ieee",
                "C06_fold_sum_ieee_exact", "C06_fold_sq_ieee_exact", "C06_in_exact_domain_hyps",
                "C06_bw_summary_ieee_exact_on_grid", "C06_bw_summary_ieee_in_domain"]
    RULE = ("bigBed: 1-6 chromosomes, per chromosome a start-sorted BED layout from the grammar disjoint/partly overlapping/nested/"
            "identical/zero-length/very-long-then-short/dense/gaps relative to the first resolution, options compress x items_per_slot"
            "{1,2,3,7,1024} x zoom modes x single/two pass, plus a malformed stream (unsorted, start>end, start>=length, unknown "
            "chromosome, chromosome order); bigWig: the shared bbi cases with exactly representable values (small dyadics); "
            "non-trivial = accepted input with at least 2 items; distinct = distinct case text")
    CORRESPONDENCE = ("summary (get_summary) and item count (item_count / data count) of the file written by BigBedWrite / BigWigWrite "
                      "= Model/BedSweep.v bb_total_summary / Model/BigWigWrite.v summary, bit for bit (IEEE model); info tools (extra stage): "
                      "files written to disk by the real writers (quick 60, thorough 400; basesCovered = 100, 1000, 5100, 1005100, 10, 999, 100000, ... "
                      "and random group patterns), the built bigwiginfo / bigbedinfo binaries run on them: itemCount, basesCovered (and "
                      "primaryDataSize / primaryIndexSize / zoomLevels against the file header) equal the library reader's answers exactly, "
                      "thousands-separator groups have exactly three digits; mean / min / max / std (and --minmax): the printed `{:.6}` decimal "
                      "re-parsed and compared with sum/bases, min, max, sqrt((sumsq - sum^2/bases)/(bases-1)) of the library summary within "
                      "5e-7 + 1e-6 relative - a tolerance only because the tools print rounded decimals")
    TRUSTED = []
    ASSUMPTIONS = ["fewer than 2^24 entries cover one base (the depth counter is an f32 in the code, a natural number in the model)",
                   "sums stay below 2^53 (exact in f64); bigWig values are small dyadics so every intermediate is exact",
                   "libdeflater round-trips (compressed files are read back through the real reader)"]
    PER_CASE_TIMEOUT = 30.0
    NEED_BINS = True

    def gen(self, rng, tier):
        nbb, nbw = (2000, 400) if tier == "quick" else (30000, 5000)
        for i in range(nbb):
            yield bedgen68.bb_case(rng, tier, zoom_mode=rng.choice(["none", "none", "manual", "auto", "auto-small"]),
                                   invalid=(i % 12 == 11), nqueries=1)
        for i in range(nbw):
            text, tags = bbigen.bw_case(rng, tier, fmode="nice", extra_queries=False)
            c = parse_sx(text)
            c[4] = [[3]]
            yield sx(c), ["bigwig"] + tags

    def nontrivial(self, case, tags):
        return not any(t.startswith("invalid") for t in tags) and case.count("(") > 14

    def shrink_candidates(self, case_text):
        return bedgen68.shrink(case_text)

    # ------------------------------------------------------------------ info tools
    def extra_checks(self, ctx):
        return self.info_tool_runs(ctx)

    def info_tool_runs(self, ctx):
        """the built `bigwiginfo` / `bigbedinfo` binaries on files written by the real writers: every number of the report
        that restates the summary (itemCount, basesCovered, mean, min, max, std; primaryDataSize / primaryIndexSize against
        the file header) = the library reader's answer for the same file (harness kinds 20/21)"""
        tier, seed = ctx["tier"], ctx["seed"]
        rng = random.Random(seed * 17 + 6)
        nfiles = 2 * len(BASES_FIXED) + (24 if tier == "quick" else 364)
        work = tempfile.mkdtemp(prefix="c06-", dir=core.CACHE)
        res = []; bad = []; files = 0; runs = 0; numbers = 0; targets = set()
        t0 = time.time()
        try:
            cases = []; metas = []
            for i in range(nfiles):
                path = os.path.join(work, "f%d.%s" % (i, "bw" if i % 2 == 0 else "bb"))
                case, kind, total = info_case(rng, i, path)
                cases.append(case); metas.append((kind, path, total))
            outs = core.run_impl(self.ID, cases, per_case_timeout=60.0)
            for (kind, path, total), case, out in zip(metas, cases, outs):
                lib = parse_sx(out) if out.strip().startswith("(0 ") else None
                if lib is None or not os.path.exists(path):
                    bad.append((case, "the writer / library reader did not accept the generated file: %s" % out.strip()[:100], "")); continue
                files += 1; targets.add(total)
                items, bases = lib[1][0], lib[1][1]
                mn, mx, sm, sq = [f64_of_bits(b) for b in lib[1][2:6]]
                if bases != total:
                    bad.append((case, "library summary: bases_covered %d, the input covers %d" % (bases, total), out.strip())); continue
                n = float(bases)
                mean = fdiv(sm, n)
                std = fsqrt(fdiv(sq - fdiv(sm * sm, n), n - 1.0))
                hdr = open(path, "rb").read(64 + 24)
                zoom_levels = struct.unpack_from("<H", hdr, 6)[0]
                data_off, index_off = struct.unpack_from("<QQ", hdr, 16)
                want_int = {"primaryDataSize": index_off - data_off, "basesCovered": bases, "zoomLevels": zoom_levels}
                if zoom_levels > 0:
                    want_int["primaryIndexSize"] = struct.unpack_from("<Q", hdr, 64 + 8)[0] - index_off
                if kind == 20:
                    tool = "bigwiginfo"; want_f = {"mean": mean, "min": mn, "max": mx, "std": std}
                else:
                    tool = "bigbedinfo"; want_f = {"meanDepth": mean, "minDepth": mn, "maxDepth": mx, "std of depth": std}
                    want_int["itemCount"] = lib[2]
                    if lib[2] != items:
                        bad.append((case, "library: item_count() %d, summary.total_items %d" % (lib[2], items), out.strip())); continue
                def report(extra):
                    try:
                        p = subprocess.run([os.path.join(core.BINS_DIR, tool), path] + extra, stdout=subprocess.PIPE, stderr=subprocess.PIPE, timeout=60)
                        return p.returncode, p.stdout.decode(errors="replace")
                    except subprocess.TimeoutExpired:
                        return "timeout", ""
                rc, text = report([]); runs += 1
                if rc != 0:
                    bad.append((case, "%s: exit status %s" % (tool, rc), text[:600])); continue
                got = {}
                for line in text.splitlines():
                    if ": " in line and not line.startswith("\t"):
                        k, v = line.split(": ", 1)
                        got.setdefault(k, v.strip())
                why = []
                for k, w in want_int.items():
                    if k not in got:
                        why.append("%s: line missing" % k); continue
                    v, wellformed = ungroup(got[k])
                    numbers += 1
                    if not wellformed:
                        why.append("%s printed as `%s`: not 1-3 digits followed by groups of exactly three digits (library / header: %d)" % (k, got[k], w))
                    elif v != w:
                        why.append("%s printed as `%s` = %s, library / header: %d" % (k, got[k], v, w))
                for k, w in want_f.items():
                    if k not in got:
                        why.append("%s: line missing" % k); continue
                    numbers += 1
                    if not printed_matches(got[k], w):
                        why.append("%s printed as `%s`, from the library summary: %r" % (k, got[k], w))
                if kind == 20:
                    rc2, t2 = report(["--minmax"]); runs += 1
                    f = t2.split()
                    numbers += 2
                    if rc2 != 0 or len(f) != 2 or not printed_matches(f[0], mn) or not printed_matches(f[1], mx):
                        why.append("--minmax printed `%s`, library min/max: %r %r" % (t2.strip()[:80], mn, mx))
                if why:
                    bad.append((case, "%s: %s" % (tool, "; ".join(why)), text[:900]))
        finally:
            shutil.rmtree(work, ignore_errors=True)
        core.log(f"[check] C06 info tools: {files} files ({len(targets)} distinct basesCovered values), {runs} runs of bigwiginfo/bigbedinfo, "
                 f"{numbers} printed numbers compared with the library reader, {len(bad)} files differing, {round(time.time()-t0,1)} s")
        res.append(("stat", "info_tool_files", files))
        res.append(("stat", "info_tool_runs", runs))
        res.append(("stat", "info_tool_numbers_compared", numbers))
        res.append(("stat", "info_tool_failures", len(bad)))
        res.append(("stat", "info_tool_float_comparison", "printed `{:.6}` decimals re-parsed; |printed - library| <= 5e-7 + 1e-6*|library| (only because the "
                    "tools print rounded decimals); integers (itemCount, basesCovered, sizes) exactly, separator groups of exactly three digits"))
        if files == 0:
            res.append(("nofail", "info tools", {"property": "C06", "kind": "proof-or-build-broken",
                                                 "theorem_or_correspondence": "no input file could be written for the info-tool runs"}))
        for case, why, got in bad[:3]:
            res.append(("violation", "info tool", {
                "property": "C06", "kind": "failing-input", "found_by": "bigwiginfo / bigbedinfo report vs BigWigRead/BigBedRead::get_summary, item_count of the same file",
                "info_tool_case": case[:6000], "why": why, "observed_impl": got,
                "oracle": "every number of the info report that restates the summary = the library reader's summary of the file",
                "how_to_replay": "echo '<info_tool_case>' | .cache/harness-target/debug/c06 writes the file named in the case (create its directory first) and prints "
                                 "(0 (items bases min max sum sumsq) [item_count]); then run .cache/bins-target/debug/bigwiginfo (kind 20) or bigbedinfo (kind 21) on it"}))
        return res


PROP = C06()
