import itertools, os, time
from ..runner import Prop
from .. import core
from ..core import sx, parse_sx

# consumer call codes (Model/Entry_C12.v)
S, R, L, A, E = 0, 1, 2, 3, 4
PROGRAMS = [  # name, calls
    ("a:switch-await", [S, A]),
    ("b:expect", [E]),
    ("c:len", [L]),
    ("c:len-expect", [L, E]),
    ("d:poll-switch-poll-await", [R, S, R, A]),
    ("d:switch-poll-poll-await", [S, R, R, A]),
    ("d:poll-len-poll-expect", [R, L, R, E]),
    ("e:len-switch-await", [L, S, A]),
]
SIZES = [0, 1, 3, 9000]          # 9000 > io::copy's 8 KiB chunk; two of them > the 10 000-byte Vec capacity
SMALL = [3, 1, 0, 3, 1, 2]       # the size vector used when the interleavings are enumerated exhaustively


def csteps(prog):
    return sum(2 if c in (A, E) else 1 for c in prog)


def psteps(ops):
    return sum(2 if isinstance(o, list) else 1 for o in ops) + 1


def merges(a, c):
    """all schedules with a producer steps (0) and c consumer steps (1)"""
    n = a + c
    for pos in itertools.combinations(range(n), c):
        s = [0] * n
        for p in pos:
            s[p] = 1
        yield s


def n_merges(a, c):
    from math import comb
    return comb(a + c, c)


def payload(sizes):
    """writes with recognisable contents: byte k of the stream is (k*7+1) mod 251"""
    ops = []; k = 0
    for z in sizes:
        ops.append([(j * 7 + 1) % 251 for j in range(k, k + z)]); k += z
    return ops


class C12(Prop):
    ID = "C12"
    THEOREMS = ["C12_delivery", "C12_delivery_writes", "C12_no_panic", "C12_progress", "C12_completion",
                "C12_len", "C12_ready_sound", "C12_outcome"]
    PER_CASE_TIMEOUT = 15.0
    RULE = ("deterministic part: the real TempFileBuffer/TempFileBufferWriter driven call by call by schedule lists. "
            "EXHAUSTIVE: every interleaving (every merge of the producer's steps [2 per write, 1 per flush, 1 drop] with the "
            "consumer's steps [2 for await/expect, 1 otherwise]) for every number of writes n<=4 (quick) / n<=6 (thorough), "
            "for each of 8 consumer programs (a switch;await, b expect_closed_write, c len / len;expect, d the same with "
            "is_real_file_ready polls before/between/after, e len;switch;await), for in-memory and temp-file staging, with one "
            "small size vector per n (sizes 3,1,0,3,1,2); plus all interleavings for n<=2 (quick: n<=1) over all size vectors from "
            "{0,1,3,9000} for programs a and b. SAMPLED: every size vector from {0,1,3,9000}^n, n<=4, x every program x both "
            "modes with random interleavings (quick 1, thorough 2 per combination), histories with flush() calls, a "
            "real-file destination (mode 2), random 0/1 schedule lists that are not merges (stutter steps, early end). "
            "threaded part (extra): producer thread + consumer thread, random sizes up to 66 000 bytes, programs and delays; only the "
            "oracle is checked there. non-trivial = at least one non-empty write; distinct = distinct case text")
    CORRESPONDENCE = ("observations (every is_real_file_ready / len result) and final destination bytes of Model/TempBuf.v "
                      "= those of the real TempFileBuffer driven by the same schedule")
    TRUSTED = ["harness/src/bin/c12.rs: executes each public call at the schedule position of its first shared access",
               "std::sync::{Mutex,Condvar}, crossbeam AtomicCell, std::io::copy, tempfile"]
    ASSUMPTIONS = ["AtomicCell::swap is atomic and sequentially consistent (memory ordering not modelled)",
                   "Condvar: a waiter is woken at the latest by notify_one after the predicate became true; spurious wake-ups are "
                   "harmless because the code re-tests the predicate (not modelled, exercised by the threaded stress only)",
                   "no I/O error on the temporary file or the destination (short writes of the destination ARE exercised: modes 3 and 4 accept 2 resp. 5 bytes per call)",
                   "one producer handle and one consumer handle, each used by one thread at a time (guaranteed by &mut self / self)"]

    # ------------------------------------------------------------------ generation
    def case(self, mode, d0, ops, prog, sched):
        return sx([mode, d0, [o if isinstance(o, list) else -1 for o in ops], prog, sched])

    def gen(self, rng, tier):
        quick = tier == "quick"
        nmax = 4 if quick else 6
        d0 = [200, 201]
        # 1. exhaustive interleavings, small size vector
        for n in range(0, nmax + 1):
            ops = payload(SMALL[:n])
            for pname, prog in PROGRAMS:
                for k, sched in enumerate(merges(psteps(ops), csteps(prog))):
                    for mode in (0, 1):
                        m = 2 if (mode == 1 and k % 16 == 5) else mode
                        if k % 4 == 3:
                            m = 3 + mode    # destination that accepts only a few bytes per write() call
                        yield self.case(m, d0, ops, prog, sched), [f"n={n}", pname, f"mode={m}", "exhaustive-interleavings", "sizes=small"]
        # 2. exhaustive interleavings x all size vectors, short histories, programs a and b
        for n in range(0, (1 if quick else 2) + 1):
            for sizes in itertools.product(SIZES, repeat=n):
                if 9000 not in sizes:
                    continue        # small vectors behave as in part 1
                ops = payload(sizes)
                for pname, prog in PROGRAMS[:2]:
                    for sched in merges(psteps(ops), csteps(prog)):
                        for mode in (0, 1):
                            yield self.case(mode, [], ops, prog, sched), [f"n={n}", pname, f"mode={mode}", "exhaustive-interleavings", "sizes=9000"]
        # 3. every size vector x every program x both modes, sampled interleavings
        per = 1 if quick else 2
        for n in range(0, 5):
            for sizes in itertools.product(SIZES, repeat=n):
                ops = payload(sizes)
                big = "sizes=9000" if 9000 in sizes else "sizes=small"
                for pname, prog in PROGRAMS:
                    a, c = psteps(ops), csteps(prog)
                    for mode in (0, 1):
                        for _ in range(per):
                            pos = set(rng.sample(range(a + c), c))
                            sched = [1 if i in pos else 0 for i in range(a + c)]
                            m = 2 if (mode == 1 and rng.random() < 0.15) else mode
                            yield self.case(m, d0 if rng.random() < 0.5 else [], ops, prog, sched), \
                                [f"n={n}", pname, f"mode={m}", "sampled-interleaving", big]
        # 4. histories with flush() calls and random (non-merge) schedules: stutters, early end, surplus steps
        for i in range(600 if quick else 6000):
            n = rng.randint(0, 5)
            ops = []
            k = 0
            for _ in range(n):
                if rng.random() < 0.25:
                    ops.append(-1)
                else:
                    z = rng.choice([0, 1, 2, 3, 5, 17])
                    ops.append([(j * 7 + 1) % 251 for j in range(k, k + z)]); k += z
            pname, prog = rng.choice(PROGRAMS)
            if rng.random() < 0.3:      # more polls, anywhere a poll is legal
                prog = list(prog)
                for _ in range(rng.randint(1, 3)):
                    prog.insert(rng.randint(0, len(prog) - (1 if prog[-1] in (A, E) else 0)), R)
                pname = pname + "+polls"
            ln = rng.randint(0, psteps(ops) + csteps(prog) + 4)
            bias = rng.random()
            sched = [1 if rng.random() < bias else 0 for _ in range(ln)]
            mode = rng.choice([0, 1, 1, 2, 3, 4])
            yield self.case(mode, [9] * rng.randint(0, 2), ops, prog, sched), [f"n={n}", pname.split("+")[0], f"mode={mode}", "random-schedule", "flush" if -1 in ops else "noflush"]

    def nontrivial(self, case, tags):
        return "n=0" not in tags

    # ------------------------------------------------------------------ shrinking (keeps the program legal)
    def shrink_candidates(self, case_text):
        c = parse_sx(case_text)
        if not isinstance(c, list) or len(c) < 5 or c[0] == 100:
            return
        mode, d0, ops, prog, sched = c[:5]
        def mk(d0=d0, ops=ops, prog=prog, sched=sched, mode=mode):
            return sx([mode, d0, ops, prog, sched])
        for i in range(len(ops)):
            yield mk(ops=ops[:i] + ops[i + 1:])
        for i, o in enumerate(ops):
            if isinstance(o, list) and len(o) > 1:
                yield mk(ops=ops[:i] + [o[:len(o) // 2]] + ops[i + 1:])
                yield mk(ops=ops[:i] + [o[:1]] + ops[i + 1:])
        for i, p in enumerate(prog):
            if p == R or (p == L and len(prog) > 1):
                yield mk(prog=prog[:i] + prog[i + 1:])
        if d0:
            yield mk(d0=[])
        if sched:
            yield mk(sched=sched[:len(sched) // 2])
            yield mk(sched=sched[:-1])
            for i in range(min(len(sched), 24)):
                yield mk(sched=sched[:i] + sched[i + 1:])
        if mode == 2:
            yield mk(mode=1)

    # ------------------------------------------------------------------ threaded stress (oracle only)
    def extra_checks(self, ctx):
        tier, seed = ctx["tier"], ctx["seed"]
        iters = int(os.environ.get("VERIF_C12_STRESS", "4000" if tier == "quick" else "60000"))
        lines = []
        for i in range(iters):
            mode = (0, 1, 0, 1, 2)[i % 5]
            full = 1 if i % 25 == 0 else 0
            lines.append(sx([100, mode, seed * 1000003 + i, full]))
        t0 = time.time()
        outs = core.run_impl(self.ID, lines, per_case_timeout=30.0)
        res = []
        bad = []
        classes = {}
        shapes = {}
        tot_bytes = 0; tot_writes = 0
        full_pairs = []
        names = {0: "switch-after-drop", 1: "switch-before-drop", 3: "no-switch"}
        snames = {0: "switch;poll*;await", 1: "expect", 2: "len;expect", 3: "len", 4: "len;switch;await"}
        for line, out in zip(lines, outs):
            try:
                o = parse_sx(out)
            except Exception:
                o = None
            if not isinstance(o, list) or len(o) < 5:
                bad.append((line, out, "hang" if out.strip() == "(3)" else "panic/abort")); continue
            good, cl, sh, nw, nb = o[:5]
            classes[names.get(cl, str(cl))] = classes.get(names.get(cl, str(cl)), 0) + 1
            shapes[snames.get(sh, str(sh))] = shapes.get(snames.get(sh, str(sh)), 0) + 1
            tot_bytes += nb; tot_writes += nw
            if not good:
                bad.append((line, out, "oracle")); continue
            if len(o) >= 7:
                full_pairs.append((line, sx([o[5], o[6]])))
        # runs printed in full are judged again by the Coq oracle
        if full_pairs:
            orc = core.run_model(self.ID, self.ORACLE_ENTRY, [p for _, p in full_pairs])
            for (line, pair), v in zip(full_pairs, orc):
                if v.strip() != "1":
                    bad.append((line, pair, "coq-oracle"))
        res.append(("stat", "threaded_stress_runs", len(lines)))
        res.append(("stat", "threaded_stress_failures", len(bad)))
        res.append(("stat", "threaded_stress_rechecked_by_coq_oracle", len(full_pairs)))
        res.append(("stat", "threaded_stress_switch_timing", classes))
        res.append(("stat", "threaded_stress_programs", shapes))
        res.append(("stat", "threaded_stress_total_writes", tot_writes))
        res.append(("stat", "threaded_stress_total_bytes", tot_bytes))
        res.append(("stat", "threaded_stress_wall_s", round(time.time() - t0, 1)))
        core.log(f"[check] C12 threaded stress: {len(lines)} runs, {len(bad)} failures, switch timing {classes}, "
                 f"{tot_writes} writes / {tot_bytes} bytes, {len(full_pairs)} re-judged by the Coq oracle, {round(time.time()-t0,1)} s")
        for line, out, why in bad[:3]:
            res.append(("violation", "threaded stress", {
                "property": "C12", "kind": "failing-input", "found_by": "threaded stress (real producer and consumer threads)",
                "stress_case": line, "why": why, "observed_impl": out[:4000],
                "oracle": "run did not finish with destination = dest0 ++ all written bytes and len() = their number",
                "how_to_replay": f"echo '{line}' | {core.harness_bin('C12')}   (nondeterministic: repeat; field 1 of the output is 1 when the run was good)"}))
        return res


PROP = C12()
