from ..runner import Prop
from ..core import sx

class C05(Prop):
    ID = "C05"
    THEOREMS = ["C05_search_tree_eq_scan", "C05_build_ok", "C05_search_built_eq_scan", "C05_build_empty",
                "C05_dec_enc_le", "C05_read_leaf", "C05_read_inner", "C05_search_represented",
                "C05_chunks_all_but_last_full", "C05_built_shape", "C05_layout_represents", "C05_search_bytes_eq_scan",
                "C05_search_bytes_widen", "C05_scan_widen_refilter"]
    RULE = ("exhaustive over block counts n and fan-outs b (quick n<=40,b<=5; thorough n<=120 plus sizes around b^k up to 700, b<=9), "
            "three section layouts (one chromosome monotone ends, several chromosomes, non-monotone ends as in bigBed), plus 130-1030 chromosomes with 1-2 blocks each under fan-outs 2..256, "
            "queries starting/ending on every chosen section boundary and one base either side; a public-API stage (real writer and reader, short reads, zoom query before each main query on the same reader, every query answered by a plain and by a caching reader in the same order); "
            "non-trivial = at least 2 sections; distinct = distinct case text")
    CORRESPONDENCE = "R-tree index bytes and search answers of Model/RTree.v = get_rtreeindex/write_rtreeindex/search_cir_tree_inner"
    TRUSTED = ["verif_hooks::rtree_index_bytes / rtree_search wrappers in /repo (cfg bigtools_verif)"]
    ASSUMPTIONS = ["sections sorted by (chrom,start) as the writers produce them", "count fields fit u16 (b <= 65535)"]

    def layout(self, rng, n, kind):
        secs = []; chrom = 0; pos = rng.choice([0, 0, 3]); off = 1000
        nchrom = 1 if kind != "multi" else rng.randint(2, 4)
        per = max(1, n // nchrom)
        for i in range(n):
            if kind == "multi" and i > 0 and i % per == 0 and chrom < nchrom - 1:
                chrom += 1; pos = rng.choice([0, 2])
            start = pos
            ln = rng.choice([1, 2, 5, 10])
            end = start + ln
            if kind == "nonmono" and rng.random() < 0.3:
                end = start + rng.choice([50, 200, 1000])
            size = rng.choice([1, 7, 40])
            secs.append([chrom, start, end, off, size]); off += size
            pos = start + (ln if kind != "nonmono" else rng.choice([0, 1, ln])) + rng.choice([0, 0, 1, 3])
        return secs

    def queries(self, rng, secs):
        n = len(secs)
        idx = set(range(n)) if n <= 10 else set([0, 1, n - 2, n - 1] + [rng.randrange(n) for _ in range(6)])
        qs = []
        for i in sorted(idx):
            c, s, e = secs[i][0], secs[i][1], secs[i][2]
            for p in (s - 1, s, s + 1, e - 1, e, e + 1):
                if p < 0: continue
                qs.append([c, p, p]); qs.append([c, p, p + 1]); qs.append([c, 0, p]); qs.append([c, p, 4000000])
        maxc = secs[-1][0]
        qs.append([maxc + 1, 0, 10]); qs.append([0, 0, 0])
        return qs

    def gen(self, rng, tier):
        if tier == "quick":
            ns = list(range(1, 41)); bs = range(2, 6)
        else:
            ns = list(range(1, 121)); bs = range(2, 10)
        for b in bs:
            nlist = set(ns)
            if tier != "quick":
                k = b
                while k <= 700:
                    for d in (-1, 0, 1):
                        if 1 <= k + d <= 700: nlist.add(k + d)
                    k *= b
                nlist.update([255, 256, 257, 511, 700])
            for n in sorted(nlist):
                for kind in ("mono", "multi", "nonmono"):
                    secs = self.layout(rng, n, kind)
                    pos = rng.choice([0, 64, 1000])
                    ips = rng.choice([1, 3, 1024])
                    yield sx([b, ips, pos, secs, self.queries(rng, secs)]), [f"b={b}", kind, "levels~%d" % self.levels(n, b)]
        # many chromosomes with few blocks each and a wide fan-out: index entries that span hundreds of
        # chromosome ids (comparisons of chromosome ids must not be narrowed)
        for nchrom, b in ((300, 256), (130, 129), (260, 16)) if tier == "quick" else ((300, 256), (130, 129), (260, 16), (700, 256), (520, 2), (1030, 32)):
            secs = []; off = 1000
            for c in range(nchrom):
                for k in range(rng.choice([1, 1, 2])):
                    st = rng.choice([0, 5, 100]) + 200 * k; ln = rng.choice([1, 10, 50])
                    secs.append([c, st, st + ln, off, 12]); off += 12
            qs = []
            for c in sorted(set([0, 1, 2, 126, 127, 128, 129, 130, 255, 256, 257, nchrom - 2, nchrom - 1] + [rng.randrange(nchrom) for _ in range(8)])):
                if c < nchrom:
                    qs += [[c, 0, 1000], [c, 0, 1], [c, 100, 101], [c, 5, 6]]
            qs.append([nchrom, 0, 10])
            yield sx([b, 1, 64, secs, qs]), [f"b={b}", "many-chroms", "levels~%d" % self.levels(len(secs), b)]
        # public-API stage: the real writer (items_per_slot 1, fan-out b, one zoom level) and the real reader, which only
        # gets short reads and is asked the zoom index before the main index on every query
        for i in range(12 if tier == "quick" else 150):
            b = rng.choice([2, 3, 4, 256, 400])
            nchrom = rng.choice([1, 2, 3]); secs = []
            n = rng.choice([5, 17, 40]) if b < 100 else rng.choice([300, 520])
            for c in range(nchrom):
                pos = rng.choice([0, 3])
                for _ in range(max(1, n // nchrom)):
                    ln = rng.choice([1, 2, 5, 10]); secs.append([c, pos, pos + ln]); pos += ln + rng.choice([0, 0, 1, 3])
            qs = []
            for _ in range(14):
                c, st, en = rng.choice(secs)
                for (s, e) in ((st, en), (max(st - 1, 0), st + 1), (en - 1, en + 1), (0, en + 5), (st, st + 100000)):
                    qs.append([c, s, e])
            desc = 1 if (nchrom > 1 and i % 3 == 0) else 0
            yield sx([9, b, secs, qs[:40], rng.choice([4, 16, 64]), desc]), [f"b={b}", "public-api", "short-reads", "zoom-then-main"] + (["names-descending"] if desc else [])
        # degenerate: no sections at all (empty index)
        yield sx([2, 1, 0, [], [[0, 0, 10]]]), ["empty"]

    @staticmethod
    def levels(n, b):
        l = 0; k = (n + b - 1) // b
        while k > 1:
            k = (k + b - 1) // b; l += 1
        return l

    def nontrivial(self, case, tags):
        return "empty" not in tags

PROP = C05()
