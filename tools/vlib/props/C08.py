from ..runner import Prop
from .. import bbigen, bedgen68

class C08(Prop):
    ID = "C08"
    THEOREMS = ["C08_sweep_eq_rle_depth", "C08_accepted_valid", "C08_ordered_disjoint", "C08_len_le_res", "C08_partition", "C08_stats",
                "C08_tiling_terminates", "C08_levels_increasing", "C08_file_levels", "C08_file_levels_increasing", "C08_zoom_query",
                "C08_zoom_query_complete", "C08_geometry_any_mode", "C08_level_sections_sorted", "C08_zoom_query_sections",
                # the IEEE run is the exact run below 2^53 (Proofs/FloatExactBed.v)
                "C08_records_ieee", "C08_stats_ieee"]
    RULE = ("bigBed cases: 1-6 chromosomes, per chromosome a start-sorted BED layout from the grammar disjoint/partly overlapping/"
            "nested/identical/zero-length/very-long-then-short/dense/gaps of every size relative to the first resolution "
            "(0, 1, r-1, r, r+1, 2r, 3r+1), options compress x items_per_slot{1,2,3,7,1024} x zoom lists (automatic; small automatic; "
            "manual incl. resolution 1, larger than the chromosome, duplicates, 0) x single/two pass; every level x every chromosome "
            "read over the whole chromosome plus range queries on record boundaries; non-trivial = accepted input with at least one "
            "zoom level and 2 entries; distinct = distinct case text")
    CORRESPONDENCE = ("zoom headers and every zoom record (get_zoom_interval over each chromosome, every level) of the file written by "
                      "BigBedWrite = Model/BedSweep.v bb_zoom_records + level selection, bit for bit; range query answers")
    TRUSTED = []
    ASSUMPTIONS = ["fewer than 2^24 entries cover one base (the depth counter is an f32 in the code, a natural number in the model)",
                   "record sums stay below 2^53 (exact in f64; the stored f32 is the correctly rounded value, modelled)",
                   "the index search returns every block meeting the range (C05)",
                   "libdeflater round-trips (compressed files are read back through the real reader)"]
    PER_CASE_TIMEOUT = 30.0

    def gen(self, rng, tier):
        n = 2000 if tier == "quick" else 30000
        for i in range(n):
            yield bedgen68.bb_case(rng, tier, zoom_mode=rng.choice(["manual", "manual", "auto-small", "auto-small", "auto", "manual-odd"]),
                                   invalid=(i % 25 == 24))

    def nontrivial(self, case, tags):
        return not any(t.startswith("invalid") for t in tags) and case.count("(") > 14

    def shrink_candidates(self, case_text):
        return bedgen68.shrink(case_text)

PROP = C08()
