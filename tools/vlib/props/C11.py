import os, random, shutil, subprocess, tempfile, time
from ..runner import Prop
from .. import core, bbigen
from ..core import sx, parse_sx

THREADS = [0, 1, 2, 3, 4, 8, 16]          # 0 = current-thread runtime
CHANS = [0, 1, 100]                       # BBIWriteOptions.channel_size (futures mpsc: capacity = size + 1 sender slot)
SOURCES = [0, 1, 2, 3]                    # 0 in-memory iterator, 1 serial text file, 2 parallel (harness index), 3 parallel (index_chroms)
REFERENCE = [2, 1, 100, 0, 0]             # threads inmemory channel_size source delay_seed
NAMES = bbigen.NAMES


def configs(rng, n, delay_share):
    """reference first, then a covering sample: every thread count, both staging modes, every channel size
    and every source occur; a share of the runs has a non-zero delay seed"""
    cf = [list(REFERENCE)]
    pools = [list(THREADS), [0, 1], list(CHANS), list(SOURCES)]
    for p in pools:
        rng.shuffle(p)
    i = 0
    while len(cf) < n:
        c = [pools[0][i % len(pools[0])], pools[1][i % 2], pools[2][i % 3], pools[3][i % 4]]
        if i >= 8:
            c = [rng.choice(THREADS), rng.choice([0, 1]), rng.choice(CHANS), rng.choice(SOURCES)]
        c.append(rng.randrange(1, 1 << 40) if rng.random() < delay_share else 0)
        cf.append(c)
        i += 1
    return cf


def pipeline_input(rng, tier, kind):
    """several chromosomes, several sections each (small items_per_slot), valid input"""
    sort_all = rng.choice([1, 1, 0])
    nchrom = rng.choice([1, 2, 2, 3, 4, 6, 8, 10])
    names = rng.sample(NAMES, nchrom)
    if sort_all:
        names.sort(key=lambda s: s.encode())
    comp = rng.choice([0, 0, 0, 1])
    o, zm = bbigen.options(rng, tier, compress=comp)
    if rng.random() < 0.8:
        o[1] = rng.choice([1, 2, 3, 7])          # many sections per chromosome
    o[6] = sort_all
    ips = o[1]
    sizes = []; inp = []
    tags = ["kind=%d" % kind, zm, "compress=%d" % o[0], "ips=%d" % ips, "bs=%d" % o[2], "chroms=%d" % nchrom]
    nsec = 0
    for nm in names:
        items, length, st = bbigen.layout(rng, min(ips, 8), maxitems=rng.choice([3, 8, 20, 40]))
        # zero-length values at a chromosome boundary are C01's known finding; not this property's subject
        items = [(s, e if e > s else e + 1) for (s, e) in items]
        fixed = []; pos = 0
        for (s, e) in items:
            s = max(s, pos); e = max(e, s + 1); fixed.append((s, e)); pos = e
        items = fixed
        length = max(length, items[-1][1])
        sizes.append([nm, length])
        nsec += (len(items) + ips - 1) // ips
        if kind < 2:
            inp += [[nm, s, e, bbigen.rand_f32(rng, "mixed")] for (s, e) in items]
        else:
            ent = []
            for (s, e) in items:
                rest = rng.choice(["", "", "n%d" % s, "x\t5\t+"])
                ent.append([nm, s, e, rest])
                if rng.random() < 0.2:
                    ent.append([nm, s, e + rng.choice([0, 3]), rest])       # identical / overlapping entry
            for x in ent:
                x[2] = min(x[2], length)
            inp += ent
    if rng.random() < 0.3:
        sizes.append(["chrUnused", 1000])
    rng.shuffle(sizes)
    tags.append("sections~%d" % (1 if nsec <= 1 else 2 if nsec <= 4 else 5 if nsec <= 16 else 17))
    return kind, o, sizes, inp, tags


class C11(Prop):
    ID = "C11"
    NEED_BINS = True
    PER_CASE_TIMEOUT = 150.0
    THEOREMS = ["C11_fifo_order", "C11_splice", "C11_file_prefix", "C11_schedule_independent", "C11_offsets_address_sections",
                "C11_splice_bigwig", "C11_splice_bigbed", "C11_progress", "C11_completion", "C11_await_never_blocks", "C11_buffer_contract", "C11_lanes_splice",
                "C11_converter_order", "C11_converter_progress", "C11_converter_completion", "C11_converter_await_never_blocks",
                "C11_refine_step", "C11_refines", "C11_buffers_are_c12", "C11_splice_concrete",
                "C11_concrete_progress", "C11_concrete_completion", "C11_concrete_await_never_blocks", "C11_concrete_bytes",
                "C11_lanes_progress", "C11_lanes_completion", "C11_lanes_waits",
                "C11_seq_lanes_refines", "C11_seq_lanes_progress", "C11_seq_lanes_completion",
                "C11_zoom_levels_splice", "C11_zoom_assembly", "C11_zoom_assembly_bigwig", "C11_zoom_outer_contract", "C11_zoom_progress", "C11_zoom_completion"]
    RULE = ("inputs: 1-10 chromosomes (names whose input, lexicographic and id order differ), per chromosome up to 40 sorted items, "
            "items_per_slot mostly 1/2/3/7 so that a chromosome has many sections, block sizes 2..256, zoom modes auto/small/manual/none, "
            "compressed and uncompressed, bigWig (60%) and bigBed (40%), single and two pass; each input is written by the real writer "
            "under a reference configuration (2 workers, in memory, channel 100, iterator source, no delay) and N further ones (quick 13, thorough 47) drawn from worker threads {0 = current-thread "
            "runtime,1,2,3,4,8,16} x inmemory {0,1} x channel_size {0,1,100} x source {iterator, serial text file, "
            "BedParserParallelStreamingIterator with computed offsets, the same with index_chroms} so that every value of every "
            "dimension occurs, about half of them with a seeded delay at the hand-off points (cfg bigtools_verif hook); "
            "extra: the Coq pipeline machine executed on the cases' real section data under random schedules; the built "
            "bigwigtobedgraph / bigbedtobed binaries with -t 1 (single-threaded path) vs -t 2..16, --inmemory, delay seeds; "
            "non-trivial = at least 2 chromosomes or 2 sections; distinct = distinct case text")
    CORRESPONDENCE = ("bytes written under the reference configuration, uncompressed files: bigWig = bytes of Model/BigWigWrite.v, "
                      "bigBed = bytes of Model/BigBedWrite.v (bb_write / bb_write_multipass with Model/BedSweep.v's summary and zoom levels, "
                      "through EntryBed.bed_write_model); every other configuration's sink = the reference sink (all kinds, compressed too)")
    TRUSTED = ["harness/src/bin/c11.rs compares the sinks and prints the first difference",
               "verif_delay hook (cfg bigtools_verif) in /repo: sleeps/yields only",
               "tokio, futures/crossbeam channels, AtomicCell, Condvar: assumed to implement the transitions of Model/Pipeline.v (validated by the runs)"]
    ASSUMPTIONS = ["single-lane writer: every staging buffer is the C12 machine itself (C11_refines, C11_buffers_are_c12, C11_splice_concrete); the lanes machine, the second pass and the converters use the buffer contract (C11_buffer_contract, C11_zoom_outer_contract)",
                   "no I/O error on the sink or the temporary files",
                   "zoom lanes: safety per lane by projection (C11_lanes_splice), progress and completion of the multi-lane machine (C11_lanes_progress, C11_lanes_completion), second-pass assembly (C11_zoom_assembly)",
                   "f32 -0.0/NaN/inf are not generated"]

    # ------------------------------------------------------------------ generation
    def gen(self, rng, tier):
        quick = tier == "quick"
        n = 60 if quick else 600
        ncfg = 14 if quick else 48
        kinds = [0, 1, 2, 0, 3, 0, 1, 2, 0, 1]
        for i in range(n):
            kind, o, sizes, inp, tags = pipeline_input(rng, tier, kinds[i % len(kinds)])
            cf = configs(rng, ncfg, 0.5)
            yield sx([kind, o, sizes, inp, cf]), tags + ["cfgs=%d" % len(cf)]

    def nontrivial(self, case, tags):
        return "chroms=1" not in tags or "sections~1" not in tags

    def same(self, case, impl, model):
        # exact text for every kind: verdict, the bytes of an uncompressed file (bigWig and bigBed), one () per configuration
        return impl == model

    def shrink_candidates(self, case_text):
        c = parse_sx(case_text)
        if not isinstance(c, list) or len(c) < 5 or c[0] >= 10:
            return
        kind, o, sizes, inp, cf = c[:5]
        # fewer configurations first (keep the reference), then fewer items
        if len(cf) > 1:
            yield sx([kind, o, sizes, inp, cf[:1]])
        if len(cf) > 2:
            for i in range(1, len(cf)):
                yield sx([kind, o, sizes, inp, [cf[0], cf[i]]])
        for i in range(len(cf)):
            if cf[i][4] != 0:
                yield sx([kind, o, sizes, inp, cf[:i] + [cf[i][:4] + [0]] + cf[i + 1:]])
        names = []
        for it in inp:
            if it[0] not in names:
                names.append(it[0])
        if len(names) > 2:
            half = names[:len(names) // 2]
            yield sx([kind, o, sizes, [it for it in inp if it[0] in half], cf])
            yield sx([kind, o, sizes, [it for it in inp if it[0] not in half], cf])
        for nm in names:
            if len(names) > 1:
                yield sx([kind, o, sizes, [it for it in inp if it[0] != nm], cf])
        if len(inp) > 3:
            yield sx([kind, o, sizes, inp[:len(inp) // 2], cf])
            yield sx([kind, o, sizes, inp[len(inp) // 2:], cf])
        for i in range(len(inp)):
            if len(inp) > 1:
                yield sx([kind, o, sizes, inp[:i] + inp[i + 1:], cf])

    # ------------------------------------------------------------------ extra checks
    def extra_checks(self, ctx):
        res = []
        res += self.pipeline_model_runs(ctx)
        res += self.converter_runs(ctx)
        return res

    def pipeline_model_runs(self, ctx):
        """the executable transition system of Model/Pipeline.v on real section data under random schedules"""
        tier, seed = ctx["tier"], ctx["seed"]
        rng = random.Random(seed * 7 + 11)
        n = 60 if tier == "quick" else 600
        lines = []
        for i in range(n):
            kind, o, sizes, inp, tags = pipeline_input(rng, tier, 0)
            o[0] = 0
            nchrom = len({tuple(it[0]) if isinstance(it[0], list) else it[0] for it in inp})
            cap = rng.choice([1, 1, 2, 3, 101])
            win = rng.choice([1, 1, 2, 5])
            sched = []
            for _ in range(rng.choice([0, 10, 50, 200, 600])):
                t = rng.choice([0, 1, 1, 2, 2, 3, 3, 4])
                sched.append([t, rng.randrange(nchrom), rng.randrange(min(cap, 4))])
            lines.append(sx([[kind, o, sizes, inp, []], cap, win, sched]))
        outs = core.run_model(self.ID, 2, lines)
        bad = [(l, o) for l, o in zip(lines, outs) if not o.strip().startswith("(1 ")]
        nsec = 0
        for o in outs:
            try:
                nsec += parse_sx(o)[1]
            except Exception:
                pass
        core.log(f"[check] C11 pipeline machine on real section data: {len(lines)} random schedules, {nsec} sections, {len(bad)} not equal to the sequential model")
        res = [("stat", "pipeline_machine_runs", len(lines)), ("stat", "pipeline_machine_sections", nsec),
               ("stat", "pipeline_machine_failures", len(bad))]
        for l, o in bad[:2]:
            res.append(("nofail", "pipeline machine", {
                "property": "C11", "kind": "model-inconsistency",
                "theorem_or_correspondence": "C11_splice_bigwig evaluated: Model/Pipeline.v run on the case's sections /= sequential data region",
                "pipeline_case": l[:4000], "observed_model": o[:400]}))
        return res

    def converter_runs(self, ctx):
        """bigwigtobedgraph / bigbedtobed: -t N text = single-threaded text"""
        tier, seed = ctx["tier"], ctx["seed"]
        rng = random.Random(seed * 13 + 5)
        nfiles = 12 if tier == "quick" else 80
        tcounts = [2, 3, 4, 6, 8, 16] if tier == "quick" else list(range(2, 17))
        seeds_per = 1 if tier == "quick" else 3
        work = tempfile.mkdtemp(prefix="c11-", dir=core.CACHE)
        res = []; bad = []; runs = 0; files = 0; lines_total = 0
        t0 = time.time()
        try:
            cases = []; metas = []; metas_o = {}
            for i in range(nfiles):
                kind = 10 if i % 2 == 0 else 11
                _, o, sizes, inp, tags = pipeline_input(rng, tier, 0 if kind == 10 else 2)
                if kind == 10 and i % 4 == 0:
                    # non-finite values (accepted from bedGraph text): both converter paths must print them alike
                    for k in rng.sample(range(len(inp)), min(len(inp), 5)):
                        inp[k][3] = rng.choice([0x7fc00000, 0x7f800000, 0xff800000])
                path = os.path.join(work, "f%d.%s" % (i, "bw" if kind == 10 else "bb"))
                metas_o[path] = o
                cases.append(sx([kind, o, sizes, inp, path]))
                metas.append((kind, path, len(inp)))
            outs = core.run_impl(self.ID, cases, per_case_timeout=60.0)
            for (kind, path, nitems), case, out in zip(metas, cases, outs):
                if out.strip() != "(0)" or not os.path.exists(path):
                    continue
                files += 1
                tool = os.path.join(core.BINS_DIR, "bigwigtobedgraph" if kind == 10 else "bigbedtobed")
                def conv(extra, dseed, tag):
                    outp = path + "." + tag
                    env = dict(os.environ, BIGTOOLS_VERIF_DELAY_SEED=str(dseed))
                    try:
                        p = subprocess.run([tool, path, outp] + extra, env=env, stdout=subprocess.DEVNULL, stderr=subprocess.DEVNULL, timeout=60)
                        rc = p.returncode
                    except subprocess.TimeoutExpired:
                        rc = "timeout"
                    data = open(outp, "rb").read() if os.path.exists(outp) else None
                    if os.path.exists(outp):
                        os.remove(outp)
                    return rc, data
                rc0, ref = conv(["-t", "1"], 0, "t1")
                runs += 1
                if rc0 != 0 or ref is None:
                    bad.append((case, "single-threaded path failed: rc=%s" % rc0, "")); continue
                lines_total += ref.count(b"\n")
                if kind == 11:
                    # bigbedtobed --zoom <level>: the zoom-record output must not depend on -t either
                    zl = [z for z in (metas_o[path][5][0] if metas_o[path][5] else [metas_o[path][3]]) if z > 0]
                    if zl:
                        zr0, zref = conv(["-t", "1", "--zoom", str(zl[0])], 0, "z1")
                        for t in tcounts[:3]:
                            zr, zdata = conv(["-t", str(t), "--zoom", str(zl[0])], 0, "z%d" % t)
                            runs += 1
                            if zr != zr0 or zdata != zref:
                                bad.append((case, "%s -t %d --zoom %d: rc=%s vs %s with -t 1, %s" % (os.path.basename(tool), t, zl[0], zr, zr0,
                                            "text differs from -t 1"), (zdata or b"")[:600].decode(errors="replace")))
                for t in tcounts:
                    for k in range(seeds_per + 1):
                        dseed = 0 if k == 0 else rng.randrange(1, 1 << 40)
                        extra = ["-t", str(t)] + (["--inmemory"] if rng.random() < 0.5 else [])
                        rc, data = conv(extra, dseed, "t%d_%d" % (t, k))
                        runs += 1
                        if rc != 0 or data != ref:
                            bad.append((case, "%s %s seed=%d: rc=%s, %s" % (os.path.basename(tool), " ".join(extra), dseed, rc,
                                        "no output" if data is None else "text differs from -t 1 (lengths %d vs %d)" % (len(data), len(ref))),
                                        (data or b"")[:600].decode(errors="replace")))
        finally:
            shutil.rmtree(work, ignore_errors=True)
        core.log(f"[check] C11 converters: {files} files, {runs} runs of the binaries, {lines_total} reference lines, {len(bad)} differing, {round(time.time()-t0,1)} s")
        res.append(("stat", "converter_files", files))
        res.append(("stat", "converter_runs", runs))
        res.append(("stat", "converter_reference_lines", lines_total))
        res.append(("stat", "converter_failures", len(bad)))
        if files == 0:
            res.append(("nofail", "converters", {"property": "C11", "kind": "proof-or-build-broken",
                                                 "theorem_or_correspondence": "no input file could be written for the converter runs"}))
        for case, why, got in bad[:3]:
            res.append(("violation", "converter", {
                "property": "C11", "kind": "failing-input", "found_by": "converter binaries: -t N output vs the single-threaded path",
                "converter_case": case[:6000], "why": why, "observed_impl": got,
                "oracle": "multi-threaded converter text = single-threaded text",
                "how_to_replay": "echo '<converter_case>' | .cache/harness-target/debug/c11 writes the file named in the case; then run the tool as in `why` and with -t 1"}))
        return res


PROP = C11()
