"""C09: test vectors for Spec/Inflate.v (the Coq zlib/DEFLATE decoder).

`vectors()` builds the fixed corpus (corpus/C09/zlib-vectors.txt is its output, regenerate with
`python3 tools/vlib/props/C09_zlibvec.py > corpus/C09/zlib-vectors.txt`): streams written by Python's zlib at
levels 0/1/6/9 and with the FIXED / HUFFMAN_ONLY / RLE strategies (stored, fixed and dynamic blocks, multi-block
streams, empty input, one byte, long runs, incompressible data, distances up to 32768, every window size), malformed
variants of them (check value, truncation, trailing bytes, header fields, NLEN, single bit flips) and hand-assembled
deflate streams for the rules that a compressor never exercises (block type 3, over-subscribed and incomplete code
length sets, the single-code exceptions, repeats without a previous length or past the end, missing end-of-block
code, too many symbols, symbols 286/287 and distance symbols 30/31, distances reaching before the start).
`random_vectors(rng, n)` draws further streams and mutations per run.  The expected verdict is always what Python's
zlib says at check time (`py_verdict`: one complete stream, nothing after it)."""
import zlib, random, struct

class BW:
    def __init__(self): self.bits = []
    def put(self, v, n):          # n-bit integer, LSB first
        for i in range(n): self.bits.append((v >> i) & 1)
    def code(self, c, n):         # Huffman code, MSB first
        for i in reversed(range(n)): self.bits.append((c >> i) & 1)
    def align(self):
        while len(self.bits) % 8: self.bits.append(0)
    def bytes(self):
        self.align()
        return bytes(sum(self.bits[i + k] << k for k in range(8)) for i in range(0, len(self.bits), 8))

def canon(lens):
    """RFC 1951 canonical codes: sym -> (code, len)"""
    maxl = max(lens) if lens else 0
    blc = [0] * (maxl + 2)
    for l in lens:
        if l: blc[l] += 1
    nxt = [0] * (maxl + 2); code = 0
    for b in range(1, maxl + 1):
        code = (code + blc[b - 1]) << 1; nxt[b] = code
    out = {}
    for s, l in enumerate(lens):
        if l: out[s] = (nxt[l], l); nxt[l] += 1
    return out

FIXL = [8] * 144 + [9] * 112 + [7] * 24 + [8] * 8
FIXC = canon(FIXL)
ORDER = [16, 17, 18, 0, 8, 7, 9, 6, 10, 5, 11, 4, 12, 3, 13, 2, 14, 1, 15]

def zwrap(deflate, data, adler=None, cmf=0x78, flg=None):
    if flg is None:
        flg = 0
        while ((cmf << 8) + flg) % 31: flg += 1
    a = zlib.adler32(data) if adler is None else adler
    return bytes([cmf, flg]) + deflate + struct.pack(">I", a)

def dyn_header(w, final, ll, dl, cl_lens=None, hclen=None, seq=None):
    """write a dynamic block header; ll/dl: literal and distance code lengths; the code length sequence is
    written plainly (symbols 0..15 only) unless seq (list of (sym, extra)) is given"""
    w.put(final, 1); w.put(2, 2)
    w.put(len(ll) - 257, 5); w.put(len(dl) - 1, 5)
    if seq is None: seq = [(l, None) for l in ll + dl]
    if cl_lens is None:
        used = sorted(set(s for s, _ in seq))
        # a complete code over the used symbols: all length k with 2^k >= n, padded by extra symbols
        k = 1
        while (1 << k) < max(2, len(used)): k += 1
        cl_lens = [0] * 19
        pool = used + [s for s in range(19) if s not in used]
        for s in pool[: 1 << k]: cl_lens[s] = k
    if hclen is None:
        hclen = 19
        while hclen > 4 and cl_lens[ORDER[hclen - 1]] == 0: hclen -= 1
    w.put(hclen - 4, 4)
    for i in range(hclen): w.put(cl_lens[ORDER[i]], 3)
    cc = canon(cl_lens)
    for s, extra in seq:
        c, n = cc[s]; w.code(c, n)
        if s == 16: w.put(extra, 2)
        elif s == 17: w.put(extra, 3)
        elif s == 18: w.put(extra, 7)
    return canon(ll), canon(dl)

def py_verdict(stream):
    try:
        d = zlib.decompressobj()
        out = d.decompress(stream)
        ok = d.eof and not d.unused_data
        return (1, out) if ok else (0, b"")
    except zlib.error:
        return (0, b"")

def vectors():
    rng = random.Random(20261002)
    V = []
    def add(kind, stream): V.append((kind, bytes(stream)))
    datas = {
        "empty": b"", "one": b"a", "two": b"ab", "run": b"\x00" * 5000, "run-a": b"a" * 70000,
        "text": (b"chr1\t100\t200\t0.5\nchr1\t200\t300\t1.5\n" * 300),
        "abc": bytes(range(256)) * 3,
        "random": bytes(rng.randrange(256) for _ in range(6000)),
        "random-small": bytes(rng.randrange(256) for _ in range(37)),
        "skewed": bytes(rng.choice(b"aaaaaaabbbcd\n") for _ in range(12000)),
        "bw-section": b"".join(struct.pack("<IIIIIBBH", 0, 0, 12000, 0, 0, 1, 0, 1000) for _ in range(1)) +
                      b"".join(struct.pack("<IIf", i * 12, i * 12 + 7, (i % 17) / 8) for i in range(1000)),
    }
    for nm, d in datas.items():
        for lvl in (0, 1, 6, 9):
            if lvl == 0 and len(d) > 50000: continue
            add("valid:%s:level%d" % (nm, lvl), zlib.compress(d, lvl))
    # more than 65535 incompressible bytes: several stored blocks
    long = bytes(rng.randrange(256) for _ in range(70000))
    add("valid:long-incompressible:level0", zlib.compress(long, 0))
    # multi-block streams: flushes between pieces, mixed levels / strategies
    for strat, sn in ((zlib.Z_DEFAULT_STRATEGY, "default"), (zlib.Z_FIXED, "fixed"), (zlib.Z_HUFFMAN_ONLY, "huffman"), (zlib.Z_RLE, "rle")):
        for lvl in (1, 6, 9):
            c = zlib.compressobj(lvl, zlib.DEFLATED, 15, 8, strat)
            s = b""
            for piece in (datas["text"], datas["random"][:3000], b"", datas["skewed"], datas["run"]):
                s += c.compress(piece) + c.flush(zlib.Z_FULL_FLUSH if lvl == 6 else zlib.Z_SYNC_FLUSH)
            s += c.flush()
            add("valid:multiblock:%s:level%d" % (sn, lvl), s)
    for wb in (9, 10, 12, 15):
        c = zlib.compressobj(6, zlib.DEFLATED, wb)
        add("valid:wbits%d" % wb, c.compress(datas["text"]) + c.flush())
    # ---- malformed variants of real streams
    base = zlib.compress(datas["text"], 6)
    b0 = zlib.compress(datas["random-small"], 0)
    add("bad:adler-last-byte", base[:-1] + bytes([base[-1] ^ 1]))
    add("bad:adler-first-byte", base[:-4] + bytes([base[-4] ^ 0x80]) + base[-3:])
    add("bad:adler-stored", b0[:-1] + bytes([b0[-1] ^ 0xff]))
    for cut in (1, 2, 3, 4, 5, len(base) // 2, len(base) - 3, len(base) - 1):
        add("bad:truncated-to-%d" % cut, base[:cut])
    add("bad:empty-input", b"")
    add("bad:trailing-byte", base + b"\x00")
    add("bad:trailing-stream", base + base)
    add("bad:header-fcheck", bytes([base[0], base[1] ^ 1]) + base[2:])
    add("bad:header-method", zwrap(base[2:-4], datas["text"], cmf=0x77))
    add("bad:header-window", zwrap(base[2:-4], datas["text"], cmf=0x88))
    add("bad:header-fdict", zwrap(base[2:-4], datas["text"], flg=0x20 + (31 - ((0x78 << 8) + 0x20) % 31) % 31))
    add("bad:stored-nlen", b0[:5] + bytes([b0[5] ^ 1]) + b0[6:])
    add("bad:stored-len-too-long", b0[:3] + struct.pack("<HH", 38, 38 ^ 0xffff) + b0[7:])
    add("bad:stored-len-short", b0[:3] + struct.pack("<HH", 36, 36 ^ 0xffff) + b0[7:])
    for i in range(40):       # single bit flips of a real dynamic stream: whatever python says
        pos = rng.randrange(2, len(base) - 4); bit = 1 << rng.randrange(8)
        add("mutated:bitflip", base[:pos] + bytes([base[pos] ^ bit]) + base[pos + 1:])
    small = zlib.compress(b"hello hello hello hello", 9)
    for pos in range(2, len(small) - 4):
        for bit in range(8):
            add("mutated:bitflip-small", small[:pos] + bytes([small[pos] ^ (1 << bit)]) + small[pos + 1:])
    # ---- hand-made deflate streams
    def lit_fixed(w, data):
        for b in data: w.code(*FIXC[b])
    # block type 3
    w = BW(); w.put(1, 1); w.put(3, 2); add("bad:btype3", zwrap(w.bytes(), b""))
    # fixed block: empty, literals, overlapping match, match of 258
    w = BW(); w.put(1, 1); w.put(1, 2); w.code(*FIXC[256]); add("valid:fixed-empty", zwrap(w.bytes(), b""))
    w = BW(); w.put(1, 1); w.put(1, 2); lit_fixed(w, b"ab"); w.code(*FIXC[285]); w.code(1, 5); w.code(*FIXC[256])
    d = bytearray(b"ab")
    for _ in range(258): d.append(d[-2])
    add("valid:fixed-overlap-258", zwrap(w.bytes(), bytes(d)))
    w = BW(); w.put(1, 1); w.put(1, 2); lit_fixed(w, b"a"); w.code(*FIXC[284]); w.put(31, 5); w.code(0, 5); w.code(*FIXC[256])
    add("valid:fixed-len284-extra31", zwrap(w.bytes(), b"a" * 259))
    # distance too far back
    w = BW(); w.put(1, 1); w.put(1, 2); lit_fixed(w, b"ab"); w.code(*FIXC[257]); w.code(2, 5); w.code(*FIXC[256])
    add("bad:distance-too-far", zwrap(w.bytes(), b"ab"))
    w = BW(); w.put(1, 1); w.put(1, 2); w.code(*FIXC[257]); w.code(0, 5); w.code(*FIXC[256])
    add("bad:distance-into-nothing", zwrap(w.bytes(), b""))
    w = BW(); w.put(1, 1); w.put(1, 2); lit_fixed(w, b"abc"); w.code(*FIXC[257]); w.code(2, 5); w.code(*FIXC[256])
    add("valid:distance-exactly-all", zwrap(w.bytes(), b"abcabc"))
    # the largest distance: 32768 literals, then a match of length 3 at distance 32768 (symbol 29, 13 extra bits all set),
    # and the same one byte too early
    far = bytes(rng.randrange(256) for _ in range(32768))
    w = BW(); w.put(1, 1); w.put(1, 2); lit_fixed(w, far); w.code(*FIXC[257]); w.code(29, 5); w.put(8191, 13); w.code(*FIXC[256])
    add("valid:distance-32768", zwrap(w.bytes(), far + far[:3]))
    w = BW(); w.put(1, 1); w.put(1, 2); lit_fixed(w, far[:-1]); w.code(*FIXC[257]); w.code(29, 5); w.put(8191, 13); w.code(*FIXC[256])
    add("bad:distance-32768-of-32767", zwrap(w.bytes(), far[:-1]))
    # invalid symbols of the fixed codes
    for s in (286, 287):
        w = BW(); w.put(1, 1); w.put(1, 2); lit_fixed(w, b"a"); w.code(*FIXC[s]); w.code(*FIXC[256])
        add("bad:fixed-symbol-%d" % s, zwrap(w.bytes(), b"a"))
    for ds in (30, 31):
        w = BW(); w.put(1, 1); w.put(1, 2); lit_fixed(w, b"a" * 40); w.code(*FIXC[257]); w.code(ds, 5); w.code(*FIXC[256])
        add("bad:fixed-distance-symbol-%d" % ds, zwrap(w.bytes(), b"a" * 40))
    # missing end of block (input ends), two blocks non-final then nothing
    w = BW(); w.put(1, 1); w.put(1, 2); lit_fixed(w, b"abc"); add("bad:fixed-no-eob", zwrap(w.bytes(), b"abc"))
    w = BW(); w.put(0, 1); w.put(1, 2); lit_fixed(w, b"abc"); w.code(*FIXC[256]); add("bad:no-final-block", zwrap(w.bytes(), b"abc"))
    # stored + fixed + stored, unaligned stored header
    w = BW(); w.put(0, 1); w.put(1, 2); lit_fixed(w, b"abc"); w.code(*FIXC[256]); w.put(0, 1); w.put(0, 2); w.align()
    w.put(3, 16); w.put(3 ^ 0xffff, 16)
    for b in b"xyz": w.put(b, 8)
    w.put(1, 1); w.put(0, 2); w.align(); w.put(0, 16); w.put(0xffff, 16)
    add("valid:fixed-stored-emptystored", zwrap(w.bytes(), b"abcxyz"))
    # dynamic blocks
    def dyn(kind, ll, dl, body, data, **kw):
        w = BW(); lc, dc = dyn_header(w, 1, ll, dl, **kw); body(w, lc, dc); add(kind, zwrap(w.bytes(), data))
    ll = [0] * 257; ll[ord("a")] = 1; ll[256] = 1
    dyn("valid:dynamic-two-symbols-no-distance-code", ll, [0], lambda w, lc, dc: (w.code(*lc[97]), w.code(*lc[97]), w.code(*lc[256])), b"aa")
    ll = [0] * 257; ll[256] = 1
    dyn("valid:dynamic-incomplete-single-eob", ll, [0], lambda w, lc, dc: w.code(*lc[256]), b"")
    ll = [0] * 257; ll[256] = 2
    dyn("bad:dynamic-incomplete-single-len2", ll, [0], lambda w, lc, dc: w.code(*lc[256]), b"")
    ll = [0] * 257; ll[97] = 2; ll[98] = 2; ll[256] = 2
    dyn("bad:dynamic-incomplete-lit", ll, [0], lambda w, lc, dc: (w.code(*lc[97]), w.code(*lc[256])), b"a")
    ll = [0] * 257; ll[97] = 1; ll[98] = 1; ll[256] = 1
    dyn("bad:dynamic-oversubscribed-lit", ll, [0], lambda w, lc, dc: None, b"")
    ll = [0] * 258; ll[97] = 2; ll[256] = 2; ll[257] = 1
    dyn("valid:dynamic-single-distance-len1", ll, [1], lambda w, lc, dc: (w.code(*lc[97]), w.code(*lc[257]), w.code(*dc[0]), w.code(*lc[256])), b"aaaa")
    dyn("bad:dynamic-unused-distance-code", ll, [1], lambda w, lc, dc: (w.code(*lc[97]), w.code(*lc[257]), w.code(1, 1), w.code(*lc[256])), b"aaaa")
    dyn("bad:dynamic-no-distance-code-but-match", ll, [0], lambda w, lc, dc: (w.code(*lc[97]), w.code(*lc[257]), w.code(0, 1), w.code(*lc[256])), b"aaaa")
    dyn("bad:dynamic-single-distance-len2", ll, [2], lambda w, lc, dc: (w.code(*lc[97]), w.code(*lc[256])), b"a")
    dyn("bad:dynamic-oversubscribed-dist", ll, [1, 1, 1], lambda w, lc, dc: (w.code(*lc[97]), w.code(*lc[256])), b"a")
    dyn("valid:dynamic-two-distances", ll, [1, 1], lambda w, lc, dc: (w.code(*lc[97]), w.code(*lc[257]), w.code(*dc[0]), w.code(*lc[256])), b"aaaa")
    ll = [0] * 257; ll[97] = 1
    dyn("bad:dynamic-missing-eob-length", ll, [0], lambda w, lc, dc: w.code(*lc[97]), b"a")
    # code length code problems
    ll = [0] * 257; ll[97] = 1; ll[256] = 1
    cl = [0] * 19; cl[0] = 1; cl[1] = 1; cl[2] = 1
    dyn("bad:codelens-oversubscribed", ll, [0], lambda w, lc, dc: None, b"", cl_lens=cl, seq=[])
    cl = [0] * 19; cl[0] = 2; cl[1] = 2
    dyn("bad:codelens-incomplete", ll, [0], lambda w, lc, dc: None, b"", cl_lens=cl, seq=[])
    cl = [0] * 19; cl[0] = 1
    dyn("bad:codelens-single-len1", ll, [0], lambda w, lc, dc: None, b"", cl_lens=cl, seq=[])
    cl = [0] * 19
    dyn("bad:codelens-all-zero", ll, [0], lambda w, lc, dc: None, b"", cl_lens=cl, seq=[], hclen=4)
    # repeats
    cl = [0] * 19; cl[0] = 2; cl[1] = 2; cl[16] = 2; cl[18] = 2
    dyn("bad:repeat-without-previous", ll, [0], lambda w, lc, dc: None, b"", cl_lens=cl, seq=[(16, 0)])
    dyn("bad:repeat-past-end", ll, [0], lambda w, lc, dc: None, b"", cl_lens=cl, seq=[(18, 127), (18, 127)])
    seq = [(18, 97 - 11), (1, None), (18, 138 - 11), (18, 256 - 98 - 138 - 11), (1, None), (0, None)]
    dyn("valid:repeat-zeros", ll, [0], lambda w, lc, dc: (w.code(*lc[97]), w.code(*lc[256])), b"a", cl_lens=cl, seq=seq)
    l2 = [0] * 257; l2[0] = l2[1] = l2[2] = l2[3] = l2[4] = l2[5] = l2[6] = 3; l2[256] = 3
    cl = [0] * 19; cl[0] = 2; cl[3] = 2; cl[16] = 2; cl[18] = 2
    seq = [(3, None), (16, 3), (18, 138 - 11), (18, 256 - 7 - 138 - 11), (3, None), (0, None)]
    dyn("valid:repeat-previous", l2, [0], lambda w, lc, dc: (w.code(*lc[5]), w.code(*lc[0]), w.code(*lc[256])), b"\x05\x00", cl_lens=cl, seq=seq)
    # too many symbols
    for nl, nd, nm in ((287, 1, "hlit-287"), (288, 1, "hlit-288"), (257, 31, "hdist-31"), (257, 32, "hdist-32")):
        w = BW(); w.put(1, 1); w.put(2, 2); w.put(nl - 257, 5); w.put(nd - 1, 5); w.put(15, 4)
        for i in range(19): w.put(4 if i < 16 else 0, 3)
        for i in range(nl + nd): w.code(8 if i < 256 else 9, 4)
        add("bad:dynamic-" + nm, zwrap(w.bytes() + b"\x00" * 8, b""))
    # a dynamic block with the full 286/30 alphabets, all lengths 9/5 (incomplete lit code -> refused) and a complete one
    ll = [9] * 286; dl = [5] * 30
    dyn("bad:dynamic-286x9-incomplete", ll, dl, lambda w, lc, dc: w.code(*lc[256]), b"")
    ll = [8] * 226 + [9] * 60; dl = [5] * 28 + [4] * 2
    def body(w, lc, dc):
        for b in b"abcdefgh": w.code(*lc[b])
        w.code(*lc[260]); w.code(*dc[4]); w.put(1, 1)       # length 6, distance 5+1 = 6
        w.code(*lc[256])
    dyn("valid:dynamic-full-alphabets", ll, dl, body, b"abcdefgh" + b"cdefgh")
    return V

def random_vectors(rng, n):
    """(kind, stream): random data shapes x levels x strategies, about half of them mutated"""
    V = []
    for _ in range(n):
        shape = rng.choice(["text", "random", "runs", "skewed", "tiny", "records"])
        size = rng.choice([0, 1, 2, 5, 30, 200, 1000, 4000]) if shape != "tiny" else rng.randrange(0, 8)
        if shape == "text":
            d = b"".join(b"chr%d\t%d\t%d\t%d\n" % (rng.randrange(1, 4), k * 10, k * 10 + rng.randrange(1, 10), rng.randrange(5)) for k in range(size // 16 + 1))[:size]
        elif shape == "random" or shape == "tiny":
            d = bytes(rng.randrange(256) for _ in range(size))
        elif shape == "runs":
            d = b"".join(bytes([rng.randrange(256)]) * rng.randrange(1, 400) for _ in range(size // 100 + 1))[:size]
        elif shape == "skewed":
            d = bytes(rng.choice(b"aaaaaaaabbbbccd\n\x00") for _ in range(size))
        else:
            d = b"".join(struct.pack("<IIf", k * 7, k * 7 + rng.randrange(1, 7), rng.randrange(64) / 8) for k in range(size // 12 + 1))
        lvl = rng.choice([0, 1, 2, 6, 9])
        strat = rng.choice([zlib.Z_DEFAULT_STRATEGY] * 3 + [zlib.Z_FIXED, zlib.Z_HUFFMAN_ONLY, zlib.Z_RLE, zlib.Z_FILTERED])
        c = zlib.compressobj(lvl, zlib.DEFLATED, rng.choice([15, 15, 12, 9]), rng.choice([8, 1, 9]), strat)
        s = b""
        cuts = sorted(rng.randrange(len(d) + 1) for _ in range(rng.choice([0, 0, 1, 3])))
        prev = 0
        for cpos in cuts:
            s += c.compress(d[prev:cpos]) + c.flush(rng.choice([zlib.Z_SYNC_FLUSH, zlib.Z_FULL_FLUSH])); prev = cpos
        s += c.compress(d[prev:]) + c.flush()
        kind = "random:%s:level%d" % (shape, lvl)
        m = rng.randrange(8)
        if m == 0 and len(s) > 6:
            pos = rng.randrange(2, len(s)); s = s[:pos] + bytes([s[pos] ^ (1 << rng.randrange(8))]) + s[pos + 1:]; kind += ":bitflip"
        elif m == 1:
            s = s[:rng.randrange(len(s))]; kind += ":truncated"
        elif m == 2:
            s = s + bytes([rng.randrange(256)]); kind += ":trailing"
        elif m == 3 and len(s) > 6:
            pos = rng.randrange(2, len(s) - 4); s = s[:pos] + bytes([rng.randrange(256)]) + s[pos + 1:]; kind += ":bytechange"
        V.append((kind, s))
    return V

def load_corpus(path):
    """[(name, verdict, outlen, adler, stream)]"""
    res = []
    for line in open(path):
        line = line.strip()
        if not line or line.startswith("#"): continue
        kind, ok, n, a, hx = line.split()
        res.append((kind, int(ok), int(n), int(a), bytes.fromhex("" if hx == "-" else hx)))
    return res

if __name__ == "__main__":
    print("# test vectors for Spec/Inflate.v, written by tools/vlib/props/C09_zlibvec.py; one vector per line:")
    print("# <name> <verdict of Python zlib when written: 1 one complete stream, 0 refused> <length and Adler-32 of the output> <stream, hex>")
    for k, (kind, s) in enumerate(vectors()):
        ok, out = py_verdict(s)
        print("%s %d %d %d %s" % (kind, ok, len(out), zlib.adler32(out), s.hex() or "-"))

