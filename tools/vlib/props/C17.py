from ..runner import Prop
from .. import bbigen, core
from ..core import sx, parse_sx

EXTRA_WORDS = [b"r1", b"geneA", b"x y", b"7", b"+", b".", b"0", b"name_with_underscore", b"a:b-c", b"q", b"\xc3\xa9", b"Z z z"]

class C17(Prop):
    ID = "C17"
    NEED_BINS = True
    PER_CASE_TIMEOUT = 90.0
    THEOREMS = ["C17_stats", "C17_sum_exact", "C17_minmax", "C17_rows_in_order", "C17_chunked_eq_serial", "C17_chunking_irrelevant",
                "C17_name", "C17_values_over_bed", "C17_values_over_bed_last", "C17_stats_per_base", "C17_values_rows_in_order",
                # the IEEE sum is the exact sum on a checkable domain (Proofs/FloatExact.v, FloatExactStats.v)
                "C17_sum_ieee_on_grid", "C17_sum_ieee_in_domain",
                # the file bytes as the subject: C01_query_on_input composed with the statistics (Proofs/BedStatsFile.v)
                "C17_stats_file", "C17_bases_file", "C17_stats_per_base_file", "C17_values_file", "C17_line_file"]
    RULE = ("a bigWig from the C01 generator (1-6 chromosomes, layouts dense/sparse/adjacent/zero-length/edge/long gap/long item, all "
            "writer options) with values that are small multiples of 1/8 (exact stream, 80%) or arbitrary finite f32 patterns (20%: "
            "sum/means compared with the model only, not with the oracle); a BED file of 0..300 regions whose ends are drawn from the "
            "value boundaries +-1, 0, the chromosome length and beyond it: inside one value, straddling values and gaps, between values, "
            "outside the data, past the chromosome end, zero-length regions inside / on the edge of / outside values, whole chromosome; "
            "3..6 columns, \\n / \\r\\n / missing final newline / trailing blanks; name modes interval, none, column 1..6, option absent; "
            "--min-max on/off; the tool is run with thread counts from 1..16 (quick: 1, 2 and three more; thorough: all sixteen) on files "
            "with many more rows than threads and with fewer (0, 1, 2, 3 rows); bigwigvaluesoverbed with and without -n (10 distinct "
            "names / fewer / duplicates) and delimiter tab or comma. Separate streams, outside the property: regions on absent "
            "chromosomes (oracle: no panic, no hang), malformed lines, start > end, name column beyond the columns (model comparison "
            "only). non-trivial = a valid stream with at least one region; distinct = distinct case text")
    CORRESPONDENCE = ("Model/BedStats.v over Model/BBIRead.v on the modelled file bytes = items of bigwig_average_over_bed, results of "
                      "name_for_bed_item / stats_for_bed_item on a caching reader (f64 bit patterns), the bytes of the file written by the "
                      "bigwigaverageoverbed binary for every thread count, the rows of the bigwigvaluesoverbed binary parsed back into f32 bit patterns")
    TRUSTED = ["the harness parses the valuesoverbed output back into f32 bit patterns (f32 Display round-trips; each cell is re-rendered "
               "and compared with its text) and canonicalises NaN sign/payload",
               "core::fmt of f64 with {:.3} is modelled as exact decimal rounding, ties to even (Model/BedStats.v fmt3); tied by the tool cases",
               "split_file_into_chunks_by_size / FileView deliver a chunking that cuts at line starts (C18); the executable model of -t > 1 "
               "uses one chunk, justified by C17_chunked_eq_serial"]
    ASSUMPTIONS = ["ASCII white space only (Unicode White_Space and invalid UTF-8 in the BED file are not modelled)",
                   "f32 -0.0 is not generated (sign of zero not modelled)",
                   "debug-profile overflow panics (start > end), as the harness and the CLI binaries of the check are built",
                   "oracle tolerance: a stored zero-length value inside the region may or may not count for min/max; either direction is "
                   "accepted for a printed third decimal that is an exact tie; uncovered bases of valuesoverbed may read 0 or NaN"]

    def impl_outputs(self, lines):
        env = dict(core.ENV, C17_BINS=core.BINS_DIR)
        return core.run_impl(self.HARNESS or self.ID, lines, per_case_timeout=self.PER_CASE_TIMEOUT, env=env)

    # ------------------------------------------------------------------ pieces
    def bigwig(self, rng, tier, exact):
        text, tags = bbigen.bw_case(rng, tier, kind=rng.choice([0, 0, 0, 1]), fmode="nice" if exact else rng.choice(["any", "mixed"]),
                                    extra_queries=False, style=rng.choice([None, None, "dense", "sparse", "zero", "mixed"]))
        c = parse_sx(text)
        c[4] = []
        per = {}
        for it in c[3]:
            per.setdefault(bytes(it[0]), []).append((it[1], it[2]))
        sizes = {bytes(s[0]): s[1] for s in c[2]}
        return c, per, sizes, tags

    def region(self, rng, items, length, cap):
        """(s, e, kind) with s <= e"""
        pts = sorted(set([0, length, length + 5] + [p + d for it in items for p in it for d in (-1, 0, 1) if p + d >= 0]))
        kind = rng.choice(["points", "points", "inside", "between", "outside", "zero", "whole", "exactval", "past-end"])
        if kind == "inside":
            cand = [it for it in items if it[1] - it[0] >= 1]
            if cand:
                a, b = rng.choice(cand); s = rng.randint(a, b); e = rng.randint(s, b)
            else:
                kind = "points"
        if kind == "between":
            gaps = [(items[i][1], items[i + 1][0]) for i in range(len(items) - 1) if items[i + 1][0] > items[i][1]]
            if gaps:
                a, b = rng.choice(gaps); s = rng.randint(a, b); e = rng.randint(s, b)
            else:
                kind = "points"
        if kind == "outside":
            last = items[-1][1]
            if rng.random() < 0.5 and items[0][0] > 0:
                s = rng.randint(0, items[0][0]); e = rng.randint(s, items[0][0])
            else:
                s = last + rng.choice([0, 1, 3]); e = s + rng.choice([0, 1, 10])
        if kind == "zero":
            s = e = rng.choice(pts)
        if kind == "whole":
            s, e = 0, length
        if kind == "exactval":
            s, e = rng.choice(items)
        if kind == "past-end":
            s = rng.choice([max(0, length - 2), length, length + 1]); e = s + rng.choice([1, 4])
        if kind == "points":
            s = rng.choice(pts); e = rng.choice(pts)
            if s > e: s, e = e, s
        if e - s > cap:
            e = s + cap; kind += "-capped"
        return s, e, kind

    def regions(self, rng, per, sizes, n, ncols, cap=400):
        regs = []; kinds = {}
        names = sorted(per)
        uniq = rng.random() < 0.6
        for i in range(n):
            ch = rng.choice(names)
            s, e, kind = self.region(rng, per[ch], sizes[ch], cap)
            kinds[kind] = kinds.get(kind, 0) + 1
            extra = []
            for j in range(ncols - 3):
                w = rng.choice(EXTRA_WORDS)
                if j == 0 and uniq:
                    w = b"n%d" % i
                extra.append(w)
            if extra and rng.random() < 0.1 and len(extra) > 1:
                extra[0] = b""                     # an empty middle field
            regs.append([ch, s, e, extra])
        return regs, kinds

    def render(self, rng, regs, eol=None, final_nl=None, trail=None):
        eol = eol if eol is not None else rng.choice([b"\n", b"\n", b"\n", b"\r\n"])
        final_nl = final_nl if final_nl is not None else rng.random() < 0.85
        trail = trail if trail is not None else rng.random() < 0.1
        out = b""
        for i, (ch, s, e, extra) in enumerate(regs):
            line = b"\t".join([bytes(ch), b"%d" % s, b"%d" % e] + list(extra))
            if trail and rng.random() < 0.5:
                line += rng.choice([b" ", b"  ", b"\t", b" \t "])
            last = i == len(regs) - 1
            out += line + (eol if (not last or final_nl) else b"")
        return out

    def mode(self, rng, ncols):
        r = rng.random()
        if r < 0.2: return [0], "name=interval"
        if r < 0.4: return [1], "name=none"
        if r < 0.55: return [3], "name=default"
        n = rng.randrange(0, max(1, ncols))
        if rng.random() < 0.07: n = ncols + rng.choice([0, 1])
        return [2, n], "name=column"

    def threads(self, rng, tier):
        if tier == "quick":
            return [1, 2] + sorted(rng.sample(range(3, 17), 3))
        return list(range(1, 17))

    def nrows(self, rng, big):
        if big:
            return rng.choice([40, 80, 150, 300, 300, 1200])      # 1200 rows: a chunk of the BED file longer than BufReader's 8 KiB
        return rng.choice([0, 1, 1, 2, 3, 5, 8, 12, 20])

    def valid_case(self, rng, tier, k):
        exact = rng.random() < 0.8
        bw, per, sizes, tags = self.bigwig(rng, tier, exact)
        ncols = rng.choice([3, 4, 4, 5, 6])
        if k == 2:
            withnames = rng.random() < 0.6
            n = rng.choice([0, 1, 3, 9, 10, 11, 25]) if withnames else self.nrows(rng, False)
            if withnames: ncols = max(ncols, 4)
            regs, kinds = self.regions(rng, per, sizes, n, ncols, cap=200)
            if withnames and rng.random() < 0.3 and len(regs) >= 2:
                regs[1][3][0] = regs[0][3][0]          # a duplicate among the first ten names
            bed = self.render(rng, regs)
            delim = rng.choice([b"\t", b"\t", b","])
            if delim == b",":
                regs = [[r[0], r[1], r[2], [f.replace(b",", b";") for f in r[3]]] for r in regs]
                bed = self.render(rng, regs)
            tags = ["values-tool", "names=%d" % withnames, "rows~%d" % min(n, 10), "delim=%s" % ("tab" if delim == b"\t" else "comma")]
            return sx([2, bw, bed, [0], withnames, [], delim, regs, exact]), tags + ["exact=%d" % exact]
        big = (k == 1 and rng.random() < 0.45)
        n = self.nrows(rng, big)
        regs, kinds = self.regions(rng, per, sizes, n, ncols, cap=120 if big else 1500)
        bed = self.render(rng, regs)
        mode, mtag = self.mode(rng, ncols)
        minmax = rng.random() < 0.6
        ts = self.threads(rng, tier) if k == 1 else []
        tags = [("library" if k == 0 else "avg-tool"), mtag, "minmax=%d" % minmax, "exact=%d" % exact, "cols=%d" % ncols,
                "rows=" + ("0" if n == 0 else "1-3" if n <= 3 else "4-20" if n <= 20 else ">=40")]
        tags += ["region:" + kd for kd in kinds]
        if k == 1:
            tags.append("threads>rows" if n < max(ts) else "rows>threads")
        return sx([k, bw, bed, mode, minmax, ts, b"\t", regs, exact]), tags

    def invalid_case(self, rng, tier, k):
        """k = 3 / 5: absent chromosomes only; 4, 6, 7: anything"""
        bw, per, sizes, _ = self.bigwig(rng, tier, True)
        ncols = rng.choice([3, 4, 5])
        n = rng.choice([1, 2, 4, 10, 40])
        regs, _ = self.regions(rng, per, sizes, n, ncols, cap=100)
        lines = [b"\t".join([bytes(r[0]), b"%d" % r[1], b"%d" % r[2]] + r[3]) for r in regs]
        tags = [{3: "avg-tool", 4: "values-tool", 5: "library", 6: "avg-tool", 7: "library"}[k]]
        nbad = rng.choice([1, 1, 2, 5])
        for _ in range(nbad):
            pos = rng.randrange(len(lines) + 1)
            if k in (3, 5):
                bad = b"\t".join([rng.choice([b"chrNope", b"chr", b"CHR1", b""]) or b"nochrom", b"%d" % rng.randint(0, 50), b"%d" % rng.randint(50, 90)] + [b"x"] * (ncols - 3))
                kind = "absent-chrom"
            else:
                ch = bytes(rng.choice(sorted(per)))
                kind = rng.choice(["absent-chrom", "one-col", "two-cols", "non-numeric", "negative", "plus-sign", "leading-zeros", "overflow",
                                   "empty-line", "blank-line", "leading-space", "start>end", "float", "no-tabs"])
                bad = {
                    "absent-chrom": b"chrNope\t1\t5\tx", "one-col": ch, "two-cols": ch + b"\t5", "non-numeric": ch + b"\tfive\t9\tx",
                    "negative": ch + b"\t-1\t9\tx", "plus-sign": ch + b"\t+2\t+9\tx", "leading-zeros": ch + b"\t002\t009\tx",
                    "overflow": ch + b"\t1\t4294967296\tx", "empty-line": b"", "blank-line": b"  \t ", "leading-space": b" " + ch + b"\t1\t5\tx",
                    "start>end": ch + b"\t%d\t%d\tx" % (rng.randint(5, 30), rng.randint(0, 4)), "float": ch + b"\t1.0\t5\tx", "no-tabs": ch + b" 1 5",
                }[kind]
            tags.append("bad:" + kind)
            lines.insert(pos, bad)
        bed = b"\n".join(lines) + (b"\n" if rng.random() < 0.9 else b"")
        if k in (6, 7) and rng.random() < 0.25:
            mode, mtag = [2, ncols + rng.choice([0, 1, 5])], "name=column-beyond"
        else:
            mode, mtag = self.mode(rng, ncols)
        tags.append(mtag)
        flag = rng.random() < 0.5
        ts = [1, 2, rng.randint(3, 16)] if k in (3, 6) else []
        return sx([k, bw, bed, mode, flag, ts, b"\t", [], 1]), tags + ["outside-property"]

    def gen(self, rng, tier):
        quick = tier == "quick"
        for _ in range(170 if quick else 6000):
            yield self.valid_case(rng, tier, 0)
        for _ in range(70 if quick else 1500):
            yield self.valid_case(rng, tier, 1)
        for _ in range(50 if quick else 1500):
            yield self.valid_case(rng, tier, 2)
        for k, nq, nt in ((3, 20, 300), (5, 20, 400), (4, 15, 300), (6, 25, 400), (7, 30, 600)):
            for _ in range(nq if quick else nt):
                yield self.invalid_case(rng, tier, k)

    def nontrivial(self, case, tags):
        return "outside-property" not in tags and "rows=0" not in tags

    # ------------------------------------------------------------------ shrinking
    def shrink_candidates(self, case_text):
        c = parse_sx(case_text)
        k, bw, bed, mode, flag, ts, delim, regs, exact = c
        out = []
        if k in (0, 1, 2) and regs:
            for i in range(len(regs)):
                rr = regs[:i] + regs[i + 1:]
                nb = b"".join(b"\t".join([bytes(r[0]), b"%d" % r[1], b"%d" % r[2]] + [bytes(f) for f in r[3]]) + b"\n" for r in rr)
                out.append([k, bw, nb, mode, flag, ts, bytes(delim), rr, exact])
        if len(ts) > 1:
            for i in range(len(ts)):
                out.append([k, bw, bytes(bed), mode, flag, ts[:i] + ts[i + 1:], bytes(delim), regs, exact])
        items = bw[3]
        for i in range(len(items)):
            if len(items) > 1:
                nbw = [bw[0], bw[1], bw[2], items[:i] + items[i + 1:], []]
                out.append([k, nbw, bytes(bed), mode, flag, ts, bytes(delim), regs, exact])
        return [sx(x) for x in out]

PROP = C17()
