import os, struct
from ..runner import Prop
from .. import core
from ..core import sx, parse_sx

W = 50000                      # DATA_SIZE in merge.rs (the model takes it from Generated/Consts.v)
VALS = [8, -8, 4, 12, 1, -1, 20, -20, 0, 16, -12, 100]     # eighths: 1.0, -1.0, 0.5, ...

def f32bits(x):
    return struct.unpack("<I", struct.pack("<f", x))[0]

class C15(Prop):
    ID = "C15"
    NEED_BINS = True
    PER_CASE_TIMEOUT = 120.0
    MODEL_TIMEOUT = 600.0      # the extracted model walks 976+ streams base by base on the chunked-path cases
    THEOREMS = ["C15_merge_into", "C15_merge_into_no_overlap", "C15_merge_many", "C15_merge_many_code_window", "C15_fill", "C15_fill_start_to_end",
                "C15_fill_signal", "C15_tool_pipeline", "C15_tool_chunked", "C15_tool_run", "C15_outputs_agree", "C15_output_names", "C15_constants_from_source",
                # the tool on written files: C01's whole-file theorem composed with C15_tool_run (Proofs/MergeToolFile.v)
                "C15_file_view", "C15_tool_inputs_of_files", "C15_tool_files", "C15_tool_files_sizes_agree",
                # the transport of values between harness and model loses nothing (Proofs/EighthsCodec.v)
                "C15_value_codec_roundtrip"]
    RULE = ("library cases: merge_into over all 13 interval relations x zero/non-zero values (thorough: every pair with ends <= 4 "
            "x 16 value pairs, both orders, non-overlapping included); merge_sections_many on 1..5 streams whose breakpoints are drawn "
            "around bases 0, W-1, W, W+1, 2W-1, 2W, 2W+1, 3W (W = 50000) and at random, with values crossing one or several windows, "
            "cancelling copies, explicit zeros, empty and early-ending streams, 3..5 streams over the same bases holding 2^24 and +-1/+-2 (exact sum fits f32, a running f32 sum would not), and a small share of malformed streams (error items, "
            "unsorted/overlapping/empty values); fill / fill_start_to_end on sorted lists with raw f32 bit patterns, error items and "
            "out-of-contract start/end; tool cases: the built bedgraphtobigwig/bigwigmerge/bigwigtobedgraph binaries on 1..4 inputs "
            "(plus runs with 977..980 inputs for the chunked path) x 1..3 chromosomes (some missing from some inputs, sizes around the "
            "window) x threshold/adjust/clip x output names/--output-type; non-trivial = at least one value; distinct = distinct case text")
    CORRESPONDENCE = ("output of Model/Merge.v, Fill.v, MergeTool.v = merge_into / merge_sections_many / fill / fill_start_to_end on in-memory "
                      "iterators (f32 bit patterns) and the rows written by the bigwigmerge binary (bedGraph text; bigWig read back)")
    TRUSTED = ["bedgraphtobigwig and bigwigtobedgraph binaries used to make inputs / read bigWig outputs back (C01/C16 territory)",
               "f32 <-> eighths conversion in Model/Entry_C15.v and the harness (exact range only)",
               "MAX_BW_FDS and the output-name suffixes come from Generated/Consts.v (translator) and are tied to the model by C15_constants_from_source"]
    ASSUMPTIONS = ["values are multiples of 1/8 small enough that every f32/f64 intermediate is exact (DESIGN 3.2); the magnitude cases use 2^24 and +-1, +-2 with per-base sums that are exact in f64 and representable in f32",
                   "positions stay far below 2^32 (u32 overflow of next_start is not modelled)",
                   "debug-profile panics (overflow checks on), as built by the harness"]

    def impl_outputs(self, lines):
        env = dict(core.ENV, C15_BINS=core.BINS_DIR)
        return core.run_impl(self.HARNESS or self.ID, lines, per_case_timeout=self.PER_CASE_TIMEOUT, env=env)

    # ------------------------------------------------------------------ generators
    def anchors(self, rng, nwin):
        pts = set()
        base = [0, W - 1, W, W + 1, 2 * W - 1, 2 * W, 2 * W + 1, 3 * W][: 2 + 3 * nwin]
        for b in base:
            if rng.random() < 0.7:
                for _ in range(rng.randint(1, 4)):
                    pts.add(max(0, b + rng.randint(-3, 3)))
        for _ in range(rng.randint(0, 6)):
            pts.add(rng.randrange(0, (nwin + 1) * W))
        for _ in range(rng.randint(0, 6)):
            pts.add(rng.randrange(0, 40))
        return sorted(pts)

    def stream(self, rng, pts, density, zeros):
        """sorted disjoint values whose ends are consecutive chosen breakpoints"""
        vs = []
        i = 0
        while i + 1 < len(pts):
            j = i + 1
            if rng.random() < 0.25:
                j = min(len(pts) - 1, i + rng.randint(1, 5))      # a long value over several breakpoints / windows
            if pts[j] > pts[i] and rng.random() < density:
                v = rng.choice(VALS)
                if v == 0 and not zeros:
                    v = 8
                vs.append([pts[i], pts[j], v])
            i = j
        return vs

    def merge_many_case(self, rng):
        k = rng.choice([1, 2, 2, 3, 3, 4, 5])
        nwin = rng.choice([0, 1, 1, 2, 2, 3])
        tags = ["merge_many", f"k={k}", f"windows~{nwin + 1}"]
        streams = []
        shared = self.anchors(rng, nwin)
        for s in range(k):
            mode = rng.random()
            if mode < 0.08:
                streams.append([]); tags.append("empty-stream"); continue
            pts = shared if rng.random() < 0.6 else self.anchors(rng, nwin)
            if rng.random() < 0.25:                                # a much shorter stream
                pts = [p for p in pts if p < rng.choice([20, W - 1, W + 2])]; tags.append("short-stream")
            vs = self.stream(rng, pts, rng.choice([0.4, 0.7, 1.0]), zeros=rng.random() < 0.5)
            if streams and rng.random() < 0.3 and streams[rng.randrange(len(streams))]:
                src = streams[rng.randrange(len(streams))]          # cancelling copy of an earlier stream
                vs = [[a, b, -v] for (a, b, v) in src if rng.random() < 0.8]; tags.append("cancelling")
            streams.append(vs)
        if any(v[2] == 0 for st in streams for v in st): tags.append("explicit-zero")
        if any(v[0] == 0 for st in streams for v in st): tags.append("base0")
        if any(v[0] // W != (v[1] - 1) // W for st in streams for v in st): tags.append("crosses-window")
        if any(v[1] % W == 0 or v[0] % W == 0 and v[0] > 0 for st in streams for v in st): tags.append("on-window-edge")
        items = [[[0, a, b, v] for (a, b, v) in st] for st in streams]
        r = rng.random()
        if r < 0.04 and any(items):
            st = rng.choice([x for x in items if x]); st.insert(rng.randrange(len(st) + 1), [1, rng.randint(1, 9)]); tags.append("error-item")
        elif r < 0.07 and any(len(x) >= 2 for x in items):
            st = rng.choice([x for x in items if len(x) >= 2]); i = rng.randrange(len(st) - 1)
            st[i], st[i + 1] = st[i + 1], st[i]; tags.append("unsorted")
        elif r < 0.09 and any(items):
            st = rng.choice([x for x in items if x]); i = rng.randrange(len(st))
            st[i] = [0, st[i][1], st[i][1], st[i][3]]; tags.append("empty-value")
        elif r < 0.11 and any(items):
            st = rng.choice([x for x in items if x]); i = rng.randrange(len(st))
            st.insert(i, [0, st[i][1], st[i][2] + rng.choice([0, 1, W]), 8]); tags.append("overlapping")
        return sx([1, items]), tags

    def magnitude_case(self, rng):
        """three or more streams over the same bases whose values differ by more than 2^24: the per-base sum
        is exact in f64 and fits an f32, but a running sum kept in f32 loses the small addends on the way"""
        B = 2 ** 27                                  # 2^24 in eighths
        pattern = rng.choice([[B, 8, 8], [8, B, 8], [B, 8, 8, 8, 8], [B, 8, -B], [B, 8, 8, -B], [-B, -8, B],
                              [-B, -8, -8], [B, 8, 8, 16], [B, -B, 8], [8, 8, B]])
        nwin = rng.choice([0, 1, 2])
        pts = self.anchors(rng, nwin)
        if len(pts) < 2: pts = [0, 7]
        vs = []
        i = 0
        while i + 1 < len(pts):
            if pts[i + 1] > pts[i] and (rng.random() < 0.7 or not vs):
                vs.append((pts[i], pts[i + 1]))
            i += 1
        if not vs: vs = [(3, 9)]
        items = [[[0, a, b, v] for (a, b) in vs] for v in pattern]
        return sx([1, items]), ["merge_many", f"k={len(pattern)}", f"windows~{nwin + 1}", "magnitudes>2^24"]

    def fill_case(self, rng):
        bounded = rng.random() < 0.6
        n = rng.choice([0, 1, 2, 3, 5, 8])
        pos = rng.choice([0, 0, 1, 5, 100])
        first = pos
        vs = []
        for _ in range(n):
            pos += rng.choice([0, 0, 1, 3, 50, W])
            ln = rng.choice([1, 2, 10, W + 1])
            bits = rng.choice([0, 0x80000000, f32bits(1.0), f32bits(-2.5), 0x7FC00000, 0x00000001, 0x7F800000, rng.getrandbits(32)])
            vs.append([0, pos, pos + ln, bits]); pos += ln
        tags = ["fill_start_to_end" if bounded else "fill", f"n={n}"]
        if rng.random() < 0.1 and vs:
            vs.insert(rng.randrange(len(vs) + 1), [1, rng.randint(1, 9)]); tags.append("error-item")
        if not bounded:
            return sx([2, vs]), tags
        start = rng.choice([0, first, first, max(0, first - 1), max(0, first - 3), first + 1, pos + 2]) if n else rng.choice([0, 5])
        end = rng.choice([pos, pos, pos + 1, pos + 1, pos + 7, pos + W, max(0, pos - 1), start, start + 1])
        if vs and vs[0][0] == 0 and start > vs[0][1]: tags.append("start-after-first")
        if end < pos: tags.append("end-before-last")
        if end == pos + 1: tags.append("one-base-tail")
        return sx([3, vs, start, end]), tags

    def merge_into_cases(self, rng, tier):
        if tier == "quick":
            for _ in range(70):
                s1 = rng.randint(0, 4); e1 = s1 + rng.randint(1, 4); s2 = rng.randint(0, 4); e2 = s2 + rng.randint(1, 4)
                off = rng.choice([0, 0, W - 2])
                yield sx([0, [s1 + off, e1 + off, rng.choice([0, 8, -8, 12])], [s2 + off, e2 + off, rng.choice([0, 8, -8, 20])]]), ["merge_into"]
        else:
            for s1 in range(0, 4):
                for e1 in range(s1 + 1, 5):
                    for s2 in range(0, 4):
                        for e2 in range(s2 + 1, 5):
                            for x1 in (0, 8, -8, 12):
                                for x2 in (0, 8, -8, 20):
                                    yield sx([0, [s1, e1, x1], [s2, e2, x2]]), ["merge_into"]
            for _ in range(100):      # out of contract: empty or inverted values
                yield sx([0, [rng.randint(0, 4), rng.randint(0, 4), 8], [rng.randint(0, 4), rng.randint(0, 4), 8]]), ["merge_into", "any-values"]

    def tool_case(self, rng, big=False):
        names = rng.sample([b"chr1", b"chr10", b"chr2", b"chrX", b"a", b"Z", b"chr1_random"], rng.randint(1, 2 if big else 3))
        # the 976+-input cases aim at the chunked path, not at the windows: short chromosomes keep the base-by-base model cheap
        sizes = {n: rng.choice([1000, 1000, 3000, W + 1] if big else [1000, W + 1, 2 * W, 2 * W + 20000]) for n in names}
        nfiles = rng.choice([1, 2, 2, 3, 4])
        tags = ["tool", f"files={nfiles}", f"chroms={len(names)}"]
        files = []
        for fi in range(nfiles):
            mine = [n for n in sorted(names) if rng.random() < 0.75] or [sorted(names)[0]]
            if len(mine) < len(names): tags.append("chrom-missing-in-a-file")
            chroms = []
            for n in mine:
                size = sizes[n]
                pts = sorted(set([p for p in self.anchors(rng, min(2, size // W)) if p <= size] + ([size] if rng.random() < 0.5 else []) + ([0] if rng.random() < 0.6 else [])))
                vs = self.stream(rng, pts, rng.choice([0.5, 0.9]), zeros=rng.random() < 0.3)
                if files and rng.random() < 0.25:
                    prev = [c for f in files for c in f[1] if c[0] == n]
                    if prev:
                        vs = [[a, b, -v] for (a, b, v) in prev[0][2]]; tags.append("cancelling")
                if not vs:
                    vs = [[0, min(10, size), 8]]
                if rng.random() < 0.03:
                    size = size + 1; tags.append("size-mismatch")
                chroms.append([n, size, vs])
            rep = 1
            files.append([rep, chroms])
        if big:
            files[0][0] = rng.choice([976, 977, 980]) - (nfiles - 1); tags.append("inputs>=976")
        thr = rng.choice([0, 0, 0, 8, -16, 4, -1000])
        adj = rng.choice([[], [], [4], [-8], [20]])
        clip = rng.choice([[], [], [12], [8], [-4], [0]])
        tags.append("thr=%s adj=%s clip=%s" % ("default" if thr == 0 else "set", "set" if adj else "none", "set" if clip else "none"))
        allouts = [[b"out.bw", []], [b"out.bigWig", []], [b"out.bedGraph", []], [b"out.txt", [b"bedgraph"]], [b"out.dat", [b"BigWig"]],
                   [b"out.BW", []], [b"x.BEDGRAPH", []], [b"noext", []], [b"out.txt", [b"wiggle"]], [b"a.bedGraph.bw", []], [b"out.bw", [b"BedGraph"]]]
        outs = [rng.choice(allouts[:3]), rng.choice(allouts)] if big else rng.sample(allouts[:4], 2) + [rng.choice(allouts)]
        if any(v[0] == 0 for f in files for c in f[1] for v in c[2]): tags.append("base0")
        return sx([4, files, [thr, adj, clip], outs]), tags

    def gen(self, rng, tier):
        quick = tier == "quick"
        yield from self.merge_into_cases(rng, tier)
        for _ in range(330 if quick else 7500):
            yield self.merge_many_case(rng)
        for _ in range(24 if quick else 200):
            yield self.magnitude_case(rng)
        for _ in range(110 if quick else 1500):
            yield self.fill_case(rng)
        for i in range(30 if quick else 300):
            yield self.tool_case(rng, big=(i % (30 if quick else 50) == 7))
        # more inputs than the descriptor budget, merged in chunks (976 + the rest): a chunk whose partial sum
        # lies at or below the threshold while the total lies above it (clip/adjust/threshold belong to the total)
        outs = [[b"out.bedGraph", []], [b"out.bw", []]]
        for (v0, rest, thr) in ((1, [[5, 15, 1]], 8), (8, [[0, 10, -32]], 0), (8, [[0, 10, -32], [20, 30, 4]], 4)) if quick else \
                               ((1, [[5, 15, 1]], 8), (8, [[0, 10, -32]], 0), (8, [[0, 10, -32], [20, 30, 4]], 4), (2, [[0, 4, 2]], 8), (8, [[3, 9, -24]], -16)):
            files = [[979, [[b"chr1", 1000, [[0, 10, v0]]]]], [1, [[b"chr1", 1000, rest]]]]
            yield sx([4, files, [thr, [], []], outs]), ["tool", "inputs>=976", "chunk-partial-below-threshold"]

    def nontrivial(self, case, tags):
        return "(0 " in case

    # ------------------------------------------------------------------ shrinking
    def shrink_candidates(self, case_text):
        c = parse_sx(case_text)
        tag = c[0]
        out = []
        if tag == 1:
            st = c[1]
            for i in range(len(st)):
                if len(st) > 1: out.append([1, st[:i] + st[i + 1:]])
                for j in range(len(st[i])):
                    out.append([1, st[:i] + [st[i][:j] + st[i][j + 1:]] + st[i + 1:]])
        elif tag in (2, 3):
            for j in range(len(c[1])):
                out.append([tag, c[1][:j] + c[1][j + 1:]] + c[2:])
        elif tag == 4:
            files, settings, outs = c[1], c[2], c[3]
            for i in range(len(outs)):
                if len(outs) > 1: out.append([4, files, settings, outs[:i] + outs[i + 1:]])
            for i in range(len(files)):
                if len(files) > 1: out.append([4, files[:i] + files[i + 1:], settings, outs])
                if files[i][0] > 1:
                    out.append([4, files[:i] + [[1, files[i][1]]] + files[i + 1:], settings, outs])
                chroms = files[i][1]
                for j in range(len(chroms)):
                    if len(chroms) > 1:
                        out.append([4, files[:i] + [[files[i][0], chroms[:j] + chroms[j + 1:]]] + files[i + 1:], settings, outs])
                    vs = chroms[j][2]
                    for k in range(len(vs)):
                        if len(vs) > 1:
                            nc = [chroms[j][0], chroms[j][1], vs[:k] + vs[k + 1:]]
                            out.append([4, files[:i] + [[files[i][0], chroms[:j] + [nc] + chroms[j + 1:]]] + files[i + 1:], settings, outs])
            if settings != [0, [], []]:
                out.append([4, files, [0, [], []], outs])
        return [sx(x) for x in out]

PROP = C15()
