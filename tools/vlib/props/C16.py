"""C16 -- command-line conversions round-trip records (bedGraph -> bigWig -> bedGraph, BED -> bigBed -> BED).

Case formats (Model/Entry_C16.v; kinds 0,1,2,5,6 run in harness/src/bin/c16.rs, kinds 3,4 run the BUILT BINARIES here):
  (0 argv)                                compat_args on a complete argv
  (1 0 line () expect) (1 1 line table expect)   parse_bed / parse_bedgraph on one raw line
  (2 text)                                line segmentation (read_line + trim_end)
  (5 n) (6 text)                          u32 Display / FromStr
  (3 sizes_text input_text table wopts ropts)    bedGraph pipeline -> (w) | (0 chroms compressed r ((chrom start end bits) ...))
  (4 sizes_text input_text wopts ropts)          BED pipeline      -> (w) | (0 chroms compressed r output_bytes)
    wopts = (t parallel single_pass inmemory uncompressed block_size items_per_slot zooms nzooms style via as_mode stdin)
    ropts = (t inmemory chrom start end style via)
    parallel 0 auto 1 yes 2 no; style 0 native 1 UCSC spellings; via 0 the tool's own binary, 1 `bigtools <tool>`,
    2 `bigtools <CamelCaseTool>`, 3 a symlink with the UCSC CamelCase name; as_mode 0 none, 1 --autosql <file>, 2 -as=<dir>/my-as.as;
    stdin 0 the input is a file, 1/2/3 it is piped in and named `-` / `stdin` / `/dev/stdin`
    exit classes: 0 ok, 1 error exit, 2 panic/abort, 3 timeout
"""
import os, re, shutil, subprocess, tempfile
from fractions import Fraction
from concurrent.futures import ThreadPoolExecutor
from ..runner import Prop
from .. import core
from ..core import sx, parse_sx

TOOL_TIMEOUT = 30.0
CAMEL = {"bedgraphtobigwig": "bedGraphToBigWig", "bedtobigbed": "bedToBigBed",
         "bigwigtobedgraph": "bigWigToBedGraph", "bigbedtobed": "bigBedToBed"}
VALUE_TEXTS = ["1", "0.5", "1.5", "-3", "0.125", "100", "7", "0.1", "0.2", "-0.7", "3.14159", "1e10", "2.5e-3", "65504",
               "16777216", "1e-5", "123456.789", "0", "+2", "1.0", "-1.25", "3.4028235e38", "1e-45", ".5", "5.", "1E3", "007"]
NAMES = ["chr1", "chr10", "chr2", "chrX", "chrM", "1", "a", "Z", "chr1_random", "ch-r", "chré", "名", "chrUn_gl000220", "b"]
REST_TOKENS = ["name1", "0", "+", "-", ".", "255,0,0", "café", "名前", "a,b,", "960", "x_y", "1,2,3,", "0,10,20,", "gene:1", "%", "\U0001F9EC"]
AUTOSQL = 'table t\n"c"\n(\nstring chrom; "c"\nuint chromStart; "s"\nuint chromEnd; "e"\n)\n'
NUM = re.compile(rb"^(0|[1-9][0-9]*)$")


FLOAT_RE = re.compile(r"^[+-]?(\d+\.?\d*|\.\d+)([eE][+-]?\d+)?$", re.ASCII)
NONFINITE_RE = re.compile(r"^([+-]?)(nan|inf|infinity)$", re.ASCII | re.IGNORECASE)     # what core's dec2flt accepts besides decimal literals
def f32_round(x):
    """bit pattern of the binary32 nearest to the rational x, ties to even, computed exactly (float(text) followed by
    struct.pack('<f') rounds twice: decimal -> binary64 -> binary32); subnormals included; overflow gives the infinity"""
    sign = 0x80000000 if x < 0 else 0
    x = abs(x)
    if x == 0: return sign
    e = x.numerator.bit_length() - x.denominator.bit_length()
    if Fraction(2) ** e > x: e -= 1            # 2^e <= x < 2^(e+1)
    e = max(e, -126)
    q = x / Fraction(2) ** (e - 23)              # significand in units of the last place, in [2^23, 2^24) for a normal number
    n = q.numerator // q.denominator
    rem = q - n
    if rem > Fraction(1, 2) or (rem == Fraction(1, 2) and n % 2 == 1): n += 1
    b = ((e + 127) << 23) + n - (1 << 23)       # a carry to 2^24 moves into the exponent field; subnormals: e = -126 gives n itself
    return sign | min(b, 0x7F800000)


def f32bits_any(text):
    """what str::parse::<f32> returns (bit pattern): decimal literals rounded exactly (infinite on overflow), and the
    spellings nan / inf / infinity in any case with an optional sign; None when the text is neither"""
    m = NONFINITE_RE.fullmatch(text)
    if m:
        return (0x80000000 if m.group(1) == "-" else 0) | (0x7FC00000 if m.group(2).lower() == "nan" else 0x7F800000)
    if not FLOAT_RE.fullmatch(text):
        return None
    b = f32_round(Fraction(text if text[-1] != "." else text + "0"))
    return b | 0x80000000 if text[0] == "-" else b          # -0, and a negative text that rounds to zero, keep the sign


def f32bits(text):
    """f32 bit pattern of a value text, or None (the same function is applied to input and output texts).  A decimal literal
    beyond the f32 range is NOT read as an infinity here: no generated input has one, and an output that spells an infinity
    or a NaN as an out-of-range decimal (3.4028237e38, 5.1042355e38) is not the value that went in."""
    b = f32bits_any(text)
    if b is not None and b & 0x7F800000 == 0x7F800000 and not NONFINITE_RE.fullmatch(text):
        return None
    return b


def f32value(b):
    """the rational a finite binary32 bit pattern stands for"""
    e, m = (b >> 23) & 0xFF, b & 0x7FFFFF
    x = Fraction(m, 1 << 23) * Fraction(2) ** -126 if e == 0 else (1 + Fraction(m, 1 << 23)) * Fraction(2) ** (e - 127)
    return -x if b >> 31 else x


def exact_decimal(x):
    """the terminating decimal expansion of a rational whose denominator divides a power of ten"""
    d = 0
    while (x * 10 ** d).denominator != 1: d += 1
    n = int(abs(x) * 10 ** d)
    t = str(n).rjust(d + 1, "0")
    return ("-" if x < 0 else "") + (t[:-d] + "." + t[-d:] if d else t)


def midpoint_texts():
    """long decimals next to the midpoint of two neighbouring binary32 values: a parser that goes through binary64 first
    (round to 53 bits, then to 24) lands exactly ON the midpoint and then resolves the tie to the even neighbour, which is
    the wrong one for `just above an even pattern` and `just below an odd pattern`.  (text, exactly rounded bits, kind)"""
    out = []
    for b in [0x3F800000, 0x3F800001, 0x3DCCCCCD, 0x42C80000, 0x40490FD0, 0x477FE001, 0xBF800000, 0xBE4CCCCD, 0x3A83126E]:
        lo, hi = f32value(b), f32value(b + 1)           # for a negative pattern b + 1 is the next one AWAY from zero
        mid = (lo + hi) / 2
        eps = Fraction(1, 10 ** (len(exact_decimal(mid).split(".")[1]) + 2))
        towards_hi = exact_decimal(mid + eps if mid > 0 else mid - eps)
        towards_lo = exact_decimal(mid - eps if mid > 0 else mid + eps)
        out.append((towards_hi, b + 1, "mid-wrong-by-f64" if b % 2 == 0 else "mid-side"))
        out.append((towards_lo, b, "mid-wrong-by-f64" if b % 2 == 1 else "mid-side"))
        if b in (0x3F800000, 0x3DCCCCCD):
            out.append((exact_decimal(mid), b if b % 2 == 0 else b + 1, "mid-tie"))
    out.append(("1.0000000596046448", 0x3F800001, "mid-wrong-by-f64"))     # 17 digits: the binary64 nearest to 1 + 2^-24 from above
    for (t, b, _) in out:
        assert f32bits_any(t) == b, (t, b, f32bits_any(t))
    return out


MIDPOINTS = midpoint_texts()
MIDPOINT_TEXTS = [t for (t, _, _) in MIDPOINTS]
# non-finite spellings str::parse::<f32> accepts and the tools print back as NaN / inf / -inf (bit pattern preserved)
NONFINITE_TEXTS = ["NaN", "inf", "-inf", "nan", "+Inf", "-Infinity", "infinity"]
# accepted by the parser (0xFFC00000) but printed back as `NaN` (ryu prints no sign for a NaN): library level only
NEG_NAN_TEXTS = ["-NaN", "-nan"]
PIPE_VALUE_TEXTS = VALUE_TEXTS[:20] + NONFINITE_TEXTS + MIDPOINT_TEXTS
LINE_VALUE_TEXTS = VALUE_TEXTS + NONFINITE_TEXTS + NEG_NAN_TEXTS + MIDPOINT_TEXTS
def value_tags(texts):
    tags = []
    if any(NONFINITE_RE.fullmatch(t) for t in texts): tags.append("value-nonfinite")
    if any(t in MIDPOINT_TEXTS for t in texts): tags.append("value-f32-midpoint")
    return tags


def exit_class(rc):
    if rc == 0: return 0
    if rc == 101 or rc < 0: return 2
    return 1


class Runner:
    """one conversion pipeline over the built binaries, in its own temporary directory"""
    def __init__(self, bins):
        self.bins = bins

    def run(self, argv, cwd, stdin_path=None):
        try:
            dbg = os.environ.get("C16_DEBUG")
            p = subprocess.run(argv, cwd=cwd, stdin=open(stdin_path, "rb") if stdin_path else subprocess.DEVNULL, stdout=subprocess.PIPE,
                               stderr=subprocess.PIPE if dbg else subprocess.DEVNULL, timeout=TOOL_TIMEOUT)
            if dbg and p.returncode != 0:
                with open(dbg, "a") as f: f.write("%r\nrc=%d\n%s\n\n" % (argv, p.returncode, p.stderr.decode("utf-8", "replace")[:1500]))
            return exit_class(p.returncode), p.stdout
        except subprocess.TimeoutExpired:
            if os.environ.get("C16_DEBUG"):
                with open(os.environ["C16_DEBUG"], "a") as f: f.write("%r\nTIMEOUT\n\n" % (argv,))
            return 3, b""

    def program(self, tool, via, d):
        if via == 0: return [os.path.join(self.bins, tool)]
        if via == 1: return [os.path.join(self.bins, "bigtools"), tool]
        if via == 2: return [os.path.join(self.bins, "bigtools"), CAMEL[tool]]
        link = os.path.join(d, CAMEL[tool])
        if not os.path.lexists(link):
            os.symlink(os.path.join(self.bins, tool), link)
        return [link]

    @staticmethod
    def opt(x):
        return x[0] if x else None

    def writer_argv(self, tool, w, d):
        t, par, single, inmem, unc, bs, ips, zooms, nz, style, via, as_mode, stdin = w
        o = []
        if t: o += ["-t", str(t[0])]
        if par: o += [["--parallel", "auto"], ["-p", "yes"], ["--parallel", "no"]][par[0]]
        if single: o += ["--single-pass"]
        if inmem: o += ["--inmemory"]
        if unc: o += ["-unc"] if style else ["--uncompressed"]
        if bs: o += ["-blockSize=%d" % bs[0]] if style else ["--block-size", str(bs[0])]
        if ips: o += ["-itemsPerSlot=%d" % ips[0]] if style else ["--items-per-slot", str(ips[0])]
        if zooms: o += ["-zooms=" + ",".join(map(str, zooms[0]))] if style else ["--zooms", ",".join(map(str, zooms[0]))]
        if nz: o += ["-z", str(nz[0])]
        if as_mode:
            path = os.path.join(d, "my-as.as" if as_mode == 2 else "schema.as")
            with open(path, "w") as f: f.write(AUTOSQL)
            o += ["-as=" + path] if as_mode == 2 else ["--autosql", path]
        if style and tool == "bedtobigbed": o += ["-tab"]
        pos = [["", "-", "stdin", "/dev/stdin"][stdin] if stdin else os.path.join(d, "in.txt"), os.path.join(d, "chrom.sizes"), os.path.join(d, "out.bbi")]
        return self.program(tool, via, d) + (o + pos if style else pos + o)

    def reader_argv(self, tool, r, d):
        t, inmem, chrom, start, end, style, via = r
        o = []
        if t: o += ["-t", str(t[0])]
        if inmem: o += ["--inmemory"]
        if chrom: o += ["-chrom=" + bytes(chrom[0]).decode()] if style else ["--chrom", bytes(chrom[0]).decode()]
        if start: o += ["-start=%d" % start[0]] if style else ["--start", str(start[0])]
        if end: o += ["-end=%d" % end[0]] if style else ["--end=%d" % end[0]]
        pos = [os.path.join(d, "out.bbi"), os.path.join(d, "out.txt")]
        return self.program(tool, via, d) + (o + pos if style else pos + o)

    def pipeline(self, case_text, workdir):
        c = parse_sx(case_text)
        bg = c[0] == 3
        sizes, text = bytes(c[1]), bytes(c[2])
        w, r = (c[4], c[5]) if bg else (c[3], c[4])
        d = tempfile.mkdtemp(prefix="p", dir=workdir)
        try:
            with open(os.path.join(d, "chrom.sizes"), "wb") as f: f.write(sizes)
            with open(os.path.join(d, "in.txt"), "wb") as f: f.write(text)
            wt, rt, it = ("bedgraphtobigwig", "bigwigtobedgraph", "bigwiginfo") if bg else ("bedtobigbed", "bigbedtobed", "bigbedinfo")
            wrc, _ = self.run(self.writer_argv(wt, w, d), d, os.path.join(d, "in.txt") if w[12] else None)
            if wrc != 0:
                return sx([wrc])
            irc, info = self.run([os.path.join(self.bins, it), "--chroms", os.path.join(d, "out.bbi")], d)
            chroms = []; compressed = -1
            for line in info.split(b"\n"):
                if line.startswith(b"\t"):
                    parts = line[1:].rsplit(b" ", 2)
                    chroms.append([parts[0], int(parts[1]), int(parts[2])])
                elif line.startswith(b"isCompressed:"):
                    compressed = 1 if line.split(b":")[1].strip() == b"yes" else 0
            if irc != 0:
                compressed = -1 - irc
            rrc, _ = self.run(self.reader_argv(rt, r, d), d)
            out = b""
            if os.path.exists(os.path.join(d, "out.txt")):
                with open(os.path.join(d, "out.txt"), "rb") as f: out = f.read()
            if not bg:
                return sx([0, chroms, compressed, rrc, out])
            recs = []
            lines = out.split(b"\n")
            ok = (lines[-1] == b"")
            for line in lines[:-1]:
                p = line.split(b"\t")
                bits = f32bits(p[3].decode("ascii", "replace")) if len(p) == 4 else None
                if len(p) != 4 or not NUM.match(p[1]) or not NUM.match(p[2]) or bits is None:
                    ok = False; break
                recs.append([p[0], int(p[1]), int(p[2]), bits])
            if not ok:
                return sx([0, chroms, compressed, rrc, [-1, out]])
            return sx([0, chroms, compressed, rrc, recs])
        finally:
            shutil.rmtree(d, ignore_errors=True)


class C16(Prop):
    ID = "C16"
    NEED_BINS = True
    MODEL_TIMEOUT = 900.0      # the oracle re-parses the whole input text; the 65600-record case takes about a minute
    PER_CASE_TIMEOUT = 20.0
    THEOREMS = ["C16_dec_roundtrip", "C16_bed_line_roundtrip", "C16_bedgraph_line_roundtrip", "C16_bed_text_roundtrip",
                "C16_chrom_sizes_parse", "C16_compat_ucsc", "C16_compat_native_fixed", "C16_compat_ignored_dropped", "C16_compat_args_tools",
                "C16_bw_query_is_clip_filter", "C16_bb_query_is_overlap_filter", "C16_restrict_is_query_bigwig",
                "C16_restrict_is_query_bigbed", "C16_bedgraph_roundtrip_records", "C16_bed_roundtrip_records",
                "C16_bed_pipeline_text", "C16_bedgraph_pipeline_records",
                "C16_bedgraph_file_roundtrip", "C16_bedgraph_file_text", "C16_bed_file_roundtrip",
                "C16_restrict_file_bigwig", "C16_restrict_file_bigbed", "C16_bedgraph_input_ok", "C16_bed_file_hyps",
                "C16_file_matches_list_model_bigwig", "C16_file_matches_list_model_bigbed"]
    RULE = ("pipelines over the BUILT BINARIES: canonical multi-chromosome bedGraph / BED texts (1..6 chromosomes from a pool with "
            "ASCII, UTF-8 and look-alike names in byte order; per chromosome 1..30 records, one line per chromosome for the tiny class, "
            "1030/2100 records for the multi-block class; adjacent / gapped values touching 0 and the chromosome end incl. 2^32-1; value texts: "
            "20 plain decimals, 7 non-finite spellings (NaN nan inf +Inf infinity -inf -Infinity), 21 long decimals just above / just below / on "
            "the midpoint of two neighbouring f32 values (positive and negative, expected bits by exact rational rounding); BED entries "
            "overlapping, nested, identical, zero-length, with 0,1,3,9,12 extra columns of printable UTF-8 tokens; final newline present / "
            "absent, CRLF) x chrom.sizes layouts (tab, spaces, extra columns, CRLF, blank lines, no final newline, a repeated name, unused names) "
            "x -t {1,2,4,8,16,default} x --parallel {auto,yes,no,default} x --single-pass x --inmemory x --uncompressed x --block-size x "
            "--items-per-slot x --zooms x --nzooms x --autosql (incl. the UCSC form -as=<path containing -as>) x native / UCSC spellings "
            "(-unc -blockSize= -itemsPerSlot= -zooms= -as= -tab -chrom= -start= -end=) x the tool binary / `bigtools <tool>` / `bigtools <CamelCase>` / "
            "a CamelCase symlink, for writer and reader independently; reader unrestricted or restricted by chromosome, start, end at item "
            "boundaries +-1 (also inverted, unknown chromosome, start/end without chromosome); a malformed stream (unsorted, unknown chromosome, bad "
            "numbers, missing columns, empty input, blank line, start>end, beyond the chromosome, bad chrom.sizes lines, '+' sign, leading zeros, "
            "trailing white space incl. U+00A0/U+3000); library level: compat_args on argument vectors of the same shapes plus the other table "
            "entries, parse_bed/parse_bedgraph on formatted and mutated lines, line segmentation, u32 Display/FromStr. "
            "non-trivial = anything but the empty input; distinct = distinct case text")
    CORRESPONDENCE = ("Model/CliText.v = compat_args, parse_bed, parse_bedgraph, StreamingLineReader, u32 Display/FromStr (library calls) and "
                      "the exit classes, chromosome tables, compression flag and output records/bytes of the built binaries "
                      "bedgraphtobigwig -> bigwigtobedgraph and bedtobigbed -> bigbedtobed (also through `bigtools <tool>` and CamelCase names)")
    TRUSTED = ["tools/gen_consts_extra.py gen_compat (compat table / command list / clap flag translator)",
               "tools/vlib/props/C16.py: argv construction, temp-dir pipelines, exit-code classes, parsing of the info tools' output",
               "f32bits / f32_round in this file (fractions.Fraction, round to nearest even binary32 done by hand: exact, no detour "
               "through binary64) as the text -> f32 function applied to BOTH input and output value texts, incl. nan / inf / infinity "
               "(agreement with Rust's str::parse::<f32> is checked on every value text used, kind-1 cases)",
               "bigwiginfo / bigbedinfo --chroms (chromosome table and isCompressed as observed)",
               "harness/src/bin/c16.rs (public API only, no hook)"]
    ASSUMPTIONS = ["strings are valid UTF-8 (the tools refuse anything else when reading lines)",
                   "chrom.sizes white space is ASCII (split_whitespace beyond ASCII is not modelled); command names are ASCII (to_lowercase)",
                   "f32 printing (ryu) and parsing are outside the model: values are compared by bit pattern after parsing input and output texts "
                   "with the same function",
                   "bigBed entries [0,0) (C02's known class) and empty bigWig values (C01's known class) are outside the oracle",
                   "clap, tokio, thread scheduling, temp files: validated by running, not modelled",
                   "debug-profile binaries (overflow checks on), as built by bin/check"]

    def __init__(self):
        self.nruns = 0

    # ------------------------------------------------------------------ implementation side
    def impl_outputs(self, lines):
        lib = [i for i, l in enumerate(lines) if not (l.startswith("(3 ") or l.startswith("(4 "))]
        pipe = [i for i, l in enumerate(lines) if l.startswith("(3 ") or l.startswith("(4 ")]
        res = [None] * len(lines)
        if lib:
            outs = core.run_impl(self.HARNESS or self.ID, [lines[i] for i in lib], per_case_timeout=self.PER_CASE_TIMEOUT)
            for i, o in zip(lib, outs): res[i] = o
        if pipe:
            workdir = os.path.join(core.TARGET, "..", "c16-run") if core.SCRATCH else os.path.join(core.CACHE, "c16-run")
            os.makedirs(workdir, exist_ok=True)
            top = tempfile.mkdtemp(prefix="run", dir=workdir)
            rn = Runner(core.BINS_DIR)
            def one(i):
                try:
                    return rn.pipeline(lines[i], top)
                except Exception as e:      # a crash of the glue is reported as its own class, never as a tool result
                    return sx([-9, repr(e).encode()])
            try:
                with ThreadPoolExecutor(max_workers=core.NCPU) as ex:
                    outs = list(ex.map(one, pipe))
            finally:
                shutil.rmtree(top, ignore_errors=True)
            for i, o in zip(pipe, outs): res[i] = o
            self.nruns += len(pipe)
        return res

    def nontrivial(self, case_text, tags):
        return "empty-input" not in tags

    # ------------------------------------------------------------------ generators: texts
    def sizes_text(self, rng, lens, plain=False):
        """chrom.sizes text for {name: len} in one of the layouts the reader accepts"""
        names = list(lens)
        rng.shuffle(names)
        extra = [n for n in rng.sample(NAMES, 2) if n not in lens] if not plain else []
        rows = [(n, lens[n]) for n in names] + [(n, rng.choice([10, 5000])) for n in extra]
        rng.shuffle(rows)
        tags = []
        out = b""
        style = "plain" if plain else rng.choice(["plain", "plain", "spaces", "extra-col", "crlf", "blank-lines", "no-final-nl", "duplicate"])
        if style == "duplicate" and rows:
            n, l = rows[-1]
            rows = [(n, 1)] + rows          # an earlier, wrong line for the same name: the later one must win
        for k, (n, l) in enumerate(rows):
            nb = n.encode()
            if style == "spaces": line = b"  " + nb + b"   " + str(l).encode() + b" "
            elif style == "extra-col": line = nb + b"\t" + str(l).encode() + b"\tignored\t7"
            else: line = nb + b"\t" + str(l).encode()
            out += line + (b"\r\n" if style == "crlf" else b"\n")
            if style == "blank-lines" and rng.random() < 0.5: out += b"\n"
        if style == "no-final-nl": out = out[:-1]
        return out, "sizes-" + style

    def bedgraph_records(self, rng, ln, n, tiny):
        recs = []
        pos = rng.choice([0, 0, 1, 7])
        for _ in range(n):
            pos += rng.choice([0, 0, 0, 1, 3, 50])
            w = rng.choice([1, 1, 2, 10, 100])
            if pos + w > ln: break
            recs.append((pos, pos + w, rng.choice(PIPE_VALUE_TEXTS)))
            pos += w
        if recs and rng.random() < 0.3 and recs[-1][1] < ln:      # last value touches the chromosome end
            s, e, v = recs[-1]
            if ln - s <= 200000: recs[-1] = (s, ln, v)
            else: recs.append((ln - rng.choice([1, 5]), ln, v))     # (a value of 10^9 bases makes fine zoom levels explode)
        if not recs: recs = [(0, min(ln, 5), "1")]
        return recs

    def bed_records(self, rng, ln, n, ncols):
        recs = []
        pos = rng.choice([0, 0, 1, 7])
        for _ in range(n):
            pos += rng.choice([0, 0, 0, 1, 3, 50])
            if pos >= ln: break
            w = rng.choice([0, 1, 1, 5, 30, 200])
            if pos == 0 and w == 0: w = 1                           # [0,0) is C02's known class
            end = min(ln, pos + w)
            rest = "\t".join(rng.choice(REST_TOKENS) for _ in range(ncols))
            recs.append((pos, end, rest))
        if not recs: recs = [(0, min(ln, 5), "\t".join(rng.choice(REST_TOKENS) for _ in range(ncols)))]
        if rng.random() < 0.2 and recs[-1][0] < ln - 3:           # an entry ending at the chromosome end
            recs.append((ln - 3, ln, "\t".join(rng.choice(REST_TOKENS) for _ in range(ncols))))
        return recs

    def input_case(self, rng, bg, size_class):
        """(sizes_text, input_text, table, records per chrom, lens, tags)"""
        if size_class == "tiny":
            names = sorted(rng.sample(NAMES, rng.choice([2, 3, 6, 12])), key=lambda s: s.encode())
        else:
            names = sorted(rng.sample(NAMES, rng.choice([1, 2, 3, 4, 6])), key=lambda s: s.encode())
        lens = {n: rng.choice([50, 1000, 100000, 4294967295]) for n in names}
        ncols = rng.choice([0, 0, 1, 3, 9, 9, 12])
        text = b""; per = {}
        for n in names:
            k = 1 if size_class == "tiny" else (rng.choice([1030, 2100]) if size_class == "blocks" else rng.choice([1, 2, 3, 8, 30]))
            ln = lens[n] if size_class != "blocks" else max(lens[n], 100000)
            lens[n] = ln
            recs = self.bedgraph_records(rng, ln, k, size_class == "tiny") if bg else self.bed_records(rng, ln, k, ncols)
            per[n] = recs
            for (s, e, x) in recs:
                text += n.encode() + b"\t%d\t%d" % (s, e) + ((b"\t" + x.encode()) if x != "" else b"") + b"\n"
        tags = ["cols=%d" % (4 if bg else 3 + ncols), "chroms=%d" % len(names), "size-" + size_class]
        fin = rng.random()
        if fin < 0.1: text = text[:-1]; tags.append("no-final-newline")
        elif fin < 0.2: text = text.replace(b"\n", b"\r\n"); tags.append("crlf-input")
        sizes, stag = self.sizes_text(rng, lens)
        tags.append(stag)
        table = sorted({x for recs in per.values() for (_, _, x) in recs}) if bg else []
        tags += value_tags(table)
        table = [[t.encode(), f32bits(t)] for t in table]
        return sizes, text, table, per, lens, tags

    def wopts(self, rng, bg, parallel_ok=True):
        t = rng.choice([[1], [2], [4], [8], [16], []])
        par = rng.choice([[0], [1], [1], [2], []]) if parallel_ok else rng.choice([[0], [2], []])
        single = rng.random() < 0.4
        inmem = rng.random() < 0.3
        unc = rng.random() < 0.4
        bs = rng.choice([[], [], [2], [3], [256], [1000]])
        ips = rng.choice([[], [], [1], [3], [1024]])
        zooms = rng.choice([[], [], [], [[10, 100]], [[4]], [[1000, 10, 10]]])
        nz = rng.choice([[], [], [0], [2]])
        style = 1 if rng.random() < 0.4 else 0
        via = rng.choice([0, 0, 1, 2, 3])
        as_mode = 0 if bg else rng.choice([0, 0, 0, 1, 2])
        stdin = rng.choice([1, 2, 3]) if rng.random() < 0.12 else 0
        tags = ["w-t=%s" % (t[0] if t else "default"), "parallel=%s" % (["auto", "yes", "no"][par[0]] if par else "default"),
                "single-pass" if single else "two-pass", "w-style=%s" % ("ucsc" if style else "native"), "w-via=%d" % via]
        if inmem: tags.append("w-inmemory")
        if unc: tags.append("uncompressed")
        if bs: tags.append("block-size")
        if ips: tags.append("items-per-slot")
        if zooms: tags.append("zooms")
        if as_mode: tags.append("autosql-file" if as_mode == 1 else "autosql-ucsc-dash-path")
        if stdin: tags.append("input-stdin")
        return [t, par, single, inmem, unc, bs, ips, zooms, nz, style, via, as_mode, stdin], tags

    def ropts(self, rng, per, lens):
        t = rng.choice([[1], [2], [4], [8], [16], []])
        inmem = rng.random() < 0.3
        style = 1 if rng.random() < 0.4 else 0
        via = rng.choice([0, 0, 1, 2, 3])
        chrom = []; start = []; end = []
        tags = ["r-t=%s" % (t[0] if t else "default"), "r-style=%s" % ("ucsc" if style else "native"), "r-via=%d" % via]
        mode = rng.random()
        if mode < 0.45:
            tags.append("unrestricted")
        else:
            names = list(per)
            n = rng.choice(names)
            pts = sorted({0, lens[n], max(0, lens[n] - 1)} | {p + dlt for (s, e, _) in per[n][:40] for p in (s, e) for dlt in (-1, 0, 1) if 0 <= p + dlt <= 4294967295})
            r = rng.random()
            if r < 0.05:
                n = "chrNotThere"; tags.append("restrict-unknown-chrom")
            chrom = [n.encode()]
            k = rng.random()
            if k < 0.2: tags.append("restrict-chrom")
            elif k < 0.35: start = [rng.choice(pts)]; tags.append("restrict-start")
            elif k < 0.5: end = [rng.choice(pts)]; tags.append("restrict-end")
            else:
                a, b = rng.choice(pts), rng.choice(pts)
                if a > b and rng.random() < 0.9: a, b = b, a
                start, end = [a], [b]
                tags.append("restrict-start-end" if a <= b else "restrict-inverted")
            if rng.random() < 0.03:
                chrom = []; tags.append("restrict-without-chrom")
        return [t, inmem, chrom, start, end, style, via], tags

    def pipeline_case(self, rng, bg, size_class):
        sizes, text, table, per, lens, tags = self.input_case(rng, bg, size_class)
        w, wt = self.wopts(rng, bg)
        r, rt = self.ropts(rng, per, lens)
        tags = ["pipeline", "bedgraph" if bg else "bed"] + tags + wt + rt
        if bg:
            return sx([3, sizes, text, table, w, r]), tags
        return sx([4, sizes, text, w, r]), tags

    def wide_block_case(self, rng, native=True):
        n = 65600                      # just above 65535; short tokens keep the text (and the oracle's parse of it) small
        name = "c"
        recs = []; pos = 0
        vals = ["1", "2", "7"]
        for k in range(n):
            recs.append((pos, pos + 1, vals[k % len(vals)])); pos += 1
        lens = {name: pos + 10}
        text = b"".join(name.encode() + b"\t%d\t%d\t" % (s, e) + x.encode() + b"\n" for (s, e, x) in recs)
        sizes, stag = self.sizes_text(rng, lens, plain=True)
        table = [[t.encode(), f32bits(t)] for t in sorted(set(vals))]
        w, wt = self.wopts(rng, True)
        w[5] = [70000]; w[6] = []; w[7] = []; w[9] = 0 if native else 1; w[12] = 0
        r = [[rng.choice([1, 4])], False, [], [], [], 0, 0]        # unrestricted read-back
        tags = ["pipeline", "bedgraph", "block-size>65535", "values>65535", "oracle-only", "unrestricted"] + wt
        return sx([3, sizes, text, table, w, r]), tags

    def malformed_case(self, rng, bg):
        sizes, text, table, per, lens, tags = self.input_case(rng, bg, "small")
        lines = text.split(b"\n")
        kind = rng.choice(["unsorted-chroms", "unknown-chrom", "bad-number", "missing-column", "empty-input", "blank-line", "start>end",
                           "beyond-chrom", "unsorted-starts", "sizes-missing-size", "sizes-bad-size", "plus-sign", "leading-zeros", "trailing-space"])
        first = lines[0].rstrip(b"\r").split(b"\t")
        if kind == "unsorted-chroms":
            text = b"zz\t0\t1" + (b"\t1" if bg else b"") + b"\n" + text; sizes += b"\nzz 10\n"
        elif kind == "unknown-chrom":
            text = b"!none\t0\t1" + (b"\t1" if bg else b"") + b"\n" + text
        elif kind == "bad-number":
            first[rng.choice([1, 2])] = rng.choice([b"", b"-1", b"1.0", b"4294967296", b"x", b"+", b" 1", b"1 "]); lines[0] = b"\t".join(first); text = b"\n".join(lines)
        elif kind == "missing-column":
            lines[0] = b"\t".join(first[:rng.choice([1, 2, 3] if bg else [1, 2])]); text = b"\n".join(lines)
        elif kind == "empty-input":
            text = b""
        elif kind == "blank-line":
            text = lines[0] + b"\n\n" + b"\n".join(lines[1:])
        elif kind == "start>end":
            first[1], first[2] = b"9", b"3"; lines[0] = b"\t".join(first); text = b"\n".join(lines)
        elif kind == "beyond-chrom":
            n = first[0].decode(); ln = lens[n]
            if ln >= 4294967295: first[0] = b"!none"
            else: first[1], first[2] = (b"%d" % (ln - 1), b"%d" % (ln + 1)) if bg or rng.random() < 0.5 else (b"%d" % ln, b"%d" % (ln + 1))
            lines = [b"\t".join(first)]; text = b"\n".join(lines) + b"\n"
        elif kind == "unsorted-starts":
            n = first[0]
            text = n + b"\t20\t30" + (b"\t1" if bg else b"") + b"\n" + n + b"\t5\t" + (b"8\t1" if bg else b"40") + b"\n"
        elif kind == "sizes-missing-size":
            sizes = sizes + b"\nlonely\n"
        elif kind == "sizes-bad-size":
            sizes = sizes + b"\nq\t12x\n"
        elif kind == "plus-sign":
            first[1] = b"+" + first[1]; lines[0] = b"\t".join(first); text = b"\n".join(lines)
        elif kind == "leading-zeros":
            first[2] = b"00" + first[2]; lines[0] = b"\t".join(first); text = b"\n".join(lines)
        elif kind == "trailing-space":
            text = text.replace(b"\n", rng.choice([b" \n", b"\t\n", b"\xc2\xa0\n", b"\xe3\x80\x80 \n"]), 1)
        w, wt = self.wopts(rng, bg, parallel_ok=False)
        r, rt = self.ropts(rng, per, lens)
        if bg:
            known = {bytes(t[0]) for t in table}
            for ln_ in text.split(b"\n"):
                p = ln_.rstrip().split(b"\t")
                if len(p) >= 4 and p[3] not in known:
                    b = f32bits(p[3].decode("utf-8", "replace"))
                    if b is not None: table.append([p[3], b]); known.add(p[3])
        tags = ["pipeline", "bedgraph" if bg else "bed", "malformed", "malformed-" + kind] + (["empty-input"] if kind == "empty-input" else []) + wt + rt
        if bg:
            return sx([3, sizes, text, table, w, r]), tags
        return sx([4, sizes, text, w, r]), tags

    # ------------------------------------------------------------------ generators: library level
    def argv_case(self, rng):
        tool = rng.choice(list(CAMEL))
        via = rng.choice([0, 1, 2, 3, 4])
        if via == 0: argv = [rng.choice(["", "/usr/bin/", "./", "../x/"]) + tool]
        elif via == 1: argv = [rng.choice(["bigtools", "/opt/BigTools", "./bigtools"]), tool]
        elif via == 2: argv = ["bigtools", CAMEL[tool]]
        elif via == 3: argv = [rng.choice(["", "/a/b/"]) + CAMEL[tool]]
        else: argv = [rng.choice(["bigtools", "bigwiginfo", "bigwigaverageoverbed", "bigbedinfo", "other", "bigtools"]), rng.choice(["intersect", "-V", "-v", "chromintersect", tool, "a/.."])]
        vals = ["chr1", "chr-chrom", "x-end", "-start", "7", "0", "my-as.as", "/tmp/x-as/y.as", "a=b", "", "-", "-unc.bw", "10,100", "-1"]
        pool_named = ["-unc", "-blockSize=%d" % rng.randint(1, 999), "-itemsPerSlot=%d" % rng.randint(1, 9999), "-chrom=" + rng.choice(vals[:4]),
                      "-start=%d" % rng.randint(0, 99), "-end=%d" % rng.randint(0, 99), "-as=" + rng.choice(vals[6:8]), "-zooms=10,100",
                      "--uncompressed", "--block-size", "--block-size=3", "--items-per-slot", "--chrom", "--chrom=chr-chrom", "--start", "--end=5",
                      "--autosql", "--zooms", "--nzooms", "--nthreads", "--parallel", "--single-pass", "--inmemory", "--sorted", "--zoom",
                      "-t", "-z", "-u", "-s", "-p", "-a", "-h", "-V", "--help", "--version", "-", "in.bg", "chrom.sizes", "out.bw", "4", "yes", "auto"]
        pool_other = ["-tab", "-inList", "-type=bed3+5", "-extraIndex=a", "-allow1bOverlap", "-bedOut=x", "-bed=f", "-minMax", "-max", "-t4", "-asfoo",
                      "-udcDir=/x", "-header", "-stats", "-adjust=1", "-clip=3", "-threshold=0.5", "-chroms=a,b", "-sizesIs2Bit", "-starts", "-ends=3", "-x"]
        n = rng.choice([0, 1, 2, 3, 5, 8])
        named_only = rng.random() < 0.7
        for _ in range(n):
            argv.append(rng.choice(pool_named) if named_only or rng.random() < 0.6 else rng.choice(pool_other))
        return sx([0, [a.encode() for a in argv]]), ["compat", "compat-named-only" if named_only else "compat-mixed", "compat-via=%d" % via]

    def line_case(self, rng):
        bg = rng.random() < 0.4
        chrom = rng.choice(NAMES + ["", "chr 1", "chr1 "])
        s = rng.choice([0, 1, 9, 10, 99, 100, 12345, 4294967295, 4294967294, rng.randrange(0, 2 ** 32)])
        e = rng.choice([0, 5, 1000, 4294967295, rng.randrange(0, 2 ** 32)])
        if bg:
            v = rng.choice(LINE_VALUE_TEXTS)
            line = "%s\t%d\t%d\t%s" % (chrom, s, e, v)
            expect = [[chrom.encode(), s, e, f32bits(v)]]
            table = [[t.encode(), f32bits(t)] for t in LINE_VALUE_TEXTS]
        else:
            ncols = rng.choice([0, 1, 2, 9, 12])
            rest = "\t".join(rng.choice(REST_TOKENS + ["", "a b"]) for _ in range(ncols))
            rest = rest.rstrip("\t ")
            line = "%s\t%d\t%d" % (chrom, s, e) + ("\t" + rest if rest else "")
            expect = [[chrom.encode(), s, e, rest.encode()]]
            table = []
        tags = ["line", "line-bedgraph" if bg else "line-bed"] + (value_tags([v]) if bg else [])
        b = line.encode()
        m = rng.random()
        if m < 0.5:
            b += rng.choice([b"", b"\n", b"\r\n"]); tags.append("line-canonical")
        else:
            expect = []
            kind = rng.choice(["trailing-ws", "drop-field", "bad-digit", "extra-tab", "nonascii-ws", "truncate", "insert", "extra-column"])
            tags.append("line-" + kind)
            if kind == "trailing-ws": b += rng.choice([b" ", b"\t", b"\t\t\n", b" \r\n", b"\x0b\x0c"])
            elif kind == "nonascii-ws": b += rng.choice(["\u00a0", "\u3000", "\u2003", "\u0085", "\u1680", "\u2028", "\u2029", "\u202f", "\u205f", "\u200a", "\u2000", "\u200b", "\ufeff", "\u00e9", "\u180e", "\u2060"]).encode() + rng.choice([b"", b"\n"])
            elif kind == "drop-field":
                p = b.split(b"\t"); k = rng.randrange(len(p)); b = b"\t".join(p[:k] + p[k + 1:])
            elif kind == "bad-digit":
                p = b.split(b"\t"); p[rng.choice([1, 2])] = rng.choice([b"", b"+", b"-", b"+5", b"-5", b"5x", b"4294967296", b"00", b"1e3", b" 5", b"5 ", b"\xd9\xa3", b"99999999999999999999"]); b = b"\t".join(p)
            elif kind == "extra-tab":
                k = rng.randrange(len(b) + 1); b2 = b[:k] + b"\t" + b[k:]
                try: b2.decode("utf-8"); b = b2
                except UnicodeDecodeError: pass
            elif kind == "truncate":
                b = b[:rng.randrange(len(b) + 1)]
                while True:
                    try: b.decode("utf-8"); break
                    except UnicodeDecodeError: b = b[:-1]
            elif kind == "insert":
                k = rng.randrange(len(b) + 1); ins = rng.choice([b" ", b"\n", b"\r", b"x", b"9", b"+", b"-", b"."])
                b2 = b[:k] + ins + b[k:]
                try: b2.decode("utf-8"); b = b2
                except UnicodeDecodeError: pass
            elif kind == "extra-column":
                b += b"\textra\t1"
                if bg: expect = [[chrom.encode(), s, e, f32bits(v)]]      # parse_bedgraph ignores what follows the value
        if bg:      # the value text the mutated line really carries (the model takes str::parse::<f32> from this table)
            p = b.decode("utf-8").rstrip().split("\t")
            if len(p) >= 4 and all(p[3] != t for t in LINE_VALUE_TEXTS):
                fb = f32bits_any(p[3])
                if fb is not None: table.append([p[3].encode(), fb])
        return sx([1, 1 if bg else 0, b, table, expect]), tags

    def text_case(self, rng):
        pieces = [b"a", b"chr1\t0\t10\t1.5", b"", b" ", b"x \t", b"\r", b"caf\xc3\xa9", b"\xe3\x80\x80", b"\xc2\xa0", b"tail\xc2\x85", b"\xe2\x80\x8b", b"b\xe2\x80\xa8"]
        n = rng.choice([0, 1, 2, 5, 9])
        t = b"".join(rng.choice(pieces) + rng.choice([b"\n", b"\n", b"\r\n", b"\n\n"]) for _ in range(n))
        if rng.random() < 0.4: t += rng.choice(pieces)
        return sx([2, t]), ["text-lines"]

    def number_cases(self, rng, quick):
        out = []
        ns = [0, 1, 9, 10, 11, 99, 100, 101, 4294967295, 4294967294, 1000000000, 999999999, 2147483648] + [10 ** k for k in range(10)] + [10 ** k - 1 for k in range(1, 10)]
        ns += [rng.randrange(0, 2 ** 32) for _ in range(60 if quick else 3000)] + [rng.randrange(0, 2000) for _ in range(20 if quick else 500)]
        for n in ns:
            out.append((sx([5, n]), ["u32-print"]))
        texts = [b"", b"+", b"-", b"+0", b"-0", b"0", b"00", b"000000000000007", b"4294967295", b"4294967296", b"42949672950", b"+4294967295", b"++1", b"1+", b"1_0", b"0x10",
                 b"1 ", b" 1", b"1.0", b"1e3", b"\xd9\xa3", b"\xef\xbc\x91", b"99999999999999999999999", b"18446744073709551616", b"12a", b"a12", b"+-1", b"\x00"]
        for _ in range(60 if quick else 3000):
            k = rng.choice([1, 2, 5, 9, 10, 10, 11])
            s = "".join(rng.choice("0123456789") for _ in range(k))
            if rng.random() < 0.15: s = "+" + s
            if rng.random() < 0.1:
                i = rng.randrange(len(s) + 1); s = s[:i] + rng.choice("+-x .") + s[i:]
            texts.append(s.encode())
        for t in texts:
            out.append((sx([6, t]), ["u32-parse"]))
        return out

    def gen(self, rng, tier):
        quick = tier == "quick"
        out = []
        for _ in range(400 if quick else 6000): out.append(self.argv_case(rng))
        for _ in range(500 if quick else 10000): out.append(self.line_case(rng))
        for _ in range(100 if quick else 2000): out.append(self.text_case(rng))
        out += self.number_cases(rng, quick)
        # pipelines over the built binaries
        npipe = 330 if quick else 3000
        for i in range(npipe):
            bg = i % 2 == 0
            sc = "tiny" if i % 5 == 1 else ("blocks" if (i % (55 if quick else 40) == 7) else "small")
            out.append(self.pipeline_case(rng, bg, sc))
        for i in range(56 if quick else 600):
            out.append(self.malformed_case(rng, i % 2 == 0))
        # a block size above 65535 together with a chromosome of more than 65535 values: the option must reach the
        # index fan-out, not the per-section item count (a section stores its item count in 16 bits)
        # (thorough tier only: the oracle re-parses the whole 65600-line text, about three minutes per case)
        for i in range(0 if quick else 2):
            out.append(self.wide_block_case(rng, native=(i % 2 == 0)))
        for c in out:
            yield c

    def extra_checks(self, ctx):
        return [("stat", "pipelines run over the built binaries (incl. shrinking)", self.nruns)]

    # ------------------------------------------------------------------ shrinking
    def shrink_candidates(self, case_text):
        c = parse_sx(case_text)
        k = c[0]
        res = []
        if k == 0:
            argv = c[1]
            for i in range(1, len(argv)):
                res.append([0, argv[:i] + argv[i + 1:]])
        elif k == 1:
            b = bytes(c[2])
            for i in range(len(b)):
                nb = b[:i] + b[i + 1:]
                try: nb.decode("utf-8")
                except UnicodeDecodeError: continue
                res.append([1, c[1], nb, c[3], []])
        elif k in (3, 4):
            ti = 2
            lines = bytes(c[ti]).split(b"\n")
            body, tail = (lines[:-1], [b""]) if lines and lines[-1] == b"" else (lines, [])
            step = max(1, len(body) // 2)
            while step >= 1:
                for i in range(0, len(body), step):
                    nb = body[:i] + body[i + step:]
                    if nb:
                        res.append(c[:ti] + [b"\n".join(nb + tail)] + c[ti + 1:])
                if step == 1 or len(res) > 200: break
                step //= 2
            wi = 4 if k == 3 else 3
            dw = [[], [], 0, 0, 0, [], [], [], [], 0, 0, 0, 0]
            dr = [[], 0, [], [], [], 0, 0]
            for j in range(len(dw)):
                if c[wi][j] != dw[j]:
                    res.append(c[:wi] + [c[wi][:j] + [dw[j]] + c[wi][j + 1:]] + c[wi + 1:])
            for j in range(len(dr)):
                if c[wi + 1][j] != dr[j]:
                    res.append(c[:wi + 1] + [c[wi + 1][:j] + [dr[j]] + c[wi + 1][j + 1:]])
        return [sx(x) for x in res]


PROP = C16()
