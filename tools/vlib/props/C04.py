from ..runner import Prop
from .. import bedgen
from ..core import parse_sx

class C04(Prop):
    ID = "C04"
    THEOREMS = ["C04_skipped_block_empty", "C04_query_blocks", "C04_query", "C04_no_miss", "C04_no_disjoint", "C04_accepted_sorted", "C04_refuted_unrepaired", "C04_file_query", "C04_file_no_miss_no_disjoint", "C04_history", "C04_history_from", "C04_written_file_query", "C04_written_file_narrow",
                "C04_written_file_query_compressed", "C04_file_no_miss_no_disjoint_compressed", "C04_history_compressed"]
    RULE = ("bigBed cases as C02, biased to small index fan-outs (items_per_slot in {1,2,3}, block_size in {2,3}) and to layouts whose "
            "largest end is not the last entry's end at block level and at every index level; per chromosome ranges [s,e) with s,e from "
            "{0, length, every chosen entry start/end and one base either side}: [p,p+1), [0,p), [p,length), random pairs, the full span; "
            "every range through a plain reader (one reader, in order) and through one caching reader fed a permutation with repeats; "
            "non-trivial = at least 2 entries; distinct = distinct case text")
    CORRESPONDENCE = ("BigBedRead::get_interval answers (plain and cached) on files written by BigBedWrite = Model/BBIReadBed.v on "
                      "Model/BigBedWrite.v bytes, exactly; oracle: no miss, no disjoint, stored order, each once (touching entries free)")
    TRUSTED = ["verif_hooks accessors for private header fields"]
    ASSUMPTIONS = ["rest fields are valid UTF-8", "libdeflater round-trips (compressed files are compared at reader level only)"]
    PER_CASE_TIMEOUT = 30.0

    def gen(self, rng, tier):
        n = 300 if tier == "quick" else 5000
        for i in range(n):
            yield bedgen.bed_case(rng, tier, want="ranges", small_index=(i % 3 != 0),
                                  style=("maxnotlast" if i % 5 == 0 else ("longshort" if i % 5 == 1 else None)))
        for i in range(n // 6):
            yield bedgen.bed_case(rng, tier, want="ranges", compress=0, zoom_mode="none", small_index=True)
        for i in range(n // 30):
            c, t = bedgen.bed_case(rng, tier, want="ranges", allow00=True, style="zero")
            yield c, t + ["allow00"]

    def nontrivial(self, case, tags):
        return case.count("(") > 30

    def known_class(self, case, impl_out):
        c = parse_sx(case)
        for it in c[3]:
            if it[1] == 0 and it[2] == 0:
                return "bb-entry-0-0"
        return None

PROP = C04()
