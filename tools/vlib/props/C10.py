"""C10: any well-formed BBI file is read correctly, whoever wrote it.

The files come from the independent encoder Spec/FormatEmit.v (extracted, entry 2), over the cross
product of layout choices; zlib is applied here (entry 3 lists the raw block payloads, Python
deflates them and hands the table raw -> stored back to the encoder, so that all offsets and the
uncompressBufSize field are computed by the encoder itself).  The real readers (harness c10) answer
the queries; ORACLE = spec_answer on the content; MODEL = Model/BBIRead.v (+ ReadBed_C10.v) on the
same bytes."""
import os, struct, subprocess, sys, tempfile, zlib
from ..runner import Prop
from .. import core
from ..core import sx, parse_sx

def f32bits(x): return struct.unpack("<I", struct.pack("<f", x))[0]
def f64bits(x): return struct.unpack("<Q", struct.pack("<d", x))[0]
NICE = [1.0, 2.0, 0.5, -1.0, 3.25, 100.0, -0.125, 7.0, 0.0, 1e-3, 12345.678, -2.5e10, 3.0e-30, float("inf")]

def rand_f32(rng):
    if rng.random() < 0.6:
        return f32bits(rng.choice(NICE))
    while True:
        b = rng.getrandbits(32)
        if ((b >> 23) & 0xFF == 0xFF and b & 0x7FFFFF) or b == 0x80000000:
            continue            # no NaN (printed as missing by values()), no -0.0 (sign of zero not modelled)
        return b

NAMES = ["chr1", "chr10", "chr2", "chrX", "a", "chrUn_gl000220", "chr1_random", "B", "chrM", "scaffold_7", "chr21", "Z9"]

# ---------------------------------------------------------------- node stores
def tree_shape(rng, n, style, b):
    """nested shape over items 0..n-1: ('L', first, count) | ('N', [children])"""
    if n == 0 or style == "single":
        return ("L", 0, n)
    if style == "uniform":
        level = [("L", i, min(b, n - i)) for i in range(0, n, b)]
        while len(level) > 1:
            level = [("N", level[i:i + b]) for i in range(0, len(level), b)]
        return level[0]
    if style == "chain":       # inner nodes with a single child on top of a uniform tree
        t = tree_shape(rng, n, "uniform", b)
        for _ in range(rng.randint(1, 3)):
            t = ("N", [t])
        return t
    # random: uneven depth, uneven fan-out
    def go(first, count, depth):
        if count <= 1 or depth >= 5 or rng.random() < 0.3:
            return ("L", first, count)
        k = rng.randint(1, min(count, 4))
        cuts = sorted(rng.sample(range(1, count), k - 1)) if k > 1 else []
        parts = [0] + cuts + [count]
        return ("N", [go(first + parts[i], parts[i + 1] - parts[i], depth + 1) for i in range(k)])
    t = go(0, n, 0)
    if t[0] == "L" and rng.random() < 0.5:
        t = ("N", [t])
    return t

def number_nodes(rng, shape, scramble):
    """node store: list of nodes, node 0 = root, children by index; also (index, is_leaf, depth) list"""
    flat = []
    def walk(s, depth):
        ix = len(flat); flat.append(None)
        if s[0] == "L":
            flat[ix] = ("L", s[1], s[2], depth)
        else:
            kids = [walk(c, depth + 1) for c in s[1]]
            flat[ix] = ("N", kids, depth)
        return ix
    walk(shape, 0)
    n = len(flat)
    perm = list(range(1, n))
    if scramble:
        rng.shuffle(perm)
    new_of = {0: 0}
    for new, old in enumerate(perm, 1):
        new_of[old] = new
    store = [None] * n; meta = [None] * n
    for old, nd in enumerate(flat):
        if nd[0] == "L":
            store[new_of[old]] = [0, nd[1], nd[2]]; meta[new_of[old]] = (True, nd[3])
        else:
            store[new_of[old]] = [1, [new_of[k] for k in nd[1]]]; meta[new_of[old]] = (False, nd[2])
    return store, meta

def split_counts(rng, n, mx):
    out = []
    while n > 0:
        c = rng.randint(1, min(mx, n)); out.append(c); n -= c
    return out

class C10(Prop):
    ID = "C10"
    THEOREMS = ["C10_search_any_tree", "C10_search_any_tree_keyed", "C10_endianness", "C10_endianness_fields", "C10_sections",
                "C10_sections_fixed_step", "C10_sections_var_step", "C10_zoom_block", "C10_bed_block", "C10_chrom_tree", "C10_reads_emit",
                "C10_cached_reads_emit", "C10_cached_reads_emit_from", "C10_cached_reads_emit_bed"]
    # the CLI tools are run in the thorough tier only; quick never waits for their build
    NEED_BINS = ("thorough" in sys.argv) or os.environ.get("VERIF_TIER") == "thorough"
    RULE = ("files emitted by the independent encoder over {little, big endian} x {zlib, raw} x {section types 1/2/3 mixed} x "
            "{chromosome tree: single leaf / uniform fan-out 2,3,5 / uneven / chains, key width slack} x {R-tree per index: single leaf / "
            "uniform fan-out 2,3,5,256 / uneven depth / single-child chains, node numbering scrambled} x {piece placement: canonical / "
            "index first / fully shuffled / an inner node last in the file; gaps 0..9 with filler 0x00 or 0xAA} x {version 1..4} x "
            "{with, without total summary} x {0..3 zoom levels, blocks crossing chromosomes} x {bigWig, bigBed} x reader "
            "{BigWigRead, BigBedRead, GenericBBIRead} x {plain, cached}; queries: info, summary, whole-chromosome and boundary +-1 "
            "intervals, per-base windows, every zoom level and a missing one, unknown chromosome, repeated queries on cached readers; "
            "non-trivial = at least 2 data blocks; distinct = distinct case text")
    CORRESPONDENCE = ("answers of BigWigRead/BigBedRead/GenericBBIRead (plain and .cached()) on the encoder's bytes = "
                      "Model/BBIRead.v + Model/ReadBed_C10.v answers on the same bytes")
    TRUSTED = ["Python zlib (deflates the raw block payloads the encoder lists; the encoder places the stored bytes)",
               "verif_hooks accessors for private header fields"]
    ASSUMPTIONS = ["no NaN payloads and no -0.0 among generated floats (NaN is 'missing' in values(); sign of zero not modelled)",
                   "BED text is ASCII", "positions stay far below 2^32 (u32 overflow of start+span / start+step is not exercised)",
                   "the cached reader is modelled by the stateless reader (equality of the two is part of what is compared)"]
    PER_CASE_TIMEOUT = 30.0

    # ------------------------------------------------------------ content
    def gen_bigwig_data(self, rng, chroms):
        vals = []; secs = []
        for (name, cid, clen) in sorted(chroms, key=lambda c: c[1]):
            if rng.random() < 0.12:
                continue
            pos = rng.choice([0, 0, 1, 5])
            for _ in range(rng.choice([1, 1, 2, 3, 4])):
                kind = rng.choice([1, 1, 2, 3, 3])
                n = rng.choice([1, 1, 2, 3, 5, 8])
                items = []
                if kind == 3:
                    span = rng.choice([1, 2, 5]); step = span + rng.choice([0, 0, 1, 7])
                    for i in range(n):
                        items.append((pos + i * step, pos + i * step + span))
                    pos = items[-1][1]
                elif kind == 2:
                    span = rng.choice([1, 3, 10])
                    for i in range(n):
                        pos += rng.choice([0, 0, 1, 4, 30])
                        items.append((pos, pos + span)); pos += span
                else:
                    for i in range(n):
                        pos += rng.choice([0, 0, 1, 4, 30])
                        ln = rng.choice([0, 1, 1, 2, 10, 50])
                        items.append((pos, pos + ln)); pos += ln
                ty = kind if rng.random() < 0.8 else rng.choice([t for t in (1, 2, 3) if t <= kind])
                for (s, e) in items:
                    vals.append([cid, s, e, rand_f32(rng)])
                secs.append([len(items), ty])
                pos += rng.choice([0, 0, 2, 100])
            clen = max(clen, pos)
            chroms[[c[0] for c in chroms].index(name)] = (name, cid, clen)
        return vals, secs

    def gen_bed_data(self, rng, chroms):
        beds = []; secs = []
        for (name, cid, clen) in sorted(chroms, key=lambda c: c[1]):
            if rng.random() < 0.12:
                continue
            n = rng.choice([1, 2, 3, 5, 9])
            pos = rng.choice([0, 0, 3])
            mine = []
            for i in range(n):
                pos += rng.choice([0, 0, 1, 5, 40])
                ln = rng.choice([0, 1, 5, 30, 200])
                if pos == 0 and ln == 0:
                    ln = 1
                rest = rng.choice([b"", b"n1", b"item\t960\t+", b"x\t0\t-\t5\t9\t255,0,0", b"a b"])
                mine.append([cid, pos, pos + ln, list(rest)])
            clen = max(clen, max(b[2] for b in mine))
            chroms[[c[0] for c in chroms].index(name)] = (name, cid, clen)
            beds += mine
            secs += [[c, 0] for c in split_counts(rng, len(mine), rng.choice([1, 2, 4]))]
        return beds, secs

    def gen_zooms(self, rng, chroms, nlev):
        zooms = []; zsecs = []
        res = rng.choice([1, 4, 10])
        for k in range(nlev):
            recs = []
            for (name, cid, clen) in sorted(chroms, key=lambda c: c[1]):
                p = 0
                for _ in range(rng.choice([0, 1, 2, 3])):
                    p += rng.choice([0, 0, res])
                    recs.append([cid, p, p + res, rng.randint(1, res), rand_f32(rng), rand_f32(rng), rand_f32(rng), rand_f32(rng)])
                    p += res
            zooms.append([res, recs])
            zsecs.append(split_counts(rng, len(recs), rng.choice([1, 2, 3, 100])))
            res *= rng.choice([2, 4])
        return zooms, zsecs

    # ------------------------------------------------------------ one abstract case
    def one(self, rng, force=None):
        force = force or {}
        bigwig = force.get("bigwig", rng.random() < 0.7)
        nchrom = rng.choice([1, 1, 2, 3, 4, 6])
        names = sorted(rng.sample(NAMES, nchrom), key=lambda s: s.encode())
        idstyle = rng.choice(["rank", "rank", "offset", "perm"])
        ids = list(range(nchrom))
        if idstyle == "offset":
            ids = [i + 3 for i in ids]
        elif idstyle == "perm":
            rng.shuffle(ids)
        chroms = [(names[i], ids[i], rng.choice([50, 1000, 100000])) for i in range(nchrom)]
        if bigwig:
            vals, secs = self.gen_bigwig_data(rng, chroms); beds = []
        else:
            beds, secs = self.gen_bed_data(rng, chroms); vals = []
        version = rng.choice([1, 2, 3, 4, 4])
        has_summary = version >= 2 and rng.random() < 0.85
        summary = [[rng.randint(0, 10 ** 6)] + [f64bits(rng.choice(NICE[:13])) for _ in range(4)]] if has_summary else []
        nlev = rng.choice([0, 0, 1, 2, 3])
        zooms, zsecs = self.gen_zooms(rng, chroms, nlev)
        content = [bigwig, [[list(n.encode()), i, l] for (n, i, l) in chroms], vals, beds, summary, zooms,
                   0 if bigwig else rng.choice([3, 6, 12]), 0 if bigwig else 3]
        # ---- layout
        big = rng.random() < 0.5
        compress = version >= 3 and rng.random() < 0.6
        fill = rng.choice([0, 0, 0xAA])
        ckey = max(len(n) for n in names) + rng.choice([0, 0, 1, 3])
        tags = ["big-endian" if big else "little-endian", "zlib" if compress else "raw", f"v{version}",
                "bigWig" if bigwig else "bigBed", f"zooms={nlev}", "summary" if has_summary else "no-summary", f"ids-{idstyle}"]
        cstyle = rng.choice(["single", "single", "uniform", "random", "chain"])
        cb = rng.choice([2, 3, 5])
        cstore, _ = number_nodes(rng, tree_shape(rng, nchrom, cstyle, cb), rng.random() < 0.5)
        tags.append(f"chromtree-{cstyle}" + ("-multilevel" if len(cstore) > 1 else ""))
        nblocks = [len(secs)] + [len(z) for z in zsecs]
        trees = []; metas = []
        for t, nb in enumerate(nblocks):
            style = force.get("rstyle") or rng.choice(["single", "uniform", "uniform", "random", "chain"])
            b = rng.choice([2, 2, 3, 5, 256])
            store, meta = number_nodes(rng, tree_shape(rng, nb, style, b), rng.random() < 0.6)
            trees.append(store); metas.append(meta)
            if t == 0:
                tags.append(f"rtree-{style}"); tags.append("rtree-depth=%d" % (1 + max(m[1] for m in meta)))
        extra = [list(b"table t\n\"x\"\n(\n)\n\0"), [rng.randrange(256) for _ in range(rng.choice([1, 7, 33]))]]
        asql = [0] if (not bigwig and rng.random() < 0.5) else []
        # pieces
        P_SUM, P_CNT, P_ZC, P_CH, P_BL, P_ND, P_EX = 0, 1, 2, 3, 4, 5, 6
        canon = []
        if has_summary: canon.append([P_SUM])
        if asql: canon.append([P_EX, 0])
        canon += [[P_CH, i] for i in range(len(cstore))]
        canon.append([P_CNT])
        canon += [[P_BL, 0, i] for i in range(nblocks[0])]
        canon += [[P_ND, 0, i] for i in range(len(trees[0]))]
        for k in range(nlev):
            canon.append([P_ZC, k])
            canon += [[P_BL, k + 1, i] for i in range(nblocks[k + 1])]
            canon += [[P_ND, k + 1, i] for i in range(len(trees[k + 1]))]
        place = force.get("place") or rng.choice(["canonical", "canonical", "index-first", "shuffled", "shuffled", "nonleaf-last"])
        order = list(canon)
        if place == "index-first":
            idx = [p for p in order if p[0] == P_ND]; rest = [p for p in order if p[0] != P_ND]
            order = idx + rest
        elif place in ("shuffled", "nonleaf-last"):
            rng.shuffle(order)
            if rng.random() < 0.5:
                order.insert(rng.randrange(len(order) + 1), [P_EX, 1])
        gaps_on = rng.random() < 0.4
        order = [[p, (rng.choice([0, 0, 1, 3, 9]) if gaps_on else 0)] for p in order]
        if place == "nonleaf-last":
            inner = [[P_ND, t, i] for t in range(len(trees)) for i, m in enumerate(metas[t]) if not m[0]]
            if inner:
                last = rng.choice(inner)
                order = [pg for pg in order if pg[0] != last] + [[last, rng.choice([0, 0, 2])]]
                tags.append("inner-node-at-eof")
        tags.append(f"place-{place}" + ("-gaps" if gaps_on else ""))
        layout = [big, compress, version, fill, secs, zsecs, ckey, cb, cstore, rng.choice([2, 256, 1024]), trees, asql, extra, order]
        # ---- reader
        r = rng.random()
        kind = 2 if r < 0.3 else ((0 if bigwig else 1) if r < 0.95 else (1 if bigwig else 0))
        cached = rng.random() < 0.5
        tags.append(["BigWigRead", "BigBedRead", "GenericBBIRead"][kind] + ("-cached" if cached else ""))
        if kind != 2 and (kind == 0) != bigwig:
            tags.append("wrong-reader")
        # ---- queries
        qs = [[4], [3]]
        items = vals if bigwig else beds
        for (n, cid, clen) in chroms:
            nm = list(n.encode())
            qs.append([0, nm, 0, clen])
            mine = [v for v in items if v[0] == cid]
            pts = set()
            for v in rng.sample(mine, min(len(mine), 3)):
                for p in (v[1] - 1, v[1], v[1] + 1, v[2] - 1, v[2], v[2] + 1):
                    if p >= 0: pts.add(p)
            pts = sorted(pts)
            for p in rng.sample(pts, min(len(pts), 5)):
                q = rng.choice([[p, p], [p, p + 1], [0, p], [p, clen + 5], [p, p + rng.choice([2, 10, 100])]])
                qs.append([0, nm] + q)
                if bigwig and rng.random() < 0.5:
                    s = max(0, p - rng.choice([0, 1, 3])); qs.append([1, nm, s, s + rng.choice([0, 1, 5, 40])])
            for (res, recs) in zooms:
                qs.append([2, nm, 0, clen, res])
                mz = [z for z in recs if z[0] == cid]
                for z in rng.sample(mz, min(len(mz), 2)):
                    p = rng.choice([z[1], z[2], z[1] + 1, max(0, z[1] - 1), z[2] + 1])
                    qs.append([2, nm, p, p + rng.choice([0, 1, res]), res])
            if rng.random() < 0.3:
                qs.append([2, nm, 0, clen, 7777])
        qs.append([0, list(b"nochrom"), 0, 10])
        if zooms:
            qs.append([2, list(b"nochrom"), 0, 10, zooms[0][0]])
        if cached:
            qs = qs + rng.sample(qs, min(len(qs), 6))      # a history: repeated queries hit the caches
        return [layout, content, qs, [], [kind, cached]], tags

    # ------------------------------------------------------------ compression pass
    def finish(self, cases):
        """cases: list of (python case, tags); fills the table raw -> zlib(raw) for compressed layouts"""
        need = [i for i, (c, _) in enumerate(cases) if c[0][1]]
        if need:
            outs = core.run_model(self.ID, 3, [sx(cases[i][0]) for i in need])
            for i, o in zip(need, outs):
                raws = parse_sx(o)
                seen = set(); tab = []
                for raw in raws:
                    key = bytes(raw)
                    if key in seen: continue
                    seen.add(key)
                    tab.append([raw, list(zlib.compress(key, cases[i][0][0][2] + 2))])
                cases[i][0][3] = tab
        out = [(sx(c), tags) for c, tags in cases]
        wf = core.run_model(self.ID, 4, [c for c, _ in out])
        self.outside_wf = [c for (c, _), w in zip(out, wf) if w.strip() != "1"]
        self.wf_total = len(out)
        for (c, tags), w in zip(out, wf):
            tags.append("wf_b" if w.strip() == "1" else "OUTSIDE-wf_b")
        return out

    def gen(self, rng, tier):
        n = 300 if tier == "quick" else 6000
        cases = []
        # directed: an inner R-tree node as the very last bytes of the file (D10)
        for i in range(6 if tier == "quick" else 60):
            cases.append(self.one(rng, {"place": "nonleaf-last", "rstyle": rng.choice(["uniform", "random", "chain"]), "bigwig": i % 3 != 2}))
        for i in range(n):
            cases.append(self.one(rng))
        for c in self.finish(cases):
            yield c

    # ------------------------------------------------------------ implementation side
    def impl_outputs(self, lines):
        files = core.run_model(self.ID, 2, lines)
        hl = []
        for line, f in zip(lines, files):
            c = parse_sx(line)
            hl.append("(%d %d %s %s)" % (c[4][0], 1 if c[4][1] else 0, f, sx(c[2])))
        return core.run_impl(self.HARNESS or self.ID, hl, per_case_timeout=self.PER_CASE_TIMEOUT)

    def nontrivial(self, case, tags):
        return "corpus" in tags or not any(t in ("wrong-reader",) for t in tags)

    def shrink_candidates(self, case):
        c = parse_sx(case)
        qs = c[2]
        for i in range(len(qs)):
            if len(qs) > 1:
                d = [list(x) if isinstance(x, list) else x for x in c]
                d[2] = qs[:i] + qs[i + 1:]
                yield sx(d)

    # ------------------------------------------------------------ extra: wf of every generated case; CLI tools
    def extra_checks(self, ctx):
        res = []
        tier = ctx["tier"]
        bad = getattr(self, "outside_wf", [])
        total = getattr(self, "wf_total", 0)
        res.append(("stat", "generated cases meeting the theorems' hypothesis wf_b", f"{total - len(bad)}/{total}"))
        if bad:
            res.append(("nofail", "generator produced a case outside wf_b",
                        {"property": self.ID, "kind": "generator-outside-hypothesis", "case": bad[0],
                         "theorem_or_correspondence": "every generated case must satisfy wf_b (the hypothesis of C10_reads_emit)"}))
        if tier == "thorough":
            rng = __import__("random").Random(ctx["seed"] + 101)
            cases = self.finish([self.one(rng) for _ in range(150)])
            res += self.cli_checks([c for c, _ in cases])
        return res

    def cli_checks(self, lines):
        """bigwigtobedgraph / bigbedtobed / bigwiginfo on emitted files; expected text from the content"""
        out = []
        files = core.run_model(self.ID, 2, lines)
        nrun = 0; bad = None
        with tempfile.TemporaryDirectory(prefix="c10cli") as d:
            for n, (line, f) in enumerate(zip(lines, files)):
                c = parse_sx(line); content = c[1]
                path = os.path.join(d, f"f{n}.bb")
                open(path, "wb").write(bytes(parse_sx(f)))
                bigwig = bool(content[0])
                chroms = sorted(content[1], key=lambda ch: bytes(ch[0]))
                name_of = {ch[1]: bytes(ch[0]).decode() for ch in content[1]}
                outp = os.path.join(d, f"o{n}.txt")
                if bigwig:
                    tool = "bigwigtobedgraph"
                    exp = []
                    for ch in chroms:
                        for v in content[2]:
                            # the whole-chromosome read [0, len): kept iff 0 < end and start < len (zero-length values strictly
                            # inside are kept), clipped to the chromosome
                            if v[0] == ch[1] and v[2] > 0 and v[1] < ch[2]:
                                exp.append((name_of[v[0]], v[1], min(v[2], ch[2]), struct.unpack("<f", struct.pack("<I", v[3]))[0]))
                else:
                    tool = "bigbedtobed"
                    exp = []
                    for ch in chroms:
                        for b in content[3]:
                            if b[0] == ch[1] and b[1] <= ch[2]:
                                exp.append((name_of[b[0]], b[1], b[2], bytes(b[3]).decode()))
                p = subprocess.run([os.path.join(core.BINS_DIR, tool), path, outp], stdout=subprocess.PIPE, stderr=subprocess.STDOUT, timeout=60)
                nrun += 1
                got = []
                if p.returncode == 0 and os.path.exists(outp):
                    for l in open(outp).read().split("\n"):
                        if not l: continue
                        fs = l.split("\t", 3)
                        if bigwig:
                            got.append((fs[0], int(fs[1]), int(fs[2]), float(fs[3])))
                        else:
                            got.append((fs[0], int(fs[1]), int(fs[2]), fs[3] if len(fs) > 3 else ""))
                if bigwig and p.returncode == 0:
                    pi = subprocess.run([os.path.join(core.BINS_DIR, "bigwiginfo"), path, "--chroms", "--zooms"],
                                        stdout=subprocess.PIPE, stderr=subprocess.STDOUT, timeout=60)
                    nrun += 1
                    txt = pi.stdout.decode(errors="replace")
                    lay = c[0]
                    want = ["version: %d" % lay[2], "isCompressed: %s" % ("yes" if lay[1] else "no"), "isSwapped: %d" % (1 if lay[0] else 0),
                            "zoomLevels: %d" % len(content[5]), "chromCount: %d" % len(content[1])]
                    want += ["\t%s %d %d" % (bytes(ch[0]).decode(), ch[1], ch[2]) for ch in content[1]]
                    if pi.returncode != 0 or any(w not in txt.split("\n") for w in want):
                        if bad is None:
                            bad = (line, "bigwiginfo", txt[-600:], [l for l in txt.split("\n")][:12], want)
                ok = p.returncode == 0 and len(got) == len(exp) and all(
                    g[:3] == e[:3] and (g[3] == e[3] or (bigwig and abs(g[3] - e[3]) <= 1e-6 * max(1.0, abs(e[3])))) for g, e in zip(got, exp))
                if not ok and bad is None:
                    bad = (line, tool, p.stdout.decode(errors="replace")[-400:], got[:5], exp[:5])
        out.append(("stat", "CLI tool runs on emitted files (bigwigtobedgraph / bigbedtobed)", nrun))
        if bad:
            out.append(("violation", "CLI tool output differs from the encoded content",
                        {"property": self.ID, "kind": "failing-input", "case": bad[0], "tool": bad[1], "tool_output": bad[2],
                         "got_first": repr(bad[3]), "expected_first": repr(bad[4])}))
        return out

PROP = C10()
