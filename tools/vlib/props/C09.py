"""C09: every written file is well-formed for an independent decoder (Spec/FormatDecode.v).

Implementation side, per case: (1) the harness writes a real file with the real writer and prints its
bytes; (2) optional corruption of one field (sanity stream); (3) pass A: the extracted decoder lists the
(offset,size) byte ranges of all blocks from the indices; (4) Python zlib, which knows nothing about the
format, inflates exactly those ranges and checks each is one complete standard zlib stream; (5) pass B:
the extracted decoder decodes the file with that table.  The resulting line is compared with the model
line (decoder on the writer MODEL's bytes) and judged by the oracle (naive recomputation from the case)."""
import re, struct, zlib
from ..runner import Prop
from .. import bbigen, core
from ..core import sx, parse_sx

try:
    from .. import bedgen
except Exception:          # the bigBed generator is being written by someone else
    bedgen = None

CORRUPT_KINDS = {
    0: "header.version+1", 1: "header.zoomLevels+1", 2: "header.chromTreeOffset+4", 3: "header.fullDataOffset+8",
    4: "header.fullIndexOffset+4", 5: "header.totalSummaryOffset+8", 6: "header.uncompressBufSize flipped",
    7: "chromTree.magic", 8: "chromTree.keySize+1", 9: "chromTree.itemCount+1", 10: "chromTree.node.count+1",
    11: "chromTree.valSize+4", 12: "index.magic", 13: "index.blockSize=0", 14: "index.itemCount+1",
    15: "index.startBase+1", 16: "index.endBase-1", 17: "index.itemsPerSlot=0", 18: "index.root.count+1",
    19: "index.root.item0.startBase+1", 20: "index.root.item0.offset+8", 21: "index.root.item0.endBase-1",
    22: "dataCount+1", 23: "trailing magic", 24: "zoom0.reductionLevel=0", 25: "zoom0.dataOffset+1",
    26: "zoom0.indexOffset+4", 27: "zoom0.reserved=1", 28: "block0.itemCount+1 (uncompressed bigWig)",
    29: "block0.chromId+1 (uncompressed)", 30: "index.root.item0.size-1", 31: "zoom0 index.root.item0.offset-1",
}

def _add(b, off, w, delta=None, value=None):
    if off < 0 or off + w > len(b):
        return None
    old = int.from_bytes(b[off:off + w], "little")
    new = value if value is not None else old + delta
    if new < 0 or new >= 1 << (8 * w) or new == old:
        return None
    b[off:off + w] = new.to_bytes(w, "little")
    return b

def corrupt(data, kind):
    """one field of a real file changed; None when the field does not exist in this file"""
    b = bytearray(data)
    if len(b) < 64:
        return None
    (magic, ver, nz, ct, do, ix, fc, dfc, asql, so, ubuf, ext) = struct.unpack("<IHHQQQHHQQIQ", bytes(b[:64]))
    if kind == 0: return _add(b, 4, 2, 1)
    if kind == 1: return _add(b, 6, 2, 1)
    if kind == 2: return _add(b, 8, 8, 4)
    if kind == 3: return _add(b, 16, 8, 8)
    if kind == 4: return _add(b, 24, 8, 4)
    if kind == 5: return _add(b, 44, 8, 8)
    if kind == 6: return _add(b, 52, 4, value=(1 if ubuf else 7))
    if kind == 7: return _add(b, ct, 4, 1)
    if kind == 8: return _add(b, ct + 8, 4, 1)
    if kind == 9: return _add(b, ct + 16, 8, 1)
    if kind == 10: return _add(b, ct + 34, 2, 1)
    if kind == 11: return _add(b, ct + 12, 4, 4)
    if kind == 12: return _add(b, ix, 4, 1)
    if kind == 13: return _add(b, ix + 4, 4, value=0)
    if kind == 14: return _add(b, ix + 8, 8, 1)
    if kind == 15: return _add(b, ix + 20, 4, 1)
    if kind == 16: return _add(b, ix + 28, 4, -1)
    if kind == 17: return _add(b, ix + 40, 4, value=0)
    if kind == 18: return _add(b, ix + 50, 2, 1)
    if kind == 19: return _add(b, ix + 52 + 4, 4, 1)
    if kind == 20: return _add(b, ix + 52 + 16, 8, 8 if b[ix + 48] == 1 else 4)
    if kind == 21: return _add(b, ix + 52 + 12, 4, -1)
    if kind == 22: return _add(b, do, 8, 1)
    if kind == 23: return _add(b, len(b) - 4, 4, 1)
    if kind in (24, 25, 26, 27, 31):
        if nz == 0: return None
        if kind == 24: return _add(b, 64, 4, value=0)
        if kind == 25: return _add(b, 72, 8, 1)
        if kind == 26: return _add(b, 80, 8, 4)
        if kind == 27: return _add(b, 68, 4, value=1)
        zix = int.from_bytes(b[80:88], "little")
        return _add(b, zix + 52 + 16, 8, -1)
    if kind == 28:
        if ubuf or magic != 0x888FFC26: return None
        return _add(b, do + 8 + 22, 2, 1)
    if kind == 29:
        if ubuf: return None
        return _add(b, do + 8, 4, 1)
    if kind == 30:
        if b[ix + 48] != 1: return None
        return _add(b, ix + 52 + 24, 8, -1)
    return None

_CORR = re.compile(r"\(\((\d+) (\d+) (-?\d+)\)\)\)$")
_COMP = re.compile(r"^\(\d+ \((\d+) ")

def bytes_sx(b):
    return "(" + " ".join(map(str, b)) + ")"

class C09(Prop):
    ID = "C09"
    THEOREMS = ["C09_header_codec", "C09_zoom_directory_codec", "C09_summary_codec", "C09_section_codec", "C09_zoom_record_codec", "C09_zoom_section_codec", "C09_chrom_tree_codec", "C09_rtree_codec", "C09_buf_size", "C09_buf_size_multipass", "C09_model_uncompressed", "C09_decode_encode", "C09_decode_encode_multipass", "C09_decode_encode_compressed", "C09_decode_encode_compressed_multipass", "C09_decode_encode_lenient", "C09_records_are_input", "C09_ids_first_appearance", "C09_summary_is_folded", "C09_chrom_keys_refuted",
                "C09_bb_block_codec", "C09_bb_decode_encode", "C09_bb_decode_encode_multipass", "C09_bb_decode_encode_lenient", "C09_bb_records_are_input", "C09_bb_outs_are_runs", "C09_bb_blocks", "C09_bb_summary_is_sweep", "C09_bb_level_is_records", "C09_bb_zoom_sections_sized", "C09_bb_summary_statistics", "C09_bb_level_statistics"]
    RULE = ("bbi cases (bigWig: bbigen.bw_case; bigBed: bedgen.bed_case): 1-6 chromosomes, layouts from the grammars, "
            "compress x items_per_slot{1,2,3,7,1024} x block_size{2,3,4,5,256} x zoom modes (automatic, manual incl. odd lists, none) x "
            "single/two pass; 'nice' cases use small dyadic values so that summary and zoom statistics are compared exactly; "
            "a corruption stream changes one header / tree / index / block field of a real file (decoder must answer None); "
            "non-trivial = accepted input with at least 2 records; distinct = distinct case text")
    CORRESPONDENCE = ("Spec/FormatDecode.decode on the real file (blocks inflated by Python zlib on the ranges pass A asks for) = "
                      "decode on the bytes of the writer model (Model/BigWigWriteZ.v, Model/BigBedWrite.v); uncompressed: real bytes = model bytes")
    TRUSTED = ["Python zlib (inflates the byte ranges the decoder asks for, checks each is one complete zlib stream)",
               "tools/vlib/props/C09.py glue (pass A -> zlib -> pass B; corruption of single fields)"]
    ASSUMPTIONS = ["f32 -0.0 / NaN are not generated (the sign of zero is not modelled)",
                   "statistics are compared only on values for which the implementation's f64 arithmetic is exact"]
    PER_CASE_TIMEOUT = 30.0

    def __init__(self):
        self.corr_stats = {}
        self.undetected = []
        self.zlib_blocks = 0
        self.zlib_bad = 0          # in uncorrupted files
        self.zlib_bad_corrupted = 0

    # ------------------------------------------------------------------ generation
    def gen(self, rng, tier):
        nbw, nbed, ncorr = (260, 160, 200) if tier == "quick" else (5000, 3000, 3000)
        base = []
        for i in range(nbw):
            fmode = rng.choice(["nice", "nice", "mixed", "any"])
            comp = rng.choice([0, 0, 1])
            text, tags = bbigen.bw_case(rng, tier, fmode=fmode, compress=comp, extra_queries=False)
            c = parse_sx(text); c[4] = []
            self.cap_zoom(c)
            nice = 1 if fmode == "nice" else 0
            base.append((0, c, nice))
            yield sx([0, c, nice, []]), ["bigwig", "nice=%d" % nice] + tags
        if bedgen is not None:
            for i in range(nbed):
                comp = rng.choice([0, 0, 1])
                text, tags = bedgen.bed_case(rng, tier, compress=comp, small_index=(i % 3 == 0))
                c = parse_sx(text); c[4] = []; c[6] = 0
                self.cap_zoom(c)
                base.append((1, c, 1))
                yield sx([1, c, 1, []]), ["bigbed", "nice=1"] + tags
        kinds = sorted(CORRUPT_KINDS)
        for i in range(ncorr):
            ft, c, nice = rng.choice(base)
            k = kinds[i % len(kinds)]
            yield sx([ft, c, nice, [[k, 0, 0]]]), ["corrupt", "corrupt:" + CORRUPT_KINDS[k]]

    @staticmethod
    def cap_zoom(c):
        """keep files small (the extracted decoder reads a byte list): a manual zoom size that would give more than
        ~1500 records for the longest chromosome is raised"""
        o = c[1]
        longest = max(s[1] for s in c[2])
        if o[5] and o[5][0]:
            lo = max(1, longest // 1500)
            o[5] = [[z if (z == 0 or z >= lo) else lo + z for z in o[5][0]]]
        elif not o[5] and o[3] * 1500 < longest:
            o[3] = longest // 1500

    def nontrivial(self, case, tags):
        return "corrupt" not in tags and case.count("(") > 14

    # ------------------------------------------------------------------ implementation side
    def impl_outputs(self, lines):
        raw = core.run_impl(self.HARNESS or self.ID, lines, per_case_timeout=self.PER_CASE_TIMEOUT)
        n = len(lines)
        files = [None] * n
        final = [None] * n
        for i, (line, out) in enumerate(zip(lines, raw)):
            out = out.strip()
            if out.startswith("(0 "):
                data = bytes(parse_sx(out)[1])
                m = _CORR.search(line)
                if m:
                    kind = int(m.group(1))
                    st = self.corr_stats.setdefault(kind, [0, 0, 0])   # applied, detected, not applicable
                    cd = corrupt(data, kind)
                    if cd is None:
                        st[2] += 1
                        final[i] = "(0 () 1 (1) ())"      # nothing to corrupt in this file: counted as n/a
                        continue
                    st[0] += 1
                    data = bytes(cd)
                files[i] = data
            else:
                final[i] = out
        idx = [i for i in range(n) if files[i] is not None]
        a_in = ["(" + bytes_sx(files[i]) + ")" for i in idx]
        a_out = core.run_model(self.ID, 2, a_in) if idx else []
        b_idx = []; b_in = []; zoks = {}
        for i, ao in zip(idx, a_out):
            ao = ao.strip()
            zoks[i] = 1
            if not ao.startswith("(0 "):
                final[i] = self.line(lines[i], files[i], 1, "(1)" if ao == "(1)" else ao, 0)
                continue
            p = parse_sx(ao)
            ubuf, ranges = p[1], p[2]
            table = []
            if ubuf > 0:
                for off, size in ranges:
                    self.zlib_blocks += 1
                    blk = files[i][off:off + size]
                    try:
                        d = zlib.decompressobj()
                        outb = d.decompress(blk)
                        ok = d.eof and not d.unused_data and len(blk) == size
                    except zlib.error:
                        ok = False
                    if ok:
                        table.append("(%d %d %s)" % (off, size, bytes_sx(outb)))
                    else:
                        zoks[i] = 0
                        if _CORR.search(lines[i]): self.zlib_bad_corrupted += 1
                        else: self.zlib_bad += 1
            b_idx.append(i)
            b_in.append("(" + bytes_sx(files[i]) + " (" + " ".join(table) + "))")
        b_out = core.run_model(self.ID, 3, b_in) if b_idx else []
        # strict decoding failed on an uncorrupted file: is the order of the chromosome keys the only defect?
        len_pos = [k for k, (i, bo) in enumerate(zip(b_idx, b_out)) if bo.strip() == "(1)" and not _CORR.search(lines[i])]
        lenient = {}
        if len_pos:
            l_out = core.run_model(self.ID, 4, [b_in[k] for k in len_pos])
            o_in = ["(%s (0 () %d %s))" % (lines[b_idx[k]], zoks[b_idx[k]], lo.strip()) for k, lo in zip(len_pos, l_out)]
            v_out = core.run_model(self.ID, 1, o_in)
            for k, v in zip(len_pos, v_out):
                lenient[b_idx[k]] = 1 if v.strip() == "1" else 0
        for i, bo in zip(b_idx, b_out):
            final[i] = self.line(lines[i], files[i], zoks[i], bo.strip(), lenient.get(i))
        for i, line in enumerate(lines):
            m = _CORR.search(line)
            if m and files[i] is not None:
                kind = int(m.group(1))
                if final[i].endswith("(1) ())"):
                    self.corr_stats[kind][1] += 1
                else:
                    self.undetected.append((CORRUPT_KINDS[kind], line[:300]))
        return final

    @staticmethod
    def line(case, data, zok, decoded, lenient=None):
        if _CORR.search(case):
            return "(0 () 1 %s ())" % ("(1)" if decoded == "(1)" else "(0)")
        inner = case[case.index("(", 1):]
        m = _COMP.match(inner)
        compressed = bool(m and m.group(1) != "0")
        return "(0 %s %d %s %s)" % ("()" if compressed else bytes_sx(data), zok, decoded, "()" if lenient is None else "(%d)" % lenient)

    def same(self, case, impl_out, model_out):
        if _CORR.search(case):
            return True          # corruption stream: no model line
        return impl_out == model_out

    # ------------------------------------------------------------------ findings
    def known_class(self, case, impl_out):
        # the chromosome tree's leaf is written in id (first appearance) order: with input_sort_type = START the
        # keys need not be increasing.  Only when that is the file's ONLY defect (lenient decoder + oracle fine).
        if impl_out.endswith("(1) (1))"):
            c = parse_sx(case)
            names = []
            for it in c[1][3]:
                if bytes(it[0]) not in names: names.append(bytes(it[0]))
            if c[1][1][6] == 0 and names != sorted(names):
                return "chrom-tree-keys-unsorted"
        return None

    def shrink_candidates(self, case):
        c = parse_sx(case)
        inner = c[1]
        items = inner[3]
        names = []
        for it in items:
            if it[0] not in names: names.append(it[0])
        out = []
        if len(names) > 1:
            for nm in names:
                d = [it for it in items if it[0] != nm]
                out.append([c[0], inner[:3] + [d] + inner[4:], c[2], c[3]])
        for k in (len(items) // 2, 1):
            if len(items) > k >= 1:
                for s in range(0, len(items), k):
                    d = items[:s] + items[s + k:]
                    if d: out.append([c[0], inner[:3] + [d] + inner[4:], c[2], c[3]])
        o = inner[1]
        if o[5] not in ([], [[]]):
            out.append([c[0], [inner[0], o[:5] + [[[]]] + o[6:]] + inner[2:], c[2], c[3]])
        return [sx(x) for x in out[:60]]

    def extra_checks(self, ctx):
        res = []
        applied = sum(v[0] for v in self.corr_stats.values())
        detected = sum(v[1] for v in self.corr_stats.values())
        res.append(("stat", "corruptions applied / detected (decoder answered None)", "%d / %d" % (applied, detected)))
        res.append(("stat", "corruptions by kind: applied, detected, field absent",
                    {CORRUPT_KINDS[k]: v for k, v in sorted(self.corr_stats.items())}))
        res.append(("stat", "undetected corruptions (first 10)", self.undetected[:10]))
        res.append(("stat", "zlib blocks inflated by Python / not one complete standard zlib stream: in uncorrupted files, in corrupted files",
                    "%d / %d, %d" % (self.zlib_blocks, self.zlib_bad, self.zlib_bad_corrupted)))
        return res

PROP = C09()
