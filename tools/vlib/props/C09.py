"""C09: every written file is well-formed for an independent decoder (Spec/FormatDecode.v).

Implementation side, per case: (1) the harness writes a real file with the real writer and prints its
bytes; (2) optional corruption of one field (sanity stream); (3) pass Z (driver entry 7), all inside the
extracted Coq code: the decoder lists the (offset,size) byte ranges of all blocks from the indices, inflates
every range with Spec/Inflate.zlib_decode (RFC 1950/1951 in Gallina; a range must be ONE complete zlib
stream) and decodes the file with exactly those blocks; (4) cross-check: Python zlib, which knows nothing
about the format, inflates the same ranges and must agree with the Coq inflater on every block, verdict
and bytes (a disagreement is reported as a broken correspondence).  In the quick tier blocks of more than
QUICK_CAP compressed bytes are inflated by Python only (counted in the evidence); the thorough tier has no
cap.  The resulting line is compared with the model line (decoder on the writer MODEL's bytes) and judged
by the oracle (naive recomputation from the case).  extra_checks runs the Coq inflater on the test vectors
of corpus/C09/zlib-vectors.txt and on a seeded random stream of vectors (props/C09_zlibvec.py)."""
import os, re, struct, time, zlib
from ..runner import Prop
from .. import bbigen, core
from ..core import sx, parse_sx

from . import C09_zlibvec as zvec

QUICK_CAP = int(os.environ.get("VERIF_C09_CAP", "40000"))   # compressed bytes; larger blocks are inflated by Python only in the quick tier

def py_inflate(blk):
    """(ok, bytes): ok iff blk is exactly one complete standard zlib stream"""
    try:
        d = zlib.decompressobj()
        outb = d.decompress(blk)
        return (True, outb) if (d.eof and not d.unused_data) else (False, b"")
    except zlib.error:
        return (False, b"")

try:
    from .. import bedgen
except Exception:          # the bigBed generator is being written by someone else
    bedgen = None

CORRUPT_KINDS = {
    0: "header.version+1", 1: "header.zoomLevels+1", 2: "header.chromTreeOffset+4", 3: "header.fullDataOffset+8",
    4: "header.fullIndexOffset+4", 5: "header.totalSummaryOffset+8", 6: "header.uncompressBufSize flipped",
    7: "chromTree.magic", 8: "chromTree.keySize+1", 9: "chromTree.itemCount+1", 10: "chromTree.node.count+1",
    11: "chromTree.valSize+4", 12: "index.magic", 13: "index.blockSize=0", 14: "index.itemCount+1",
    15: "index.startBase+1", 16: "index.endBase-1", 17: "index.itemsPerSlot=0", 18: "index.root.count+1",
    19: "index.root.item0.startBase+1", 20: "index.root.item0.offset+8", 21: "index.root.item0.endBase-1",
    22: "dataCount+1", 23: "trailing magic", 24: "zoom0.reductionLevel=0", 25: "zoom0.dataOffset+1",
    26: "zoom0.indexOffset+4", 27: "zoom0.reserved=1", 28: "block0.itemCount+1 (uncompressed bigWig)",
    29: "block0.chromId+1 (uncompressed)", 30: "index.root.item0.size-1", 31: "zoom0 index.root.item0.offset-1",
}

def _add(b, off, w, delta=None, value=None):
    if off < 0 or off + w > len(b):
        return None
    old = int.from_bytes(b[off:off + w], "little")
    new = value if value is not None else old + delta
    if new < 0 or new >= 1 << (8 * w) or new == old:
        return None
    b[off:off + w] = new.to_bytes(w, "little")
    return b

def corrupt(data, kind):
    """one field of a real file changed; None when the field does not exist in this file"""
    b = bytearray(data)
    if len(b) < 64:
        return None
    (magic, ver, nz, ct, do, ix, fc, dfc, asql, so, ubuf, ext) = struct.unpack("<IHHQQQHHQQIQ", bytes(b[:64]))
    if kind == 0: return _add(b, 4, 2, 1)
    if kind == 1: return _add(b, 6, 2, 1)
    if kind == 2: return _add(b, 8, 8, 4)
    if kind == 3: return _add(b, 16, 8, 8)
    if kind == 4: return _add(b, 24, 8, 4)
    if kind == 5: return _add(b, 44, 8, 8)
    if kind == 6: return _add(b, 52, 4, value=(1 if ubuf else 7))
    if kind == 7: return _add(b, ct, 4, 1)
    if kind == 8: return _add(b, ct + 8, 4, 1)
    if kind == 9: return _add(b, ct + 16, 8, 1)
    if kind == 10: return _add(b, ct + 34, 2, 1)
    if kind == 11: return _add(b, ct + 12, 4, 4)
    if kind == 12: return _add(b, ix, 4, 1)
    if kind == 13: return _add(b, ix + 4, 4, value=0)
    if kind == 14: return _add(b, ix + 8, 8, 1)
    if kind == 15: return _add(b, ix + 20, 4, 1)
    if kind == 16: return _add(b, ix + 28, 4, -1)
    if kind == 17: return _add(b, ix + 40, 4, value=0)
    if kind == 18: return _add(b, ix + 50, 2, 1)
    if kind == 19: return _add(b, ix + 52 + 4, 4, 1)
    if kind == 20: return _add(b, ix + 52 + 16, 8, 8 if b[ix + 48] == 1 else 4)
    if kind == 21: return _add(b, ix + 52 + 12, 4, -1)
    if kind == 22: return _add(b, do, 8, 1)
    if kind == 23: return _add(b, len(b) - 4, 4, 1)
    if kind in (24, 25, 26, 27, 31):
        if nz == 0: return None
        if kind == 24: return _add(b, 64, 4, value=0)
        if kind == 25: return _add(b, 72, 8, 1)
        if kind == 26: return _add(b, 80, 8, 4)
        if kind == 27: return _add(b, 68, 4, value=1)
        zix = int.from_bytes(b[80:88], "little")
        return _add(b, zix + 52 + 16, 8, -1)
    if kind == 28:
        if ubuf or magic != 0x888FFC26: return None
        return _add(b, do + 8 + 22, 2, 1)
    if kind == 29:
        if ubuf: return None
        return _add(b, do + 8, 4, 1)
    if kind == 30:
        if b[ix + 48] != 1: return None
        return _add(b, ix + 52 + 24, 8, -1)
    return None

_CORR = re.compile(r"\(\((\d+) (\d+) (-?\d+)\)\)\)$")
_COMP = re.compile(r"^\(\d+ \((\d+) ")

def bytes_sx(b):
    return "(" + " ".join(map(str, b)) + ")"

class C09(Prop):
    ID = "C09"
    THEOREMS = ["C09_header_codec", "C09_zoom_directory_codec", "C09_summary_codec", "C09_section_codec", "C09_zoom_record_codec", "C09_zoom_section_codec", "C09_chrom_tree_codec", "C09_rtree_codec", "C09_buf_size", "C09_buf_size_multipass", "C09_model_uncompressed", "C09_decode_encode", "C09_decode_encode_multipass", "C09_decode_encode_compressed", "C09_decode_encode_compressed_multipass", "C09_decode_encode_lenient", "C09_records_are_input", "C09_ids_first_appearance", "C09_summary_is_folded", "C09_chrom_keys_refuted",
                "C09_bb_block_codec", "C09_bb_decode_encode", "C09_bb_decode_encode_multipass", "C09_bb_decode_encode_lenient", "C09_bb_records_are_input", "C09_bb_outs_are_runs", "C09_bb_blocks", "C09_bb_summary_is_sweep", "C09_bb_level_is_records", "C09_bb_zoom_sections_sized", "C09_bb_summary_statistics", "C09_bb_level_statistics",
                "C09_inflate_never_fuel", "C09_zlib_decode_res_total", "C09_inflate_step_consumes", "C09_adler32_closed_form", "C09_adler32_fits_u32", "C09_adler32_streaming", "C09_lz_copy_correct", "C09_length_codes_in_range", "C09_distance_codes_in_range", "C09_huffman_tree_decodes_canonical_code", "C09_huffman_canonical_code_prefix_free", "C09_stored_len_check_is_complement", "C09_zlib_decode_stored", "C09_zlib_store_one_block", "C09_decode_encode_zlib_stored", "C09_decode_encode_zlib_stored_multipass",
                "C09_bb_model_uncompressed", "C09_bb_decode_encode_compressed", "C09_bb_decode_encode_compressed_multipass", "C09_bb_decode_encode_compressed_lenient", "C09_bb_buf_size", "C09_bb_buf_size_multipass", "C09_bb_blocks_fit_of_bounds", "C09_bb_decode_encode_zlib_stored", "C09_bb_decode_encode_zlib_stored_multipass"]
    RULE = ("bbi cases (bigWig: bbigen.bw_case; bigBed: bedgen.bed_case): 1-6 chromosomes, layouts from the grammars, "
            "compress x items_per_slot{1,2,3,7,1024} x block_size{2,3,4,5,256} x zoom modes (automatic, manual incl. odd lists, none) x "
            "single/two pass; 'nice' cases use small dyadic values so that summary and zoom statistics are compared exactly; "
            "a corruption stream changes one header / tree / index / block field of a real file (decoder must answer None); "
            "non-trivial = accepted input with at least 2 records; distinct = distinct case text")
    CORRESPONDENCE = ("Spec/FormatDecode.decode on the real file, every block inflated by Spec/Inflate.zlib_decode inside the extracted code, = "
                      "decode on the bytes of the writer model (Model/BigWigWriteZ.v, Model/BigBedWrite.v); uncompressed: real bytes = model bytes; "
                      "Spec/Inflate.zlib_decode = Python zlib on every block of every file and on the zlib test vectors (verdict and bytes)")
    TRUSTED = ["Python zlib only as a cross-check of Spec/Inflate.v (must agree on every block and test vector); in the quick tier it alone inflates blocks over the size cap",
               "tools/vlib/props/C09.py glue (pass Z, comparison with zlib; corruption of single fields)"]
    ASSUMPTIONS = ["f32 -0.0 / NaN are not generated (the sign of zero is not modelled)",
                   "statistics are compared only on values for which the implementation's f64 arithmetic is exact"]
    PER_CASE_TIMEOUT = 30.0

    def __init__(self):
        self.corr_stats = {}
        self.undetected = []
        self.zlib_blocks = 0
        self.zlib_bad = 0          # in uncorrupted files
        self.zlib_bad_corrupted = 0
        self.tier = "quick"
        self.z = {"coq_blocks": 0, "coq_ok": 0, "coq_refused": 0, "coq_out_bytes": 0, "coq_in_bytes": 0, "over_cap": 0,
                  "agree": 0, "disagree": 0, "largest_block": 0, "pass_z_seconds": 0.0}
        self.z_disagreements = []

    def corpus(self):
        # corpus/C09/zlib-vectors.txt holds zlib streams for extra_checks, not cases
        d = os.path.join(core.VERIF, "corpus", self.ID)
        res = []
        if os.path.isdir(d):
            for f in sorted(os.listdir(d)):
                if f.startswith("zlib-"): continue
                for line in open(os.path.join(d, f)):
                    line = line.strip()
                    if line and not line.startswith("#"):
                        res.append((line, ["corpus"]))
        return res

    # ------------------------------------------------------------------ generation
    def gen(self, rng, tier):
        self.tier = tier
        nbw, nbed, ncorr = (260, 160, 200) if tier == "quick" else (5000, 3000, 3000)
        base = []
        for i in range(nbw):
            fmode = rng.choice(["nice", "nice", "mixed", "any"])
            comp = rng.choice([0, 0, 1])
            text, tags = bbigen.bw_case(rng, tier, fmode=fmode, compress=comp, extra_queries=False)
            c = parse_sx(text); c[4] = []
            self.cap_zoom(c)
            nice = 1 if fmode == "nice" else 0
            base.append((0, c, nice))
            yield sx([0, c, nice, []]), ["bigwig", "nice=%d" % nice] + tags
        if bedgen is not None:
            for i in range(nbed):
                comp = rng.choice([0, 0, 1])
                text, tags = bedgen.bed_case(rng, tier, compress=comp, small_index=(i % 3 == 0))
                c = parse_sx(text); c[4] = []; c[6] = 0
                self.cap_zoom(c)
                base.append((1, c, 1))
                yield sx([1, c, 1, []]), ["bigbed", "nice=1"] + tags
        kinds = sorted(CORRUPT_KINDS)
        for i in range(ncorr):
            ft, c, nice = rng.choice(base)
            k = kinds[i % len(kinds)]
            yield sx([ft, c, nice, [[k, 0, 0]]]), ["corrupt", "corrupt:" + CORRUPT_KINDS[k]]

    @staticmethod
    def cap_zoom(c):
        """keep files small (the extracted decoder reads a byte list): a manual zoom size that would give more than
        ~1500 records for the longest chromosome is raised"""
        o = c[1]
        longest = max(s[1] for s in c[2])
        if o[5] and o[5][0]:
            lo = max(1, longest // 1500)
            o[5] = [[z if (z == 0 or z >= lo) else lo + z for z in o[5][0]]]
        elif not o[5] and o[3] * 1500 < longest:
            o[3] = longest // 1500

    def nontrivial(self, case, tags):
        return "corrupt" not in tags and case.count("(") > 14

    # ------------------------------------------------------------------ implementation side
    def impl_outputs(self, lines):
        raw = core.run_impl(self.HARNESS or self.ID, lines, per_case_timeout=self.PER_CASE_TIMEOUT)
        n = len(lines)
        files = [None] * n
        final = [None] * n
        for i, (line, out) in enumerate(zip(lines, raw)):
            out = out.strip()
            if out.startswith("(0 "):
                data = bytes(parse_sx(out)[1])
                m = _CORR.search(line)
                if m:
                    kind = int(m.group(1))
                    st = self.corr_stats.setdefault(kind, [0, 0, 0])   # applied, detected, not applicable
                    cd = corrupt(data, kind)
                    if cd is None:
                        st[2] += 1
                        final[i] = "(0 () 1 (1) ())"      # nothing to corrupt in this file: counted as n/a
                        continue
                    st[0] += 1
                    data = bytes(cd)
                files[i] = data
            else:
                final[i] = out
        idx = [i for i in range(n) if files[i] is not None]
        cap = QUICK_CAP if self.tier == "quick" else 0
        t0 = time.time()
        def zin(i, extra):
            return "(%s %d (%s) %d)" % (bytes_sx(files[i]), cap, " ".join(extra), 0 if _CORR.search(lines[i]) else 1)
        z_out = core.run_model(self.ID, 7, [zin(i, []) for i in idx]) if idx else []
        parsed = {}
        redo = {}
        for i, zo in zip(idx, z_out):
            zo = zo.strip()
            if not zo.startswith("(0 "):
                final[i] = self.line(lines[i], files[i], 1, "(1)" if zo == "(1)" else zo, 0)
                continue
            p = parse_sx(zo)
            over = [b for b in p[2] if b[2] == 2]
            if over:     # blocks over the cap: Python's bytes are handed to the decoder for these
                ex = []
                for b in over:
                    ok, outb = py_inflate(files[i][b[0]:b[0] + b[1]])
                    if ok: ex.append("(%d %d %s)" % (b[0], b[1], bytes_sx(outb)))
                redo[i] = ex
            parsed[i] = p
        if redo:
            ridx = sorted(redo)
            for i, zo in zip(ridx, core.run_model(self.ID, 7, [zin(i, redo[i]) for i in ridx])):
                parsed[i] = parse_sx(zo.strip())
        self.z["pass_z_seconds"] += time.time() - t0
        pend = []
        for i in idx:
            if i not in parsed: continue
            p = parsed[i]
            corrupted = bool(_CORR.search(lines[i]))
            zok = 1
            for b in p[2]:
                off, size, status = b[0], b[1], b[2]
                blk = files[i][off:off + size]
                ok, outb = py_inflate(blk) if len(blk) == size else (False, b"")
                self.zlib_blocks += 1
                self.z["largest_block"] = max(self.z["largest_block"], size)
                if status == 2:
                    self.z["over_cap"] += 1
                    good = ok
                else:
                    self.z["coq_blocks"] += 1; self.z["coq_in_bytes"] += size
                    good = status == 0
                    if good:
                        self.z["coq_ok"] += 1; self.z["coq_out_bytes"] += len(b[3])
                    else:
                        self.z["coq_refused"] += 1
                    same = (ok and bytes(b[3]) == outb) if status == 0 else (status == 1 and not ok)
                    if same:
                        self.z["agree"] += 1
                    else:
                        self.z["disagree"] += 1
                        self.z_disagreements.append({"case": lines[i][:3000], "offset": off, "size": size, "coq": b[2:4] if status else [0, len(b[3])],
                                                     "python_ok": ok, "python_len": len(outb), "block_hex": blk.hex()[:20000]})
                if not good:
                    zok = 0
                    if corrupted: self.zlib_bad_corrupted += 1
                    else: self.zlib_bad += 1
            decoded = sx(p[3])
            pend.append((i, zok, decoded, sx(p[4][0]) if (decoded == "(1)" and not corrupted and p[4]) else None))
        # strict decoding failed on an uncorrupted file: is the order of the chromosome keys the only defect?
        len_pos = [k for k, e in enumerate(pend) if e[3] is not None]
        lenient = {}
        if len_pos:
            o_in = ["(%s (0 () %d %s))" % (lines[pend[k][0]], pend[k][1], pend[k][3]) for k in len_pos]
            for k, v in zip(len_pos, core.run_model(self.ID, 1, o_in)):
                lenient[pend[k][0]] = 1 if v.strip() == "1" else 0
        for i, zok, decoded, _ in pend:
            final[i] = self.line(lines[i], files[i], zok, decoded, lenient.get(i))
        for i, line in enumerate(lines):
            m = _CORR.search(line)
            if m and files[i] is not None:
                kind = int(m.group(1))
                if final[i].endswith("(1) ())"):
                    self.corr_stats[kind][1] += 1
                else:
                    self.undetected.append((CORRUPT_KINDS[kind], line[:300]))
        return final

    @staticmethod
    def line(case, data, zok, decoded, lenient=None):
        if _CORR.search(case):
            return "(0 () 1 %s ())" % ("(1)" if decoded == "(1)" else "(0)")
        inner = case[case.index("(", 1):]
        m = _COMP.match(inner)
        compressed = bool(m and m.group(1) != "0")
        return "(0 %s %d %s %s)" % ("()" if compressed else bytes_sx(data), zok, decoded, "()" if lenient is None else "(%d)" % lenient)

    def same(self, case, impl_out, model_out):
        if _CORR.search(case):
            return True          # corruption stream: no model line
        return impl_out == model_out

    # ------------------------------------------------------------------ findings
    def known_class(self, case, impl_out):
        # the chromosome tree's leaf is written in id (first appearance) order: with input_sort_type = START the
        # keys need not be increasing.  Only when that is the file's ONLY defect (lenient decoder + oracle fine).
        if impl_out.endswith("(1) (1))"):
            c = parse_sx(case)
            names = []
            for it in c[1][3]:
                if bytes(it[0]) not in names: names.append(bytes(it[0]))
            if c[1][1][6] == 0 and names != sorted(names):
                return "chrom-tree-keys-unsorted"
        return None

    def shrink_candidates(self, case):
        c = parse_sx(case)
        inner = c[1]
        items = inner[3]
        names = []
        for it in items:
            if it[0] not in names: names.append(it[0])
        out = []
        if len(names) > 1:
            for nm in names:
                d = [it for it in items if it[0] != nm]
                out.append([c[0], inner[:3] + [d] + inner[4:], c[2], c[3]])
        for k in (len(items) // 2, 1):
            if len(items) > k >= 1:
                for s in range(0, len(items), k):
                    d = items[:s] + items[s + k:]
                    if d: out.append([c[0], inner[:3] + [d] + inner[4:], c[2], c[3]])
        o = inner[1]
        if o[5] not in ([], [[]]):
            out.append([c[0], [inner[0], o[:5] + [[[]]] + o[6:]] + inner[2:], c[2], c[3]])
        return [sx(x) for x in out[:60]]

    def extra_checks(self, ctx):
        res = []
        applied = sum(v[0] for v in self.corr_stats.values())
        detected = sum(v[1] for v in self.corr_stats.values())
        res.append(("stat", "corruptions applied / detected (decoder answered None)", "%d / %d" % (applied, detected)))
        res.append(("stat", "corruptions by kind: applied, detected, field absent",
                    {CORRUPT_KINDS[k]: v for k, v in sorted(self.corr_stats.items())}))
        res.append(("stat", "undetected corruptions (first 10)", self.undetected[:10]))
        res.append(("stat", "block ranges judged / not one complete standard zlib stream: in uncorrupted files, in corrupted files",
                    "%d / %d, %d" % (self.zlib_blocks, self.zlib_bad, self.zlib_bad_corrupted)))
        z = dict(self.z); z["pass_z_seconds"] = round(z["pass_z_seconds"], 1)
        z["cap_compressed_bytes"] = QUICK_CAP if self.tier == "quick" else "none"
        res.append(("stat", "blocks of real files inflated by the Coq decoder (Spec/Inflate.zlib_decode) and compared with Python zlib, verdict and bytes", z))
        for d in self.z_disagreements[:3]:
            res.append(("nofail", "Spec/Inflate.zlib_decode and Python zlib disagree on a block of a written file",
                        dict(d, property="C09", kind="correspondence-broken",
                             theorem_or_correspondence="Spec/Inflate.zlib_decode = Python zlib on every block range of a written file")))
        res += self.vector_checks(ctx)
        res += self.inflate_theorems()
        return res

    # theorems about Spec/Inflate.v (Proofs/InflateThms.v, pins in Proofs/InflatePins.v): built and audited here
    INFLATE_THEOREMS = ["inflate_never_fuel", "zlib_decode_res_total", "inflate_step_consumes", "adler32_closed_form", "adler32_fits_u32",
                        "adler32_streaming", "lz_copy_correct", "length_codes_in_range", "distance_codes_in_range",
                        "huffman_tree_decodes_canonical_code", "huffman_canonical_code_prefix_free", "stored_len_check_is_complement", "zlib_decode_stored",
                        "zlib_store_one_block", "C09_decode_encode_zlib_stored", "C09_decode_encode_zlib_stored_multipass"]
    def inflate_theorems(self):
        from ..core import sh
        t0 = time.time()
        why = None
        ok, out = core.coq_make(["theories/Proofs/InflateThms.vo", "theories/Proofs/InflatePins.vo"])
        closed = 0
        if not ok:
            why = "Proofs/InflateThms.v or Proofs/InflatePins.v does not build: " + out[-1500:]
        else:
            tmp = os.path.join(core.CACHE, "audit"); os.makedirs(tmp, exist_ok=True)
            f = os.path.join(tmp, "Audit_C09_inflate.v")
            with open(f, "w") as fh:
                fh.write("From BT Require Import Proofs.InflateThms.\n")
                for t in self.INFLATE_THEOREMS:
                    fh.write('Goal True. idtac "@@THM %s". exact I. Qed.\nPrint Assumptions %s.\n' % (t, t))
            rc, out = sh(["timeout", "600", "coqc", "-Q", os.path.join(core.COQ, "theories"), "BT", f], cwd=tmp)
            if rc != 0:
                why = "audit of Proofs/InflateThms.v did not compile: " + out[-1500:]
            else:
                parts = out.split("@@THM ")[1:]
                closed = sum(1 for q in parts if "Closed under the global context" in q)
                notclosed = [q.split("\n")[0].strip() for q in parts if "Closed under the global context" not in q]
                if len(parts) != len(self.INFLATE_THEOREMS) or notclosed:
                    why = "not closed under the global context: %s" % notclosed
        res = [("stat", "theorems about Spec/Inflate.v built, pinned and closed under the global context; seconds",
                "%d of %d; %.1f" % (closed, len(self.INFLATE_THEOREMS), time.time() - t0))]
        if why:
            res.append(("nofail", "theorems about Spec/Inflate.v", {"property": "C09", "kind": "proof-or-build-broken",
                                                                     "theorem_or_correspondence": "Proofs/InflateThms.v", "problems": why}))
        return res

    def vector_checks(self, ctx):
        """the Coq inflater against Python zlib on the fixed test vectors, on a seeded random stream of vectors, and
        Python zlib on the output of the stored-block encoder of the round-trip theorem"""
        import random
        res = []
        t0 = time.time()
        path = os.path.join(core.VERIF, "corpus", self.ID, "zlib-vectors.txt")
        fixed = zvec.load_corpus(path)
        rng = random.Random(1000003 * int(ctx.get("seed", 0)) + 17)
        rnd = zvec.random_vectors(rng, 400 if ctx.get("tier") == "quick" else 6000)
        allv = [(k, s) for k, _, _, _, s in fixed] + rnd
        outs = core.run_model(self.ID, 8, [bytes_sx(s) for _, s in allv])
        stale = []; bad = []; accepted = 0; classes = {}
        for k, (kind, ok0, n0, a0, s) in enumerate(fixed):
            ok, outb = py_inflate(s)
            if int(ok) != ok0 or len(outb) != n0 or (zlib.adler32(outb) if ok else 1) != a0:
                stale.append(kind)
        for (kind, s), o in zip(allv, outs):
            o = o.strip()
            ok, outb = py_inflate(s)
            accepted += ok
            if ok: good = (o == "(0 %s)" % bytes_sx(outb))
            else:
                good = o.startswith("(1 ")
                if good: classes[o] = classes.get(o, 0) + 1
            if not good:
                bad.append({"vector": kind, "stream_hex": s.hex()[:20000], "python_ok": ok, "python_len": len(outb), "coq": o[:200]})
        # the encoder of zlib_decode_stored: what it writes must be a stream Python zlib inflates to the input
        datas = [b"", b"a", bytes(range(256)), bytes(rng.randrange(256) for _ in range(65535)),
                 bytes(rng.randrange(256) for _ in range(65536)), bytes(rng.randrange(7) for _ in range(140000))]
        datas += [bytes(rng.randrange(256) for _ in range(rng.randrange(0, 300))) for _ in range(40)]
        enc_bad = 0; enc_same_as_level0 = 0
        for d, o in zip(datas, core.run_model(self.ID, 9, [bytes_sx(d) for d in datas])):
            st = bytes(parse_sx(o.strip()))
            ok, outb = py_inflate(st)
            if not (ok and outb == d): enc_bad += 1
            if st == zlib.compress(d, 0): enc_same_as_level0 += 1
        res.append(("stat", "zlib test vectors: fixed corpus + seeded random stream; accepted by Python zlib; Coq/Python disagreements; seconds",
                    "%d + %d; %d; %d; %.1f" % (len(fixed), len(rnd), accepted, len(bad), time.time() - t0)))
        res.append(("stat", "zlib test vectors refused, by error class of Spec/Inflate.v", dict(sorted(classes.items()))))
        res.append(("stat", "zlib_store outputs inflated by Python zlib: streams / wrong / byte-identical to zlib level 0",
                    "%d / %d / %d" % (len(datas), enc_bad, enc_same_as_level0)))
        if stale:
            res.append(("nofail", "Python zlib no longer gives the verdicts recorded in corpus/C09/zlib-vectors.txt",
                        {"property": "C09", "kind": "proof-or-build-broken", "vectors": stale[:20]}))
        for b in bad[:3]:
            res.append(("nofail", "Spec/Inflate.zlib_decode and Python zlib disagree on a test vector",
                        dict(b, property="C09", kind="correspondence-broken",
                             theorem_or_correspondence="Spec/Inflate.zlib_decode = Python zlib (verdict and bytes) on the zlib test vectors")))
        if enc_bad:
            res.append(("nofail", "a stream written by Spec/Inflate.zlib_store is not inflated to its input by Python zlib",
                        {"property": "C09", "kind": "correspondence-broken", "count": enc_bad}))
        return res

PROP = C09()
