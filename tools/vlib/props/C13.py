"""C13: unrepresentable input is refused with an error value wherever it sits, on the serial and the
parallel source, single and two pass; every write call returns."""
import os, subprocess, tempfile
from ..runner import Prop
from .. import core
from ..core import sx, parse_sx

VALID_TOK = ["1", "1.0", "-2.5", "0", "1e3", "+3", ".5", "5.", "1E-2", "0.125", "100", "inf", "-inf", "NaN", "nan", "Infinity"]
BAD_TOK = ["abc", "1.0x", "--1", "1e", ".", "1,5", "0x10", " 1", "e5", "+", "1e+", "in"]
NAMES = ["chr1", "chr10", "chr2", "chrX", "a", "B", "chrM", "chrUn_gl000220", "chr1_random", "échr"]

def zoom_opts(rng):
    zm = rng.choice(["auto", "auto", "auto-small", "manual", "manual-odd", "none"])
    izoom, maxz, manual = 160, 10, []
    if zm == "auto-small":
        izoom, maxz = rng.choice([1, 2, 5, 10]), rng.choice([1, 3, 10])
    elif zm == "manual":
        manual = [sorted(rng.sample([1, 2, 3, 5, 10, 16, 40, 100, 1000], rng.choice([1, 2, 3])))]
    elif zm == "manual-odd":
        manual = [rng.choice([[10, 10], [0, 10], [40, 10], [10, 0, 40, 10], [0], [0, 0]])]
    elif zm == "none":
        manual = [[]]
    return izoom, maxz, manual, zm

def options(rng, sort_all=None):
    izoom, maxz, manual, zm = zoom_opts(rng)
    sa = rng.choice([1, 1, 1, 0]) if sort_all is None else sort_all
    return [rng.choice([0, 0, 1]), rng.choice([1, 2, 3, 1024]), rng.choice([2, 3, 4, 256]), izoom, maxz, manual, sa], zm

class Inp:
    """chroms: list of [name, len, items]; item = [start, end, value-token, rest]"""
    def __init__(self, chroms):
        self.chroms = chroms
    def copy(self):
        return Inp([[n, l, [list(it) for it in items]] for n, l, items in self.chroms])

def base_input(rng, ftype, nchrom, nitems, sort_all=True):
    names = rng.sample(NAMES, nchrom)
    if sort_all:
        names.sort(key=lambda s: s.encode())
    chroms = []
    for nm in names:
        n = nitems if isinstance(nitems, int) else rng.choice(nitems)
        pos = rng.choice([0, 1, 7, 50]); items = []
        for i in range(n):
            ln = rng.choice([1, 2, 5, 10, 33, 200]) if rng.random() < 0.9 else 0
            if ftype == 0:
                pos += rng.choice([0, 0, 1, 5, 40])
                items.append([pos, pos + ln, rng.choice(VALID_TOK), ""])
                pos += ln
            else:
                pos += rng.choice([0, 0, 1, 5, 40])
                rest = rng.choice(["", "", "\tname%d" % i, "\tn\t0\t+", "\t" + "x" * 40])
                items.append([pos, pos + ln, "", rest])
        last = items[-1]
        length = max(last[1], last[0] + 1) + rng.choice([0, 0, 1, 1000])
        if ftype == 1 and rng.random() < 0.2:
            length = last[0] + 1          # the last entry runs past the chromosome end: allowed in a bigBed
        chroms.append([nm, max(length, 1), items])
    return Inp(chroms)

def render(inp, ftype, rng=None, style="plain"):
    lines = []
    for nm, _, items in inp.chroms:
        for it in items:
            if isinstance(it, str):      # a raw (malformed) line
                lines.append(it); continue
            s, e = it[0], it[1]
            ss = str(s) if not isinstance(s, str) else s
            es = str(e) if not isinstance(e, str) else e
            nm2 = it[4] if len(it) > 4 else nm
            if ftype == 0:
                lines.append("%s\t%s\t%s\t%s%s" % (nm2, ss, es, it[2], it[3]))
            else:
                lines.append("%s\t%s\t%s%s" % (nm2, ss, es, it[3]))
    if not lines:
        return b""
    if style == "crlf":
        t = "\r\n".join(lines) + "\r\n"
    elif style == "nofinal":
        t = "\n".join(lines)
    elif style == "trailing":
        t = "".join(l + rng.choice(["", " ", "\t", " \t "]) + "\n" for l in lines)
    else:
        t = "\n".join(lines) + "\n"
    return t.encode()

def sizes_of(inp, rng):
    sizes = [[n, l] for n, l, _ in inp.chroms]
    if rng.random() < 0.3:
        sizes.append(["chrUnused", 1000])
    rng.shuffle(sizes)
    return sizes

POS3 = ["first", "middle", "last"]
def pick(n, where):
    return {"first": 0, "middle": n // 2, "last": n - 1}[where]

MALFORMED = ["missing-start", "missing-end", "alpha-start", "alpha-end", "negative", "overflow", "float-start", "spaces",
             "empty-line", "only-chrom", "lead-space", "inner-space", "bad-value", "missing-value", "hex", "blank-ws"]

def malformed_line(kind, nm, it, ftype):
    s, e, tok = it[0], it[1], it[2] or "1"
    tail = ("\t" + tok) if ftype == 0 else ""
    return {
        "missing-start": nm,
        "only-chrom": nm + "\t",
        "missing-end": "%s\t%d" % (nm, s),
        "alpha-start": "%s\tx%d\t%d%s" % (nm, s, e, tail),
        "alpha-end": "%s\t%d\t%dq%s" % (nm, s, e, tail),
        "negative": "%s\t-%d\t%d%s" % (nm, s, e, tail),
        "overflow": "%s\t%d\t4294967296%s" % (nm, s, tail),
        "float-start": "%s\t%d.0\t%d%s" % (nm, s, e, tail),
        "spaces": ("%s %d %d %s" % (nm, s, e, tok)),
        "empty-line": "",
        "blank-ws": " \t ",
        "lead-space": "%s\t %d\t%d%s" % (nm, s, e, tail),
        "inner-space": "%s\t%d\t%d %s" % (nm, s, e, tail),
        "hex": "%s\t0x%d\t%d%s" % (nm, s, e, tail),
        "bad-value": "%s\t%d\t%d\tabc" % (nm, s, e),      # bedGraph only (valid BED: a name column)
        "missing-value": "%s\t%d\t%d" % (nm, s, e),       # bedGraph only (valid BED3)
    }[kind]

def inject(inp, ftype, cls, cpos, ipos, rng):
    """returns a copy of inp with one violation of class cls at chromosome cpos / item ipos, or None"""
    x = inp.copy()
    ci = pick(len(x.chroms), cpos)
    nm, length, items = x.chroms[ci]
    n = len(items); i = pick(n, ipos)
    it = items[i]
    if cls == "within":       # bigWig: overlap with the neighbour; bigBed: start before the predecessor's start
        if n < 2: return None
        if ftype == 0:
            if i == 0:
                if items[1][0] == 0: return None
                it[1] = max(it[1], items[1][0] + 1); it[0] = min(it[0], it[1])
            else:
                prev = items[i - 1]
                if prev[1] == 0: return None
                if prev[1] == prev[0]:
                    prev[1] = prev[0] + 1
                    if prev[1] > length: return None
                it[0] = prev[1] - 1; it[1] = max(it[1], it[0])
        else:
            if i == 0:
                it[0] = items[1][0] + 1; it[1] = max(it[1], it[0])
                if it[0] >= length: return None
            else:
                prev = items[i - 1]
                if prev[0] == 0: return None
                it[0] = prev[0] - 1
    elif cls == "start>end":
        it[0], it[1] = it[1] + 1, it[1]
        if it[0] >= length and ftype == 1: pass
    elif cls == "beyond":
        if ftype == 0:
            it[1] = length + rng.choice([1, 1, 1000])
        else:
            it[0] = length + rng.choice([0, 0, 1, 1000]); it[1] = max(it[1], it[0])
    elif cls == "unknown":
        if len(it) > 4: it[4] = "chrQ"
        else: it.append("chrQ")
    elif cls == "malformed":
        kinds = [k for k in MALFORMED if ftype == 0 or k not in ("bad-value", "missing-value", "inner-space")]
        k = rng.choice(kinds)
        items[i] = malformed_line(k, nm, it, ftype)
        return x, k
    elif cls == "chrom-order":
        if len(x.chroms) < 2: return None
        a = ci if ci + 1 < len(x.chroms) else ci - 1
        x.chroms[a], x.chroms[a + 1] = x.chroms[a + 1], x.chroms[a]
    elif cls == "chrom-repeat":   # sorted input required: a chromosome that comes back later
        if len(x.chroms) < 2: return None
        other = (ci + 1) % len(x.chroms)
        if len(it) > 4: it[4] = x.chroms[other][0]
        else: it.append(x.chroms[other][0])
        it[0], it[1] = 0, (0 if ftype == 0 else 1)
    return x, cls

def decodes(b):
    try:
        b.decode("utf-8"); return True
    except UnicodeDecodeError:
        return False

# kinds of lines that are not (or, for the last one, are) well-formed UTF-8
NOT_TEXT = ["fffe-field", "truncated-eol", "truncated-4", "overlong", "surrogate", "above-max", "stray-cont", "bad-chrom",
            "overlap-before", "valid-multibyte"]
def not_text_line(kind, line, ftype):
    f = line.split(b"\t")
    if kind == "fffe-field":            # bedGraph: the value field; BED: the rest (name) field
        if ftype == 0: f[3] = b"\xff\xfe"
        else: f = f[:3] + [b"na\xff\xfeme"] + f[4:]
        return b"\t".join(f)
    if kind == "bad-chrom":
        return b"\xff" + line
    if kind == "valid-multibyte":       # accepted: a further column holding U+00E9 U+20AC U+1F600 U+10FFFF U+D7FF U+E000
        return line + b"\t" + "\u00e9\u20ac\U0001f600\U0010ffff\ud7ff\ue000".encode("utf-8")
    tail = {"truncated-eol": b"x\xe2\x82", "truncated-4": b"\xf0\x9f\x98", "overlong": b"\xc0\xaf!", "surrogate": b"a\xed\xa0\x80b",
            "above-max": b"\xf4\x90\x80\x80", "stray-cont": b"q\x80", "overlap-before": b"\xc3"}[kind]
    # a further column (bedGraph: columns after the value are ignored; BED: the rest is kept verbatim), so the
    # byte-level parser has nothing to object to
    return line + b"\t" + tail

CLASSES = ["within", "start>end", "beyond", "unknown", "malformed", "chrom-order", "chrom-repeat"]

def mk_case(ftype, path, passes, o, sizes, text, threads):
    return sx([ftype, path, passes, o, sizes, text, threads])

class C13(Prop):
    ID = "C13"
    THEOREMS = ["C13_bw_accept_iff", "C13_bb_accept_iff", "C13_position_independent", "C13_bb_position_independent", "C13_bw_text", "C13_bb_text", "C13_serial_eq_parallel_verdict", "C13_text_serial_eq_parallel", "C13_parse_u32", "C13_parse_line", "C13_split_fields", "C13_rtree_terminates", "C13_index_written", "C13_zoom_selection_terminates", "C13_writer_total", "C13_bb_accept_iff_file", "C13_bb_writer_total", "C13_bb_write_gen_verdict", "C13_parallel_text_file_verdict", "C13_bb_parallel_text_file_verdict"]
    NEED_BINS = True
    PER_CASE_TIMEOUT = 12.0
    RULE = ("texts rendered from 3 chromosomes x 3-5 items (and 1-4 x 1-6), bedGraph and BED; every violation class (overlap / start order, "
            "start>end, beyond the chromosome, unknown chromosome, malformed line of 16 kinds, chromosomes swapped, chromosome split into two runs, with and without the chromosome-order requirement) "
            "injected at first/middle/last item of first/middle/last chromosome; x serial source, parallel source (run offsets), parallel "
            "source (real index_chroms) x single/two pass x runtime threads {0,1,2,4}; plus valid texts incl. CRLF, no final newline, "
            "trailing blanks, '+5', leading zeros, very long lines, zero-length-only items, manual zooms [0,10] [10,10] [0] []; plus empty "
            "input, a byte-mutation stream (incl. texts that are no longer UTF-8), lines that are not well-formed UTF-8 (FF FE in a field, truncated / overlong / surrogate / "
            "too large sequences, at first/middle/last line: must be refused), option sets outside the guards; non-trivial = at least 2 lines; distinct = distinct case text")
    CORRESPONDENCE = ("verdict and error class of BigWigWrite/BigBedWrite::write / write_multipass on the text = Model/Accept.v "
                      "(serial: exact class; parallel with run offsets: exact class; parallel through index_chroms: verdict)")
    TRUSTED = ["harness/src/bin/c13.rs linear_index (run offsets handed to the parallel source)",
               "Entry_C13.f32_token_ok stands for str::parse::<f32> (syntax only)"]
    ASSUMPTIONS = ["input text uses only ASCII white space (str::trim_end's Unicode classes are not modelled); text that is not UTF-8 IS modelled (Model/Utf8.v)",
                   "coordinates and sizes fit u32 in the size table", "f32 parsing is a parameter of the model"]

    # ------------------------------------------------------------------ generation
    def configs(self, rng, tier, full):
        paths = [0, 1, 2]
        if full:
            return [(p, ps, rng.choice([0, 1, 2, 2, 4])) for p in paths for ps in (0, 1)]
        return [(rng.choice(paths), rng.choice([0, 1]), rng.choice([0, 1, 2, 2, 4]))]

    def gen(self, rng, tier):
        nbase = 2 if tier == "quick" else 20
        # 1. every class at every position, all configurations
        for ftype in (0, 1):
            for b in range(nbase + max(1, nbase // 2)):
                sa = 1 if b < nbase else 0
                base = base_input(rng, ftype, 3, [3, 4, 5])
                o, zm = options(rng, sort_all=sa)
                sizes = sizes_of(base, rng)
                for cls in CLASSES:
                    if sa == 0 and cls == "chrom-order":
                        continue            # no order requirement: swapped chromosomes are valid input (covered below)
                    cposs = POS3
                    iposs = POS3 if cls not in ("chrom-order",) else ["first"]
                    for cpos in cposs:
                        for ipos in iposs:
                            r = inject(base, ftype, cls, cpos, ipos, rng)
                            if r is None:
                                continue
                            x, sub = r
                            style = rng.choice(["plain", "plain", "crlf", "nofinal", "trailing"])
                            text = render(x, ftype, rng, style)
                            for (p, ps, th) in self.configs(rng, tier, True):
                                yield mk_case(ftype, p, ps, o, sizes, text, th), \
                                    ["bad:" + cls, "at:%s/%s" % (cpos, ipos), "ft=%d" % ftype, "path=%d" % p, "pass=%d" % (ps + 1), "zoom=" + zm, "sort_all=%d" % sa] + \
                                    (["malformed:" + sub] if cls == "malformed" else [])
                # the unchanged base is valid
                for style in ("plain", "crlf", "nofinal", "trailing"):
                    text = render(base, ftype, rng, style)
                    for (p, ps, th) in self.configs(rng, tier, True):
                        yield mk_case(ftype, p, ps, o, sizes, text, th), ["valid", "style=" + style, "ft=%d" % ftype, "path=%d" % p, "pass=%d" % (ps + 1), "zoom=" + zm, "sort_all=%d" % sa]
                if sa == 0:
                    # without the order requirement chromosomes may come in any order, as long as each is one run
                    x = base.copy(); x.chroms.reverse()
                    text = render(x, ftype, rng, "plain")
                    for (p, ps, th) in self.configs(rng, tier, True):
                        yield mk_case(ftype, p, ps, o, sizes, text, th), ["valid", "chroms-descending", "ft=%d" % ftype, "path=%d" % p, "pass=%d" % (ps + 1), "zoom=" + zm, "sort_all=0"]
        # 2. random shapes: valid, or one violation somewhere
        n2 = 150 if tier == "quick" else 4000
        for k in range(n2):
            ftype = rng.choice([0, 1])
            o, zm = options(rng)
            base = base_input(rng, ftype, rng.choice([1, 1, 2, 3, 4]), [1, 2, 3, 6], sort_all=bool(o[6]))
            sizes = sizes_of(base, rng)
            tags = ["random", "ft=%d" % ftype, "zoom=" + zm, "sort_all=%d" % o[6]]
            x = base
            if rng.random() < 0.5:
                cls = rng.choice(CLASSES)
                r = inject(base, ftype, cls, rng.choice(POS3), rng.choice(POS3), rng)
                if r is not None:
                    x = r[0]; tags.append("bad:" + cls)
            else:
                tags.append("valid")
            text = render(x, ftype, rng, rng.choice(["plain", "crlf", "nofinal", "trailing"]))
            for (p, ps, th) in self.configs(rng, tier, False):
                yield mk_case(ftype, p, ps, o, sizes, text, th), tags + ["path=%d" % p, "pass=%d" % (ps + 1)]
        # 3. degenerate and special inputs, all configurations
        specials = []
        for ftype in (0, 1):
            v = "\t1.5" if ftype == 0 else ""
            sz = [["chr1", 1000], ["chr2", 1000], ["chr3", 50]]
            specials += [
                (ftype, "empty", b"", sz),
                (ftype, "newline-only", b"\n", sz),
                (ftype, "blank-lines-only", b"\n\n \n", sz),
                (ftype, "zero-length-only", ("chr1\t5\t5%s\nchr1\t7\t7%s\n" % (v, v)).encode(), sz),
                (ftype, "zero-length-only-3chroms", ("chr1\t5\t5%s\nchr2\t0\t0%s\nchr3\t49\t49%s\n" % (v, v, v)).encode(), sz),
                (ftype, "single-item", ("chr2\t0\t1000%s\n" % v).encode(), sz),
                (ftype, "single-item-nofinal", ("chr2\t0\t1000%s" % v).encode(), sz),
                (ftype, "plus-and-zeros", ("chr1\t+5\t0010%s\nchr1\t00000000000000000012\t+13%s\n" % (v, v)).encode(), sz),
                (ftype, "u32max", ("chr1\t0\t4294967295%s\n" % v).encode(), [["chr1", 4294967295]]),
                (ftype, "top-of-range", ("chr1\t4294967000\t4294967290%s\n" % v).encode(), [["chr1", 4294967295]]),
                (ftype, "top-of-range-2", ("chr1\t4294967000\t4294967295%s\nchr1\t4294967295\t4294967295%s\n" % (v, v)).encode(), [["chr1", 4294967295]]),
                (ftype, "long-line-rest", ("chr1\t0\t10%s\t%s\nchr1\t10\t20%s\n" % (v, "x" * 70000, v)).encode(), sz),
                (ftype, "long-chrom-unknown", ("c" * 70000 + "\t0\t10%s\n" % v).encode(), sz),
                (ftype, "long-digits", ("chr1\t" + "0" * 2000 + "5\t10%s\n" % v).encode(), sz),
                (ftype, "long-garbage-line", ("chr1\t0\t10%s\n" % v + "z" * 70000 + "\n").encode(), sz),
                (ftype, "cr-only-line", ("chr1\t0\t10%s\r\n\r\nchr1\t10\t20%s\r\n" % (v, v)).encode(), sz),
                (ftype, "size-zero-chrom", ("chr1\t0\t0%s\n" % v).encode(), [["chr1", 0]]),
                (ftype, "split-chromosome", ("chr1\t0\t10%s\nchr2\t0\t10%s\nchr1\t20\t30%s\n" % (v, v, v)).encode(), sz),
            ]
        for (ftype, name, text, sz) in specials:
            for sa in (1, 0):
                # (a value of 4 Gb under the automatic ladder makes 27 million records at the first level: slow, not a hang)
                zls = ([[1000000000]], [[]]) if name == "u32max" else ([], [[0, 10]], [[10, 10]], [[10]], [[]])
                for zl in zls:
                    o = [rng.choice([0, 1]), rng.choice([1, 3, 1024]), rng.choice([2, 256]), 160, 10, zl, sa]
                    for (p, ps, th) in self.configs(rng, tier, True):
                        if name.startswith("long") and p == 2 and tier == "quick":
                            continue
                        yield mk_case(ftype, p, ps, o, sz, text, th), ["special:" + name, "ft=%d" % ftype, "path=%d" % p, "pass=%d" % (ps + 1), "zoom=%s" % zl]
        # 4. byte mutations of a valid text (malformed stream)
        n4 = 150 if tier == "quick" else 5000
        alphabet = b"\t\n\r 0159+-.ex\xc3\xa9"
        for k in range(n4):
            ftype = rng.choice([0, 1])
            o, zm = options(rng)
            base = base_input(rng, ftype, rng.choice([1, 2, 3]), [1, 2, 3], sort_all=bool(o[6]))
            sizes = sizes_of(base, rng)
            t = bytearray(render(base, ftype, rng, "plain"))
            for _ in range(rng.choice([1, 1, 2, 4])):
                op = rng.choice(["sub", "del", "ins", "dup-line", "cut"])
                if not t: break
                i = rng.randrange(len(t))
                if op == "sub": t[i] = rng.choice(alphabet[:-2])
                elif op == "del": del t[i]
                elif op == "ins": t.insert(i, rng.choice(alphabet[:-2]))
                elif op == "cut": t = t[:i]
                else:
                    ls = bytes(t).split(b"\n"); j = rng.randrange(len(ls)); ls.insert(j, ls[j]); t = bytearray(b"\n".join(ls))
            # a text that does not decode is IN the model since round 5 (Model/Utf8.v: read_line fails, class 50);
            # still outside: Unicode white space (str::trim_end), which this alphabet cannot produce anyway
            if any(b in bytes(t) for b in (b"\xc2\x85", b"\xc2\xa0")):
                continue
            u = "utf8" if decodes(bytes(t)) else "not-utf8"
            for (p, ps, th) in self.configs(rng, tier, False):
                yield mk_case(ftype, p, ps, o, sizes, bytes(t), th), ["mutated-text", "mutated:" + u, "ft=%d" % ftype, "path=%d" % p, "pass=%d" % (ps + 1)]
        # 4b. lines that are not text: read_line fails on the whole line (class 50); the lines before it are processed
        # first.  Such a text must be refused wherever the line stands (never accepted with the input cut short).
        for ftype in (0, 1):
            for b in range(1 if tier == "quick" else 6):
                sa = 1 if b % 2 == 0 else 0
                base = base_input(rng, ftype, 3, [3, 4])
                o, zm = options(rng, sort_all=sa)
                sizes = sizes_of(base, rng)
                lines = render(base, ftype, rng, "plain").split(b"\n")[:-1]
                for kind in NOT_TEXT:
                    for where in POS3:
                        j = pick(len(lines), where)
                        ls = list(lines)
                        ls[j] = not_text_line(kind, ls[j], ftype)
                        if kind == "overlap-before":
                            if j == 0:
                                continue
                            ls.insert(j, ls[j - 1])         # the line before it twice: overlap (bigWig) resp. fine (bigBed)
                        style = rng.choice(["plain", "plain", "crlf", "nofinal"])
                        text = {"plain": b"\n".join(ls) + b"\n", "crlf": b"\r\n".join(ls) + b"\r\n", "nofinal": b"\n".join(ls)}[style]
                        for (p, ps, th) in self.configs(rng, tier, True):
                            yield mk_case(ftype, p, ps, o, sizes, text, th), \
                                ["not-text:" + kind, "line:" + where, "style=" + style, "ft=%d" % ftype, "path=%d" % p, "pass=%d" % (ps + 1), "sort_all=%d" % sa]
        # 5. option sets outside the guards
        for ftype in (0, 1):
            v = "\t1.5" if ftype == 0 else ""
            text = ("chr1\t0\t10%s\nchr1\t10\t20%s\nchr2\t5\t6%s\nchr3\t0\t50%s\n" % (v, v, v, v)).encode()
            sz = [["chr1", 1000], ["chr2", 1000], ["chr3", 50]]
            for (ips, bs) in ((3, 1), (3, 0), (0, 4), (0, 0), (1, 1)):
                for zl in ([], [[10]]):
                    o = [0, ips, bs, 160, 10, zl, 1]
                    for (p, ps, th) in self.configs(rng, tier, True):
                        yield mk_case(ftype, p, ps, o, sz, text, th), ["bad-options", "ips=%d bs=%d" % (ips, bs), "ft=%d" % ftype, "path=%d" % p, "pass=%d" % (ps + 1)]

    def nontrivial(self, case, tags):
        try:
            return bytes(parse_sx(case)[5]).count(b"\n") >= 1 and len(parse_sx(case)[5]) > 8
        except Exception:
            return False

    def same(self, case, impl_out, model_out):
        if impl_out == model_out:
            return True
        # through the real index_chroms the class may be the indexer's (51) or another offending item's
        c = parse_sx(case)
        if c[1] == 2:
            return impl_out.strip()[:2] == model_out.strip()[:2] and impl_out.strip()[1] in "01"
        # path 1: the run offsets and NAMES come from the harness (linear_index decodes lossily: U+FFFD); when the first
        # field of a line is not UTF-8 the name handed to the source is not the model's, so order / size lookup may
        # answer first with another class: verdict only
        if c[1] == 1 and any(not decodes(l.split(b"\t")[0]) for l in bytes(c[5]).split(b"\n")):
            return impl_out.strip()[:2] == model_out.strip()[:2] and impl_out.strip()[1] in "01"
        return False

    def shrink_candidates(self, case):
        c = parse_sx(case)
        text = bytes(c[5])
        lines = text.split(b"\n")
        for i in range(len(lines)):
            t = b"\n".join(lines[:i] + lines[i + 1:])
            if t != text:
                yield sx(c[:5] + [t] + c[6:])
        if c[3][5] != [] or c[3][0] != 0:
            o = [0, c[3][1], c[3][2], 160, 10, [], c[3][6]]
            yield sx(c[:3] + [o] + c[4:])
        if c[6] != 2:
            yield sx(c[:6] + [2])

    # ------------------------------------------------------------------ the tools' exit status
    def cli_run(self, ftype, text, sizes, o, parallel, single, threads, workdir):
        tool = "bedgraphtobigwig" if ftype == 0 else "bedtobigbed"
        inp = os.path.join(workdir, "in.txt"); szf = os.path.join(workdir, "sizes"); out = os.path.join(workdir, "out.bb")
        open(inp, "wb").write(text)
        open(szf, "w").write("".join("%s\t%d\n" % (n, l) for n, l in sizes))
        cmd = [os.path.join(core.BINS_DIR, tool), inp, szf, out, "-t", str(max(threads, 1)), "-p", "yes" if parallel else "no",
               "-s", "all" if o[6] else "start"]
        if single: cmd.append("--single-pass")
        if o[5]:
            if o[5][0]: cmd += ["--zooms", ",".join(str(z) for z in o[5][0])]
        if not o[0]: cmd.append("-u")
        try:
            p = subprocess.run(cmd, stdout=subprocess.PIPE, stderr=subprocess.PIPE, timeout=20)
        except subprocess.TimeoutExpired:
            return "(3)", cmd
        if p.returncode == 0:
            return "(0)", cmd
        # a panic of the main thread ends the process with status 101 (abort: a signal).  A message
        # "thread 'tokio-runtime-worker' panicked" on stderr with status 1 is a detached task dying
        # while the runtime is torn down after the error was already returned (see notes/C13.md)
        if p.returncode == 101 or p.returncode < 0 or p.returncode == 134:
            return "(2)", cmd
        return "(1 99)", cmd

    def extra_checks(self, ctx):
        if ctx["tier"] != "thorough":
            return []
        import random
        rng = random.Random(ctx["seed"] + 13)
        res = []; n = 0; bad = 0
        todo = []
        for case, tags in self.gen(rng, "quick"):
            c = parse_sx(case)
            if c[1] == 1 or "bad-options" in tags or any(t.startswith("special:long") or t.startswith("special:u32max") or t.startswith("special:top") for t in tags):
                continue
            if rng.random() < 0.25:
                todo.append((case, c, tags))
        with tempfile.TemporaryDirectory(prefix="c13cli") as wd:
            outs = []
            for case, c, tags in todo:
                sizes = [(bytes(s[0]).decode(), s[1]) for s in c[4]]
                out, cmd = self.cli_run(c[0], bytes(c[5]), sizes, c[3], c[1] == 2, c[2] == 0, c[6], wd)
                outs.append(out)
            pairs = ["(%s %s)" % (case, out) for (case, _, _), out in zip(todo, outs)]
            orc = core.run_model(self.ID, 1, pairs) if pairs else []
            for (case, c, tags), out, ok in zip(todo, outs, orc):
                n += 1
                if ok.strip() != "1":
                    slug = self.cli_known(c, out)
                    if slug and slug in ctx["known"]:
                        ctx["known_hits"][slug] = ctx["known_hits"].get(slug, 0) + 1
                        continue
                    bad += 1
                    if bad <= 3:
                        res.append(("violation", "tool exit status", {"property": self.ID, "kind": "failing-input", "observable": "exit status of the conversion tool",
                                                                      "case": case, "observed_impl": out, "tags": tags}))
        res.append(("stat", "cli_runs", n))
        return res

    def cli_known(self, c, out):
        return None

PROP = C13()
