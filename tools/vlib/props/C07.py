from ..runner import Prop
from .. import bbigen
from ..core import parse_sx, sx

THEOREMS = [
    "C07_inner_loop_terminates", "C07_chrom_terminates", "C07_ordered_disjoint", "C07_partition", "C07_stats", "C07_stats_exact",
    "C07_contributions", "C07_sections_encoded", "C07_levels_increasing", "C07_levels_increasing_two_pass",
    "C07_file_levels_increasing", "C07_file_levels_increasing_two_pass",
    "C07_sections_ok", "C07_zoom_query_sections", "C07_zoom_query",
    "C07_sections_sorted", "C07_chrom_ordered", "C07_level_sections_sorted",
    "C07_f32_pattern_fits", "C07_f32_store_load", "C07_stat_read_value_ieee", "C07_zoom_record_codec", "C07_zoom_block_read",
    "C07_level_regions", "C07_level_regions_two_pass",
    "C07_file_zoom_query", "C07_file_zoom_query_two_pass", "C07_minmax_read_exact", "C07_file_zoom_query_complete",
    "C07_gap_refuted_before_fix", "C07_minmax_refuted_before_fix",
    # the IEEE run has the exact statistics on a checkable domain (Proofs/FloatExact.v, FloatExactZoom.v)
    "C07_stats_ieee_on_grid", "C07_ieee_exact_records", "C07_stats_ieee_in_domain", "C07_stat_read_on_grid",
]

class C07(Prop):
    ID = "C07"
    THEOREMS = THEOREMS
    RULE = ("bigWig cases built around a chosen resolution r (manual lists incl. 1 and one larger than the chromosome, unsorted/duplicate/zero "
            "entries, lists of 11-15 distinct sizes (more than the directory's 10 slots), automatic lists with small initial sizes, both pass modes): per chromosome a layout whose gaps are drawn from "
            "{0,1,r-1,r,r+1,3r+2} and lengths from {0,1,r-1,r,r+1,2r,2r+1,5r+3}, with starts placed so that values end exactly on record "
            "boundaries, 1-6 chromosomes, items_per_slot in {1,2,3,7,1024}; plus the shared bbi grammar (dense/sparse/zero-length/long gap/long item); "
            "values are exactly representable multiples of 1/8 (sum and sumsq compared bit for bit) in 4 of 5 cases, arbitrary finite f32 patterns "
            "otherwise (min/max/covered/structure only); zoom range queries at record and value boundaries +-1; "
            "non-trivial = accepted input for which at least one zoom level is listed; distinct = distinct case text")
    CORRESPONDENCE = ("zoom directory and every zoom record of every level read with BigWigRead::get_zoom_interval from the file written by "
                      "BigWigWrite = Model/BigWigWrite.v + Model/BBIRead.v output")
    TRUSTED = []
    ASSUMPTIONS = ["f32 -0.0, NaN and infinities are not generated (sign of zero not modelled)",
                   "automatic level selection is exercised on uncompressed files only (compressed sizes are not predicted by the model)",
                   "sum/sumsq are compared exactly only where every f64 intermediate is exact (multiples of 1/8, |v| <= 1024, chromosome < 2^20)"]
    PER_CASE_TIMEOUT = 30.0

    def layout_r(self, rng, r, nmax):
        gaps = [0, 0, 1, max(r - 1, 0), r, r + 1, 3 * r + 2]
        lens = [0, 1, 1, max(r - 1, 1), r, r + 1, 2 * r, 2 * r + 1, 5 * r + 3]
        if r > 400:
            gaps = [0, 1, 7, 40]; lens = [0, 1, 5, 33]
        n = rng.randint(1, nmax)
        pos = rng.choice([0, 0, 1, r, max(r - 1, 0), 2 * r + 1]) if r <= 400 else rng.choice([0, 3])
        items = []
        rec_start = None
        for i in range(n):
            if i > 0:
                pos += rng.choice(gaps)
            ln = rng.choice(lens)
            if rec_start is None and ln > 0:
                rec_start = pos
            # with some probability end exactly on a boundary of the tiling that starts at the first data base
            if rec_start is not None and r <= 400 and rng.random() < 0.3:
                k = (pos - rec_start) // r + rng.choice([1, 1, 2])
                if rec_start + k * r > pos:
                    ln = rec_start + k * r - pos
            items.append((pos, pos + ln))
            pos += ln
        length = pos + rng.choice([0, 0, 1, r])
        if items[0] == (0, 0):
            items[0] = (0, 1) if len(items) == 1 or items[1][0] >= 1 else items[0]
        if items[-1][0] == items[-1][1] == length:
            length += 1
        return items, max(length, 1)

    def case1(self, rng, tier, i):
        sort_all = rng.choice([1, 1, 1, 0])
        names = bbigen.chrom_set(rng, sort_all)
        if i % 11 == 0:
            names = sorted(bbigen.NAMES, key=lambda s: s.encode())[:rng.choice([6, 8, 10])] if sort_all else bbigen.NAMES[:8]
        comp = rng.choice([0, 0, 0, 1])
        ips = rng.choice([1, 2, 3, 7, 1024])
        bs = rng.choice([2, 3, 4, 5, 256])
        r = rng.choice([1, 2, 3, 4, 5, 8, 10, 16, 40])
        mode = rng.choice(["manual", "manual", "manual-multi", "manual-odd", "manual-big", "manual-many", "auto", "auto", "auto-cluster"])
        izoom, maxz, manual = 160, 10, []
        if mode == "auto-cluster":
            # clusters of dense runs: level r is kept, level 4r has as many sections as level r and is left out,
            # level 16r merges each cluster and is kept again (a kept level after a left-out one)
            comp = 0; r = rng.choice([8, 10, 16]); ips = rng.choice([1, 2, 4])
        if comp and mode == "auto":
            mode = "manual"
        if mode == "manual":
            manual = [[r]]
        elif mode == "manual-multi":
            manual = [sorted(set([r, r * rng.choice([2, 3, 4]), r * 16, 1]))[:rng.choice([2, 3, 4])]]
        elif mode == "manual-odd":
            manual = [rng.choice([[r, r], [0, r], [4 * r, r], [r, 0, 4 * r, r], [0], [2 * r, r, 1]])]
        elif mode == "manual-big":
            manual = [[r, 100000]]
        elif mode == "manual-many":
            # more distinct sizes than the directory has slots (MAX_ZOOM_LEVELS = 10): the finest ten are kept
            manual = [rng.sample(range(1, 40), rng.choice([11, 12, 15])) + rng.choice([[], [0], [3]])]
        elif mode == "auto-cluster":
            izoom, maxz = r, rng.choice([3, 10])
        else:
            izoom, maxz = rng.choice([1, 2, 5, 10, r]), rng.choice([1, 3, 10])
        fmode = "nice" if rng.random() < 0.8 else "any"
        o = [comp, ips, bs, izoom, maxz, manual, sort_all]
        tags = [mode, "compress=%d" % comp, "ips=%d" % ips, "chroms=%d" % len(names), "r=%d" % r, "values=" + fmode]
        sizes = []; inp = []; queries = []
        zl = [z for z in (manual[0] if manual else [izoom * 4 ** k for k in range(min(maxz, 5))] + [10, 40, 160]) if z > 0]
        for nm in names:
            if mode == "auto-cluster":
                G = rng.choice([6, 10]); m = rng.choice([2, 3]); items = []
                for g in range(G):
                    base = 3 + g * (16 * r * 8)
                    for j in range(m):
                        p0 = base + j * 5 * r
                        items += [(p0 + t, p0 + t + 1) for t in range(8)]
                length = items[-1][1] + rng.choice([0, 5, 200])
            elif mode == "auto":
                # automatic selection keeps a level only if it is much smaller than the data: dense short values
                n = rng.choice([20, 40, 60])
                pos = rng.choice([0, 3]); items = []
                for _ in range(n):
                    pos += rng.choice([0, 0, 0, 1, r])
                    ln = rng.choice([1, 1, 2])
                    items.append((pos, pos + ln)); pos += ln
                length = pos + rng.choice([0, 5])
            elif rng.random() < 0.25:
                items, length, _st = bbigen.layout(rng, min(ips, 8))
            else:
                items, length = self.layout_r(rng, r, rng.choice([3, 6, 12]))
            sizes.append([nm, length])
            inp += [[nm, s, e, bbigen.rand_f32(rng, fmode)] for (s, e) in items]
            pts = set([0, length])
            for (s, e) in items[:5]:
                for p in (s, e, s + r, e - 1, e + 1, s - 1):
                    if 0 <= p <= length: pts.add(p)
            pts = sorted(pts)
            for _ in range(4):
                s = rng.choice(pts); e = rng.choice(pts)
                if s > e: s, e = e, s
                queries.append([2, nm, s, e, rng.choice(zl) if zl else 10])
        if rng.random() < 0.3:
            sizes.append(["chrUnused", 1000])
        rng.shuffle(sizes)
        kind = rng.choice([0, 0, 1])
        tags.append("pass=%d" % (kind + 1))
        return [kind, o, sizes, inp, queries], tags, zl

    WORK_CAP = 1500   # zoom records per file (the byte-level model's cost grows with records x file size)

    @staticmethod
    def work(c, zl):
        per = {}
        for it in c[3]:
            b, n = per.get(bytes(it[0].encode() if isinstance(it[0], str) else it[0]), (0, 0))
            per[bytes(it[0].encode() if isinstance(it[0], str) else it[0])] = (b + it[2] - it[1], n + 1)
        levels = sorted(set(z for z in zl if z > 0))[:10]
        return sum(b // r + n for r in levels for (b, n) in per.values())

    def case(self, rng, tier, i):
        for _ in range(8):
            c, tags, zl = self.case1(rng, tier, i)
            if self.work(c, zl) <= self.WORK_CAP:
                return sx(c), tags
        # still too big: keep only the values of the first chromosomes that fit
        names = []
        for it in c[3]:
            if it[0] not in names: names.append(it[0])
        while len(names) > 1 and self.work(c, zl) > self.WORK_CAP:
            drop = names.pop()
            c[3] = [it for it in c[3] if it[0] != drop]
            c[4] = [q for q in c[4] if q[1] != drop]
        return sx(c), tags + ["trimmed"]

    def gen(self, rng, tier):
        n = 700 if tier == "quick" else 8000
        # the design's witnesses first (D1a, D1b) and a three-value input with a gap
        for manual, vals in (([10], [(0, 5, 1.0), (20, 25, 1.0)]), ([10], [(0, 5, 1.0), (10, 15, 100.0)]),
                             ([10], [(2, 9, 1.0), (9, 14, 3.25), (30, 31, -1.0)]), ([1], [(0, 3, 2.0), (4, 5, 0.5)]),
                             (list(range(2, 13)), [(0, 7, 1.0), (9, 30, 2.0)]), ([12, 3, 5, 7, 9, 11, 2, 4, 6, 8, 10, 13, 0, 3], [(1, 26, 0.5), (26, 27, 7.0)])):
            for kind in (0, 1):
                inp = [["chr1", s, e, bbigen.f32bits(v)] for (s, e, v) in vals]
                qs = [[2, "chr1", 0, 40, manual[0]], [2, "chr1", 5, 20, manual[0]], [2, "chr1", 10, 10, manual[0]]]
                yield sx([kind, [0, 2, 256, 160, 10, [manual], 1], [["chr1", 40]], inp, qs]), ["witness", "pass=%d" % (kind + 1)]
        for i in range(n):
            yield self.case(rng, tier, i)

    def nontrivial(self, case, tags):
        return True

    def shrink_candidates(self, case_text):
        c = parse_sx(case_text)
        kind, o, sizes, inp, qs = c
        out = []
        if qs:
            out.append([kind, o, sizes, inp, []])
        names = []
        for it in inp:
            if it[0] not in names: names.append(it[0])
        if len(names) > 1:
            for nm in names:
                out.append([kind, o, sizes, [it for it in inp if it[0] != nm], [q for q in qs if q[1] != nm]])
        for k in range(len(inp)):
            if len(inp) > 1:
                out.append([kind, o, sizes, inp[:k] + inp[k + 1:], qs])
        if o[5] and len(o[5][0]) > 1:
            for k in range(len(o[5][0])):
                o2 = list(o); o2[5] = [o[5][0][:k] + o[5][0][k + 1:]]
                out.append([kind, o2, sizes, inp, qs])
        return [sx(x) for x in out]

PROP = C07()
