"""BED layouts for C06 / C08: start-sorted entry lists from a small grammar (disjoint, partly overlapping,
nested, identical, zero-length, very long then short, gaps of every size relative to a resolution).
All randomness from the rng passed in."""
from .core import sx, parse_sx
from . import bbigen

STYLES = ["disjoint", "overlap", "nested", "identical", "zero", "longshort", "mixed", "mixed", "resgaps", "single", "dense"]
RESTS = [b"", b"", b"x", b"name\t5\t+", b"a\tb"]

def bed_layout(rng, res, style=None, nmax=40):
    """a start-sorted list of (start, end) for one chromosome, the chromosome length, the style"""
    style = style or rng.choice(STYLES)
    res = max(1, min(res, 400))
    lens = [1, 2, 5, max(1, res - 1), res, res + 1, 2 * res + 3]
    gaps = [0, 1, max(0, res - 1), res, res + 1, 2 * res, 3 * res + 1]
    n = rng.choice([1, 2, 3, 4, 6, 9, 15, nmax])
    pos = rng.choice([0, 0, 1, 7, res])
    es = []
    if style == "single":
        es = [(pos, pos + rng.choice(lens))]
    elif style == "disjoint":
        for _ in range(n):
            ln = rng.choice(lens)
            es.append((pos, pos + ln)); pos += ln + rng.choice(gaps)
    elif style == "resgaps":
        for _ in range(min(n, 10)):
            ln = rng.choice([1, res, res + 1, 3 * res])
            es.append((pos, pos + ln)); pos += ln + rng.choice(gaps)
            if rng.random() < 0.3:
                es.append((es[-1][0], es[-1][1]))
    elif style == "dense":
        for _ in range(n):
            ln = rng.choice([1, 2, 3])
            es.append((pos, pos + ln)); pos += rng.choice([0, 1, 1, ln])
    elif style == "overlap":
        for _ in range(n):
            ln = rng.choice(lens + [10, 20])
            es.append((pos, pos + ln)); pos += rng.choice([0, 1, 2, max(1, ln // 2), ln, ln + 1])
    elif style == "nested":
        for _ in range(max(1, n // 4)):
            big = rng.choice([10, 30, 3 * res + 5])
            es.append((pos, pos + big))
            p = pos
            for _ in range(rng.randint(0, 4)):
                p += rng.choice([0, 1, 3])
                if p >= pos + big: break
                es.append((p, min(p + rng.choice([0, 1, 2, 5, big]), pos + big + rng.choice([0, 0, 2]))))
            pos += big + rng.choice(gaps)
    elif style == "identical":
        for _ in range(max(1, n // 3)):
            ln = rng.choice(lens)
            for _ in range(rng.randint(1, 4)):
                es.append((pos, pos + ln))
            pos += rng.choice([0, ln, ln + rng.choice(gaps)])
    elif style == "zero":
        for _ in range(n):
            ln = rng.choice([0, 0, 0, 1, 3, 10])
            es.append((pos, pos + ln)); pos += rng.choice([0, 0, 1, 2, 5])
    elif style == "longshort":
        es.append((pos, pos + rng.choice([100, 500, 1000])))
        for _ in range(min(n, 8)):
            pos += rng.choice([0, 1, 10, 50])
            es.append((pos, pos + rng.choice([0, 1, 5, 20])))
    else:
        for _ in range(n):
            ln = rng.choice([0, 1, 2, 5, 10, 20, 33, res, 2 * res + 1])
            es.append((pos, pos + ln)); pos += rng.choice([0, 0, 1, 3, 9, res, res + 1])
    if style == "zero" and rng.random() < 0.3:
        es = [(a, a) for (a, _) in es]; style = "zeroonly"        # a chromosome without a single covered base
    es.sort(key=lambda e: e[0])
    top = max(e[1] for e in es)
    length = max(top, es[-1][0] + 1) + rng.choice([0, 0, 1, 100])
    if top > es[-1][0] + 1 and rng.random() < 0.12:
        # entries reaching past the chromosome end are accepted (only the start has to lie on the chromosome)
        length = max(es[-1][0] + 1, top - rng.choice([1, 5, res])); style = style + "+pastend"
    return es, length, style

def first_res(o):
    if o[5]:
        zs = [z for z in o[5][0] if z > 0]
        return min(zs) if zs else 10
    return o[3]

def zoom_levels(o):
    if o[5]:
        return sorted(set(z for z in o[5][0] if z > 0))
    return [o[3] * 4 ** k for k in range(min(o[4], 10))]

def bb_case(rng, tier, kind=None, zoom_mode=None, style=None, invalid=False, nqueries=6):
    sort_all = rng.choice([1, 1, 1, 0])
    names = bbigen.chrom_set(rng, sort_all)
    o, zm = bbigen.options(rng, tier, None, zoom_mode)
    o[6] = sort_all
    res = first_res(o)
    tags = [zm, "compress=%d" % o[0], "ips=%d" % o[1], "chroms=%d" % len(names)]
    sizes = []; inp = []; per = []
    for nm in names:
        es, length, st = bed_layout(rng, res, style)
        tags.append(st)
        sizes.append([nm, length])
        inp += [[nm, s, e, rng.choice(RESTS)] for (s, e) in es]
        per.append((es, length))
    if invalid:
        k = rng.randrange(len(inp))
        how = rng.choice(["unsorted", "start>end", "start>=len", "unknown", "chromorder", "split"])
        tags.append("invalid:" + how)
        if how == "unsorted":
            inp[k][1] += 50; inp[k][2] += 50
        elif how == "start>end":
            inp[k][2] = max(0, inp[k][1] - 1); inp[k][1] = inp[k][2] + 1
        elif how == "start>=len":
            L = dict((s[0], s[1]) for s in sizes)[inp[k][0]]
            inp[k][1] = L + rng.choice([0, 5]); inp[k][2] = inp[k][1] + 3
        elif how == "unknown":
            sizes = [s for s in sizes if s[0] != inp[k][0]] or sizes
        elif how == "split":
            # the first chromosome comes back after the others (refused since /repo 4ea85d7)
            if len(names) > 1:
                inp.append(list(inp[0])); o[6] = 0
        else:
            inp = inp[::-1] if len(names) > 1 else inp
    if rng.random() < 0.3:
        sizes.append(["chrUnused", 1000])
    rng.shuffle(sizes)
    queries = []
    zl = zoom_levels(o)
    for ci, (es, length) in enumerate(per):
        pts = sorted(set([0, length] + [p for e in es[:8] for p in e] + [p + d for e in es[:4] for p in e for d in (-1, 1) if p + d >= 0]
                         + [k * r for r in zl[:2] for k in range(0, 4)]))
        for _ in range(nqueries if ci < 2 else 1):
            s = rng.choice(pts); e = rng.choice(pts)
            if s > e: s, e = e, s
            queries.append([ci, s, e, rng.choice(zl) if zl else 10])
    queries.append([0, 0, 10, 7777]); queries.append([len(per), 0, 10, zl[0] if zl else 10])
    k = rng.choice([2, 2, 3]) if kind is None else kind
    tags.append("pass=%d" % (k - 1))
    return sx([k, o, sizes, inp, queries]), tags

def shrink(case_text):
    """candidates with one input item, one query or the zoom list shortened"""
    c = parse_sx(case_text)
    out = []
    for i in range(len(c[3])):
        d = [c[0], c[1], c[2], c[3][:i] + c[3][i + 1:], []]
        if d[3]:
            out.append(sx(d))
    if c[4]:
        out.append(sx([c[0], c[1], c[2], c[3], []]))
    if c[1][5] and len(c[1][5][0]) > 1:
        for i in range(len(c[1][5][0])):
            o = list(c[1]); o[5] = [c[1][5][0][:i] + c[1][5][0][i + 1:]]
            out.append(sx([c[0], o, c[2], c[3], []]))
    return out
