"""Generators of bigBed cases (DESIGN.md §6 C02/C04; format: coq/theories/Model/EntryBed.v).
Entry layouts per chromosome from a small grammar: disjoint / overlapping / nested / identical /
zero-length / "very long then short" / largest end not the last entry's end at block level and at
every index level / ends past the chromosome end; rest fields of 0..20 tab-separated printable UTF-8
columns (multi-byte included, no trailing whitespace).  All randomness from the rng passed in."""
from .core import sx
from . import bbigen

COLS = ["name", "0", "+", "-", "1000", "255,0,0", "é", "基因", "x y", "\U0001F600", "a" * 30, "ß-ÿ", "12,34,", ".",
        "Ω", "item_7", "0.5", "chr1:5-9", "~!@#$%^&*()", "日本語テキスト"]

def rest_field(rng, mode=None):
    mode = mode or rng.choice(["none", "one", "few", "bed12", "many", "twenty"])
    n = {"none": 0, "one": 1, "few": rng.randint(2, 4), "bed12": 9, "many": rng.randint(10, 19), "twenty": 20}[mode]
    cols = [rng.choice(COLS) for _ in range(n)]
    return "\t".join(cols).encode("utf-8"), mode

STYLES = ["disjoint", "overlap", "nested", "identical", "zero", "longshort", "maxnotlast", "pastend", "mixed", "single"]

def layout(rng, ips, bs, style=None, allow00=False):
    """start-sorted (start,end) list for one chromosome, the chromosome length, the style"""
    style = style or rng.choice(STYLES)
    n = rng.choice([1, 2, 3, ips, ips + 1, 2 * ips, 3 * ips + 2, ips * bs + 1])
    n = max(1, min(n, 40))
    if style == "single":
        n = 1
    pos = rng.choice([0, 0, 1, 7])
    items = []
    if style == "maxnotlast":
        # the first entry of every block / leaf node / second-level node reaches far to the right
        n = min(max(n, ips * bs + 2), ips * bs * bs + 3, 40)
        for i in range(n):
            ln = rng.choice([1, 2, 5])
            if i % ips == 0: ln += 300
            if i % (ips * bs) == 0: ln += 3000
            if i % (ips * bs * bs) == 0: ln += 30000
            items.append((pos, pos + ln))
            pos += rng.choice([1, 2, 3])
    else:
        for i in range(n):
            if style == "disjoint":
                ln = rng.choice([1, 2, 5, 10]); step = ln + rng.choice([0, 0, 1, 4, 30])
            elif style == "overlap":
                ln = rng.choice([5, 10, 20, 33]); step = rng.choice([0, 1, 2, 5, 9])
            elif style == "nested":
                depth = i % 4
                ln = max(1, 40 - 10 * depth + rng.choice([0, 1])); step = rng.choice([1, 2, 3]) if depth < 3 else rng.choice([1, 30])
            elif style == "identical":
                ln = 7; step = 0 if rng.random() < 0.7 else rng.choice([1, 7, 8])
            elif style == "zero":
                ln = rng.choice([0, 0, 3, 10]); step = rng.choice([0, 1, 2, 5])
            elif style == "longshort":
                ln = rng.choice([1000, 5000]) if i % 5 == 0 else rng.choice([1, 2, 3]); step = rng.choice([1, 2, 10])
            elif style == "pastend":
                ln = rng.choice([1, 5, 50, 500]); step = rng.choice([0, 1, 3])
            else:
                ln = rng.choice([0, 1, 2, 5, 10, 20, 33, 400]); step = rng.choice([0, 0, 1, 5, 9, 10, 11, 30])
            items.append((pos, pos + ln))
            pos += step
    if style == "zero" and rng.random() < 0.3:
        # a chromosome without a single covered base (positions >= 1: [0,0) is the known finding K2)
        items = [(max(a, 1), max(a, 1)) for (a, _) in items]; style = "zeroonly"
    last_start = items[-1][0]
    max_end = max(e for _, e in items)
    if style == "pastend":
        length = last_start + 1 + rng.choice([0, 1, 5])      # only start < length is checked by the writer
    else:
        length = max(max_end, last_start + 1) + rng.choice([0, 0, 1, 100])
    # [0,0) is the known finding K2: keep it out unless asked for
    if not allow00:
        items = [(s, e if (s, e) != (0, 0) else 1) for (s, e) in items]
        length = max(length, 1)
    return items, max(length, 1), style

def options(rng, tier, compress=None, zoom_mode=None, small_index=False):
    o, zm = bbigen.options(rng, tier, compress, zoom_mode)
    if small_index:
        o[1] = rng.choice([1, 2, 3]); o[2] = rng.choice([2, 3])
    return o, zm

def autosql_choice(rng, rests):
    k = rng.choice(["none", "none", "bed3ish", "text", "unparsable", "multibyte"] * 3 + ["long"])
    if k == "none":
        return [], k
    if k == "bed3ish":
        s = 'table bedX\n"generated"\n(\n string chrom; "c"\n uint chromStart; "s"\n uint chromEnd; "e"\n' + \
            "".join(' lstring f%d; "extra"\n' % i for i in range(rng.choice([0, 1, 3, 9]))) + ")\n"
    elif k == "text":
        s = 'table t "x" (string a; "A" uint b; "B")'
    elif k == "long":
        # longer than any reader-side buffer (8 KiB): must come back whole
        s = 'table longdoc\n"' + "documentation " * 700 + '"\n(\n string chrom; "c"\n uint chromStart; "s"\n uint chromEnd; "e"\n)\n'
    elif k == "unparsable":
        s = rng.choice(["", "not a schema at all", "table (", "  \n\t", "table t \"c\" ( int x )"])
    else:
        s = 'table gène\n"注釈 — schéma"\n(\n string chrom; "染色体"\n uint chromStart; "début"\n uint chromEnd; "fin"\n)\n'
    return [list(s.encode("utf-8"))], k

def points(items, length, ips, limit=14):
    pts = {0, length, max(length - 1, 0), 1}
    starts = sorted(set(i for i in list(range(0, len(items), max(1, ips))) + [len(items) - 1]))   # block firsts / last
    chosen = starts + list(range(min(len(items), 4)))
    for i in chosen[:limit]:
        s, e = items[i]
        for p in (s - 1, s, s + 1, e - 1, e, e + 1):
            if 0 <= p <= length + 2:
                pts.add(p)
    return sorted(pts)

def bed_case(rng, tier, want="roundtrip", kind=None, compress=None, zoom_mode=None, style=None, small_index=False,
             allow00=False, nul_autosql=False, nqueries=24):
    """want = 'roundtrip' (C02: full spans, autosql, item count, chromosome table, one cached history)
            | 'ranges'   (C04: boundary +-1 ranges per chromosome, plain reader and one cached history)"""
    sort_all = rng.choice([1, 1, 1, 0])
    names = bbigen.chrom_set(rng, sort_all, nmax=5)
    o, zm = options(rng, tier, compress, zoom_mode, small_index)
    o[6] = sort_all
    ips, bs = o[1], o[2]
    exact_bytes = (o[0] == 0)
    flags = 1 if exact_bytes else 0
    if exact_bytes and zm == "none" and rng.random() < 0.15:
        flags = 3      # the no-sweep model with the summary slot masked (kept as a cross-check)
    tags = [zm, "compress=%d" % o[0], "ips=%d" % ips, "bs=%d" % bs, "chroms=%d" % len(names), "bytes=%d" % (1 if exact_bytes else 0)]
    sizes = []; inp = []; per = {}
    for nm in names:
        items, length, st = layout(rng, min(ips, 8), min(bs, 4), style, allow00)
        tags.append(st)
        sizes.append([nm, length])
        rmode = rng.choice(["none", "one", "few", "bed12", "many", "twenty", None])
        for (s, e) in items:
            r, m = rest_field(rng, rmode)
            inp.append([nm, s, e, list(r)])
        tags.append("rest=" + str(rmode or "mixed"))
        per[nm] = (items, length)
    # keep the zoom part small: long entries under a tiny resolution make tens of thousands of records,
    # each its own section when items_per_slot is 1 (the zoom levels themselves are C08's subject; here
    # they only have to be present)
    total_span = sum(max(e for _, e in per[nm][0]) for nm in names)
    limit = 300 if ips <= 3 else 1500
    if o[5] and o[5][0]:
        pos = [z for z in o[5][0] if z > 0]
        if pos and total_span // min(pos) > limit:
            o[5] = [[total_span // (limit // 3) + 1, total_span // 20 + 2]]
            tags[0] = zm = "manual-scaled"
    elif not o[5] and total_span // max(1, o[3]) > limit:
        o[3] = total_span // (limit // 3) + 1
        tags[0] = zm = "auto-scaled"
    if rng.random() < 0.3:
        sizes.append(["chrUnused", 1000])
    rng.shuffle(sizes)
    asql, ak = autosql_choice(rng, None)
    if nul_autosql:
        asql, ak = [list(b"table t\x00 \"x\" (int a; \"A\")")], "nul"
    tags.append("autosql=" + ak)
    queries = []
    if want == "roundtrip":
        for nm in names:
            queries.append([0, nm, 0, per[nm][1]])
        queries += [[5], [6], [8], [4]]
        if rng.random() < 0.5:
            hist = [[nm, 0, per[nm][1]] for nm in names] * 2
            rng.shuffle(hist)
            queries.append([7, hist])
        queries.append([0, "nochrom", 0, 10])
    else:
        hist = []
        for nm in names:
            items, length = per[nm]
            pts = points(items, length, min(ips, 8))
            qs = [(0, length)]
            for p in pts:
                qs += [(p, p + 1), (0, p), (p, length)]
            for _ in range(nqueries):
                s = rng.choice(pts); e = rng.choice(pts)
                if s > e: s, e = e, s
                qs.append((s, e))
            qs = [(s, e) for (s, e) in qs if s <= e]
            rng.shuffle(qs)
            qs = qs[:nqueries] + [(0, length)]
            for (s, e) in qs:
                queries.append([0, nm, s, e]); hist.append([nm, s, e])
        rng.shuffle(hist)
        # zoom queries in between the interval queries, on the same reader: a zoom query must not
        # change what later interval queries answer (the reader remembers index offsets)
        levels = [z for z in (o[5][0] if o[5] else [o[3], o[3] * 4]) if z > 0]
        if levels and queries:
            for _ in range(3):
                nm = rng.choice(names)
                queries.insert(rng.randrange(len(queries) + 1), [2, nm, 0, per[nm][1], rng.choice(levels)])
            tags.append("zoom-between-intervals")
        queries.append([7, hist + hist[: len(hist) // 3]])
        queries.append([8])
    k = rng.choice([0, 0, 1]) if kind is None else kind
    tags.append("pass=%d" % (k + 1))
    return sx([k, o, sizes, inp, queries, asql, flags]), tags
