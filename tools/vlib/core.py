"""Shared machinery of /verif/bin/check: build steps, audit, case execution on the
implementation (Rust harness) and on the model (extracted OCaml driver), verdict,
replay and evidence files.  Python 3 standard library only."""
import hashlib, json, os, random, re, select, shutil, subprocess, sys, threading, time

VERIF = os.path.abspath(os.path.join(os.path.dirname(__file__), "..", ".."))
REPO = os.environ.get("VERIF_REPO", "/repo")
COQ = os.path.join(VERIF, "coq")
CACHE = os.path.join(VERIF, ".cache")
TARGET = os.path.join(CACHE, "harness-target")
HARNESS_BIN = os.path.join(TARGET, "debug", "bt_harness")
DRIVER = os.path.join(COQ, "extraction", "driver")
NCPU = min(16, os.cpu_count() or 4)
ENV = dict(os.environ, CARGO_NET_OFFLINE="true", CARGO_TARGET_DIR=TARGET)

FORBIDDEN = re.compile(r"\b(Admitted|admit|Axiom|Axioms|Parameter|Parameters|Conjecture|Conjectures|Hypothesis|Hypotheses|Variable|Variables|bypass_check|Admit Obligations)\b|Unset Guard Checking|Unset Positivity Checking|Unset Universe Checking|type-in-type|impredicative-set")
# axioms of the standard library that a theorem may depend on (each is named in DESIGN.md §4)
ALLOWED_AXIOMS = set()

class CheckError(Exception):
    pass

def log(msg):
    print(msg, flush=True)

def sh(cmd, cwd=None, timeout=1800, env=None, check=False):
    p = subprocess.run(cmd, cwd=cwd, shell=isinstance(cmd, str), stdout=subprocess.PIPE, stderr=subprocess.STDOUT,
                       timeout=timeout, env=env or ENV, text=True, errors="replace")
    if check and p.returncode != 0:
        raise CheckError(f"command failed ({p.returncode}): {cmd}\n{p.stdout[-4000:]}")
    return p.returncode, p.stdout

# ---------------------------------------------------------------- build steps
_lock_path = os.path.join(CACHE, "build.lock")

class BuildLock:
    """serialises builds when several checks run at once (flock)"""
    def __enter__(self):
        import fcntl
        os.makedirs(CACHE, exist_ok=True)
        self.f = open(_lock_path, "w")
        fcntl.flock(self.f, fcntl.LOCK_EX)
    def __exit__(self, *a):
        import fcntl
        fcntl.flock(self.f, fcntl.LOCK_UN); self.f.close()

def gen_consts():
    rc, out = sh([sys.executable, os.path.join(VERIF, "tools", "gen_consts.py")])
    if rc != 0:
        return False, out
    return True, out

def coq_vfiles():
    res = []
    for d, _, fs in os.walk(os.path.join(COQ, "theories")):
        for f in fs:
            if f.endswith(".v"):
                res.append(os.path.relpath(os.path.join(d, f), COQ))
    return sorted(res)

def coq_make(targets, clean=False, timeout=3000):
    """full .vo build (never -vos) of the given targets and what they depend on"""
    vfiles = coq_vfiles()
    mk = os.path.join(COQ, "Makefile")
    listing = "\n".join(vfiles)
    stamp = os.path.join(COQ, ".vfiles.list")
    old = open(stamp).read() if os.path.exists(stamp) else None
    if old != listing or not os.path.exists(mk):
        sh(["coq_makefile", "-f", "_CoqProject"] + vfiles + ["-o", "Makefile"], cwd=COQ, check=True)
        open(stamp, "w").write(listing)
    if clean:
        sh("make clean", cwd=COQ)
    rc, out = sh(["timeout", str(timeout), "make", "-j%d" % NCPU] + targets, cwd=COQ, timeout=timeout + 60)
    return rc == 0, out

def build_driver():
    ext = os.path.join(COQ, "extraction")
    entry_vo = os.path.join(COQ, "theories", "Model", "Entry.vo")
    drv = DRIVER
    srcs = [entry_vo, os.path.join(ext, "Extract.v"), os.path.join(ext, "driver.ml")]
    if os.path.exists(drv) and all(os.path.getmtime(drv) >= os.path.getmtime(s) for s in srcs):
        return True, "driver up to date"
    rc, out = sh(["timeout", "600", "coqc", "-Q", "../theories", "BT", "Extract.v"], cwd=ext)
    if rc != 0:
        return False, out
    rc, out2 = sh("ocamlfind ocamlopt -O3 -w -a model.mli model.ml driver.ml -o driver", cwd=ext, timeout=900)
    return rc == 0, out + out2

def build_harness(bins=False):
    h = os.path.join(VERIF, "harness")
    lock = os.path.join(h, "Cargo.lock")
    if not os.path.exists(lock) or open(lock).read() != open(os.path.join(REPO, "Cargo.lock")).read():
        # the harness resolves against the repository's own lock file (offline)
        base = open(os.path.join(REPO, "Cargo.lock")).read()
        if not os.path.exists(lock):
            open(lock, "w").write(base)
    rc, out = sh(["timeout", "1500", "cargo", "build", "--offline"], cwd=h, timeout=1600)
    if rc != 0:
        return False, out
    if bins:
        rc, out2 = sh(["timeout", "1500", "cargo", "build", "--offline", "-p", "bigtools", "--bins",
                       "--manifest-path", os.path.join(REPO, "Cargo.toml")],
                      cwd=REPO, timeout=1600,
                      env=dict(ENV, CARGO_TARGET_DIR=os.path.join(CACHE, "bins-target"), RUSTFLAGS="--cfg bigtools_verif"))
        return rc == 0, out + out2
    return True, out

BINS_DIR = os.path.join(CACHE, "bins-target", "debug")

# ---------------------------------------------------------------- audit
def audit_sources():
    """no Admitted / axioms / switched-off checks anywhere in the development"""
    bad = []
    for rel in coq_vfiles() + ["extraction/Extract.v"]:
        if rel.endswith("Generated/Consts.v"):
            pass
        text = open(os.path.join(COQ, rel)).read()
        # strip comments
        text = strip_comments(text)
        for i, line in enumerate(text.split("\n"), 1):
            m = FORBIDDEN.search(line)
            if m:
                # Variable/Hypothesis are allowed inside a Section only
                if m.group(1) in ("Variable", "Variables", "Hypothesis", "Hypotheses") and in_section(text, i):
                    continue
                bad.append(f"{rel}:{i}: {line.strip()}")
    return bad

def strip_comments(text):
    out = []; depth = 0; i = 0; n = len(text); in_str = False
    while i < n:
        if depth == 0 and text[i] == '"':
            in_str = not in_str; out.append(text[i]); i += 1; continue
        if not in_str and text.startswith("(*", i):
            depth += 1; i += 2; continue
        if not in_str and depth > 0 and text.startswith("*)", i):
            depth -= 1; i += 2; continue
        if depth == 0:
            out.append(text[i])
        elif text[i] == "\n":
            out.append("\n")
        i += 1
    return "".join(out)

def in_section(text, lineno):
    depth = 0
    for i, line in enumerate(text.split("\n"), 1):
        if i >= lineno:
            break
        if re.match(r"\s*Section\s+\w+", line): depth += 1
        elif re.match(r"\s*End\s+\w+\s*\.", line) and depth > 0: depth -= 1
    return depth > 0

def audit_assumptions(prop_id, theorems):
    """Print Assumptions under every property theorem; returns {thm: [axioms]} and failures"""
    if not theorems:
        return {}, []
    tmp = os.path.join(CACHE, "audit")
    os.makedirs(tmp, exist_ok=True)
    f = os.path.join(tmp, f"Audit_{prop_id}.v")
    with open(f, "w") as fh:
        fh.write(f"From BT Require Import Properties.{prop_id}.\n")
        for t in theorems:
            fh.write(f'Goal True. idtac "@@THM {t}". exact I. Qed.\nPrint Assumptions {t}.\n')
    rc, out = sh(["timeout", "600", "coqc", "-Q", os.path.join(COQ, "theories"), "BT", f], cwd=tmp)
    res = {}; fails = []
    if rc != 0:
        return res, [f"audit file did not compile: {out[-1500:]}"]
    cur = None
    for line in out.split("\n"):
        if line.startswith("@@THM "):
            cur = line[6:].strip(); res[cur] = []
        elif cur and line.strip() and not line.startswith("Closed under the global context") \
                and not line.startswith("Axioms:") and re.match(r"^[A-Za-z_][\w.']*\s*:", line):
            res[cur].append(line.split(":")[0].strip())
    for t in theorems:
        if t not in res:
            fails.append(f"no Print Assumptions output for {t}")
        else:
            for ax in res[t]:
                if ax not in ALLOWED_AXIOMS:
                    fails.append(f"{t} depends on axiom {ax}")
    return res, fails

# ---------------------------------------------------------------- running cases
def run_lines(cmd, lines, per_case_timeout=20.0, hang_token="(3)", env=None, cwd=None):
    """feed cases (one per line) to cmd, one output line per case.  A case that produces no
    output within the timeout is recorded as hang_token; the process is killed and restarted
    on the remaining cases."""
    outs = []
    i = 0
    n = len(lines)
    while i < n:
        p = subprocess.Popen(cmd, stdin=subprocess.PIPE, stdout=subprocess.PIPE, stderr=subprocess.DEVNULL,
                             env=env or ENV, cwd=cwd)
        data = ("\n".join(lines[i:]) + "\n").encode()
        t = threading.Thread(target=_feed, args=(p, data), daemon=True); t.start()
        fd = p.stdout.fileno(); buf = b""; hung = False
        while i + 0 < n:
            # read one line with timeout
            deadline = time.time() + per_case_timeout
            while b"\n" not in buf:
                left = deadline - time.time()
                if left <= 0:
                    hung = True; break
                r, _, _ = select.select([fd], [], [], left)
                if not r:
                    hung = True; break
                chunk = os.read(fd, 1 << 20)
                if not chunk:
                    break
                buf += chunk
            if b"\n" in buf:
                line, buf = buf.split(b"\n", 1)
                outs.append(line.decode(errors="replace")); i += 1
                continue
            if hung:
                outs.append(hang_token); i += 1
            else:  # process died (abort / stack overflow): record as panic
                outs.append("(2)"); i += 1
            break
        try:
            p.kill()
        except Exception:
            pass
        p.wait()
    return outs

def _feed(p, data):
    try:
        p.stdin.write(data); p.stdin.close()
    except Exception:
        pass

def run_sharded(cmd, lines, shards=NCPU, **kw):
    if len(lines) < 2 * shards:
        return run_lines(cmd, lines, **kw)
    k = (len(lines) + shards - 1) // shards
    parts = [lines[j:j + k] for j in range(0, len(lines), k)]
    res = [None] * len(parts)
    def work(ix):
        res[ix] = run_lines(cmd, parts[ix], **kw)
    ts = [threading.Thread(target=work, args=(ix,)) for ix in range(len(parts))]
    [t.start() for t in ts]; [t.join() for t in ts]
    return [o for part in res for o in part]

def run_impl(name, lines, **kw):
    return run_sharded([HARNESS_BIN, name], lines, **kw)

def run_model(entry, lines, **kw):
    kw.setdefault("per_case_timeout", 120.0)
    kw.setdefault("hang_token", "(-3)")
    return run_sharded(["/bin/sh", "-c", f"ulimit -s unlimited 2>/dev/null; exec {DRIVER} {entry}"], lines, **kw)

# ---------------------------------------------------------------- sexp helpers (python side)
def sx(x):
    """python nested lists/ints/bools/bytes/str -> sexp text"""
    if isinstance(x, bool):
        return "1" if x else "0"
    if isinstance(x, int):
        return str(x)
    if isinstance(x, (bytes, bytearray)):
        return "(" + " ".join(str(b) for b in x) + ")"
    if isinstance(x, str):
        return sx(x.encode())
    return "(" + " ".join(sx(y) for y in x) + ")"

def parse_sx(s):
    toks = re.findall(r"\(|\)|-?\d+", s)
    pos = 0
    def item():
        nonlocal pos
        t = toks[pos]; pos += 1
        if t == "(":
            l = []
            while toks[pos] != ")":
                l.append(item())
            pos += 1
            return l
        return int(t)
    return item()

# ---------------------------------------------------------------- known findings
def load_known():
    known, fixed = [], []
    p = os.path.join(VERIF, "known-findings.txt")
    if os.path.exists(p):
        for line in open(p):
            line = line.strip()
            if line.startswith("known:"):
                m = re.match(r"known:\s+property=(\S+)\s+class=(\S+)\s+(.*)", line)
                if m: known.append({"property": m.group(1), "class": m.group(2), "text": m.group(3)})
            elif line.startswith("fixed:"):
                fixed.append(line)
    return known, fixed

def write_replay(prop, seed, n, obj):
    d = os.path.join(VERIF, "replays"); os.makedirs(d, exist_ok=True)
    path = os.path.join(d, f"{prop}-{seed}-{n}.json")
    with open(path, "w") as f:
        json.dump(obj, f, indent=1)
    return path

def write_evidence(prop, obj):
    d = os.path.join(VERIF, "evidence"); os.makedirs(d, exist_ok=True)
    with open(os.path.join(d, f"{prop}.json"), "w") as f:
        json.dump(obj, f, indent=1)
