"""The check procedure common to all properties (DESIGN.md §1)."""
import importlib, json, os, random, sys, time, traceback
from . import core
from .core import log

class Prop:
    """Per-property plug-in.  Subclasses set the fields and override gen()."""
    ID = None
    THEOREMS = []            # names proved in Properties/<ID>.v (the proof obligations)
    HARNESS = None           # harness dispatch name (default ID)
    MODEL_ENTRY = 0          # driver entry of the model output (None: no model run)
    ORACLE_ENTRY = 1         # driver entry of the property oracle on (case, impl output) (None: none)
    NEED_BINS = False
    LEVEL = "proof"
    TRUSTED = []
    ASSUMPTIONS = []
    PER_CASE_TIMEOUT = 20.0
    MODEL_TIMEOUT = 120.0      # per case, for the extracted model / oracle
    RULE = ""
    CORRESPONDENCE = "model output = implementation output on every generated case"

    def gen(self, rng, tier):
        """yield (case_text, tags) ; tags: list of strings describing the case for the distribution"""
        raise NotImplementedError
    def nontrivial(self, case_text, tags):
        return True
    def known_class(self, case_text, impl_out):
        """slug of the known-finding class this failing case belongs to, or None"""
        return None
    def same(self, case_text, impl_out, model_out):
        return impl_out == model_out
    def corpus(self):
        d = os.path.join(core.VERIF, "corpus", self.ID)
        res = []
        if os.path.isdir(d):
            for f in sorted(os.listdir(d)):
                for line in open(os.path.join(d, f)):
                    line = line.strip()
                    if line and not line.startswith("#"):
                        res.append((line, ["corpus"]))
        return res
    def extra_checks(self, ctx):
        """optional additional checks; return list of (kind, description, replay-dict)"""
        return []
    def impl_outputs(self, lines):
        return core.run_impl(self.HARNESS or self.ID, lines, per_case_timeout=self.PER_CASE_TIMEOUT)
    def shrink_candidates(self, case_text):
        return []

def load_prop(pid):
    mod = importlib.import_module(f"vlib.props.{pid}")
    return mod.PROP

def shrink(prop, case, fails, budget_s=120.0):
    """greedy shrinking with the property's own candidate generator; fails(case)->bool.
    Bounded in time: reporting the violation matters more than the smallest witness."""
    cur = case
    deadline = time.time() + budget_s
    for _ in range(200):
        for cand in prop.shrink_candidates(cur):
            if time.time() > deadline:
                return cur
            try:
                if fails(cand):
                    cur = cand; break
            except Exception:
                pass
        else:
            return cur
    return cur

def evaluate(prop, cases):
    """run impl, model and oracle on cases -> list of dict(case, impl, model, oracle_ok, same)"""
    lines = [c for c, _ in cases]
    impl = prop.impl_outputs(lines)
    # cases tagged "oracle-only" (too large for the executable model to be worth running on every
    # change) are judged by the property oracle on the implementation's output alone
    mi = [k for k, (_, tags) in enumerate(cases) if "oracle-only" not in tags]
    model = [None] * len(lines)
    if prop.MODEL_ENTRY is not None and mi:
        for k, m in zip(mi, core.run_model(prop.ID, prop.MODEL_ENTRY, [lines[k] for k in mi], per_case_timeout=prop.MODEL_TIMEOUT)):
            model[k] = m
    if prop.ORACLE_ENTRY is not None:
        pairs = [f"({c} {o})" for c, o in zip(lines, impl)]
        orc = core.run_model(prop.ID, prop.ORACLE_ENTRY, pairs, per_case_timeout=prop.MODEL_TIMEOUT)
    else:
        orc = ["1"] * len(lines)
    res = []
    for (c, tags), i, m, o in zip(cases, impl, model, orc):
        res.append({"case": c, "tags": tags, "impl": i, "model": m, "oracle_ok": o.strip() == "1",
                    "same": True if m is None else prop.same(c, i, m)})
    return res

def run_check(pid, tier="quick", seed=0, replay=None):
    t0 = time.time()
    prop = load_prop(pid)
    log(f"[check] property={pid} tier={tier} seed={seed}")
    problems = []          # (kind, text) ; kind in proof / audit / build
    violations = []        # replay paths
    stats = {}
    known_hits = {}
    if True:   # builds are serialised where they share output: gen_consts (lock), coqmk (flock), cargo (its own lock); drivers are per property
        with core.BuildLock():
            ok, out = core.gen_consts()
        if not ok:
            problems.append(("translator", out[-2000:]))
        targets = [f"theories/Properties/{pid}.vo", f"theories/Properties/{pid}Pins.vo", f"theories/Model/Entry_{pid}.vo"]
        ok, out = core.coq_make(targets, clean=(tier == "thorough" and os.environ.get("VERIF_CLEAN") == "1"))
        proof_ok = ok
        if not ok:
            problems.append(("proof", out[-3000:]))
            # the models may still build: try the model closure alone so the search can run
            ok2, out2 = core.coq_make([f"theories/Model/Entry_{pid}.vo"])
            if not ok2:
                problems.append(("model-build", out2[-3000:]))
        # the verdict depends on the files this property's theorems are built from; the rest of the
        # development (other properties' files, possibly under construction) is audited too and
        # reported, but does not decide this property
        closure = core.coq_closure(targets)
        bad = core.audit_sources(closure)
        if bad:
            problems.append(("audit", "forbidden vernacular: " + "; ".join(bad[:10])))
        bad_elsewhere = [b for b in core.audit_sources() if b not in bad]
        if bad_elsewhere:
            log("[check] NOTE: forbidden vernacular outside this property's closure (does not decide it): " + "; ".join(bad_elsewhere[:5]))
        stats["audit_files_in_closure"] = len(closure) if closure is not None else -1
        stats["audit_clean_whole_development"] = not bad_elsewhere and not bad
        assum = {}
        if proof_ok:
            assum, fails = core.audit_assumptions(pid, prop.THEOREMS)
            if fails:
                problems.append(("audit", "; ".join(fails)))
        ok, out = core.build_driver(pid)
        if not ok:
            problems.append(("driver-build", out[-3000:]))
        ok, out = core.build_harness(prop.HARNESS or pid, bins=prop.NEED_BINS)
        if not ok:
            problems.append(("harness-build", out[-3000:]))
            log(out[-3000:])
    if tier == "thorough" and proof_ok and os.environ.get("VERIF_NO_COQCHK") != "1":
        rc, out = core.sh(["timeout", "3000", "coqchk", "-silent", "-o", "-Q", "theories", "BT", f"BT.Properties.{pid}"],
                          cwd=core.COQ, timeout=3100)
        if rc != 0:
            problems.append(("coqchk", out[-2000:]))
        else:
            log("[check] coqchk: " + " ".join(out.strip().split("\n")[-6:]))

    build_broken = any(k in ("driver-build", "harness-build", "model-build") for k, _ in problems)
    results = []
    if replay:
        rp = json.load(open(replay))
        cases = [(rp["case"], ["replay"])] if rp.get("case") else []
    else:
        rng = random.Random(seed)
        cases = prop.corpus() + list(prop.gen(rng, tier))
    if not build_broken and cases:
        results = evaluate(prop, cases)
    # classify
    n_eval = len(results)
    distinct = set()
    tagcount = {}
    disagreements = []
    oracle_fail = []
    for r in results:
        for t in r["tags"]:
            tagcount[t] = tagcount.get(t, 0) + 1
        if prop.nontrivial(r["case"], r["tags"]):
            distinct.add(r["case"])
        if not r["oracle_ok"]:
            oracle_fail.append(r)
        elif not r["same"]:
            disagreements.append(r)
    known, _fixed = core.load_known()
    known_classes = {k["class"]: k for k in known if k["property"] == pid}
    nrep = 0
    for r in oracle_fail:
        slug = prop.known_class(r["case"], r["impl"])
        if slug and slug in known_classes:
            known_hits[slug] = known_hits.get(slug, 0) + 1
            continue
        # shrink
        def fails(c):
            rr = evaluate(prop, [(c, ["shrink"])])[0]
            return not rr["oracle_ok"] and not (prop.known_class(c, rr["impl"]) in known_classes)
        small = shrink(prop, r["case"], fails) if (len(violations) < 3 and len(r["case"]) < 300000) else r["case"]
        rr = evaluate(prop, [(small, ["shrunk"])])[0]
        path = core.write_replay(pid, seed, nrep, {
            "property": pid, "kind": "failing-input", "case": small, "shrunk_from": r["case"] if small != r["case"] else None,
            "observed_impl": rr["impl"][:4000], "model": (rr["model"] or "")[:4000],
            "oracle": "property oracle false on the implementation's output",
            "how_to_replay": f"bin/check {pid} --replay <this file>"})
        nrep += 1
        violations.append((path, ""))
        if len(violations) >= 5:
            break
    # extra (property specific) checks
    if not build_broken:
        try:
            for kind, text, rep in prop.extra_checks({"tier": tier, "seed": seed, "known": known_classes, "known_hits": known_hits}):
                if kind == "violation":
                    path = core.write_replay(pid, seed, nrep, rep); nrep += 1
                    violations.append((path, ""))
                elif kind == "nofail":
                    path = core.write_replay(pid, seed, nrep, rep); nrep += 1
                    violations.append((path, " no-failing-input-found"))
                elif kind == "stat":
                    stats[text] = rep
        except Exception as e:
            problems.append(("extra", traceback.format_exc()[-2000:]))
    if not violations and (disagreements or problems):
        # the model or a proof no longer matches the code: search for a failing input
        found = None
        if not build_broken and not replay:
            log("[check] correspondence/proof broken; extended search for a failing input")
            rng2 = random.Random(seed + 7919)
            extra = list(prop.gen(rng2, "thorough"))[:20000]
            for r in evaluate(prop, extra):
                if not r["oracle_ok"] and not (prop.known_class(r["case"], r["impl"]) in known_classes):
                    found = r; break
        if found:
            path = core.write_replay(pid, seed, nrep, {"property": pid, "kind": "failing-input", "case": found["case"],
                                                    "observed_impl": found["impl"][:4000], "model": (found["model"] or "")[:4000],
                                                    "found_by": "extended search after a broken correspondence/proof"})
            violations.append((path, ""))
        else:
            what = {"property": pid, "kind": "correspondence-broken" if disagreements else "proof-or-build-broken"}
            if disagreements:
                d = disagreements[0]
                what.update({"theorem_or_correspondence": prop.CORRESPONDENCE, "case": d["case"],
                             "observed_impl": d["impl"][:4000], "model": (d["model"] or "")[:4000],
                             "disagreeing_cases": len(disagreements)})
            if problems:
                what["problems"] = [{"kind": k, "detail": t[-1500:]} for k, t in problems]
                what.setdefault("theorem_or_correspondence", "; ".join(f"{k}" for k, _ in problems))
            path = core.write_replay(pid, seed, nrep, what)
            violations.append((path, " no-failing-input-found"))
    # evidence
    samples = [{"case": r["case"][:600], "impl": r["impl"][:300]} for r in results[:2] + results[-1:]]
    ev = {
        "property_id": pid, "tier": tier, "seed": seed, "level": prop.LEVEL,
        "coverage": {
            "obligations": len(prop.THEOREMS), "discharged": len(prop.THEOREMS) if proof_ok and not any(k == "audit" for k, _ in problems) else 0,
            "theorems": prop.THEOREMS,
            "axioms_per_theorem": assum,
            "checker_cmd": f"cd /verif/coq && make theories/Properties/{pid}.vo (coqc 8.16.1, full .vo build) ; Print Assumptions per theorem" + (" ; coqchk -o" if tier == "thorough" else ""),
            "trusted_base": ["Coq 8.16.1 kernel, vm_compute", "tools/gen_consts.py", "OCaml extraction (ExtrOcamlBasic only) + driver.ml",
                             "Rust harness /verif/harness", "bin/check"] + prop.TRUSTED,
            "evaluations": n_eval, "distinct_nontrivial": len(distinct),
            "rule": prop.RULE, "samples": samples or [{"note": "no case evaluated"}],
            "distribution": tagcount, "disagreements_checked": n_eval, "model_impl_disagreements": len(disagreements),
            "oracle_failures": len(oracle_fail), "known_finding_hits": known_hits, "extra": stats,
        },
        "assumptions": prop.ASSUMPTIONS,
        "wall_s": round(time.time() - t0, 2),
        "violations": len(violations),
    }
    core.write_evidence(pid, ev)
    for slug, cnt in known_hits.items():
        log(f"KNOWN-FINDING: property={pid} {slug}: {known_classes[slug]['text']} ({cnt} cases)")
    for k, t in problems:
        log(f"[check] PROBLEM {k}: {t[-1200:]}")
    log(f"[check] {pid}: {n_eval} cases, {len(distinct)} distinct non-trivial, {len(disagreements)} model/impl disagreements, "
        f"{len(oracle_fail)} oracle failures, {len(prop.THEOREMS)} theorems, {round(time.time()-t0,1)} s")
    if replay and results:
        r = results[0]
        log(f"[replay] case:  {r['case'][:2000]}\n[replay] impl:  {r['impl'][:2000]}\n[replay] model: {(r['model'] or '')[:2000]}\n[replay] oracle_ok={r['oracle_ok']} same={r['same']}")
    if violations:
        for path, suffix in violations:
            print(f"VIOLATION property={pid} replay={path}{suffix}", flush=True)
        return 1
    return 0
