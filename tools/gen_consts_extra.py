"""Additional table translators for tools/gen_consts.py.

`extra(src, one, num)` is called by gen_consts.py with its helpers
  src(rel)                  -> text of /repo/<rel> (or of $VERIF_REPO/<rel>)
  one(text, pat, what, fl)  -> the unique match of an anchored regex, hard error otherwise
  num(s)                    -> integer value of a Rust integer literal / sum
and returns Coq vernacular lines that are appended to Generated/Consts.v (which already
imports NArith List String, ListNotations and opens N_scope).

Structure: one independent generator function per table, registered in GENERATORS.  Each
takes (src, one, num) and returns a list of lines.  Only *data* is translated.  Every
anchor must match exactly once; anything unexpected (an unknown escape, a changed shape)
is a hard error so that a model never silently keeps a stale table.
"""
import re, sys

# ------------------------------------------------------------------ helpers

def die(msg):
    sys.exit("gen_consts_extra: " + msg)

def rust_unescape(lit, what):
    """bytes of a normal (non-raw) Rust string literal body"""
    out = bytearray(); i = 0; n = len(lit)
    while i < n:
        c = lit[i]
        if c != "\\":
            out += c.encode("utf-8"); i += 1; continue
        if i + 1 >= n:
            die(f"{what}: dangling backslash")
        e = lit[i + 1]
        if e == "n": out.append(10); i += 2
        elif e == "t": out.append(9); i += 2
        elif e == "r": out.append(13); i += 2
        elif e == "0": out.append(0); i += 2
        elif e == "\\": out.append(92); i += 2
        elif e == '"': out.append(34); i += 2
        elif e == "'": out.append(39); i += 2
        elif e == "\n":
            # line continuation: the newline and all following whitespace are skipped
            i += 2
            while i < n and lit[i] in " \t\n\r": i += 1
        else:
            die(f"{what}: unsupported escape \\{e}")
    return bytes(out)

def coq_bytes(b):
    return "[" + "; ".join(str(x) for x in b) + "]"

def coq_comment_text(b):
    """a printable rendering that cannot close a Coq comment or open a string inside it"""
    s = b.decode("utf-8", "replace").replace("\n", "\\n").replace("\t", "\\t")
    return s.replace("*)", "* )").replace("(*", "( *").replace('"', "'")

RUST_STR = r'"((?:[^"\\]|\\.)*)"'        # a normal string literal, group 1 = body (re.S)

# ------------------------------------------------------------------ autoSql tables (C19)

def gen_autosql(src, one, num):
    a = src("bigtools/src/bed/autosql.rs")
    L = ["", "(* ---- bigtools/src/bed/autosql.rs: BED3, the bed_autosql header, FIELDS, the undocumented-field line ---- *)"]
    # BED3: raw string, no escapes
    bed3 = one(a, r'pub const BED3: &str = r#"(.*?)"#;', "autosql BED3", re.S)
    b = bed3.encode("utf-8")
    L.append(f"(* BED3 = {coq_comment_text(b)} *)")
    L.append(f"Definition AUTOSQL_BED3 : list N := {coq_bytes(b)}.")
    # the library default when no schema is given: BigBedWrite::write_pre
    w = src("bigtools/src/bbi/bigbedwrite.rs")
    dflt = one(w, r"let autosql = autosql\.unwrap_or_else\(\|\| crate::bed::autosql::(\w+)\.to_string\(\)\);", "write_pre default autosql")
    if dflt != "BED3":
        die(f"write_pre default autosql is {dflt}, expected BED3 (extend the translator)")
    L.append("Definition AUTOSQL_LIBRARY_DEFAULT : list N := AUTOSQL_BED3.")
    fc_dflt = one(w, r"let field_count = field_count\.unwrap_or\((\d+)\) as u16;", "write_pre fallback field count")
    L.append(f"Definition AUTOSQL_FALLBACK_FIELD_COUNT : N := {num(fc_dflt)}.")
    # body of bed_autosql
    body = one(a, r"pub fn bed_autosql\(rest: &str\) -> String \{(.*?)\n\}\n", "bed_autosql body", re.S)
    sep = one(body, r"rest\.split\('(\\?.)'\)\.count\(\)", "bed_autosql column separator")
    sepb = rust_unescape(sep, "column separator")
    if len(sepb) != 1: die("column separator is not one byte")
    L.append(f"Definition AUTOSQL_COLUMN_SEP : N := {sepb[0]}.")
    head = one(body, r"let mut def = " + RUST_STR + r"\s*\.to_string\(\);", "bed_autosql header text", re.S)
    hb = rust_unescape(head, "bed_autosql header")
    L.append(f"(* header = {coq_comment_text(hb)} *)")
    L.append(f"Definition AUTOSQL_BED_HEADER : list N := {coq_bytes(hb)}.")
    # FIELDS
    tbl = one(body, r"const FIELDS: &\[&str\] = &\[(.*?)\n    \];", "bed_autosql FIELDS", re.S)
    entries = re.findall(r"^\s*" + RUST_STR + r",\s*$", tbl, re.M)
    nlines = len([l for l in tbl.split("\n") if l.strip()])
    if not entries or len(entries) != nlines:
        die(f"FIELDS: {len(entries)} string entries on {nlines} non-empty lines")
    raws = [rust_unescape(e, "FIELDS entry") for e in entries]
    L.append("Definition AUTOSQL_FIELDS : list (list N) := [")
    for k, r in enumerate(raws):
        L.append(f"  (* {coq_comment_text(r)} *)")
        L.append("  " + coq_bytes(r) + (";" if k + 1 < len(raws) else ""))
    L.append("].")
    # the same entries split into (type incl. array size, name, comment without quotes)
    specs = []
    for r in raws:
        m = re.fullmatch(rb'[ \t]+(\S+)[ \t]+(\w+);[ \t]+"([^"]*)"\n', r)
        if not m: die(f"FIELDS entry does not have the shape <type> <name>; \"<comment>\"\\n: {r!r}")
        specs.append(m.groups())
    L.append("(* (type with array size, name, comment) of each FIELDS entry, split by the translator; the Coq")
    L.append("   development re-derives them from AUTOSQL_FIELDS with the parser model (AutoSqlGen.v) *)")
    L.append("Definition AUTOSQL_FIELD_SPECS : list (list N * list N * list N) := [")
    for k, (t, nme, cm) in enumerate(specs):
        L.append(f"  (* {coq_comment_text(t)} {coq_comment_text(nme)} : {coq_comment_text(cm)} *)")
        L.append(f"  ({coq_bytes(t)}, {coq_bytes(nme)}, {coq_bytes(cm)})" + (";" if k + 1 < len(specs) else ""))
    L.append("].")
    # the loops: FIELDS[0..extra.min(len)], then len..extra.max(len) with format!(.., i + 3 + 1)
    one(body, r"for field in &FIELDS\[0\.\.extra_fields\.min\(FIELDS\.len\(\)\)\] \{\s*def\.push_str\(field\);\s*\}", "bed_autosql table loop", re.S)
    und = one(body, r"for i in FIELDS\.len\(\)\.\.extra_fields\.max\(FIELDS\.len\(\)\) \{\s*def\.push_str\(&format!\(\s*" + RUST_STR + r",\s*i \+ ([0-9+ ]+?)\s*\)\)\s*\}",
              "bed_autosql undocumented-field loop", re.S)
    fmt, off = und
    fb = rust_unescape(fmt, "undocumented-field format")
    if fb.count(b"{}") != 1 or b"{" in fb.replace(b"{}", b"") or b"}" in fb.replace(b"{}", b""):
        die("undocumented-field format string is not of the form <prefix>{}<suffix>")
    pre, suf = fb.split(b"{}")
    L.append(f"(* undocumented field line = {coq_comment_text(pre)}<i + offset>{coq_comment_text(suf)} *)")
    L.append(f"Definition AUTOSQL_UNDOC_PREFIX : list N := {coq_bytes(pre)}.")
    L.append(f"Definition AUTOSQL_UNDOC_SUFFIX : list N := {coq_bytes(suf)}.")
    L.append(f"Definition AUTOSQL_UNDOC_OFFSET : N := {num(off)}.")
    close = one(body, r"def\.push\('(\\?.)'\);\s*def\s*$", "bed_autosql closing character", re.S)
    cb = rust_unescape(close, "closing character")
    if len(cb) != 1: die("closing character is not one byte")
    L.append(f"Definition AUTOSQL_CLOSE : N := {cb[0]}.")
    # parser: the declaration cap (`if i > 3 { break; }`)
    cap = one(a, r"let mut i = 0;\s*loop \{\s*if i > (\d+) \{\s*break;\s*\}\s*i \+= 1;\s*let dec = parse_declaration\(parser\)\?;", "declaration cap", re.S)
    L.append(f"Definition AUTOSQL_DECL_CAP : N := {num(cap)}.   (* the loop stops once i > cap: at most cap+1 declarations *)")
    return L

# Register further table generators here; each is independent of the others.
GENERATORS = [gen_autosql]

def extra(src, one, num):
    lines = []
    for g in GENERATORS:
        lines += g(src, one, num)
    return lines
