"""Additional table translators for tools/gen_consts.py.

`extra(src, one, num)` is called by gen_consts.py with its helpers
  src(rel)                  -> text of /repo/<rel> (or of $VERIF_REPO/<rel>)
  one(text, pat, what, fl)  -> the unique match of an anchored regex, hard error otherwise
  num(s)                    -> integer value of a Rust integer literal / sum
and returns Coq vernacular lines that are appended to Generated/Consts.v (which already
imports NArith List String, ListNotations and opens N_scope).

Structure: one independent generator function per table, registered in GENERATORS.  Each
takes (src, one, num) and returns a list of lines.  Only *data* is translated.  Every
anchor must match exactly once; anything unexpected (an unknown escape, a changed shape)
is a hard error so that a model never silently keeps a stale table.
"""
import re, sys

# ------------------------------------------------------------------ helpers

def die(msg):
    sys.exit("gen_consts_extra: " + msg)

def rust_unescape(lit, what):
    """bytes of a normal (non-raw) Rust string literal body"""
    out = bytearray(); i = 0; n = len(lit)
    while i < n:
        c = lit[i]
        if c != "\\":
            out += c.encode("utf-8"); i += 1; continue
        if i + 1 >= n:
            die(f"{what}: dangling backslash")
        e = lit[i + 1]
        if e == "n": out.append(10); i += 2
        elif e == "t": out.append(9); i += 2
        elif e == "r": out.append(13); i += 2
        elif e == "0": out.append(0); i += 2
        elif e == "\\": out.append(92); i += 2
        elif e == '"': out.append(34); i += 2
        elif e == "'": out.append(39); i += 2
        elif e == "\n":
            # line continuation: the newline and all following whitespace are skipped
            i += 2
            while i < n and lit[i] in " \t\n\r": i += 1
        else:
            die(f"{what}: unsupported escape \\{e}")
    return bytes(out)

def coq_bytes(b):
    return "[" + "; ".join(str(x) for x in b) + "]"

def coq_comment_text(b):
    """a printable rendering that cannot close a Coq comment or open a string inside it"""
    s = b.decode("utf-8", "replace").replace("\n", "\\n").replace("\t", "\\t")
    return s.replace("*)", "* )").replace("(*", "( *").replace('"', "'")

RUST_STR = r'"((?:[^"\\]|\\.)*)"'        # a normal string literal, group 1 = body (re.S)

# ------------------------------------------------------------------ autoSql tables (C19)

def gen_autosql(src, one, num):
    a = src("bigtools/src/bed/autosql.rs")
    L = ["", "(* ---- bigtools/src/bed/autosql.rs: BED3, the bed_autosql header, FIELDS, the undocumented-field line ---- *)"]
    # BED3: raw string, no escapes
    bed3 = one(a, r'pub const BED3: &str = r#"(.*?)"#;', "autosql BED3", re.S)
    b = bed3.encode("utf-8")
    L.append(f"(* BED3 = {coq_comment_text(b)} *)")
    L.append(f"Definition AUTOSQL_BED3 : list N := {coq_bytes(b)}.")
    # the library default when no schema is given: BigBedWrite::write_pre
    w = src("bigtools/src/bbi/bigbedwrite.rs")
    dflt = one(w, r"let autosql = autosql\.unwrap_or_else\(\|\| crate::bed::autosql::(\w+)\.to_string\(\)\);", "write_pre default autosql")
    if dflt != "BED3":
        die(f"write_pre default autosql is {dflt}, expected BED3 (extend the translator)")
    L.append("Definition AUTOSQL_LIBRARY_DEFAULT : list N := AUTOSQL_BED3.")
    fc_dflt = one(w, r"let field_count = field_count\.unwrap_or\((\d+)\) as u16;", "write_pre fallback field count")
    L.append(f"Definition AUTOSQL_FALLBACK_FIELD_COUNT : N := {num(fc_dflt)}.")
    # body of bed_autosql
    body = one(a, r"pub fn bed_autosql\(rest: &str\) -> String \{(.*?)\n\}\n", "bed_autosql body", re.S)
    sep = one(body, r"rest\.split\('(\\?.)'\)\.count\(\)", "bed_autosql column separator")
    sepb = rust_unescape(sep, "column separator")
    if len(sepb) != 1: die("column separator is not one byte")
    L.append(f"Definition AUTOSQL_COLUMN_SEP : N := {sepb[0]}.")
    head = one(body, r"let mut def = " + RUST_STR + r"\s*\.to_string\(\);", "bed_autosql header text", re.S)
    hb = rust_unescape(head, "bed_autosql header")
    L.append(f"(* header = {coq_comment_text(hb)} *)")
    L.append(f"Definition AUTOSQL_BED_HEADER : list N := {coq_bytes(hb)}.")
    # FIELDS
    tbl = one(body, r"const FIELDS: &\[&str\] = &\[(.*?)\n    \];", "bed_autosql FIELDS", re.S)
    entries = re.findall(r"^\s*" + RUST_STR + r",\s*$", tbl, re.M)
    nlines = len([l for l in tbl.split("\n") if l.strip()])
    if not entries or len(entries) != nlines:
        die(f"FIELDS: {len(entries)} string entries on {nlines} non-empty lines")
    raws = [rust_unescape(e, "FIELDS entry") for e in entries]
    L.append("Definition AUTOSQL_FIELDS : list (list N) := [")
    for k, r in enumerate(raws):
        L.append(f"  (* {coq_comment_text(r)} *)")
        L.append("  " + coq_bytes(r) + (";" if k + 1 < len(raws) else ""))
    L.append("].")
    # the same entries split into (type incl. array size, name, comment without quotes)
    specs = []
    for r in raws:
        m = re.fullmatch(rb'[ \t]+(\S+)[ \t]+(\w+);[ \t]+"([^"]*)"\n', r)
        if not m: die(f"FIELDS entry does not have the shape <type> <name>; \"<comment>\"\\n: {r!r}")
        specs.append(m.groups())
    L.append("(* (type with array size, name, comment) of each FIELDS entry, split by the translator; the Coq")
    L.append("   development re-derives them from AUTOSQL_FIELDS with the parser model (AutoSqlGen.v) *)")
    L.append("Definition AUTOSQL_FIELD_SPECS : list (list N * list N * list N) := [")
    for k, (t, nme, cm) in enumerate(specs):
        L.append(f"  (* {coq_comment_text(t)} {coq_comment_text(nme)} : {coq_comment_text(cm)} *)")
        L.append(f"  ({coq_bytes(t)}, {coq_bytes(nme)}, {coq_bytes(cm)})" + (";" if k + 1 < len(specs) else ""))
    L.append("].")
    # the loops: FIELDS[0..extra.min(len)], then len..extra.max(len) with format!(.., i + 3 + 1)
    one(body, r"for field in &FIELDS\[0\.\.extra_fields\.min\(FIELDS\.len\(\)\)\] \{\s*def\.push_str\(field\);\s*\}", "bed_autosql table loop", re.S)
    und = one(body, r"for i in FIELDS\.len\(\)\.\.extra_fields\.max\(FIELDS\.len\(\)\) \{\s*def\.push_str\(&format!\(\s*" + RUST_STR + r",\s*i \+ ([0-9+ ]+?)\s*\)\)\s*\}",
              "bed_autosql undocumented-field loop", re.S)
    fmt, off = und
    fb = rust_unescape(fmt, "undocumented-field format")
    if fb.count(b"{}") != 1 or b"{" in fb.replace(b"{}", b"") or b"}" in fb.replace(b"{}", b""):
        die("undocumented-field format string is not of the form <prefix>{}<suffix>")
    pre, suf = fb.split(b"{}")
    L.append(f"(* undocumented field line = {coq_comment_text(pre)}<i + offset>{coq_comment_text(suf)} *)")
    L.append(f"Definition AUTOSQL_UNDOC_PREFIX : list N := {coq_bytes(pre)}.")
    L.append(f"Definition AUTOSQL_UNDOC_SUFFIX : list N := {coq_bytes(suf)}.")
    L.append(f"Definition AUTOSQL_UNDOC_OFFSET : N := {num(off)}.")
    close = one(body, r"def\.push\('(\\?.)'\);\s*def\s*$", "bed_autosql closing character", re.S)
    cb = rust_unescape(close, "closing character")
    if len(cb) != 1: die("closing character is not one byte")
    L.append(f"Definition AUTOSQL_CLOSE : N := {cb[0]}.")
    # parser: the declaration cap (`if i > 3 { break; }`)
    cap = one(a, r"let mut i = 0;\s*loop \{\s*if i > (\d+) \{\s*break;\s*\}\s*i \+= 1;\s*let dec = parse_declaration\(parser\)\?;", "declaration cap", re.S)
    L.append(f"Definition AUTOSQL_DECL_CAP : N := {num(cap)}.   (* the loop stops once i > cap: at most cap+1 declarations *)")
    return L

# ------------------------------------------------------------------ UCSC flag table and native flags (C16)

def coq_str_list(items):
    return "[" + "; ".join(coq_bytes(x) for x in items) + "]"

def clap_flags(text, struct, what):
    """(long flags, short flags) that clap's derive gives the fields of `pub struct <struct> { .. }`"""
    body = None
    for m in re.finditer(r"pub struct " + struct + r" \{\n(.*?)\n\}\n", text, re.S):
        if body is not None: die(f"{what}: struct {struct} found twice")
        body = m.group(1)
    if body is None: die(f"{what}: struct {struct} not found")
    longs, shorts, attrs = [], [], []
    for line in body.split("\n"):
        t = line.strip()
        if t.startswith("///") or t == "":
            continue
        m = re.fullmatch(r"#\[(arg|command)\((.*)\)\]", t)
        if m:
            if m.group(1) == "arg": attrs.append(m.group(2))
            continue
        m = re.fullmatch(r"pub (\w+): (.+),", t)
        if not m: die(f"{what}: unexpected line in struct {struct}: {t!r}")
        field = m.group(1)
        for a in attrs:
            for part in [x.strip() for x in a.split(",")]:
                if part == "long": longs.append(("--" + field.replace("_", "-")).encode())
                elif part.startswith("long"):
                    mm = re.fullmatch(r'long\s*=\s*"([^"]+)"', part)
                    if not mm: die(f"{what}: unsupported long attribute {part!r}")
                    longs.append(("--" + mm.group(1)).encode())
                elif part == "short": shorts.append(("-" + field[0]).encode())
                elif part.startswith("short"):
                    mm = re.fullmatch(r"short\s*=\s*'(.)'", part)
                    if not mm: die(f"{what}: unsupported short attribute {part!r}")
                    shorts.append(("-" + mm.group(1)).encode())
        attrs = []
    return longs, shorts

def gen_compat(src, one, num):
    c = src("bigtools/src/utils/cli.rs")
    L = ["", "(* ---- bigtools/src/utils/cli.rs: compat_arg_mut table (UCSC spellings), the commands it is applied to, native clap flags ---- *)"]
    # the macro: which string operation performs the replacement
    mac = one(c, r"macro_rules! compat_replace_mut \{(.*?)\n\}\n", "compat_replace_mut macro", re.S)
    arms = re.findall(r"Some\(b\) if b\.starts_with\(\$(\w+)\) =>", mac)
    if arms != ["find", "ignore", "unimplemented"]:
        die(f"compat_replace_mut: match arms are {arms}, expected find / ignore / unimplemented in this order")
    op = one(mac, r"OsString::from_str\(&b\.(replace\(\$find, \$replace\)|replacen\(\$find, \$replace, 1\))\)\.unwrap\(\)", "replacement operation")
    L.append("(* true: every occurrence of the UCSC spelling inside the argument is replaced (str::replace); false: only the prefix (replacen .. 1) *)")
    L.append("Definition COMPAT_REPLACE_ALL : bool := %s." % ("true" if op.startswith("replace(") else "false"))
    one(mac, r"Some\(b\) if b\.starts_with\(\$ignore\) => \*\(\$a\) = OsString::from_str\(\"\"\)\.unwrap\(\),", "ignore arm")
    one(mac, r"Some\(b\) if b\.starts_with\(\$unimplemented\) => \{\s*panic!\(", "unimplemented arm", re.S)
    tbl = one(c, r"fn compat_arg_mut\(arg: &mut OsString\) \{\s*compat_replace_mut!\(arg;(.*?)\n    \)\n\}", "compat_arg_mut table", re.S)
    m = re.fullmatch(r"\s*replace:(.*?)ignore:(.*?)unimplemented:(.*)", tbl, re.S)
    if not m: die("compat_arg_mut: sections replace / ignore / unimplemented not found in this order")
    def strs(sec, what):
        items = [x.strip() for x in sec.strip().split(";")]
        out = []
        for it in items:
            parts = re.findall(RUST_STR, it)
            if re.sub(RUST_STR, "", it).replace(",", "").strip() != "" or not parts:
                die(f"{what}: unexpected entry {it!r}")
            out.append([rust_unescape(p, what) for p in parts])
        return out
    rep = strs(m.group(1), "compat replace")
    if any(len(x) != 2 for x in rep): die("compat replace: entries must be pairs")
    ign = strs(m.group(2), "compat ignore"); unimp = strs(m.group(3), "compat unimplemented")
    if any(len(x) != 1 for x in ign + unimp): die("compat ignore/unimplemented: entries must be single strings")
    L.append("Definition COMPAT_REPLACE : list (list N * list N) := [")
    for k, (a, b) in enumerate(rep):
        L.append(f"  (* {coq_comment_text(a)} -> {coq_comment_text(b)} *)")
        L.append(f"  ({coq_bytes(a)}, {coq_bytes(b)})" + (";" if k + 1 < len(rep) else ""))
    L.append("].")
    L.append("(* " + " ".join(coq_comment_text(x[0]) for x in ign) + " *)")
    L.append(f"Definition COMPAT_IGNORE : list (list N) := {coq_str_list([x[0] for x in ign])}.")
    L.append("(* " + " ".join(coq_comment_text(x[0]) for x in unimp) + " *)")
    L.append(f"Definition COMPAT_UNIMPLEMENTED : list (list N) := {coq_str_list([x[0] for x in unimp])}.")
    # compat_args: the commands whose arguments are rewritten (the arm that is not bigwigmerge)
    arm = one(c, r"\n((?:\s*\|?\s*Some\(\"\w+\"\)\s*)+)=> \{\s*let mut args_vec = start;\s*args_vec\.extend\(args\);\s*compat_args_vec\(args_vec\)\.into_iter\(\)",
              "compat_args command arm", re.S)
    # compat_args_vec: every argument is rewritten; one that the ignore rule blanked is dropped
    one(c, r"fn compat_args_vec\(args_vec: Vec<OsString>\) -> Vec<OsString> \{\s*args_vec\s*\.into_iter\(\)\s*\.filter_map\(\|mut a\| \{\s*let was_empty = a\.is_empty\(\);\s*"
           r"compat_arg_mut\(&mut a\);\s*if a\.is_empty\(\) && !was_empty \{\s*None\s*\} else \{\s*Some\(a\)\s*\}\s*\}\)\s*\.collect\(\)\s*\}",
        "compat_args_vec body", re.S)
    L.append("Definition COMPAT_DROPS_IGNORED : bool := true.   (* compat_args_vec drops an argument blanked by the ignore rule *)")
    cmds = re.findall(r'Some\("(\w+)"\)', arm)
    L.append("(* " + " ".join(cmds) + " *)")
    L.append(f"Definition COMPAT_COMMANDS : list (list N) := {coq_str_list([x.encode() for x in cmds])}.")
    one(c, r'Some\("bigwigmerge"\) => \{', "compat_args bigwigmerge arm")
    L.append(f"Definition COMPAT_MERGE_COMMAND : list N := {coq_bytes(b'bigwigmerge')}.")
    one(c, r'\.map\(\|f\| f\.to_string_lossy\(\)\.to_lowercase\(\)\.ends_with\("bigtools"\)\)', "multicall test")
    L.append(f"Definition COMPAT_MULTICALL : list N := {coq_bytes(b'bigtools')}.")
    # native flags of the tools the rewriting is applied to
    tools = [("bigtools/src/utils/cli.rs", "BBIWriteArgs"),
             ("bigtools/src/utils/cli/bedgraphtobigwig.rs", "BedGraphToBigWigArgs"),
             ("bigtools/src/utils/cli/bedtobigbed.rs", "BedToBigBedArgs"),
             ("bigtools/src/utils/cli/bigwigtobedgraph.rs", "BigWigToBedGraphArgs"),
             ("bigtools/src/utils/cli/bigbedtobed.rs", "BigBedToBedArgs"),
             ("bigtools/src/utils/cli/bigwiginfo.rs", "BigWigInfoArgs"),
             ("bigtools/src/utils/cli/bigwigaverageoverbed.rs", "BigWigAverageOverBedArgs")]
    longs, shorts = [b"--help", b"--version"], [b"-h", b"-V"]
    for rel, st in tools:
        l, s = clap_flags(src(rel), st, rel)
        longs += [x for x in l if x not in longs]; shorts += [x for x in s if x not in shorts]
    if len(longs) < 10 or len(shorts) < 5: die("native flags: suspiciously few flags found")
    L.append("(* " + " ".join(x.decode() for x in longs) + " *)")
    L.append(f"Definition NATIVE_LONG_FLAGS : list (list N) := {coq_str_list(longs)}.")
    L.append("(* " + " ".join(x.decode() for x in shorts) + " *)")
    L.append(f"Definition NATIVE_SHORT_FLAGS : list (list N) := {coq_str_list(shorts)}.")
    # what the converters copy into the writer options (C16 notes: --items-per-slot is parsed but not plumbed)
    for rel, nm in [("bigtools/src/utils/cli/bedgraphtobigwig.rs", "BEDGRAPHTOBIGWIG"), ("bigtools/src/utils/cli/bedtobigbed.rs", "BEDTOBIGBED")]:
        t = src(rel)
        for opt in ("block_size", "items_per_slot"):
            n = len(re.findall(r"outb\.options\.%s = args\.write_args\.%s;" % (opt, opt), t))
            if n > 1: die(f"{rel}: {opt} plumbed {n} times")
            L.append(f"Definition {nm}_PLUMBS_{opt.upper()} : bool := {'true' if n == 1 else 'false'}.")
    return L


def gen_merge_tool(src, one, num):
    """bigwigmerge.rs: the descriptor budget and the output-name suffixes / --output-type spellings (C15)."""
    t = src("bigtools/src/utils/cli/bigwigmerge.rs")
    lines = ["", "(* bigwigmerge.rs: descriptor budget and output-name recognition (C15) *)"]
    lines.append("Definition MERGE_MAX_FDS : N := %d." % num(one(t, r"const MAX_FDS: usize = (\d+);", "bigwigmerge MAX_FDS")))
    lines.append("Definition MERGE_PARALLEL_CHROMS : N := %d." % num(one(t, r"const PARALLEL_CHROMS: usize = (\d+);", "bigwigmerge PARALLEL_CHROMS")))
    # the shape of the budget formula is anchored as a whole: MAX_FDS - 1 - 1 - (1 + 1 + max_zooms + max_zooms) * PARALLEL_CHROMS
    one(t, r"let max_bw_fds: usize = MAX_FDS\s*- 1 /\*[^*]*\*/\s*- 1 /\*[^*]*\*/\s*- \(1 /\*[^*]*\*/ \+ 1\s*/\*[^*]*\*/ \+ max_zooms /\*[^*]*\*/ \+ max_zooms /\*[^*]*\*/\) \* PARALLEL_CHROMS;", "bigwigmerge max_bw_fds formula")
    sfx = [m for m in __import__("re").findall(r'to_lowercase\(\)\s*\.ends_with\("([^"]+)"\)', t)]
    if sorted(sfx) != sorted([".bw", ".bigwig", ".bedgraph"]):
        die("bigwigmerge output suffixes changed: %r" % (sfx,))
    for name, lit in (("MERGE_SUFFIX_BW", ".bw"), ("MERGE_SUFFIX_BIGWIG", ".bigwig"), ("MERGE_SUFFIX_BEDGRAPH", ".bedgraph")):
        lines.append("Definition %s : list N := %s." % (name, coq_bytes(lit.encode())))
    return lines

# Register further table generators here; each is independent of the others.
GENERATORS = [gen_autosql, gen_compat, gen_merge_tool]

def extra(src, one, num):
    lines = []
    for g in GENERATORS:
        lines += g(src, one, num)
    return lines
