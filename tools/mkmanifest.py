#!/usr/bin/env python3
"""Writes /verif/MANIFEST.json from the per-property plug-ins (tools/vlib/props) and tools/manifest_meta.json."""
import json, os, sys
V = os.path.abspath(os.path.join(os.path.dirname(__file__), ".."))
sys.path.insert(0, os.path.join(V, "tools"))
meta = json.load(open(os.path.join(V, "tools", "manifest_meta.json")))
props = [json.loads(l)["id"] for l in open(os.path.join(V, "properties.jsonl"))]
checks = []; na = []
for pid in props:
    mp = os.path.join(V, "tools", "meta", pid + ".json")
    m = json.load(open(mp)) if os.path.exists(mp) else None
    if not m:
        na.append({"property_id": pid, "reason": meta["not_applicable"].get(pid, "no check has been built for this property yet")})
        continue
    checks.append({
        "property_id": pid,
        "quick_cmd": f"bin/check {pid} --tier quick",
        "thorough_cmd": f"bin/check {pid} --tier thorough",
        "evidence_file": f"/verif/evidence/{pid}.json",
        "replay_cmd_template": f"bin/check {pid} --replay {{path}}",
        "engine": "coq-model+correspondence",
        "level_claimed": {"category": m.get("category", "proof"), "text": m["text"], "design_ref": m.get("design_ref", "DESIGN.md §6 " + pid)},
        "level_note": m["note"],
        "technique": m["technique"],
    })
man = {
    "version": 1,
    "setup_cmd": "bin/setup",
    "hooks": meta["hooks"],
    "engines": [{"name": "coq-model+correspondence", "path": "/verif/bin/check",
                 "serves_properties": [c["property_id"] for c in checks],
                 "kind_free_text": "Rocq/Coq 8.16 theorems about hand-written executable Gallina models (coq/theories), tied to /repo on every run by a differential correspondence check (Rust harness on the real code vs. the extracted model) plus a constants/tables translator (tools/gen_consts.py)"}],
    "checks": checks,
    "notes": meta.get("notes", ""),
    "not_applicable": na,
}
json.dump(man, open(os.path.join(V, "MANIFEST.json"), "w"), indent=1)
print(f"MANIFEST.json: {len(checks)} checks, {len(na)} not_applicable")
